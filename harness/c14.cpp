// C14 harness: the real cppcms::utf8::next / validate (private/utf_iterator.h, included from the
// working tree), booster::locale::utf::utf_traits<char>::decode, and the public
// cppcms::encoding::{valid,valid_utf8,validate_or_filter,is_ascii_compatible,to_utf8} of the
// ASan+UBSan build, behind the line protocol of lean/Cppcms/C14/Driver.lean.
#include "common.h"
#include "utf_iterator.h"
#include <booster/locale/utf.h>
#include <booster/locale/encoding_utf.h>
#include <cppcms/encoding.h>
#include <booster/locale.h>
#include <memory>
#include <vector>
#include <map>

typedef booster::locale::utf::utf_traits<char> btraits;

// An input iterator that refuses to be dereferenced at or past the end.  GCC 12 at -O1/-O2 with
// -fsanitize=address,undefined was observed to drop the ASan check for a one-byte over-read inside the
// inlined decoder templates (it reports it at -O0), so over-reads are detected here, deterministically.
struct overread : public std::exception { char const *what() const throw() { return "iterator dereferenced at or past the end"; } };
struct checked_it {
	char const *p,*e;
	checked_it(char const *p_,char const *e_):p(p_),e(e_){}
	char operator*() const { if(p>=e) throw overread(); return *p; }
	checked_it &operator++(){ ++p; return *this; }
	checked_it operator++(int){ checked_it t(*this); ++p; return t; }
	bool operator==(checked_it const &o) const { return p==o.p; }
	bool operator!=(checked_it const &o) const { return p!=o.p; }
};

// one decoder step on an exactly sized heap copy (ASan red zone right behind it), once through plain
// `char const*` (what the library instantiates) and once through the checked iterator; both must agree.
// Returns value (0xFFFFFFFF illegal, 0xFFFFFFFE incomplete) and number of bytes consumed.
struct iterator_mismatch : public std::exception { char const *what() const throw() { return "char const* and checked iterator instantiations disagree"; } };
static inline void dec_step(int which,char const *b,size_t n,uint32_t &val,size_t &cons)
{
	char const *p=b, *e=b+n;
	checked_it cp(b,e),ce(e,e);
	uint32_t v2;
	if(which==0) { v2=cppcms::utf8::next(cp,ce,false); val=cppcms::utf8::next(p,e,false); }
	else if(which==1) { v2=cppcms::utf8::next(cp,ce,true); val=cppcms::utf8::next(p,e,true); }
	else { v2=btraits::decode(cp,ce); val=btraits::decode(p,e); }
	cons=p-b;
	if(v2!=val || cp.p!=p) throw iterator_mismatch();
}
static int which_of(std::string const &w) { return w=="c0"?0:w=="c1"?1:w=="b"?2:-1; }

static std::string step_str(int which,char const *b,size_t n)
{
	uint32_t v; size_t c;
	dec_step(which,b,n,v,c);
	std::string r = v==0xFFFFFFFFu ? "ill" : v==0xFFFFFFFEu ? "inc" : std::to_string(v);
	return r+" "+std::to_string(c);
}
static inline uint64_t mix(uint64_t h,uint64_t x){ return (h^x)*1099511628211ULL; }

struct heapbuf {
	std::unique_ptr<char[]> p; size_t n;
	explicit heapbuf(std::string const &s):p(new char[s.size()?s.size():1]),n(s.size()){ memcpy(p.get(),s.data(),s.size()); }
	heapbuf(std::string const &s,size_t extra):p(new char[s.size()+extra]),n(s.size()+extra){ memcpy(p.get(),s.data(),s.size()); }
};

static std::string run(std::vector<std::string> const &w)
{
	using namespace cppcms;
	if(w.size()==3 && w[0]=="d") {
		std::string a; int wh=which_of(w[1]);
		if(wh<0 || !vh::unhex(w[2],a)) return "bad-op";
		heapbuf hb(a);
		return step_str(wh,hb.p.get(),a.size());
	}
	if(w.size()==3 && (w[0]=="blk1" || w[0]=="blk2" || w[0]=="full2")) {
		std::string a; int wh=which_of(w[1]);
		if(wh<0 || !vh::unhex(w[2],a)) return "bad-op";
		size_t k = w[0]=="blk1" ? 1 : 2;
		heapbuf hb(a,k);
		char *q=hb.p.get()+a.size();
		// h1: every (value, consumed); h2: accepted results only, every rejection counts the same
		uint64_t h1=14695981039346656037ULL,h2=h1;
		std::string full;
		if(k==1) {
			for(unsigned i=0;i<256;i++) {
				q[0]=char(i);
				uint32_t v; size_t c; dec_step(wh,hb.p.get(),hb.n,v,c);
				uint64_t x=uint64_t(v)*8+c;
				h1=mix(h1,x); h2=mix(h2,v>=0xFFFFFFFEu ? uint64_t(0xFFFFFFFFu)*8 : x);
			}
			return std::to_string(h1)+" "+std::to_string(h2);
		}
		for(unsigned i=0;i<65536;i++) {
			q[0]=char(i>>8); q[1]=char(i&255);
			if(w[0]=="full2") { if(i) full+=","; full+=step_str(wh,hb.p.get(),hb.n); }
			else {
				uint32_t v; size_t c; dec_step(wh,hb.p.get(),hb.n,v,c);
				uint64_t x=uint64_t(v)*8+c;
				h1=mix(h1,x); h2=mix(h2,v>=0xFFFFFFFEu ? uint64_t(0xFFFFFFFFu)*8 : x);
			}
		}
		return w[0]=="full2" ? full : std::to_string(h1)+" "+std::to_string(h2);
	}
	if(w.size()==3 && (w[0]=="u2u" || w[0]=="u2w")) {
		// booster::locale::conv::utf_to_utf (header template, compiled from the working tree) on an exactly sized heap copy
		namespace conv=booster::locale::conv;
		std::string a; if(!vh::unhex(w[2],a)) return "bad-op";
		conv::method_type how=conv::method_type(atoi(w[1].c_str()));
		heapbuf hb(a);
		char const *b=hb.p.get();
		if(w[0]=="u2u") {
			std::string r1,r2; bool t1=false,t2=false;
			try { r1=conv::utf_to_utf<char>(b,b+a.size(),how); } catch(conv::conversion_error const &) { t1=true; }
			try { r2=conv::utf_to_utf<char>(a,how); } catch(conv::conversion_error const &) { t2=true; }
			if(t1!=t2 || r1!=r2) return "overload-mismatch";
			return t1 ? std::string("throw") : vh::hex(r1);
		}
		std::wstring r;
		try { r=conv::utf_to_utf<wchar_t>(b,b+a.size(),how); } catch(conv::conversion_error const &) { return "throw"; }
		if(r.empty()) return "-";
		std::string o;
		for(size_t i=0;i<r.size();i++) { if(i) o+=","; o+=std::to_string((unsigned long long)(uint32_t)r[i]); }
		return o;
	}
	if(w.size()==3 && w[0]=="w2u") {
		namespace conv=booster::locale::conv;
		conv::method_type how=conv::method_type(atoi(w[1].c_str()));
		std::vector<wchar_t> in;
		if(w[2]!="-") {
			std::istringstream ss(w[2]); std::string t;
			while(std::getline(ss,t,',')) in.push_back(wchar_t(uint32_t(strtoull(t.c_str(),0,10))));
		}
		std::unique_ptr<wchar_t[]> buf(new wchar_t[in.size()?in.size():1]);
		for(size_t i=0;i<in.size();i++) buf[i]=in[i];
		std::string r;
		try { r=conv::utf_to_utf<char>(buf.get(),buf.get()+in.size(),how); } catch(conv::conversion_error const &) { return "throw"; }
		return vh::hex(r);
	}
	if(w.size()==3 && w[0]=="v") {
		std::string a; if(!vh::unhex(w[2],a)) return "bad-op";
		bool html = w[1]=="1";
		heapbuf hb(a);
		char const *b=hb.p.get();
		size_t count=0;
		bool r1=utf8::validate(b,b+a.size(),count,html);
		bool r2=utf8::validate(b,b+a.size(),html);
		size_t count3=0;
		bool r3=utf8::validate(checked_it(b,b+a.size()),checked_it(b+a.size(),b+a.size()),count3,html);
		if(r1!=r2 || r1!=r3 || count!=count3) return "overload-mismatch";
		return std::string(r1?"1 ":"0 ")+std::to_string(count);
	}
	if(w.size()==2 && w[0]=="vu") {
		std::string a; if(!vh::unhex(w[1],a)) return "bad-op";
		heapbuf hb(a);
		char const *b=hb.p.get();
		size_t count=0;
		bool r=encoding::valid_utf8(b,b+a.size(),count);
		return std::string(r?"1 ":"0 ")+std::to_string(count);
	}
	if(w.size()==3 && w[0]=="valid") {
		std::string name,a; if(!vh::unhex(w[1],name) || !vh::unhex(w[2],a)) return "bad-op";
		if(!encoding::is_ascii_compatible(name)) return "ext";    // would go through iconv/ICU: not modelled
		heapbuf hb(a);
		char const *b=hb.p.get();
		size_t c1=0,c2=0;
		bool r1=encoding::valid(name,b,b+a.size(),c1);
		bool r2=encoding::valid(name.c_str(),b,b+a.size(),c2);
		// the char const* overload sees the name up to the first NUL, as does the comparator
		if(r1!=r2 || c1!=c2) return "overload-mismatch";
		return std::string(r1?"1 ":"0 ")+std::to_string(c1);
	}
	if(w.size()==3 && w[0]=="vloc") {
		// the overload form.cpp uses: the encoding name comes from the locale's info facet
		std::string name,a; if(!vh::unhex(w[1],name) || !vh::unhex(w[2],a)) return "bad-op";
		static booster::locale::generator gen;
		static std::map<std::string,std::locale> cache;
		static std::map<std::string,bool> unsupported;
		if(unsupported.count(name)) return "nolocale";
		std::map<std::string,std::locale>::iterator it=cache.find(name);
		if(it==cache.end()) {
			// the generator (ICU / std backend) may not know the charset at all: then no validator runs
			try { it=cache.insert(std::make_pair(name,gen("en_US."+name))).first; }
			catch(std::exception const &) { unsupported[name]=true; return "nolocale"; }
		}
		std::string enc=std::use_facet<booster::locale::info>(it->second).encoding();
		if(!encoding::is_ascii_compatible(enc)) return "ext";
		heapbuf hb(a);
		char const *b=hb.p.get();
		size_t c=0;
		bool r=encoding::valid(it->second,b,b+a.size(),c);
		return std::string(r?"1 ":"0 ")+std::to_string(c);
	}
	if(w.size()==4 && w[0]=="filt") {
		std::string name,rp,a; if(!vh::unhex(w[1],name) || !vh::unhex(w[2],rp) || rp.size()!=1 || !vh::unhex(w[3],a)) return "bad-op";
		bool utf8name=false;
		try { utf8name = encoding::to_utf8(name.c_str(),std::string("\xe9"))=="\xe9"; } catch(std::exception const &) {}
		if(!utf8name && !encoding::is_ascii_compatible(name)) return "ext";
		heapbuf hb(a);
		char const *b=hb.p.get();
		std::string o1("\xff" "S1"),o2("\xfe" "S2");
		bool r1=encoding::validate_or_filter(name,b,b+a.size(),o1,rp[0]);
		bool r2=encoding::validate_or_filter(name,b,b+a.size(),o2,rp[0]);
		if(r1!=r2) return "nondeterministic";
		bool same = o1=="\xff" "S1" && o2=="\xfe" "S2";
		if(!same && o1!=o2) return "nondeterministic";
		return std::string(r1?"1 ":"0 ")+(same?std::string("same"):vh::hex(o1));
	}
	if(w.size()==2 && w[0]=="sb256") {
		std::string name; if(!vh::unhex(w[1],name)) return "bad-op";
		std::string r;
		bool known=encoding::is_ascii_compatible(name);
		for(unsigned i=0;i<256;i++) {
			std::unique_ptr<char[]> one(new char[1]); one[0]=char(i);
			size_t c=0;
			r.push_back(known && encoding::valid(name,one.get(),one.get()+1,c) ? '1':'0');
		}
		return r;
	}
	if(w.size()==3 && w[0]=="sbpair") {
		std::string name,a; if(!vh::unhex(w[1],name) || !vh::unhex(w[2],a) || a.size()!=1) return "bad-op";
		if(!encoding::is_ascii_compatible(name)) { return std::string(256,'x'); }
		std::string r;
		std::unique_ptr<char[]> two(new char[2]); two[0]=a[0];
		for(unsigned i=0;i<256;i++) {
			two[1]=char(i);
			size_t c=0;
			bool v=encoding::valid(name,two.get(),two.get()+2,c);
			r+=v?"1":"0"; r+=std::to_string(c);
		}
		return r;
	}
	if(w.size()==2 && w[0]=="known") {
		std::string name; if(!vh::unhex(w[1],name)) return "bad-op";
		bool utf8name=false;
		try { utf8name = encoding::to_utf8(name.c_str(),std::string("\xe9"))=="\xe9"; } catch(std::exception const &) {}
		return std::string(encoding::is_ascii_compatible(name)?"1 ":"0 ")+(utf8name?"1":"0");
	}
	return "bad-op";
}

int main() { return vh::drive(run); }
