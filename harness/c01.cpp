// C01/C02 harness: plays byte strings against real cppcms services (see c01_service.h).
// Line protocol (one output line per input line):
//   setprobe <api> <mode> <seg hex>...   define the well-formed probe request of a front-end -> "ok"
//   probe <api>                          run the probe, remember its reply as the reference -> "reply=<hex>"
//   case <api> <mode> <seg hex>...       play the segments (mode hc|rst|rst:<usec>|wt), then the probe on a fresh connection
//        api: http | scgi | fastcgi | fwd (SCGI service with forwarding.rules: /fwd -> in-process SCGI backend, /dead -> closed port)
//        -> reply=<hex> reads=<a,b,..|-> calls=<pre>,<ready>,<on_error>,<on_eoc> flags=<T|C|W|N|-> miss=<n>
//           probe=<ok|bad|none|dead> pcalls=<ready calls caused by the probe> exc=<hex of what()|->
//   quit
#include "c01_service.h"
#include <thread>

static c01::farm g_farm;
struct probe_def { std::vector<std::string> segs; std::string mode; std::string ref; bool has_ref; };
static std::map<std::string,probe_def> g_probe;

static bool parse_segs(std::vector<std::string> const &w,size_t from,std::vector<std::string> &segs)
{
	for(size_t i=from;i<w.size();i++) { std::string b; if(!vh::unhex(w[i],b)) return false; segs.push_back(b); }
	return true;
}
static std::string reads_str(std::vector<int> const &r)
{
	if(r.empty()) return "-";
	std::string s; for(size_t i=0;i<r.size();i++) { if(i) s+=','; s+=std::to_string(r[i]); } return s;
}

// watchdog: a line of the protocol (a case incl. its probe, a service restart, the final shutdown) that takes longer than
// g_hang_s seconds means the real service hangs (spinning or blocked event loop / worker: join() would wait forever).
// The harness reports it on stderr and exits; the driver attributes it to the case that was being played.
static std::atomic<long long> g_busy_since_ms(0);
static int g_hang_s = 75;
static void watchdog()
{
	for(;;) {
		usleep(200000);
		long long b=g_busy_since_ms;
		if(b && (long long)(c01::now_s()*1000) - b > 1000LL*g_hang_s) {
			fputs("HANG: the service stopped answering (harness watchdog): a case, its probe or the shutdown of the service did not finish\n",stderr);
			fflush(stderr);
			_exit(97);
		}
	}
}
struct busy_guard { busy_guard(){ g_busy_since_ms=(long long)(c01::now_s()*1000); } ~busy_guard(){ g_busy_since_ms=0; } };

static std::string run_line(std::vector<std::string> const &w);
static std::string run(std::vector<std::string> const &w)
{
	busy_guard g;
	return run_line(w);
}
static std::string run_line(std::vector<std::string> const &w)
{
	using namespace c01;
	if(w.size()>=3 && w[0]=="setprobe") {
		probe_def d; d.mode=w[2]; d.has_ref=false;
		if(!parse_segs(w,3,d.segs)) return "bad-op";
		g_probe[w[1]]=d;
		return "ok";
	}
	if(w.size()==2 && w[0]=="probe") {
		if(!g_probe.count(w[1])) return "bad-op";
		probe_def &d=g_probe[w[1]];
		outcome o;
		for(int attempt=0;attempt<5;attempt++) {
			server &s=g_farm.get(w[1]);
			o=play(s,d.segs,d.mode);
			if(!o.reply.empty() && !o.connect_failed && !o.timeout) break;
			s.restart=true; // could not talk to it: rebuild
		}
		d.ref=o.reply; d.has_ref=!o.reply.empty();
		return "reply="+vh::hex(o.reply)+" flags="+flags(o);
	}
	if(w.size()>=3 && w[0]=="case") {
		std::vector<std::string> segs;
		if(!parse_segs(w,3,segs)) return "bad-op";
		if(w[2]!="hc" && w[2].compare(0,3,"rst")!=0 && w[2]!="wt") return "bad-op";
		server *s=&g_farm.get(w[1]);
		int pre0=g_stats.main_pre, rdy0=g_stats.main_ready, err0=g_stats.on_error, eoc0=g_stats.on_eoc;
		outcome o=play(*s,segs,w[2]);
		std::string exc="-";
		bool died=s->dead;
		if(died) { std::lock_guard<std::mutex> g(s->mx); exc=vh::hex(s->exc); }
		int pre1=g_stats.main_pre, rdy1=g_stats.main_ready, err1=g_stats.on_error, eoc1=g_stats.on_eoc;
		std::string pr="none"; int pcalls=0;
		if(g_probe.count(w[1]) && g_probe[w[1]].has_ref) {
			probe_def &d=g_probe[w[1]];
			if(died) {
				// rebuild; the verdict for this case is already "dead".  The new service listens elsewhere:
				// take a fresh reference answer for the probes that follow.
				pr="dead"; s=&g_farm.get(w[1]);
				outcome po=play(*s,d.segs,d.mode);
				if(!po.reply.empty()) d.ref=po.reply;
			}
			else {
				outcome po=play(*s,d.segs,d.mode);
				pr = (po.reply==d.ref && !po.timeout) ? "ok" : "bad";
				if(s->dead) {
					pr="dead"; { std::lock_guard<std::mutex> g(s->mx); exc=vh::hex(s->exc); }
					s=&g_farm.get(w[1]);
					outcome po2=play(*s,d.segs,d.mode);
					if(!po2.reply.empty()) d.ref=po2.reply;
				}
			}
		}
		// late effects of the case (a second completion, a worker still running) are attributed to the case
		int pre2=g_stats.main_pre, rdy2=g_stats.main_ready, err2=g_stats.on_error, eoc2=g_stats.on_eoc;
		pcalls=rdy2-rdy1;
		(void)pre1; (void)err1; (void)eoc1;
		std::ostringstream ss;
		ss<<"reply="<<vh::hex(o.reply)<<" reads="<<reads_str(o.reads)
		  <<" calls="<<(pre2-pre0)<<","<<(rdy1-rdy0)<<","<<(err2-err0)<<","<<(eoc2-eoc0)
		  <<" flags="<<flags(o)<<" miss="<<o.barrier_miss<<" probe="<<pr<<" pcalls="<<pcalls<<" exc="<<exc;
		return ss.str();
	}
	if(w.size()==1 && w[0]=="quit") { g_farm.stop_all(); return "bye"; }
	return "bad-op";
}

int main(int argc,char **argv)
{
	for(int i=1;i+1<argc;i+=2) {
		if(std::string(argv[i])=="--barrier-ms") c01::g_barrier_ms=atoi(argv[i+1]);
		if(std::string(argv[i])=="--final-ms") c01::g_final_ms=atoi(argv[i+1]);
		if(std::string(argv[i])=="--hang-s") g_hang_s=atoi(argv[i+1]);
	}
	std::thread(watchdog).detach();
	int r=vh::drive(run);
	{ busy_guard g; g_farm.stop_all(); }
	_exit(r);
}
