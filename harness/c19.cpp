// C19 harness: cppcms::archive + archive_traits<T> / serialization_traits<T> on concrete
// instantiations of the model's type universe.  One output line per input line.
//
//   save  <ty> <value tokens>   -> hex of the archive written by archive_traits<T>::save
//   load  <ty> <hex>            -> "ok <value tokens> @<ptr_>" | "err <kind>"
//   rt    <ty> <value tokens>   -> save, mode(load_from_archive), load : "ok <value tokens> eof=<0|1>"
//   ssave/sload/srt <ty> ...    -> the same through serialization_traits<T> (only serializable classes, B.* / X.*)
//   ops   <hex> <op>...         -> raw archive primitives: n (next_chunk_size) r<len> (read_chunk) s (read_chunk_as_string) e (eof)
//                                  z (reset) m (mode(load_from_archive))
//   load2 <ty> <hex1> <hex2>    -> one archive object: str(hex1), load (outcome ignored), str(hex2), load -> as `load`
//   crt / zrt <ty> <value>      -> cache_interface / session_interface store_data then fetch_data (serializable classes): "ok <value tokens>"
//   zsv <ty> <value>            -> session store_data, save(), next request: load(), fetch_data: "ok <value>" | "toolong" (save_data limit)
//   zow<m> <ty> <A> <B>         -> session: store_data(k,A), save(); next request store_data(k,B), save(); next request fetch_data -> "ok <B>"
//                                  (m = 0 client cookies/fixed, 1 server memory/renew, 2 server memory/browser)
//   cpo <ty> <value>            -> process_shared cache of 512 KB: store_data(k,v), store_data(k,~1 MB object), fetch_data(k) -> "miss" | "hit ..."
//   cmp <ty> <value> <value>    -> "1" / "0": operator< of the C++ type (key types only)
//   wr    <hex> <hex>...        -> write_chunk of each word; hex of the archive
//   load+ rt+ sload+ srt+       -> the same, but the object loaded into is pre-populated with junk (load must replace it)
//
// Compiled with -fno-access-control so that the harness can see archive::buffer_ / ptr_:
// the slack of the buffer's std::string storage (capacity - size, and the terminating NUL) is
// poisoned for ASan while the real code loads, so that an over-read of a single byte is reported.
//
// Type words (prefix notation, '.'-separated):  p1 p2 p4 p8 (unsigned), i4 (int), d8 (double), s (std::string),
// v1 v2 v4 v8 (std::vector<POD>), L.T (std::vector<T>, T not POD), Q.T (std::list<T>), S.T (std::set<T>),
// M.K.V (std::map), P.A.B (std::pair), R.T (booster::shared_ptr), U.T (std::unique_ptr), C.T (booster::copy_ptr),
// j (cppcms::json::value, value token j<hex of compact text> or ju = undefined), H.T (booster::hold_ptr), K.T (booster::clone_ptr of a
// clonable serializable class holding T), I.T (booster::intrusive_ptr of a reference counted serializable class holding T),
// T.A.B (serializable class `int kind; A a; B b;` that serializes a only if kind==1 and b only if kind==2; value tokens: kind, a, b),
// B.T (serializable class with one member), X.A.B (serializable class with two members),
// W.T (std::multiset), N.K.V (std::multimap), A<n>.T (T[n], T not arithmetic), p<bytes> also names arithmetic arrays.
// Value tokens: x<hex> (POD / POD vector bytes), s<hex>, n<count> then the elements, 0 | 1 <value> for pointers.
#include <cppcms/serialization.h>
#include <cppcms/service.h>
#include <cppcms/cache_interface.h>
#include <cppcms/session_interface.h>
#include <cppcms/session_pool.h>
#include <cppcms/http_cookie.h>
#include <cppcms/cppcms_error.h>
#include <cppcms/json.h>
#include <booster/refcounted.h>
#include <sanitizer/asan_interface.h>
#include <map>
#include <set>
#include <list>
#include <vector>
#include <memory>
#include <type_traits>
#include "common.h"

using cppcms::archive;

static std::string hx(void const *p,size_t n)
{
	return n==0 ? std::string() : vh::hex(p,n);
}

struct Tok {
	std::vector<std::string> const &w;
	size_t i;
	std::string next()
	{
		if(i>=w.size()) throw std::runtime_error("bad-op");
		return w[i++];
	}
	std::string bytes(char tag)
	{
		std::string t=next(),out;
		if(t.empty() || t[0]!=tag) throw std::runtime_error("bad-op");
		if(t.size()==1) return out;
		if(!vh::unhex(t.substr(1),out)) throw std::runtime_error("bad-op");
		return out;
	}
	size_t count()
	{
		std::string t=next();
		if(t.size()<2 || t[0]!='n') throw std::runtime_error("bad-op");
		return strtoull(t.c_str()+1,0,10);
	}
};

// ---- serializable user classes
template<typename T>
struct box : public cppcms::serializable {
	T v;
	box() : v() {}
	void serialize(archive &a) { a & v; }
};
template<typename A,typename B>
struct rec2 : public cppcms::serializable {
	A a; B b;
	rec2() : a(), b() {}
	void serialize(archive &ar) { ar & a & b; }
};

// serializable class with clone() (for booster::clone_ptr) and a reference counted one (booster::intrusive_ptr)
template<typename T>
struct cbox : public cppcms::serializable {
	T v;
	cbox() : v() {}
	cbox *clone() const { return new cbox(*this); }
	void serialize(archive &a) { a & v; }
};
template<typename T>
struct ibox : public cppcms::serializable, public booster::refcounted {
	T v;
	ibox() : v() {}
	void serialize(archive &a) { a & v; }
};

// user class with optional members: the kind says which member follows in the archive (a tagged record)
template<typename A,typename B>
struct trec : public cppcms::serializable {
	int kind; A a; B b;
	trec() : kind(0), a(), b() {}
	void serialize(archive &ar)
	{
		ar & kind;
		if(kind==1) ar & a;
		else if(kind==2) ar & b;
	}
};

// ---- type names
template<typename T,typename E=void> struct TN;
template<> struct TN<unsigned char> { static std::string name() { return "p1"; } };
template<> struct TN<unsigned short> { static std::string name() { return "p2"; } };
template<> struct TN<unsigned int> { static std::string name() { return "p4"; } };
template<> struct TN<unsigned long long> { static std::string name() { return "p8"; } };
template<> struct TN<int> { static std::string name() { return "i4"; } };
template<> struct TN<double> { static std::string name() { return "d8"; } };
template<> struct TN<std::string> { static std::string name() { return "s"; } };
template<typename T> struct TN<std::vector<T>,typename std::enable_if<std::is_arithmetic<T>::value>::type> {
	static std::string name() { return "v" + std::to_string(sizeof(T)); } };
template<typename T> struct TN<std::vector<T>,typename std::enable_if<!std::is_arithmetic<T>::value>::type> {
	static std::string name() { return "L." + TN<T>::name(); } };
template<typename T> struct TN<std::list<T> > { static std::string name() { return "Q." + TN<T>::name(); } };
template<typename T> struct TN<std::set<T> > { static std::string name() { return "S." + TN<T>::name(); } };
template<typename K,typename V> struct TN<std::map<K,V> > { static std::string name() { return "M." + TN<K>::name() + "." + TN<V>::name(); } };
template<typename A,typename B> struct TN<std::pair<A,B> > { static std::string name() { return "P." + TN<A>::name() + "." + TN<B>::name(); } };
template<typename T> struct TN<booster::shared_ptr<T> > { static std::string name() { return "R." + TN<T>::name(); } };
template<typename T> struct TN<std::unique_ptr<T> > { static std::string name() { return "U." + TN<T>::name(); } };
template<typename T> struct TN<booster::copy_ptr<T> > { static std::string name() { return "C." + TN<T>::name(); } };
template<typename T> struct TN<std::multiset<T> > { static std::string name() { return "W." + TN<T>::name(); } };
template<typename K,typename V> struct TN<std::multimap<K,V> > { static std::string name() { return "N." + TN<K>::name() + "." + TN<V>::name(); } };
template<typename T,size_t N> struct TN<T[N],typename std::enable_if<std::is_arithmetic<T>::value>::type> {
	static std::string name() { return "p" + std::to_string(sizeof(T)*N); } };
template<typename T,size_t N> struct TN<T[N],typename std::enable_if<!std::is_arithmetic<T>::value>::type> {
	static std::string name() { return "A" + std::to_string(N) + "." + TN<T>::name(); } };
template<> struct TN<cppcms::json::value> { static std::string name() { return "j"; } };
template<typename T> struct TN<booster::hold_ptr<T> > { static std::string name() { return "H." + TN<T>::name(); } };
template<typename T> struct TN<booster::clone_ptr<cbox<T> > > { static std::string name() { return "K." + TN<T>::name(); } };
template<typename T> struct TN<booster::intrusive_ptr<ibox<T> > > { static std::string name() { return "I." + TN<T>::name(); } };
template<typename A,typename B> struct TN<trec<A,B> > { static std::string name() { return "T." + TN<A>::name() + "." + TN<B>::name(); } };
template<typename T> struct TN<box<T> > { static std::string name() { return "B." + TN<T>::name(); } };
template<typename A,typename B> struct TN<rec2<A,B> > { static std::string name() { return "X." + TN<A>::name() + "." + TN<B>::name(); } };

// ---- dump (canonical value tokens) and parse
template<typename T> typename std::enable_if<std::is_arithmetic<T>::value>::type dump(T const &v,std::string &o) { o+=" x"; o+=hx(&v,sizeof(v)); }
template<typename T> typename std::enable_if<std::is_arithmetic<T>::value>::type parse(Tok &t,T &v)
{
	std::string b=t.bytes('x');
	if(b.size()!=sizeof(T)) throw std::runtime_error("bad-op");
	memcpy(&v,b.data(),sizeof(T));
}
inline void dump(std::string const &v,std::string &o) { o+=" s"; o+=hx(v.data(),v.size()); }
inline void parse(Tok &t,std::string &v) { v=t.bytes('s'); }

template<typename T> typename std::enable_if<std::is_arithmetic<T>::value>::type dump(std::vector<T> const &v,std::string &o)
{
	o+=" x"; if(!v.empty()) o+=hx(&v[0],v.size()*sizeof(T));
}
template<typename T> typename std::enable_if<std::is_arithmetic<T>::value>::type parse(Tok &t,std::vector<T> &v)
{
	std::string b=t.bytes('x');
	if(b.size()%sizeof(T)) throw std::runtime_error("bad-op");
	v.resize(b.size()/sizeof(T));
	if(!v.empty()) memcpy(&v[0],b.data(),b.size());
}
// forward declarations (mutual recursion through containers)
template<typename T> typename std::enable_if<!std::is_arithmetic<T>::value>::type dump(std::vector<T> const &v,std::string &o);
template<typename T> typename std::enable_if<!std::is_arithmetic<T>::value>::type parse(Tok &t,std::vector<T> &v);
template<typename T> void dump(std::list<T> const &v,std::string &o);
template<typename T> void parse(Tok &t,std::list<T> &v);
template<typename T> void dump(std::set<T> const &v,std::string &o);
template<typename T> void parse(Tok &t,std::set<T> &v);
template<typename K,typename V> void dump(std::map<K,V> const &v,std::string &o);
template<typename K,typename V> void parse(Tok &t,std::map<K,V> &v);
template<typename A,typename B> void dump(std::pair<A,B> const &v,std::string &o);
template<typename A,typename B> void parse(Tok &t,std::pair<A,B> &v);
template<typename T> void dump(booster::shared_ptr<T> const &v,std::string &o);
template<typename T> void parse(Tok &t,booster::shared_ptr<T> &v);
template<typename T> void dump(std::unique_ptr<T> const &v,std::string &o);
template<typename T> void parse(Tok &t,std::unique_ptr<T> &v);
template<typename T> void dump(booster::copy_ptr<T> const &v,std::string &o);
template<typename T> void parse(Tok &t,booster::copy_ptr<T> &v);
template<typename T> void dump(std::multiset<T> const &v,std::string &o);
template<typename T> void parse(Tok &t,std::multiset<T> &v);
template<typename K,typename V> void dump(std::multimap<K,V> const &v,std::string &o);
template<typename K,typename V> void parse(Tok &t,std::multimap<K,V> &v);
template<typename T,size_t N> typename std::enable_if<std::is_arithmetic<T>::value>::type dump(T const (&v)[N],std::string &o);
template<typename T,size_t N> typename std::enable_if<std::is_arithmetic<T>::value>::type parse(Tok &t,T (&v)[N]);
template<typename T,size_t N> typename std::enable_if<!std::is_arithmetic<T>::value>::type dump(T const (&v)[N],std::string &o);
template<typename T,size_t N> typename std::enable_if<!std::is_arithmetic<T>::value>::type parse(Tok &t,T (&v)[N]);
void dump(cppcms::json::value const &v,std::string &o);
void parse(Tok &t,cppcms::json::value &v);
template<typename T> void dump(booster::hold_ptr<T> const &v,std::string &o);
template<typename T> void parse(Tok &t,booster::hold_ptr<T> &v);
template<typename T> void dump(booster::clone_ptr<cbox<T> > const &v,std::string &o);
template<typename T> void parse(Tok &t,booster::clone_ptr<cbox<T> > &v);
template<typename T> void dump(booster::intrusive_ptr<ibox<T> > const &v,std::string &o);
template<typename T> void parse(Tok &t,booster::intrusive_ptr<ibox<T> > &v);
template<typename T> void dump(cbox<T> const &v,std::string &o);
template<typename T> void parse(Tok &t,cbox<T> &v);
template<typename T> void dump(ibox<T> const &v,std::string &o);
template<typename T> void parse(Tok &t,ibox<T> &v);
template<typename A,typename B> void dump(trec<A,B> const &v,std::string &o);
template<typename A,typename B> void parse(Tok &t,trec<A,B> &v);
template<typename T> void dump(box<T> const &v,std::string &o);
template<typename T> void parse(Tok &t,box<T> &v);
template<typename A,typename B> void dump(rec2<A,B> const &v,std::string &o);
template<typename A,typename B> void parse(Tok &t,rec2<A,B> &v);

template<typename C> void dump_seq(C const &v,std::string &o)
{
	o+=" n"; o+=std::to_string(v.size());
	for(typename C::const_iterator p=v.begin();p!=v.end();++p) dump(*p,o);
}
template<typename T> typename std::enable_if<!std::is_arithmetic<T>::value>::type dump(std::vector<T> const &v,std::string &o) { dump_seq(v,o); }
template<typename T> void dump(std::list<T> const &v,std::string &o) { dump_seq(v,o); }
template<typename T> void dump(std::set<T> const &v,std::string &o) { dump_seq(v,o); }
template<typename K,typename V> void dump(std::map<K,V> const &v,std::string &o) { dump_seq(v,o); }
template<typename T> typename std::enable_if<!std::is_arithmetic<T>::value>::type parse(Tok &t,std::vector<T> &v)
{
	size_t n=t.count(); v.clear();
	for(size_t i=0;i<n;i++) { T x=T(); parse(t,x); v.push_back(x); }
}
template<typename T> void parse(Tok &t,std::list<T> &v)
{
	size_t n=t.count(); v.clear();
	for(size_t i=0;i<n;i++) { T x=T(); parse(t,x); v.push_back(x); }
}
template<typename T> void parse(Tok &t,std::set<T> &v)
{
	size_t n=t.count(); v.clear();
	for(size_t i=0;i<n;i++) { T x=T(); parse(t,x); v.insert(x); }
}
template<typename K,typename V> void parse(Tok &t,std::map<K,V> &v)
{
	size_t n=t.count(); v.clear();
	for(size_t i=0;i<n;i++) { std::pair<K,V> x; parse(t,x); v.insert(x); }
}
template<typename T> void dump(std::multiset<T> const &v,std::string &o) { dump_seq(v,o); }
template<typename K,typename V> void dump(std::multimap<K,V> const &v,std::string &o) { dump_seq(v,o); }
template<typename T> void parse(Tok &t,std::multiset<T> &v)
{
	size_t n=t.count(); v.clear();
	for(size_t i=0;i<n;i++) { T x=T(); parse(t,x); v.insert(x); }
}
template<typename K,typename V> void parse(Tok &t,std::multimap<K,V> &v)
{
	size_t n=t.count(); v.clear();
	for(size_t i=0;i<n;i++) { std::pair<K,V> x; parse(t,x); v.insert(x); }
}
template<typename T,size_t N> typename std::enable_if<std::is_arithmetic<T>::value>::type dump(T const (&v)[N],std::string &o) { o+=" x"; o+=hx(&v[0],sizeof(T)*N); }
template<typename T,size_t N> typename std::enable_if<std::is_arithmetic<T>::value>::type parse(Tok &t,T (&v)[N])
{
	std::string b=t.bytes('x');
	if(b.size()!=sizeof(T)*N) throw std::runtime_error("bad-op");
	memcpy(&v[0],b.data(),b.size());
}
template<typename T,size_t N> typename std::enable_if<!std::is_arithmetic<T>::value>::type dump(T const (&v)[N],std::string &o) { for(size_t i=0;i<N;i++) dump(v[i],o); }
template<typename T,size_t N> typename std::enable_if<!std::is_arithmetic<T>::value>::type parse(Tok &t,T (&v)[N]) { for(size_t i=0;i<N;i++) parse(t,v[i]); }
template<typename A,typename B> void dump(std::pair<A,B> const &v,std::string &o) { dump(v.first,o); dump(v.second,o); }
template<typename A,typename B> void parse(Tok &t,std::pair<A,B> &v)
{
	typename std::remove_const<A>::type a=typename std::remove_const<A>::type(); parse(t,a); B b=B(); parse(t,b);
	const_cast<typename std::remove_const<A>::type &>(v.first)=a; v.second=b;
}
template<typename P> void dump_ptr(P const &v,std::string &o) { if(!v.get()) o+=" 0"; else { o+=" 1"; dump(*v,o); } }
template<typename P,typename T> void parse_ptr(Tok &t,P &v)
{
	std::string w=t.next();
	if(w=="0") v.reset();
	else if(w=="1") { v.reset(new T()); parse(t,*v); }
	else throw std::runtime_error("bad-op");
}
template<typename T> void dump(booster::shared_ptr<T> const &v,std::string &o) { dump_ptr(v,o); }
template<typename T> void parse(Tok &t,booster::shared_ptr<T> &v) { parse_ptr<booster::shared_ptr<T>,T>(t,v); }
template<typename T> void dump(std::unique_ptr<T> const &v,std::string &o) { dump_ptr(v,o); }
template<typename T> void parse(Tok &t,std::unique_ptr<T> &v) { parse_ptr<std::unique_ptr<T>,T>(t,v); }
template<typename T> void dump(booster::copy_ptr<T> const &v,std::string &o) { dump_ptr(v,o); }
template<typename T> void parse(Tok &t,booster::copy_ptr<T> &v) { parse_ptr<booster::copy_ptr<T>,T>(t,v); }
static void jstr(std::string const &x,std::string &s)
{
	static char const hexd[]="0123456789abcdef";
	s+='"';
	for(size_t i=0;i<x.size();i++) {
		unsigned char c=x[i];
		switch(c) {
		case '"': s+="\\\""; break;
		case '\\': s+="\\\\"; break;
		case 8: s+="\\b"; break;
		case 12: s+="\\f"; break;
		case 10: s+="\\n"; break;
		case 13: s+="\\r"; break;
		case 9: s+="\\t"; break;
		default:
			if(c<0x20) { s+="\\u00"; s+=hexd[c>>4]; s+=hexd[c&15]; }
			else s+=char(c);
		}
	}
	s+='"';
}
static bool jtext(cppcms::json::value const &v,std::string &s)
{
	using namespace cppcms::json;
	switch(v.type()) {
	case is_undefined: return false;
	case is_null: s+="null"; return true;
	case is_boolean: s+=v.boolean()?"true":"false"; return true;
	case is_number: s+=value(v.number()).save(compact); return true;
	case is_string: jstr(v.str(),s); return true;
	case is_array: {
		array const &a=v.array();
		s+='[';
		for(size_t i=0;i<a.size();i++) { if(i) s+=','; if(!jtext(a[i],s)) return false; }
		s+=']';
		return true;
	}
	case is_object: {
		object const &ob=v.object();
		s+='{';
		bool first=true;
		for(object::const_iterator p=ob.begin();p!=ob.end();++p) {
			if(!first) s+=',';
			first=false;
			jstr(p->first.str(),s);
			s+=':';
			if(!jtext(p->second,s)) return false;
		}
		s+='}';
		return true;
	}
	}
	return false;
}
// json::value travels as its compact text; "ju" is the undefined value (it has no text: save throws)
void dump(cppcms::json::value const &v,std::string &o)
{
	if(v.is_undefined()) { o+=" ju"; return; }
	// The compact text is written here, by the harness, from the tree itself (strings escaped with a table of
	// our own, numbers through the library's number writer): a writer whose escapes are wrong would otherwise
	// print a wrongly loaded string back as the text of the right one (seed C19-10: two swapped rows cancel).
	std::string s;
	if(!jtext(v,s)) s=v.save(cppcms::json::compact);
	o+=" j"; o+=hx(s.data(),s.size());
}
void parse(Tok &t,cppcms::json::value &v)
{
	std::string w=t.next();
	if(w=="ju") { v=cppcms::json::value(); return; }
	Tok t2={t.w,t.i-1};
	std::string text=t2.bytes('j');
	std::istringstream ss(text);
	cppcms::json::value r;
	if(!r.load(ss,true)) throw std::runtime_error("bad-op");
	v=r;
}
template<typename T> void dump(booster::hold_ptr<T> const &v,std::string &o) { dump_ptr(v,o); }
template<typename T> void parse(Tok &t,booster::hold_ptr<T> &v) { parse_ptr<booster::hold_ptr<T>,T>(t,v); }
template<typename T> void dump(booster::clone_ptr<cbox<T> > const &v,std::string &o) { dump_ptr(v,o); }
template<typename T> void parse(Tok &t,booster::clone_ptr<cbox<T> > &v) { parse_ptr<booster::clone_ptr<cbox<T> >,cbox<T> >(t,v); }
template<typename T> void dump(booster::intrusive_ptr<ibox<T> > const &v,std::string &o) { dump_ptr(v,o); }
template<typename T> void parse(Tok &t,booster::intrusive_ptr<ibox<T> > &v)
{
	std::string w=t.next();
	if(w=="0") v=0;
	else if(w=="1") { v=new ibox<T>(); parse(t,*v); }
	else throw std::runtime_error("bad-op");
}
template<typename T> void dump(cbox<T> const &v,std::string &o) { dump(v.v,o); }
template<typename T> void parse(Tok &t,cbox<T> &v) { parse(t,v.v); }
template<typename T> void dump(ibox<T> const &v,std::string &o) { dump(v.v,o); }
template<typename T> void parse(Tok &t,ibox<T> &v) { parse(t,v.v); }
template<typename A,typename B> void dump(trec<A,B> const &v,std::string &o) { dump(v.kind,o); dump(v.a,o); dump(v.b,o); }
template<typename A,typename B> void parse(Tok &t,trec<A,B> &v) { parse(t,v.kind); parse(t,v.a); parse(t,v.b); }
template<typename T> void dump(box<T> const &v,std::string &o) { dump(v.v,o); }
template<typename T> void parse(Tok &t,box<T> &v) { parse(t,v.v); }
template<typename A,typename B> void dump(rec2<A,B> const &v,std::string &o) { dump(v.a,o); dump(v.b,o); }
template<typename A,typename B> void parse(Tok &t,rec2<A,B> &v) { parse(t,v.a); parse(t,v.b); }


// ---- pre-populate the object a load writes into: load must replace whatever was there
struct Junk {
	template<typename T> static typename std::enable_if<std::is_arithmetic<T>::value>::type j(T &v) { memset(&v,0x5a,sizeof(v)); }
	static void j(std::string &v) { v="junk"; }
	template<typename T> static typename std::enable_if<std::is_arithmetic<T>::value>::type j(std::vector<T> &v) { v.assign(3,T(7)); }
	template<typename T> static typename std::enable_if<!std::is_arithmetic<T>::value>::type j(std::vector<T> &v) { T x=T(); j(x); v.push_back(x); v.push_back(T()); }
	template<typename T> static void j(std::list<T> &v) { T x=T(); j(x); v.push_back(x); }
	template<typename T> static void j(std::set<T> &v) { T x=T(); j(x); v.insert(x); v.insert(T()); }
	template<typename T> static void j(std::multiset<T> &v) { T x=T(); j(x); v.insert(x); v.insert(x); }
	template<typename K,typename V> static void j(std::map<K,V> &v) { std::pair<K,V> x; j(x); v.insert(x); v.insert(std::pair<K,V>()); }
	template<typename K,typename V> static void j(std::multimap<K,V> &v) { std::pair<K,V> x; j(x); v.insert(x); v.insert(x); }
	template<typename A,typename B> static void j(std::pair<A,B> &v) { j(const_cast<typename std::remove_const<A>::type &>(v.first)); j(v.second); }
	template<typename T> static void j(booster::shared_ptr<T> &v) { v.reset(new T()); j(*v); }
	template<typename T> static void j(std::unique_ptr<T> &v) { v.reset(new T()); j(*v); }
	template<typename T> static void j(booster::copy_ptr<T> &v) { v.reset(new T()); j(*v); }
	template<typename T,size_t N> static void j(T (&v)[N]) { for(size_t i=0;i<N;i++) j(v[i]); }
	static void j(cppcms::json::value &v) { v=cppcms::json::value(); v["junk"][1]=true; }
	template<typename T> static void j(booster::hold_ptr<T> &v) { v.reset(new T()); j(*v); }
	template<typename T> static void j(booster::clone_ptr<cbox<T> > &v) { v.reset(new cbox<T>()); j(*v); }
	template<typename T> static void j(booster::intrusive_ptr<ibox<T> > &v) { v=new ibox<T>(); j(*v); }
	template<typename T> static void j(cbox<T> &v) { j(v.v); }
	template<typename T> static void j(ibox<T> &v) { j(v.v); }
	template<typename A,typename B> static void j(trec<A,B> &) {}   // a load into a non-fresh tagged record keeps stale optional members by the class's own design
	template<typename T> static void j(box<T> &v) { j(v.v); }
	template<typename A,typename B> static void j(rec2<A,B> &v) { j(v.a); j(v.b); }
};

// ---- operator< of key types, asked directly (cmp)
template<typename T,typename E=void> struct Keyable { static const bool value=false; };
template<typename T> struct Keyable<T,typename std::enable_if<std::is_arithmetic<T>::value && std::is_unsigned<T>::value>::type> { static const bool value=true; };
template<> struct Keyable<std::string> { static const bool value=true; };
template<typename T> struct Keyable<std::vector<T> > { static const bool value=Keyable<T>::value; };
template<typename T> struct Keyable<std::list<T> > { static const bool value=Keyable<T>::value; };
template<typename T> struct Keyable<std::set<T> > { static const bool value=Keyable<T>::value; };
template<typename T> struct Keyable<std::multiset<T> > { static const bool value=Keyable<T>::value; };
template<typename K,typename V> struct Keyable<std::map<K,V> > { static const bool value=Keyable<K>::value && Keyable<V>::value; };
template<typename K,typename V> struct Keyable<std::multimap<K,V> > { static const bool value=Keyable<K>::value && Keyable<V>::value; };
template<typename A,typename B> struct Keyable<std::pair<A,B> > { static const bool value=Keyable<A>::value && Keyable<B>::value; };

// ---- ASan: make the archive's buffer "heap exact"
struct Poison {
	char const *p; size_t n;
	Poison(std::string const &s) : p(s.data()+s.size()), n(s.capacity()+1-s.size()) { ASAN_POISON_MEMORY_REGION(p,n); }
	~Poison() { ASAN_UNPOISON_MEMORY_REGION(p,n); }
};

static std::string err_kind(char const *what)
{
	std::string w(what);
	if(w.find("At end of archive")!=std::string::npos) return "err eof";
	if(w.find("Invalid archive format")!=std::string::npos) return "err hdr";
	if(w.find("Invalid archive_format")!=std::string::npos) return "err size";
	if(w.find("Invalid block length")!=std::string::npos) return "err len";
	if(w.find("Invalid json")!=std::string::npos) return "err json";
	return "err other:" + w;
}

static bool prefill=false;   // toggled per case: ops whose name ends in '+' load into a pre-populated object

struct Ops {
	std::string (*save)(Tok &);
	std::string (*load)(std::string const &);
	std::string (*rt)(Tok &);
	std::string (*ssave)(Tok &);
	std::string (*sload)(std::string const &);
	std::string (*srt)(Tok &);
	std::string (*cache)(Tok &);
	std::string (*session)(Tok &);
	std::string (*load2)(std::string const &,std::string const &);
	std::string (*session_saved)(Tok &);
	std::string (*cmp)(Tok &);
	std::string (*session_overwrite)(Tok &);
	std::string (*cache_big)(Tok &);
};

template<typename T> std::string do_save(Tok &t)
{
	T v=T(); parse(t,v);
	archive a;
	try { cppcms::archive_traits<T>::save(v,a); }
	catch(cppcms::json::bad_value_cast const &) { return "throw"; }
	return vh::hex(a.str());
}
template<typename T> std::string do_load(std::string const &bytes)
{
	archive a;
	a.str(bytes);
	Poison guard(a.buffer_);
	std::string out;
	try {
		T v=T();
		if(prefill) Junk::j(v);
		cppcms::archive_traits<T>::load(v,a);
		out="ok"; dump(v,out);
		out+=" @"+std::to_string(a.ptr_);
	}
	catch(cppcms::archive_error const &e) { out=err_kind(e.what()); }
	return out;
}
// the same archive object used twice: archive::str() must restart at offset 0 whatever happened before
template<typename T> std::string do_load2(std::string const &first,std::string const &bytes)
{
	archive a;
	a.str(first);
	{
		Poison guard(a.buffer_);
		try { T v=T(); cppcms::archive_traits<T>::load(v,a); } catch(cppcms::archive_error const &) {}
	}
	a.str(bytes);
	Poison guard(a.buffer_);
	std::string out;
	try {
		T v=T();
		if(prefill) Junk::j(v);
		cppcms::archive_traits<T>::load(v,a);
		out="ok"; dump(v,out);
		out+=" @"+std::to_string(a.ptr_);
	}
	catch(cppcms::archive_error const &e) { out=err_kind(e.what()); }
	return out;
}
template<typename T> std::string do_rt(Tok &t)
{
	T v=T(); parse(t,v);
	archive a;
	try { a & v; }                          // operator& in save mode
	catch(cppcms::json::bad_value_cast const &) { return "throw"; }
	a.mode(archive::load_from_archive);
	Poison guard(a.buffer_);
	std::string out;
	try {
		T w=T();
		if(prefill) Junk::j(w);
		a & w;                          // operator& in load mode
		out="ok"; dump(w,out);
		out+=a.eof() ? " eof=1" : " eof=0";
	}
	catch(cppcms::archive_error const &e) { out=err_kind(e.what()); }
	return out;
}
template<typename T> std::string do_ssave(Tok &t)
{
	T v=T(); parse(t,v);
	std::string s;
	try { cppcms::serialization_traits<T>::save(v,s); }
	catch(cppcms::json::bad_value_cast const &) { return "throw"; }
	return vh::hex(s);
}
template<typename T> std::string do_sload(std::string const &bytes)
{
	// heap-exact copy of the input (the traits copy it again into the archive)
	std::string out;
	try {
		T v=T();
		if(prefill) Junk::j(v);
		cppcms::serialization_traits<T>::load(bytes,v);
		out="ok"; dump(v,out);
	}
	catch(cppcms::archive_error const &e) { out=err_kind(e.what()); }
	return out;
}
template<typename T> std::string do_srt(Tok &t)
{
	T v=T(); parse(t,v);
	std::string s,out;
	try { cppcms::serialization_traits<T>::save(v,s); }
	catch(cppcms::json::bad_value_cast const &) { return "throw"; }
	try {
		T w=T();
		if(prefill) Junk::j(w);
		cppcms::serialization_traits<T>::load(s,w);
		out="ok"; dump(w,out);
	}
	catch(cppcms::archive_error const &e) { out=err_kind(e.what()); }
	return out;
}

// ---- the convenience wrappers: cache_interface::store_data/fetch_data on a thread_shared cache,
// session_interface::store_data/fetch_data on a session object without HTTP context
struct no_cookies : public cppcms::session_interface_cookie_adapter {
	void set_cookie(cppcms::http::cookie const &) {}
	std::string get_session_cookie(std::string const &) { return std::string(); }
	std::set<std::string> get_cookie_names() { return std::set<std::string>(); }
};
static cppcms::service &the_service()
{
	static cppcms::service *srv=0;
	if(!srv) {
		cppcms::json::value cfg;
		cfg["cache"]["backend"]="thread_shared";
		cfg["cache"]["limit"]=100;
		cfg["session"]["location"]="server";
		cfg["session"]["server"]["storage"]="memory";
		srv=new cppcms::service(cfg);
	}
	return *srv;
}
template<typename T> std::string do_cache(Tok &t)
{
	T v=T(); parse(t,v);
	cppcms::cache_interface cache(the_service());
	try { cache.store_data("k",v); }
	catch(cppcms::json::bad_value_cast const &) { return "throw"; }
	std::string out;
	try {
		T w=T();
		if(prefill) Junk::j(w);
		if(!cache.fetch_data("k",w)) return "miss";
		out="ok"; dump(w,out);
	}
	catch(cppcms::archive_error const &e) { out=err_kind(e.what()); }
	return out;
}
template<typename T> std::string do_session(Tok &t)
{
	T v=T(); parse(t,v);
	static cppcms::session_pool *pool=0;
	if(!pool) { pool=new cppcms::session_pool(the_service()); pool->init(); }
	no_cookies ad;
	cppcms::session_interface s(*pool,ad);
	s.load();
	try { s.store_data("k",v); }
	catch(cppcms::json::bad_value_cast const &) { return "throw"; }
	std::string out;
	try {
		T w=T();
		if(prefill) Junk::j(w);
		s.fetch_data("k",w);
		out="ok"; dump(w,out);
	}
	catch(cppcms::archive_error const &e) { out=err_kind(e.what()); }
	return out;
}

// store_data, save(), then a second session object (the next request) presenting the cookie that was set:
// load(), fetch_data.  Server-side memory storage, so the cookie only carries the session id.
struct jar : public cppcms::session_interface_cookie_adapter {
	std::map<std::string,std::string> c;
	void set_cookie(cppcms::http::cookie const &ck) { if(ck.max_age()==0 && ck.value().empty()) c.erase(ck.name()); else c[ck.name()]=ck.value(); }
	std::string get_session_cookie(std::string const &name) { std::map<std::string,std::string>::const_iterator p=c.find(name); return p==c.end() ? std::string() : p->second; }
	std::set<std::string> get_cookie_names() { std::set<std::string> r; for(std::map<std::string,std::string>::const_iterator p=c.begin();p!=c.end();++p) r.insert(p->first); return r; }
};
template<typename T> std::string do_session_saved(Tok &t)
{
	T v=T(); parse(t,v);
	static cppcms::session_pool *pool=0;
	if(!pool) { pool=new cppcms::session_pool(the_service()); pool->init(); }
	jar j;
	{
		cppcms::session_interface s(*pool,j);
		s.load();
		try { s.store_data("k",v); }
		catch(cppcms::json::bad_value_cast const &) { return "throw"; }
		try { s.save(); }
		catch(cppcms::cppcms_error const &e) {
			if(std::string(e.what()).find("value too long")!=std::string::npos) return "toolong";
			throw;
		}
	}
	std::string out;
	cppcms::session_interface s2(*pool,j);
	s2.load();
	try {
		T w=T();
		if(prefill) Junk::j(w);
		if(!s2.is_set("k")) return "lost";
		s2.fetch_data("k",w);
		out="ok"; dump(w,out);
	}
	catch(cppcms::archive_error const &e) { out=err_kind(e.what()); }
	return out;
}

template<typename T> std::string do_cmp(Tok &t)
{
	if constexpr (Keyable<T>::value) {
		T a=T(),b=T();
		parse(t,a); parse(t,b);
		return a<b ? "1" : "0";
	}
	else return "bad-op";
}

// three requests on one browser: store_data(k,A)+save; load, store_data(k,B)+save; load, fetch_data(k) -> must be B.
// mode 0: client-side cookies (hmac) expire=fixed; 1: server memory, expire=renew; 2: server memory, expire=browser
static cppcms::session_pool &mode_pool(int mode)
{
	static cppcms::session_pool *pools[3]={0,0,0};
	if(!pools[mode]) {
		cppcms::json::value cfg;
		cfg["session"]["timeout"]=3600;
		if(mode==0) {
			cfg["session"]["location"]="client";
			cfg["session"]["expire"]="fixed";
			cfg["session"]["client"]["hmac"]="sha1";
			cfg["session"]["client"]["hmac_key"]="232074faa0fd37de20858bf8cd0a7d04";
		}
		else {
			cfg["session"]["location"]="server";
			cfg["session"]["expire"]= mode==1 ? "renew" : "browser";
			cfg["session"]["server"]["storage"]="memory";
		}
		if(mode==0) pools[mode]=new cppcms::session_pool(cfg);
		else pools[mode]=new cppcms::session_pool(*new cppcms::service(cfg));   // memory storage needs a service
		pools[mode]->init();
	}
	return *pools[mode];
}
static int overwrite_mode=0;
template<typename T> std::string do_session_overwrite(Tok &t)
{
	T a=T(),b=T(); parse(t,a); parse(t,b);
	cppcms::session_pool &pool=mode_pool(overwrite_mode);
	jar j;
	try {
		{ cppcms::session_interface s(pool,j); s.load(); s.store_data("k",a); s.save(); }
		{
			cppcms::session_interface s(pool,j); s.load();
			T cur=T();
			if(!s.is_set("k")) return "lost-first";
			s.fetch_data("k",cur);
			s.store_data("k",b);
			s.save();
		}
	}
	catch(cppcms::json::bad_value_cast const &) { return "throw"; }
	std::string out;
	cppcms::session_interface s3(pool,j);
	s3.load();
	try {
		T w=T();
		if(!s3.is_set("k")) return "lost";
		s3.fetch_data("k",w);
		out="ok"; dump(w,out);
	}
	catch(cppcms::archive_error const &e) { out=err_kind(e.what()); }
	return out;
}

// a cache in a small shared-memory segment: an object that fits, then one far too big under the same key;
// afterwards the key must miss or hold the newest object -- never the old one
static cppcms::service &the_ps_service()
{
	static cppcms::service *srv=0;
	if(!srv) {
		cppcms::json::value cfg;
		cfg["cache"]["backend"]="process_shared";
		cfg["cache"]["memory"]=512;
		cfg["cache"]["limit"]=100;
		cfg["service"]["api"]="http";
		cfg["service"]["port"]=0;
		srv=new cppcms::service(cfg);
	}
	return *srv;
}
template<typename T> std::string do_cache_overwrite_big(Tok &t)
{
	T v=T(); parse(t,v);
	cppcms::cache_interface cache(the_ps_service());
	std::string out;
	try {
		cache.store_data("k",v);
		{
			T w=T();
			if(!cache.fetch_data("k",w)) return "small-missed";     // a miss is legal, but then the case says nothing
			std::string d1,d2; dump(v,d1); dump(w,d2);
			if(d1!=d2) return "small-differs";
		}
		box<std::vector<std::string> > big;
		for(int i=0;i<16;i++) big.v.push_back(std::string(64*1024,char('a'+i)));          // ~1 MB > 512 KB segment
		try { cache.store_data("k",big); } catch(std::bad_alloc const &) {}
		T w=T();
		if(!cache.fetch_data("k",w)) return "miss";
		out="hit"; dump(w,out);
	}
	catch(cppcms::json::bad_value_cast const &) { return "throw"; }
	catch(cppcms::archive_error const &e) { out="hit-"+err_kind(e.what()); }
	return out;
}

static std::map<std::string,Ops> registry;

template<typename T> void reg()
{
	Ops o={ do_save<T>, do_load<T>, do_rt<T>, 0, 0, 0, 0, 0, do_load2<T>, 0, do_cmp<T>, 0, 0 };
	registry[TN<T>::name()]=o;
}
template<typename T> void regs()
{
	Ops o={ do_save<T>, do_load<T>, do_rt<T>, do_ssave<T>, do_sload<T>, do_srt<T>, do_cache<T>, do_session<T>, do_load2<T>, do_session_saved<T>, do_cmp<T>, do_session_overwrite<T>, do_cache_overwrite_big<T> };
	registry[TN<T>::name()]=o;
}

typedef unsigned char u1; typedef unsigned short u2; typedef unsigned int u4; typedef unsigned long long u8;
using std::string; using std::vector; using std::list; using std::set; using std::map; using std::pair;
using booster::shared_ptr;

static void init()
{
	reg<u1>(); reg<u2>(); reg<u4>(); reg<u8>(); reg<int>(); reg<double>(); reg<string>();
	reg<vector<u1> >(); reg<vector<u2> >(); reg<vector<u4> >(); reg<vector<u8> >();
	reg<vector<string> >(); reg<list<u4> >(); reg<list<string> >(); reg<vector<vector<u2> > >();
	reg<vector<vector<string> > >(); reg<list<vector<string> > >();
	reg<set<u4> >(); reg<set<string> >(); reg<set<u8> >(); reg<set<pair<u2,string> > >(); reg<set<vector<u1> > >(); reg<set<vector<string> > >();
	reg<map<u4,string> >(); reg<map<string,u8> >(); reg<map<string,vector<u4> > >(); reg<map<string,map<u2,string> > >();
	reg<map<pair<u1,string>,list<string> > >(); reg<map<u2,set<string> > >();
	reg<pair<u4,string> >(); reg<pair<string,pair<u1,vector<u8> > > >(); reg<pair<vector<string>,set<u4> > >();
	reg<shared_ptr<u4> >(); reg<shared_ptr<string> >(); reg<shared_ptr<vector<string> > >(); reg<shared_ptr<shared_ptr<string> > >();
	reg<vector<shared_ptr<string> > >(); reg<map<u4,shared_ptr<vector<u2> > > >(); reg<pair<shared_ptr<u1>,shared_ptr<map<string,u4> > > >();
	reg<std::unique_ptr<string> >(); reg<std::unique_ptr<vector<string> > >(); reg<booster::copy_ptr<string> >(); reg<vector<booster::copy_ptr<u4> > >();
	regs<box<u4> >(); regs<box<string> >(); regs<box<vector<string> > >(); regs<box<map<string,vector<u4> > > >();
	regs<rec2<u4,string> >(); regs<rec2<string,rec2<vector<u2>,set<string> > > >(); regs<rec2<shared_ptr<string>,list<pair<u4,string> > > >();
	reg<vector<rec2<u4,string> > >(); reg<shared_ptr<box<string> > >();
	reg<std::multiset<u4> >(); reg<std::multiset<string> >(); reg<std::multiset<pair<u1,string> > >(); reg<vector<std::multiset<u2> > >();
	reg<std::multimap<u4,string> >(); reg<std::multimap<string,vector<u4> > >(); reg<std::multimap<u1,std::multiset<string> > >();
	reg<map<std::multiset<u1>,string> >();
	regs<box<string[3]> >(); regs<box<u4[3]> >(); regs<box<vector<string>[2]> >(); regs<rec2<u2[4],set<string>[2]> >();
	regs<box<map<string,u4>[1]> >();
	reg<set<vector<u2> > >(); reg<map<vector<u4>,u1> >(); reg<set<vector<u8> > >(); reg<set<set<u2> > >(); reg<set<map<u1,string> > >(); reg<set<list<u4> > >();
	reg<set<std::multiset<string> > >(); reg<set<pair<string,vector<u2> > > >();
	typedef trec<string,vector<u4> > rec;
	regs<rec>(); reg<vector<rec> >(); reg<list<rec> >(); reg<map<string,vector<rec> > >(); regs<box<vector<rec> > >();
	regs<rec2<vector<rec>,map<string,vector<rec> > > >(); regs<trec<rec,string> >(); reg<vector<pair<u4,rec> > >(); reg<list<shared_ptr<rec> > >();
	reg<vector<trec<u2,map<u1,string> > > >(); reg<std::multimap<u4,vector<rec> > >(); reg<vector<vector<rec> > >();
	typedef cppcms::json::value jv;
	reg<jv>(); reg<vector<jv> >(); reg<map<string,jv> >(); reg<shared_ptr<jv> >(); reg<pair<u4,jv> >(); regs<box<jv> >(); regs<rec2<jv,string> >();
	reg<booster::hold_ptr<string> >(); reg<booster::hold_ptr<vector<u4> > >(); regs<box<booster::hold_ptr<map<string,u2> > > >();
	reg<booster::clone_ptr<cbox<string> > >(); reg<vector<booster::clone_ptr<cbox<u4> > > >(); reg<booster::clone_ptr<cbox<set<string> > > >();
	reg<booster::intrusive_ptr<ibox<string> > >(); reg<list<booster::intrusive_ptr<ibox<vector<u2> > > > >(); regs<rec2<booster::intrusive_ptr<ibox<u4> >,booster::hold_ptr<string> > >();
}

struct c19_grouping : std::numpunct<char> {
	char do_thousands_sep() const override { return ','; }
	std::string do_grouping() const override { return "\3"; }
};

static std::string run(std::vector<std::string> const &w)
{
	if(w.empty()) return "bad-op";
	std::string const &op=w[0];
	if(op=="types") {
		std::string r;
		for(std::map<std::string,Ops>::const_iterator p=registry.begin();p!=registry.end();++p) { if(!r.empty()) r+=' '; r+=p->first; }
		return r;
	}
	if(op=="ops") {
		if(w.size()<2) return "bad-op";
		std::string bytes;
		if(!vh::unhex(w[1],bytes)) return "bad-op";
		archive a;
		a.str(bytes);
		Poison guard(a.buffer_);
		std::string out;
		try {
			for(size_t i=2;i<w.size();i++) {
				std::string const &o=w[i];
				std::string r;
				if(o=="n") r="n="+std::to_string(a.next_chunk_size());
				else if(o=="e") r=a.eof() ? "e=1" : "e=0";
				else if(o=="z") { a.reset(); r="z"; }
				else if(o=="m") { a.mode(archive::load_from_archive); r="m"; }
				else if(o=="s") { std::string s=a.read_chunk_as_string(); r="s="+hx(s.data(),s.size()); }
				else if(o[0]=='r') {
					if(o.size()<2 || o[1]<'0' || o[1]>'9') return "bad-op";
					size_t len=strtoull(o.c_str()+1,0,10);
					if(len>(1u<<24)) return "bad-op";
					char *buf=new char[len];          // heap exact destination
					try { a.read_chunk(buf,len); } catch(...) { delete [] buf; throw; }
					r="r="+hx(buf,len);
					delete [] buf;
				}
				else return "bad-op";
				out+=r; out+=' ';
			}
			out+="@"+std::to_string(a.ptr_);
		}
		catch(cppcms::archive_error const &e) { out+=err_kind(e.what()); out+=" @"+std::to_string(a.ptr_); }
		return out;
	}
	if(op=="wr") {
		archive a;
		for(size_t i=1;i<w.size();i++) {
			std::string b;
			if(!vh::unhex(w[i],b)) return "bad-op";
			a.write_chunk(b.data(),b.size());
		}
		return vh::hex(a.str());
	}
	if(w.size()<2) return "bad-op";
	std::map<std::string,Ops>::const_iterator p=registry.find(w[1]);
	if(p==registry.end()) return "bad-type";
	Ops const &o=p->second;
	Tok t={w,2};
	std::string o2=w[0];
	prefill=false;
	if(o2.size()>1 && o2[o2.size()-1]=='~') {
		// the same line with std::locale::global() set to a locale that groups digits ("1,234,567"): what is
		// written to / read from an archive must not depend on it (seed C19-12)
		std::vector<std::string> w2(w);
		w2[0]=o2.substr(0,o2.size()-1);
		struct restore { ~restore() { std::locale::global(std::locale::classic()); } } r;
		std::locale::global(std::locale(std::locale::classic(),new c19_grouping));
		return run(w2);
	}
	if(o2.size()>1 && o2[o2.size()-1]=='+') { prefill=true; o2=o2.substr(0,o2.size()-1); }
	if(o2=="save") return o.save(t);
	if(o2=="rt") return o.rt(t);
	if(o2=="ssave") return o.ssave ? o.ssave(t) : "bad-op";
	if(o2=="srt") return o.srt ? o.srt(t) : "bad-op";
	if(o2=="crt") return o.cache ? o.cache(t) : "bad-op";        // cache_interface::store_data / fetch_data
	if(o2=="zrt") return o.session ? o.session(t) : "bad-op";    // session_interface::store_data / fetch_data
	if(o2=="zow0" || o2=="zow1" || o2=="zow2") { overwrite_mode=o2[3]-'0'; return o.session_overwrite ? o.session_overwrite(t) : "bad-op"; }
	if(o2=="cpo") return o.cache_big ? o.cache_big(t) : "bad-op";
	if(o2=="cmp") return o.cmp(t);                               // operator< of two values of a key type
	if(o2=="zsv") return o.session_saved ? o.session_saved(t) : "bad-op";   // ... with save() and a new request in between
	if(o2=="load2") {
		if(w.size()!=4) return "bad-op";
		std::string first,bytes;
		if(!vh::unhex(w[2],first) || !vh::unhex(w[3],bytes)) return "bad-op";
		return o.load2(first,bytes);
	}
	if(o2=="load" || o2=="sload") {
		if(w.size()!=3) return "bad-op";
		std::string bytes;
		if(!vh::unhex(w[2],bytes)) return "bad-op";
		if(o2=="load") return o.load(bytes);
		return o.sload ? o.sload(bytes) : "bad-op";
	}
	return "bad-op";
}

static std::string run_checked(std::vector<std::string> const &w)
{
	try { return run(w); }
	catch(std::runtime_error const &e) { if(std::string(e.what())=="bad-op") return "bad-op"; throw; }
}

int main()
{
	init();
	return vh::drive(run_checked);
}
