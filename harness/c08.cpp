// C08 harness (buddy allocator part): the real cppcms::impl::buddy_allocator (header-only,
// private/buddy_allocator.h) driven directly, as tests/allocator_test.cpp does, behind the `b…`
// lines of lean/Cppcms/C08/Driver.lean.  The class's private members are read (never written) to
// dump the free lists: `#define private public` / `#define class struct` around the include.
//
//   binit <total bytes>      -> ok usable=<memory_size_> | <free blocks> | <total_free_memory> <max_free_chunk>
//   bmalloc <size> [..]      -> at <block offset> <order> | …      or   null | …
//   bfree <block offset>     -> ok | …      (bad-op if that block is not allocated)
//   bfreeall                 -> ok | …      (frees every block still allocated)
// free blocks: offset:order, sorted by offset ("-" if none)
#include "common.h"
#include <cppcms/defs.h>
#include <stddef.h>
#include <assert.h>
#include <memory.h>
#include <algorithm>
#include <set>
#define private public
#define class struct	// `class buddy_allocator { struct page; public: …`: the forward declaration must be public too
#include "buddy_allocator.h"
#undef class
#undef private

using cppcms::impl::buddy_allocator;
static void *region=0;
static buddy_allocator *ba=0;
static std::set<size_t> live;

static std::string dump()
{
	std::vector<std::pair<size_t,int> > v;
	for(unsigned i=0;i<sizeof(void*)*8;i++)
		for(buddy_allocator::page *p=ba->free_list_[i];p;p=p->next)
			v.push_back(std::make_pair(size_t(reinterpret_cast<char*>(p)-ba->memory()),p->bits));
	std::sort(v.begin(),v.end());
	std::ostringstream ss;
	ss<<" | ";
	if(v.empty()) ss<<"-";
	for(size_t i=0;i<v.size();i++) ss<<(i?",":"")<<v[i].first<<":"<<v[i].second;
	ss<<" | "<<ba->total_free_memory()<<" "<<ba->max_free_chunk();
	return ss.str();
}

static std::string run(std::vector<std::string> const &w)
{
	if(w.size()==2 && w[0]=="binit") {
		if(ba) { ba->~buddy_allocator(); free(region); ba=0; }
		size_t total=strtoull(w[1].c_str(),0,10);
		if(total<sizeof(buddy_allocator) || posix_memalign(&region,4096,total)!=0) return "bad-op";
		ba=new (region) buddy_allocator(total);
		live.clear();
		std::ostringstream ss; ss<<"ok usable="<<ba->memory_size_;
		return ss.str()+dump();
	}
	if(!ba) return "bad-op";
	if(w.size()>=2 && w[0]=="bmalloc") {
		void *p=ba->malloc(strtoull(w[1].c_str(),0,10));
		if(!p) return "null"+dump();
		buddy_allocator::page *pg=reinterpret_cast<buddy_allocator::page*>(static_cast<char*>(p)-buddy_allocator::alignment);
		size_t off=reinterpret_cast<char*>(pg)-ba->memory();
		live.insert(off);
		memset(p,0xAB,strtoull(w[1].c_str(),0,10));	// the caller may use all it asked for (ASan sees the buffer, not the blocks)
		std::ostringstream ss; ss<<"at "<<off<<" "<<(pg->bits & 0xFF);
		return ss.str()+dump();
	}
	if(w.size()==2 && w[0]=="bfree") {
		size_t off=strtoull(w[1].c_str(),0,10);
		if(!live.count(off)) return "bad-op";	// never hand the allocator a pointer it did not return
		live.erase(off);
		ba->free(ba->memory()+off+buddy_allocator::alignment);
		return "ok"+dump();
	}
	if(w.size()==1 && w[0]=="bfreeall") {
		// free everything still allocated (ascending addresses): the arena must be as constructed afterwards
		std::set<size_t> l; l.swap(live);
		for(std::set<size_t>::iterator p=l.begin();p!=l.end();++p)
			ba->free(ba->memory()+*p+buddy_allocator::alignment);
		return "ok"+dump();
	}
	return "bad-op";
}

int main() { return vh::drive(run); }
