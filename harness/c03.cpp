// C03 harness: real cppcms::http::response over real connections.
//
// One in-process cppcms::service listening on three acceptors (SCGI and FastCGI on unix
// sockets, HTTP on a loopback TCP port).  Every case line describes one request:
//
//   <proto> <mode> <opts> <script> <sched>
//
//   proto : scgi | fcgi | http10 | http11 | http10ka | http11ka   (ka = Connection: keep-alive)
//   mode  : normal | nogzip | raw | async | asyncraw                 (response::io_mode)
//   opts  : - or comma list of: gz (client sends Accept-Encoding: gzip), zstub (deflate() is
//           replaced by the deterministic stand-in also used by the Lean driver)
//   script: - or comma list of application actions (see run_script)
//   sched : - or comma list answering the service's writev() calls in order:
//           aN = accept at most N bytes, w = EAGAIN (non-blocking sockets only), f = whatever the kernel takes
//
// The application executes the script on response().out(); the client (this thread) reads the
// wire bytes until EOF, de-frames them with an independent decoder and prints
//   <wire> <cache> <deframe verdict> <hdr> <body> <ztrace> <gunzip>
// writev() and deflate() are interposed at link time (no change to the library).
#include "common.h"
#include <locale>
#include <cppcms/service.h>
#include <cppcms/application.h>
#include <cppcms/applications_pool.h>
#include <cppcms/http_request.h>
#include <cppcms/http_response.h>
#include <cppcms/http_context.h>
#include <cppcms/http_cookie.h>
#include <cppcms/cache_interface.h>
#include <cppcms/mount_point.h>
#include <cppcms/json.h>
#include <booster/intrusive_ptr.h>
#include <booster/callback.h>
#include <thread>
#include <mutex>
#include <condition_variable>
#include <atomic>
#include <fstream>
#include <dlfcn.h>
#include <unistd.h>
#include <fcntl.h>
#include <errno.h>
#include <poll.h>
#include <sys/uio.h>
#include <sys/socket.h>
#include <sys/un.h>
#include <netinet/in.h>
#include <arpa/inet.h>
#include <zlib.h>

// ------------------------------------------------------------------ case description
struct op_t { char k; long n; long seed; std::string s1, s2; };
struct sched_t { char k; long n; };
struct case_t {
	std::string proto, mode;
	bool gz=false, zstub=false, twice=false;
	std::vector<op_t> script;
	std::vector<sched_t> sched;
};

static std::mutex g_mx;
static std::condition_variable g_cv;
static case_t g_case;                 // written by the client before it connects
static bool g_app_done=false;         // application finished its script (or died)
static std::string g_app_note;        // anomalies seen by the application ("-" when none)
static std::string g_cache_copy;      // page fetched back through cache_interface after store_page
static bool g_cache_have=false;

// ------------------------------------------------------------------ writev interposer
static std::atomic<bool> g_sched_on(false);
static size_t g_sched_pos=0;
static long st_calls=0, st_short=0, st_wb=0, st_natural=0, st_wb_blocking=0;
static long tot_twice=0;
static long tot_calls=0, tot_short=0, tot_wb=0, tot_natural=0, tot_cases_with_short=0, tot_cases_with_wb=0;

typedef ssize_t (*writev_t)(int,const struct iovec *,int);
extern "C" ssize_t writev(int fd,const struct iovec *iov,int cnt)
{
	static writev_t real = (writev_t)dlsym(RTLD_NEXT,"writev");
	if(!g_sched_on.load()) return real(fd,iov,cnt);
	size_t total=0;
	for(int i=0;i<cnt;i++) total+=iov[i].iov_len;
	sched_t it; it.k='f'; it.n=0;
	if(total==0) return real(fd,iov,cnt);
	{
		std::lock_guard<std::mutex> g(g_mx);
		st_calls++;
		if(g_sched_pos < g_case.sched.size()) it=g_case.sched[g_sched_pos++];
	}
	if(it.k=='w') {
		int fl=fcntl(fd,F_GETFL);
		if(fl>=0 && (fl & O_NONBLOCK)) { std::lock_guard<std::mutex> g(g_mx); st_wb++; errno=EAGAIN; return -1; }
		// a blocking socket never reports EAGAIN (short of SO_SNDTIMEO expiring): accept one byte instead
		{ std::lock_guard<std::mutex> g(g_mx); st_wb_blocking++; }
		it.k='a'; it.n=1;
	}
	if(it.k=='a' && size_t(it.n) < total) {
		size_t k = it.n<1 ? 1 : size_t(it.n);
		struct iovec tmp[64];
		int m=0; size_t left=k;
		for(int i=0;i<cnt && left>0 && m<64;i++) {
			if(iov[i].iov_len==0) continue;
			tmp[m]=iov[i];
			if(tmp[m].iov_len>left) tmp[m].iov_len=left;
			left-=tmp[m].iov_len; m++;
		}
		ssize_t r=real(fd,tmp,m);
		if(r>=0) { std::lock_guard<std::mutex> g(g_mx); st_short++; }
		return r;
	}
	ssize_t r=real(fd,iov,cnt);
	if(r>=0 && size_t(r)<total) { std::lock_guard<std::mutex> g(g_mx); st_natural++; }
	return r;
}

// ------------------------------------------------------------------ deflate interposer
// records the calls gzip_buf makes; in stub mode replaces zlib by a deterministic stand-in:
//   every feed of n>0 input bytes appends  'D' n(4, big endian) bytes
//   Z_SYNC_FLUSH appends 'S', Z_FINISH appends 'E'
// and the pending output is handed out as avail_out permits (like zlib).
static std::string z_trace;          // canonical trace of gzip_buf::do_write calls
static std::string z_input;          // all input fed, in order
static std::string z_pending;        // stub: produced, not yet handed out
static bool z_cont=false;            // previous call returned with avail_out==0 -> the caller loops
static bool z_stub=false;
static long z_finish=0, z_sync=0;

typedef int (*deflate_t)(z_streamp,int);
extern "C" int deflate(z_streamp s,int flush)
{
	static deflate_t real=(deflate_t)dlsym(RTLD_NEXT,"deflate");
	bool cont=z_cont;
	size_t in_before=s->avail_in;
	const unsigned char *in_ptr=s->next_in;
	int r;
	if(z_stub) {
		if(!cont || in_before>0) {
			if(in_before>0) {
				char h[5]={'D',char((in_before>>24)&255),char((in_before>>16)&255),char((in_before>>8)&255),char(in_before&255)};
				z_pending.append(h,5);
				z_pending.append(reinterpret_cast<const char*>(in_ptr),in_before);
			}
			if(!cont && flush==Z_SYNC_FLUSH) z_pending.push_back('S');
			if(!cont && flush==Z_FINISH) z_pending.push_back('E');
		}
		s->next_in+=in_before; s->avail_in=0; s->total_in+=in_before;
		size_t k=z_pending.size()<s->avail_out?z_pending.size():s->avail_out;
		memcpy(s->next_out,z_pending.data(),k);
		z_pending.erase(0,k);
		s->next_out+=k; s->avail_out-=k; s->total_out+=k;
		r = (flush==Z_FINISH && z_pending.empty() && s->avail_out>0) ? Z_STREAM_END : Z_OK;
	}
	else {
		r=real(s,flush);
	}
	size_t used=in_before - s->avail_in;
	if(used>0) z_input.append(reinterpret_cast<const char*>(in_ptr),used);
	if(!cont) {
		z_trace += (flush==Z_NO_FLUSH?'n':flush==Z_SYNC_FLUSH?'s':flush==Z_FINISH?'e':'?');
		z_trace += std::to_string(in_before);
		z_trace += '.';
		if(flush==Z_FINISH) z_finish++;
		if(flush==Z_SYNC_FLUSH) z_sync++;
	}
	else if(in_before>0) {
		z_trace += "+"; z_trace += std::to_string(in_before); z_trace += '.';
	}
	z_cont = (s->avail_out==0);
	return r;
}

// ------------------------------------------------------------------ payload generator (same as Model.lean genBytes)
static void gen_bytes(long seed,long n,std::string &out)
{
	uint64_t x=uint64_t(seed) & 0x7fffffffULL;
	out.resize(n);
	for(long i=0;i<n;i++) {
		x=(x*1103515245ULL+12345ULL) & 0x7fffffffULL;
		out[i]=char((x>>16)&255);
	}
}

// ------------------------------------------------------------------ the applications
struct runner : public booster::callable<void(cppcms::http::context::completion_type)> {
	typedef booster::intrusive_ptr<runner> ptr;
	booster::shared_ptr<cppcms::http::context> ctx;   // async only
	cppcms::application *app;                          // sync only
	case_t cs;
	size_t pc;
	bool async;
	std::string note;
	runner() : app(0), pc(0), async(false) {}

	cppcms::http::response &resp() { return async ? ctx->response() : app->response(); }
	cppcms::cache_interface &cache() { return async ? ctx->cache() : app->cache(); }
	void add_note(std::string const &s) { if(!note.empty()) note+=';'; note+=s; }

	void finish_app()
	{
		std::lock_guard<std::mutex> g(g_mx);
		g_app_note = note.empty() ? "-" : note;
		g_app_done = true;
		g_cv.notify_all();
	}
	// returns false when the script continues later from a completion callback
	bool step()
	{
		using namespace cppcms;
		while(pc < cs.script.size()) {
			op_t const &o=cs.script[pc++];
			switch(o.k) {
			case 'w': { std::string b; gen_bytes(o.seed,o.n,b); resp().out().write(b.data(),b.size()); if(!resp().out()) add_note("badstream@"+std::to_string(pc-1)); } break;
			case 'p': { std::string b; gen_bytes(o.seed,o.n,b); std::ostream &os=resp().out(); for(size_t i=0;i<b.size();i++) os.put(b[i]); if(!os) add_note("badstream@"+std::to_string(pc-1)); } break;
			case 'x': { resp().out().write(o.s1.data(),o.s1.size()); if(!resp().out()) add_note("badstream@"+std::to_string(pc-1)); } break;
			case 'o': resp().out(); break;
			case 'Z': resp().finalize(); break;   // explicit finalize (exploration only, never generated)
			case 'f':
				if(async) {
					ctx->async_flush_output(ptr(this));
					return false;
				}
				resp().out().flush();
				if(!resp().out()) add_note("badstream@"+std::to_string(pc-1));
				break;
			case 'b': resp().setbuf(int(o.n)); break;
			case 'F': resp().full_asynchronous_buffering(o.n!=0); break;
			case 'h': resp().set_header(o.s1,o.s2); break;
			case 'a': resp().add_header(o.s1,o.s2); break;
			case 'k': resp().set_cookie(http::cookie(o.s1,o.s2)); break;
			case 'L': resp().content_length(o.n); break;
			case 'S': resp().status(int(o.n)); break;
			case 'C': if(cache().fetch_page(o.s1)) { add_note("hit"); pc=cs.script.size(); } break;
			case 'T': {
				cache().store_page(o.s1);
				std::string got;
				// store_page files the page under "_Z:" when fetch_page found need_gzip() true; out() then set Content-Encoding
				bool z = resp().get_header("Content-Encoding")=="gzip";
				bool ok=cache().fetch_frame((z?"_Z:":"_U:")+o.s1,got,true);
				std::lock_guard<std::mutex> g(g_mx);
				g_cache_have=ok; g_cache_copy=got;
				if(z) note+= note.empty() ? "zkey" : ";zkey";
				} break;
			default: add_note("bad-op"); break;
			}
		}
		return true;
	}
	void operator()(cppcms::http::context::completion_type ct)
	{
		if(ct!=cppcms::http::context::operation_completed) { add_note("aborted@"+std::to_string(pc)); finish_app(); return; }
		run();
	}
	void run()
	{
		try {
			if(!step()) return;
		}
		catch(std::exception const &e) { add_note(std::string("exception:")+e.what()); for(size_t i=0;i<note.size();i++) if(note[i]==' '||note[i]=='\n') note[i]='_'; }
		if(async) {
			try { ctx->async_complete_response(); }
			catch(std::exception const &e) { add_note("exception-at-complete"); }
			ctx.reset();
		}
		finish_app();
	}
};

static cppcms::http::response::io_mode_type mode_of(std::string const &m)
{
	using cppcms::http::response;
	if(m=="normal") return response::normal;
	if(m=="nogzip") return response::nogzip;
	if(m=="raw") return response::raw;
	if(m=="async") return response::asynchronous;
	return response::asynchronous_raw;
}

class sync_app : public cppcms::application {
public:
	sync_app(cppcms::service &s) : cppcms::application(s) {}
	virtual void main(std::string)
	{
		runner::ptr r(new runner());
		{ std::lock_guard<std::mutex> g(g_mx); r->cs=g_case; }
		r->app=this; r->async=false;
		response().io_mode(mode_of(r->cs.mode));
		r->run();
	}
};

class async_app : public cppcms::application {
public:
	async_app(cppcms::service &s) : cppcms::application(s) {}
	virtual void main(std::string)
	{
		runner::ptr r(new runner());
		{ std::lock_guard<std::mutex> g(g_mx); r->cs=g_case; }
		r->async=true;
		response().io_mode(mode_of(r->cs.mode));
		r->ctx=release_context();
		r->run();
	}
};

// ------------------------------------------------------------------ client side
static std::string g_scgi_path, g_fcgi_path;
static int g_http_port=0;

static int connect_unix(std::string const &path)
{
	int fd=::socket(AF_UNIX,SOCK_STREAM,0);
	struct sockaddr_un a; memset(&a,0,sizeof(a)); a.sun_family=AF_UNIX; strncpy(a.sun_path,path.c_str(),sizeof(a.sun_path)-1);
	for(int i=0;i<200;i++) { if(::connect(fd,(struct sockaddr*)&a,sizeof(a))==0) return fd; usleep(10000); }
	::close(fd); return -1;
}
static int connect_tcp(int port)
{
	int fd=::socket(AF_INET,SOCK_STREAM,0);
	struct sockaddr_in a; memset(&a,0,sizeof(a)); a.sin_family=AF_INET; a.sin_port=htons(port); a.sin_addr.s_addr=htonl(INADDR_LOOPBACK);
	for(int i=0;i<200;i++) { if(::connect(fd,(struct sockaddr*)&a,sizeof(a))==0) return fd; usleep(10000); }
	::close(fd); return -1;
}
static bool send_all(int fd,std::string const &s)
{
	size_t off=0;
	while(off<s.size()) { ssize_t n=::send(fd,s.data()+off,s.size()-off,MSG_NOSIGNAL); if(n<=0) { if(n<0 && errno==EINTR) continue; return false; } off+=n; }
	return true;
}
typedef std::vector<std::pair<std::string,std::string> > env_t;
static std::string fcgi_rec(int type,std::string const &content)
{
	std::string r; size_t n=content.size();
	r.push_back(1); r.push_back(char(type)); r.push_back(0); r.push_back(1);
	r.push_back(char(n>>8)); r.push_back(char(n&255)); r.push_back(0); r.push_back(0);
	r+=content; return r;
}
static void fcgi_len(std::string &o,size_t n) { if(n<128) o.push_back(char(n)); else { o.push_back(char(0x80|(n>>24))); o.push_back(char(n>>16)); o.push_back(char(n>>8)); o.push_back(char(n)); } }

// ---- independent de-framers -------------------------------------------------------------
struct deframed { std::string verdict; std::string hdr, body; bool complete; deframed():complete(false){} };

// CGI style: header block up to the first CRLFCRLF, rest is the body
static void split_cgi(std::string const &s,deframed &d)
{
	size_t p=s.find("\r\n\r\n");
	if(p==std::string::npos) { d.verdict="no-header-end"; return; }
	d.hdr=s.substr(0,p+4); d.body=s.substr(p+4); d.verdict="ok"; d.complete=true;
}
static std::string lower(std::string s) { for(size_t i=0;i<s.size();i++) if('A'<=s[i]&&s[i]<='Z') s[i]+=32; return s; }
// value of the first header called `name` (lower case) in a header block; count in *cnt
static std::string header_value(std::string const &hdr,std::string const &name,int *cnt=0)
{
	std::string res; int c=0; size_t pos=0;
	while(pos<hdr.size()) {
		size_t e=hdr.find("\r\n",pos); if(e==std::string::npos) break;
		std::string line=hdr.substr(pos,e-pos); pos=e+2;
		size_t col=line.find(':'); if(col==std::string::npos) continue;
		if(lower(line.substr(0,col))==name) { size_t v=col+1; while(v<line.size() && (line[v]==' '||line[v]=='\t')) v++; if(c==0) res=line.substr(v); c++; }
	}
	if(cnt) *cnt=c;
	return res;
}
// HTTP/1.x response: status line + headers; body by Content-Length, chunked (RFC 7230 4.1) or until close.
// `eof` tells whether the peer has closed; complete=false means "need more bytes".
static void deframe_http(std::string const &s,bool eof,deframed &d)
{
	d=deframed();
	size_t p=s.find("\r\n\r\n");
	if(p==std::string::npos) { d.verdict= eof ? "no-header-end" : "more"; return; }
	d.hdr=s.substr(0,p+4);
	if(d.hdr.compare(0,5,"HTTP/")!=0) { d.verdict="bad-status-line"; d.complete=true; return; }
	size_t b=p+4;
	int ncl=0,nte=0;
	std::string cl=header_value(d.hdr,"content-length",&ncl);
	std::string te=header_value(d.hdr,"transfer-encoding",&nte);
	if(ncl>1 || nte>1) { d.verdict="duplicate-framing-header"; d.complete=true; return; }
	if(nte==1) {
		if(lower(te)!="chunked") { d.verdict="bad-te"; d.complete=true; return; }
		if(d.hdr.compare(0,8,"HTTP/1.1")!=0) { d.verdict="chunked-on-http10"; d.complete=true; return; }
		if(ncl) { d.verdict="cl-and-te"; d.complete=true; return; }
		size_t q=b;
		for(;;) {
			size_t e=s.find("\r\n",q);
			if(e==std::string::npos) { d.verdict= eof ? "chunk-size-truncated" : "more"; return; }
			if(e==q || e-q>16) { d.verdict="bad-chunk-size"; d.complete=true; return; }
			size_t n=0;
			for(size_t i=q;i<e;i++) { int v=vh::hexval(s[i]); if(v<0) { d.verdict="bad-chunk-size"; d.complete=true; return; } n=n*16+v; }
			q=e+2;
			if(n==0) {
				// last-chunk, no trailers are ever produced: expect CRLF
				if(s.size()<q+2) { d.verdict= eof ? "terminator-truncated" : "more"; return; }
				if(s.compare(q,2,"\r\n")!=0) { d.verdict="bad-terminator"; d.complete=true; return; }
				q+=2;
				d.complete=true;
				d.verdict = (q==s.size()) ? "ok" : (eof ? "trailing-garbage" : "ok");
				if(q!=s.size()) d.verdict="trailing-garbage";
				return;
			}
			if(s.size()<q+n+2) { d.verdict= eof ? "chunk-truncated" : "more"; return; }
			d.body.append(s,q,n); q+=n;
			if(s.compare(q,2,"\r\n")!=0) { d.verdict="bad-chunk-end"; d.complete=true; return; }
			q+=2;
		}
	}
	if(ncl==1) {
		size_t n=0; if(cl.empty()) { d.verdict="bad-cl"; d.complete=true; return; }
		for(size_t i=0;i<cl.size();i++) { if(cl[i]<'0'||cl[i]>'9') { d.verdict="bad-cl"; d.complete=true; return; } n=n*10+(cl[i]-'0'); }
		if(s.size()<b+n) { d.verdict= eof ? "body-truncated" : "more"; return; }
		d.body=s.substr(b,n); d.complete=true;
		d.verdict = (s.size()==b+n) ? "ok" : "trailing-garbage";
		return;
	}
	// neither: body runs until the connection is closed
	if(!eof) { d.verdict="more"; return; }
	d.body=s.substr(b); d.complete=true; d.verdict="ok-until-close";
}
// FastCGI: sequence of records; STDOUT contents concatenated = CGI response; empty STDOUT then END_REQUEST, nothing after.
static void deframe_fcgi(std::string const &s,deframed &d,std::string &recs)
{
	d=deframed();
	std::string out; size_t q=0; int state=0; // 0 = stdout data, 1 = saw empty stdout, 2 = saw end_request
	while(q<s.size()) {
		if(s.size()-q<8) { d.verdict="record-header-truncated"; return; }
		unsigned char const *h=reinterpret_cast<unsigned char const*>(s.data()+q);
		int ver=h[0],type=h[1],id=(h[2]<<8)|h[3]; size_t n=(h[4]<<8)|h[5]; size_t pad=h[6];
		if(ver!=1) { d.verdict="bad-version"; return; }
		if(id!=1) { d.verdict="bad-request-id"; return; }
		if(s.size()-q-8<n+pad) { d.verdict="record-truncated"; return; }
		recs += std::to_string(type)+":"+std::to_string(n)+":"+std::to_string(pad)+"/";
		if(state==2) { d.verdict="record-after-end-request"; return; }
		if(type==6) {
			if(state==1) { d.verdict="stdout-after-stdout-eof"; return; }
			if(n==0) state=1; else out.append(s,q+8,n);
		}
		else if(type==3) {
			if(state!=1) { d.verdict="end-request-before-stdout-eof"; return; }
			if(n!=8) { d.verdict="bad-end-request-length"; return; }
			if(h[8]|h[9]|h[10]|h[11]) { d.verdict="app-status-nonzero"; return; }
			if(h[12]!=0) { d.verdict="protocol-status-nonzero"; return; }
			state=2;
		}
		else { d.verdict="unexpected-record-type"; return; }
		q+=8+n+pad;
	}
	if(state!=2) { d.verdict="no-end-request"; return; }
	split_cgi(out,d);
}
static bool gunzip(std::string const &in,std::string &out)
{
	z_stream z; memset(&z,0,sizeof(z));
	if(inflateInit2(&z,15+16)!=Z_OK) return false;
	z.next_in=(Bytef*)in.data(); z.avail_in=in.size();
	char buf[65536]; int r=Z_OK; out.clear();
	while(r!=Z_STREAM_END) {
		z.next_out=(Bytef*)buf; z.avail_out=sizeof(buf);
		r=inflate(&z,Z_NO_FLUSH);
		if(r!=Z_OK && r!=Z_STREAM_END) { inflateEnd(&z); return false; }
		out.append(buf,sizeof(buf)-z.avail_out);
		if(r==Z_OK && z.avail_in==0 && z.avail_out!=0) { inflateEnd(&z); return false; } // truncated
	}
	bool ok = z.avail_in==0;   // nothing after the gzip member
	inflateEnd(&z);
	return ok;
}

static bool parse_case(std::vector<std::string> const &w,case_t &c,std::string &err)
{
	if(w.size()!=5) { err="bad-op"; return false; }
	c=case_t(); c.proto=w[0]; c.mode=w[1];
	// "...2": the same request is sent a second time on the same (keep-alive) connection
	if(c.proto=="http11ka2"||c.proto=="http10ka2"||c.proto=="fcgi2") { c.twice=true; c.proto.erase(c.proto.size()-1); }
	if(c.proto!="scgi"&&c.proto!="fcgi"&&c.proto!="http10"&&c.proto!="http11"&&c.proto!="http10ka"&&c.proto!="http11ka") { err="bad-op"; return false; }
	if(c.mode!="normal"&&c.mode!="nogzip"&&c.mode!="raw"&&c.mode!="async"&&c.mode!="asyncraw") { err="bad-op"; return false; }
	auto split=[](std::string const &s){ std::vector<std::string> r; if(s=="-") return r; size_t p=0; for(;;){ size_t e=s.find(',',p); r.push_back(s.substr(p,e==std::string::npos?e:e-p)); if(e==std::string::npos) break; p=e+1;} return r; };
	for(auto const &o: split(w[2])) { if(o=="gz") c.gz=true; else if(o=="zstub") c.zstub=true; else { err="bad-op"; return false; } }
	for(auto const &o: split(w[3])) {
		if(o.empty()) { err="bad-op"; return false; }
		op_t op; op.k=o[0]; op.n=0; op.seed=0;
		std::string a=o.substr(1);
		switch(op.k) {
		case 'w': case 'p': { size_t d=a.find('.'); if(d==std::string::npos) { err="bad-op"; return false; } op.n=atol(a.substr(0,d).c_str()); op.seed=atol(a.substr(d+1).c_str()); } break;
		case 'x': if(!vh::unhex(a,op.s1)) { err="bad-op"; return false; } break;
		case 'f': case 'o': case 'Z': break;
		case 'b': op.n = (a=="-") ? -1 : atol(a.c_str()); break;
		case 'F': case 'L': case 'S': op.n=atol(a.c_str()); break;
		case 'h': case 'a': case 'k': { size_t d=a.find(':'); if(d==std::string::npos) { err="bad-op"; return false; } op.s1=a.substr(0,d); if(!vh::unhex(a.substr(d+1),op.s2)) { err="bad-op"; return false; } } break;
		case 'C': case 'T': op.s1=a; break;
		default: err="bad-op"; return false;
		}
		c.script.push_back(op);
	}
	for(auto const &o: split(w[4])) {
		sched_t s; s.k=o.empty()?'?':o[0]; s.n=0;
		if(s.k=='a') s.n=atol(o.c_str()+1);
		else if(s.k!='w' && s.k!='f') { err="bad-op"; return false; }
		c.sched.push_back(s);
	}
	return true;
}

static std::string run_case(std::vector<std::string> const &w)
{
	case_t c; std::string err;
	if(!parse_case(w,c,err)) return err;
	bool async = c.mode=="async" || c.mode=="asyncraw";
	std::string path = async ? "/async" : "/sync";
	{
		std::lock_guard<std::mutex> g(g_mx);
		g_case=c; g_app_done=false; g_app_note="-"; g_cache_copy.clear(); g_cache_have=false;
		g_sched_pos=0; st_calls=st_short=st_wb=st_natural=st_wb_blocking=0;
		z_trace.clear(); z_input.clear(); z_pending.clear(); z_cont=false; z_stub=c.zstub; z_finish=z_sync=0;
	}
	int fd=-1;
	std::string req;
	if(c.proto=="scgi") {
		fd=connect_unix(g_scgi_path);
		env_t env; env.push_back({"CONTENT_LENGTH","0"}); env.push_back({"SCGI","1"}); env.push_back({"REQUEST_METHOD","GET"});
		env.push_back({"SCRIPT_NAME",""}); env.push_back({"PATH_INFO",path}); env.push_back({"QUERY_STRING",""}); env.push_back({"SERVER_PROTOCOL","HTTP/1.0"});
		if(c.gz) env.push_back({"HTTP_ACCEPT_ENCODING","gzip"});
		std::string b; for(auto const &kv: env) { b+=kv.first; b.push_back(0); b+=kv.second; b.push_back(0); }
		req=std::to_string(b.size())+":"+b+",";
	}
	else if(c.proto=="fcgi") {
		fd=connect_unix(g_fcgi_path);
		env_t env; env.push_back({"CONTENT_LENGTH","0"}); env.push_back({"REQUEST_METHOD","GET"});
		env.push_back({"SCRIPT_NAME",""}); env.push_back({"PATH_INFO",path}); env.push_back({"QUERY_STRING",""}); env.push_back({"SERVER_PROTOCOL","HTTP/1.0"});
		if(c.gz) env.push_back({"HTTP_ACCEPT_ENCODING","gzip"});
		std::string b; for(auto const &kv: env) { fcgi_len(b,kv.first.size()); fcgi_len(b,kv.second.size()); b+=kv.first; b+=kv.second; }
		std::string begin; begin.push_back(0); begin.push_back(1); begin.push_back(c.twice?1:0); begin.append(5,'\0');   // responder; FCGI_KEEP_CONN when the connection is reused
		req=fcgi_rec(1,begin)+fcgi_rec(4,b)+fcgi_rec(4,"")+fcgi_rec(5,"");
	}
	else {
		fd=connect_tcp(g_http_port);
		bool v11 = c.proto.compare(0,6,"http11")==0;
		bool ka = c.proto.size()==8;
		req="GET "+path+" HTTP/"+(v11?"1.1":"1.0")+"\r\nHost: localhost\r\n";
		if(ka) req+="Connection: keep-alive\r\n";
		if(c.gz) req+="Accept-Encoding: gzip\r\n";
		req+="\r\n";
	}
	if(fd<0) return "connect-failed";
	g_sched_on.store(true);
	std::string wire; bool timeout=false, shut=false; deframed d; std::string recs;
	bool is_http = c.proto.compare(0,4,"http")==0;
	if(!send_all(fd,req)) { g_sched_on.store(false); ::close(fd); return "send-failed"; }
	// no further request will follow: a keep-alive server then closes after the response instead of waiting
	if(is_http && !c.twice) { ::shutdown(fd,SHUT_WR); shut=true; }
	char buf[65536];
	std::string first; bool second_sent=false; std::string twice_note;
	for(;;) {
		struct pollfd p; p.fd=fd; p.events=POLLIN; p.revents=0;
		int r=::poll(&p,1,20000);
		if(r==0) { timeout=true; break; }
		if(r<0) { if(errno==EINTR) continue; break; }
		ssize_t n=::recv(fd,buf,sizeof(buf),0);
		if(n<0) { if(errno==EINTR) continue; break; }
		if(n==0) break;
		wire.append(buf,n);
		bool complete=false;
		if(is_http && !shut) { deframe_http(wire,false,d); complete=d.complete; }
		else if(c.proto=="fcgi" && c.twice) { deframed t; std::string rr; deframe_fcgi(wire,t,rr); complete = t.verdict=="ok"; }
		if(complete && c.twice && !second_sent) {
			// first response complete on a connection the server keeps open: wait for the application, then ask again
			{
				std::unique_lock<std::mutex> lk(g_mx);
				g_cv.wait_for(lk,std::chrono::seconds(20),[]{return g_app_done;});
				if(g_app_note!="-") twice_note="first:"+g_app_note;
				g_app_done=false; g_app_note="-";
				z_trace.clear(); z_input.clear(); z_pending.clear(); z_cont=false; z_finish=z_sync=0;
			}
			first.swap(wire); wire.clear();
			if(!send_all(fd,req)) { twice_note="second-send-failed"; break; }
			second_sent=true;
			if(is_http) { ::shutdown(fd,SHUT_WR); shut=true; }
			continue;
		}
		if(complete && is_http && !shut) { ::shutdown(fd,SHUT_WR); shut=true; }
		if(complete && c.proto=="fcgi" && c.twice && second_sent) break;   // keep-conn: the server does not close
	}
	if(c.twice) {
		if(!second_sent) twice_note = twice_note.empty() ? "closed-after-first" : twice_note;
		else if(first!=wire) twice_note="second-response-differs";
		else if(twice_note.empty()) twice_note="twice-identical";
	}
	::close(fd);
	{
		std::unique_lock<std::mutex> lk(g_mx);
		g_cv.wait_for(lk,std::chrono::seconds(20),[]{return g_app_done;});
	}
	g_sched_on.store(false);
	std::string note, cache="none", ztr, zin; bool done;
	long sc,ss,sw,sn,sb;
	{
		std::lock_guard<std::mutex> g(g_mx);
		note=g_app_note; done=g_app_done; if(g_cache_have) cache=vh::hex(g_cache_copy);
		sc=st_calls; ss=st_short; sw=st_wb; sn=st_natural; sb=st_wb_blocking;
		ztr=z_trace.empty()?"-":z_trace; zin=z_input;
	}
	tot_calls+=sc; tot_short+=ss; tot_wb+=sw; tot_natural+=sn; if(ss||sn) tot_cases_with_short++; if(sw) tot_cases_with_wb++;
	if(is_http) deframe_http(wire,true,d);
	else if(c.proto=="fcgi") deframe_fcgi(wire,d,recs);
	else split_cgi(wire,d);
	std::string gun="-";
	if(c.gz && !c.zstub && d.complete && lower(header_value(d.hdr,"content-encoding"))=="gzip") {
		std::string o; gun = gunzip(d.body,o) ? "ok:"+vh::hex(o) : "fail";
	}
	std::string verdict=d.verdict.empty()?"none":d.verdict;
	if(timeout) verdict+="+timeout";
	if(!done) note+=";app-not-done";
	if(!twice_note.empty() && twice_note!="twice-identical" && twice_note!="closed-after-first") note = (note=="-") ? twice_note : note+";"+twice_note;
	if(twice_note=="twice-identical") tot_twice++;
	std::ostringstream r; r.imbue(std::locale::classic());
	r<<vh::hex(wire)<<' '<<cache<<' '<<verdict<<' '<<vh::hex(d.hdr)<<' '<<vh::hex(d.body)<<' '<<note<<' '<<ztr<<' '<<(zin.empty()?"-":vh::hex(zin))<<' '<<gun
	 <<" sched="<<ss<<'/'<<sw<<'/'<<sn<<'/'<<sc<<'/'<<sb<<" tw="<<(twice_note.empty()?"-":twice_note);
	return r.str();
}

static int free_port()
{
	int fd=::socket(AF_INET,SOCK_STREAM,0);
	struct sockaddr_in a; memset(&a,0,sizeof(a)); a.sin_family=AF_INET; a.sin_port=0; a.sin_addr.s_addr=htonl(INADDR_LOOPBACK);
	::bind(fd,(struct sockaddr*)&a,sizeof(a));
	socklen_t l=sizeof(a); ::getsockname(fd,(struct sockaddr*)&a,&l);
	int p=ntohs(a.sin_port); ::close(fd); return p;
}

// the embedding process may have installed a global locale with digit grouping: numbers in headers
// (Content-Length, Status, ...) must still be written in the classic form
struct c03_grouping : std::numpunct<char> {
	char do_thousands_sep() const override { return ','; }
	std::string do_grouping() const override { return "\3"; }
};

int main(int argc,char **argv)
{
	std::locale::global(std::locale(std::locale::classic(),new c03_grouping));
	// argv: [gzip buffer] [output_buffer_size] [async_output_buffer_size]
	int gzbuf = argc>1 ? atoi(argv[1]) : -1;
	int obuf  = argc>2 ? atoi(argv[2]) : 16384;
	int abuf  = argc>3 ? atoi(argv[3]) : 1024;
	char cwd[4096]; if(!getcwd(cwd,sizeof(cwd))) return 2;
	std::string base=std::string(cwd)+"/c03_"+std::to_string(getpid());
	g_scgi_path=base+"_s.sock"; g_fcgi_path=base+"_f.sock";
	if(g_scgi_path.size()>100) { g_scgi_path="/tmp/c03_"+std::to_string(getpid())+"_s.sock"; g_fcgi_path="/tmp/c03_"+std::to_string(getpid())+"_f.sock"; }
	int rc=0;
	// the HTTP acceptor needs a TCP port; other checks run concurrently, so retry when the port was taken meanwhile
	for(int attempt=0;attempt<8;attempt++) {
		g_http_port=free_port();
		::unlink(g_scgi_path.c_str()); ::unlink(g_fcgi_path.c_str());
		cppcms::json::value cfg;
		cfg["service"]["list"][0]["api"]="scgi";    cfg["service"]["list"][0]["socket"]=g_scgi_path;
		cfg["service"]["list"][1]["api"]="fastcgi"; cfg["service"]["list"][1]["socket"]=g_fcgi_path;
		cfg["service"]["list"][2]["api"]="http";    cfg["service"]["list"][2]["ip"]="127.0.0.1"; cfg["service"]["list"][2]["port"]=g_http_port;
		cfg["service"]["worker_threads"]=1;
		cfg["service"]["disable_xpowered_by"]=true;
		cfg["service"]["output_buffer_size"]=obuf;
		cfg["service"]["async_output_buffer_size"]=abuf;
		cfg["localization"]["disable_charset_in_content_type"]=true;
		cfg["gzip"]["enable"]=true;
		cfg["gzip"]["buffer"]=gzbuf;
		cfg["cache"]["backend"]="thread_shared";
		cfg["cache"]["limit"]=4096;
		cfg["http"]["timeout"]=30;
		cfg["logging"]["level"]="error";
		bool retry=false;
		try {
			cppcms::service srv(cfg);
			srv.applications_pool().mount(cppcms::create_pool<sync_app>(),cppcms::mount_point("/sync",0));
			srv.applications_pool().mount(cppcms::create_pool<async_app>(),cppcms::mount_point("/async",0),cppcms::app::asynchronous);
			std::string srv_err;
			std::atomic<bool> srv_done(false);
			std::thread t([&]{ try { srv.run(); } catch(std::exception const &e) { std::lock_guard<std::mutex> g(g_mx); srv_err=e.what(); g_app_done=true; g_cv.notify_all(); } srv_done.store(true); });
			// readiness probe: the listening sockets exist once connect() succeeds
			bool up=false;
			for(int i=0;i<400 && !srv_done.load();i++) {
				int fd=::socket(AF_INET,SOCK_STREAM,0);
				struct sockaddr_in a; memset(&a,0,sizeof(a)); a.sin_family=AF_INET; a.sin_port=htons(g_http_port); a.sin_addr.s_addr=htonl(INADDR_LOOPBACK);
				bool ok=::connect(fd,(struct sockaddr*)&a,sizeof(a))==0;
				::close(fd);
				if(ok) { up=true; break; }
				usleep(5000);
			}
			if(!up) {
				srv.shutdown(); t.join();
				std::cerr<<"service did not come up (attempt "<<attempt<<"): "<<srv_err<<std::endl;
				retry=true;
			}
			else {
				rc=vh::drive([&](std::vector<std::string> const &w)->std::string {
					{ std::lock_guard<std::mutex> g(g_mx); if(!srv_err.empty()) return "service-died "+srv_err; }
					return run_case(w);
				});
				srv.shutdown();
				t.join();
				if(!srv_err.empty()) { std::cerr<<"service exception: "<<srv_err<<std::endl; rc=3; }
			}
		}
		catch(std::exception const &e) { std::cerr<<"harness exception: "<<e.what()<<std::endl; rc=2; }
		if(!retry) break;
		rc=4;
	}
	::unlink(g_scgi_path.c_str()); ::unlink(g_fcgi_path.c_str());
	std::ofstream st("c03_stats.json"); st.imbue(std::locale::classic());
	st<<"{\"writev_calls\":"<<tot_calls<<",\"short_writes_injected\":"<<tot_short<<",\"would_blocks_injected\":"<<tot_wb
	  <<",\"natural_short_writes\":"<<tot_natural<<",\"cases_with_short_write\":"<<tot_cases_with_short<<",\"cases_with_would_block\":"<<tot_cases_with_wb<<",\"keepalive_second_response_identical\":"<<tot_twice<<"}\n";
	return rc;
}
