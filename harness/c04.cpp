// C04 harness: the real cppcms::xss::{validate,validate_and_filter_if_invalid,filter} behind the
// line protocol of lean/Cppcms/C04/Driver.lean.
//
//   C flags entities tags props preds input
//        flags    = three 0/1 digits: xhtml, comments_allowed, numeric_entities_allowed; optionally followed by
//                   :<encoding name hex>:<replacement char, decimal>  (rules::encoding(), repl_ch of the filter calls)
//        entities = hex,hex,…|-          rules::add_entity
//        tags     = hex:kind,…|-         rules::add_tag      (kind 0 invalid_tag 1 opening_and_closing 2 stand_alone 3 any_tag)
//        props    = taghex:prophex:spec  spec b = add_boolean_property, i = add_integer_property,
//                                        o<id> = add_property with external validator number id
//        preds    = id:type:arghex,…|-   type re (booster::regex), uri / absuri (rules::uri_validator(scheme,absolute)), reluri
//   O flags entities tags props preds id:valuehex,…      verdicts of the external validators (for the judge)
//
// External validators (PCRE, the URI parser) are wrapped so that every (id,value,verdict) they are asked
// during the case is appended to the output as T=…: the Lean model gets them as an oracle table.
// A second rules object is built with the plain API (no wrappers) and must give identical results.
#include "common.h"
#include <cppcms/xss.h>
#include <booster/regex.h>
#include <cppcms/encoding.h>
#include <pcre.h>
#include <booster/shared_ptr.h>
#include <map>
#include <set>

using namespace cppcms;

typedef std::set<std::pair<int,std::pair<std::string,bool> > > table_type;
static std::string hex0(std::string const &s) { std::string h=vh::hex(s); return h=="-"?std::string(""):h; }

// Full-match verdict of a pattern on a value computed with libpcre DIRECTLY (not through booster::regex): the harness
// compiles \A(?:pattern)\z itself and runs pcre_exec anchored, additionally requiring the reported match to span the
// whole subject.  This - not booster's verdict - is what the Lean model receives as the regex oracle, so a wrapper that
// stops anchoring (or stops checking the span) shows up as a difference between the real validate() and the model.
struct raw_regex {
	pcre *re;
	raw_regex() : re(0) {}
	void compile(std::string const &pattern)
	{
		std::string full="\\A(?:"+pattern+")\\z";
		char const *err=0; int off=0;
		re=pcre_compile(full.c_str(),0,&err,&off,0);
	}
	bool full_match(char const *b,char const *e) const
	{
		if(!re) return false;
		int ovec[3]={0,0,0};
		int rc=pcre_exec(re,0,b,int(e-b),0,PCRE_ANCHORED,ovec,3);
		return rc>=0 && ovec[0]==0 && ovec[1]==int(e-b);
	}
};

struct pred {
	std::string type;
	std::string arg;
	booster::regex re,sre;
	raw_regex raw;     // the pattern (type re) or the scheme expression (uri, absuri), compiled with libpcre directly
	xss::rules::validator_type v;
};

// the text uri_parser::scheme() would take at the start of a value (what the scheme regex is applied to)
static std::string scheme_text(char const *b,char const *e)
{
	std::string s;
	if(b==e || !(('a'<=*b && *b<='z') || ('A'<=*b && *b<='Z'))) return s;
	s+=*b++;
	while(b!=e) {
		char c=*b;
		if(('a'<=c && c<='z') || ('A'<=c && c<='Z') || ('0'<=c && c<='9') || c=='+' || c=='-' || c=='.') { s+=c; b++; }
		else break;
	}
	return s;
}

struct recording_validator {
	int id;
	pred const *p;
	table_type *table;
	bool operator()(char const *b,char const *e) const
	{
		// what the real validate() sees: booster::regex / the real URI validator
		bool r = p->type=="re" ? booster::regex_match(b,e,p->re) : p->v(b,e);
		// what the model is told: raw PCRE full match for regex attributes, the real verdict for URI validators (the model
		// recomputes those itself and cross-checks)
		bool told = p->type=="re" ? p->raw.full_match(b,e) : r;
		table->insert(std::make_pair(id,std::make_pair(std::string(b,e),told)));
		if(p->type=="uri" || p->type=="absuri") {
			// verdict of the scheme expression on the scheme text (raw PCRE): parameter of the Lean model of uri_parser
			std::string sch=scheme_text(b,e);
			table->insert(std::make_pair(id+1000,std::make_pair(sch,p->raw.full_match(sch.c_str(),sch.c_str()+sch.size()))));
		}
		return r;
	}
};

static std::vector<std::string> split(std::string const &s,char sep)
{
	std::vector<std::string> r;
	if(s=="-" || s.empty()) return r;
	size_t p=0;
	for(;;) {
		size_t q=s.find(sep,p);
		if(q==std::string::npos) { r.push_back(s.substr(p)); break; }
		r.push_back(s.substr(p,q-p));
		p=q+1;
	}
	return r;
}

struct built {
	xss::rules wrapped, direct;
	std::string enc;
	char repl;
	std::map<int,pred> preds;
	table_type table;
	std::string err;
};

static bool build(std::vector<std::string> const &w,built &b)
{
	b.repl=0;
	{
		std::vector<std::string> ff=split(w[1],':');
		if(ff.empty() || ff[0].size()!=3) return false;
		if(ff.size()==3) {
			if(!vh::unhex(ff[1].empty()?std::string("-"):ff[1],b.enc)) return false;
			b.repl=char(atoi(ff[2].c_str()));
		}
		else if(ff.size()!=1) return false;
	}
	xss::rules *rs[2]={&b.wrapped,&b.direct};
	std::vector<std::string> pl=split(w[5],',');
	for(size_t i=0;i<pl.size();i++) {
		std::vector<std::string> f=split(pl[i],':');
		if(f.size()<2) return false;
		pred p; p.type=f[1];
		if(f.size()>2 && !vh::unhex(f[2],p.arg)) return false;
		if(p.type=="re") { p.re=booster::regex(p.arg); p.raw.compile(p.arg); }
		else if(p.type=="uri") { p.v=xss::rules::uri_validator(p.arg,false); p.sre=booster::regex(p.arg); p.raw.compile(p.arg); }
		else if(p.type=="absuri") { p.v=xss::rules::uri_validator(p.arg,true); p.sre=booster::regex(p.arg); p.raw.compile(p.arg); }
		else if(p.type=="reluri") p.v=xss::rules::relative_uri_validator();
		else return false;
		b.preds[atoi(f[0].c_str())]=p;
	}
	for(int k=0;k<2;k++) {
		xss::rules &r=*rs[k];
		r.html(w[1][0]=='1' ? xss::rules::xhtml_input : xss::rules::html_input);
		r.comments_allowed(w[1][1]=='1');
		r.numeric_entities_allowed(w[1][2]=='1');
		if(!b.enc.empty()) r.encoding(b.enc);
		std::vector<std::string> l=split(w[2],',');
		for(size_t i=0;i<l.size();i++) { std::string n; if(!vh::unhex(l[i],n)) return false; r.add_entity(n); }
		l=split(w[3],',');
		for(size_t i=0;i<l.size();i++) {
			std::vector<std::string> f=split(l[i],':');
			std::string n;
			if(f.size()!=2 || !vh::unhex(f[0],n)) return false;
			xss::rules::tag_type t;
			switch(atoi(f[1].c_str())) {
			case 0: t=xss::rules::invalid_tag; break;
			case 1: t=xss::rules::opening_and_closing; break;
			case 2: t=xss::rules::stand_alone; break;
			default: t=xss::rules::any_tag;
			}
			r.add_tag(n,t);
		}
		l=split(w[4],',');
		for(size_t i=0;i<l.size();i++) {
			std::vector<std::string> f=split(l[i],':');
			std::string tn,pn;
			if(f.size()!=3 || !vh::unhex(f[0],tn) || !vh::unhex(f[1],pn)) return false;
			if(f[2]=="b") r.add_boolean_property(tn,pn);
			else if(f[2]=="i") r.add_integer_property(tn,pn);
			else if(f[2].size()>1 && f[2][0]=='o') {
				int id=atoi(f[2].c_str()+1);
				std::map<int,pred>::const_iterator pp=b.preds.find(id);
				if(pp==b.preds.end()) return false;
				if(k==0) {
					recording_validator rv; rv.id=id; rv.p=&pp->second; rv.table=&b.table;
					r.add_property(tn,pn,xss::rules::validator_type(rv));
				}
				else {
					pred const &p=pp->second;
					if(p.type=="re") r.add_property(tn,pn,p.re);
					else if(p.type=="uri") r.add_uri_property(tn,pn,p.arg);
					else r.add_property(tn,pn,p.v);
				}
			}
			else return false;
		}
	}
	return true;
}

static std::string table_str(table_type const &t)
{
	if(t.empty()) return "-";
	std::string r;
	for(table_type::const_iterator p=t.begin();p!=t.end();++p) {
		if(!r.empty()) r+=",";
		std::string h=vh::hex(p->second.first);
		if(h=="-") h="";
		r+=std::to_string(p->first)+":"+h+":"+(p->second.second?"1":"0");
	}
	return r;
}

struct outcome {
	bool v; bool brm,besc; std::string orm,oesc,frm,fesc; bool vrm,vesc; std::string err;
};

static outcome run_rules(xss::rules const &r,std::string const &x,char repl)
{
	static const std::string untouched("\x01UNTOUCHED\x01");
	outcome o;
	char const *b=x.c_str(),*e=b+x.size();
	o.v=xss::validate(b,e,r);
	o.orm=untouched; o.oesc=untouched;
	o.brm=xss::validate_and_filter_if_invalid(b,e,r,o.orm,xss::remove_invalid,repl);
	o.besc=xss::validate_and_filter_if_invalid(b,e,r,o.oesc,xss::escape_invalid,repl);
	if(o.brm) { if(o.orm!=untouched) o.err="touched-rm"; o.orm.clear(); }
	if(o.besc) { if(o.oesc!=untouched) o.err="touched-esc"; o.oesc.clear(); }
	o.frm=xss::filter(b,e,r,xss::remove_invalid,repl);
	o.fesc=xss::filter(b,e,r,xss::escape_invalid,repl);
	if(o.frm!=xss::filter(x,r,xss::remove_invalid,repl) || o.fesc!=xss::filter(x,r,xss::escape_invalid,repl)) o.err="overload-mismatch";
	o.vrm=xss::validate(o.frm.c_str(),o.frm.c_str()+o.frm.size(),r);
	o.vesc=xss::validate(o.fesc.c_str(),o.fesc.c_str()+o.fesc.size(),r);
	return o;
}

static std::string show(outcome const &o)
{
	std::string s;
	s+=std::string("v=")+(o.v?"1":"0");
	s+=std::string(" rm=")+(o.brm?"1:-":"0:"+vh::hex(o.orm));
	s+=std::string(" esc=")+(o.besc?"1:-":"0:"+vh::hex(o.oesc));
	s+=" frm="+vh::hex(o.frm)+" fesc="+vh::hex(o.fesc);
	s+=std::string(" vrm=")+(o.vrm?"1":"0")+" vesc="+(o.vesc?"1":"0");
	return s;
}

// what the external encoding validator says (oracle for the model): per-byte mask for single-byte charsets,
// verdicts / pre-filtered text for the strings of this case
static bool enc_is_utf8(std::string const &e)
{
	std::string n;
	for(size_t i=0;i<e.size();i++) { char c=e[i]; if(c>='A'&&c<='Z') c=c-'A'+'a'; if((c>='a'&&c<='z')||(c>='0'&&c<='9')) n+=c; }
	return n=="utf8";
}
static std::string enc_info(built const &b,std::string const &x,outcome const &o)
{
	if(b.enc.empty()) return "-";
	std::string r;
	if(enc_is_utf8(b.enc)) r="U";
	else {
		r="M:";
		for(int k=0;k<256;k+=4) {
			int v=0;
			for(int j=0;j<4;j++) { char c=char(k+j); size_t n=0; if(encoding::valid(b.enc,&c,&c+1,n)) v|=(8>>j); }
			r+="0123456789abcdef"[v];
		}
	}
	std::string const *ss[3]={&x,&o.frm,&o.fesc};
	for(int k=0;k<3;k++) {
		std::string const &s=*ss[k];
		size_t n=0;
		bool v=encoding::valid(b.enc,s.c_str(),s.c_str()+s.size(),n);
		r+=",V:"+hex0(s)+":"+(v?"1":"0");
		std::string out;
		bool v2=encoding::validate_or_filter(b.enc,s.c_str(),s.c_str()+s.size(),out,b.repl);
		if(v2!=v) r+=",X:valid-vs-validate_or_filter-disagree";
		if(!v2) r+=",P:"+hex0(s)+":"+hex0(out);
	}
	return r;
}

static std::string run(std::vector<std::string> const &w)
{
	if(w.size()==4 && w[0]=="U") {
		// U kind schemehex valuehex : one call of the URI validator
		std::string sch,v;
		if(!vh::unhex(w[2].empty()?std::string("-"):w[2],sch) || !vh::unhex(w[3],v)) return "bad-op";
		xss::rules::validator_type val;
		if(w[1]=="uri") val=xss::rules::uri_validator(sch,false);
		else if(w[1]=="absuri") val=xss::rules::uri_validator(sch,true);
		else if(w[1]=="reluri") val=xss::rules::relative_uri_validator();
		else return "bad-op";
		bool r=val(v.c_str(),v.c_str()+v.size());
		std::string st=scheme_text(v.c_str(),v.c_str()+v.size());
		raw_regex rr; if(w[1]!="reluri") rr.compile(sch);
		bool sv = w[1]=="reluri" ? false : rr.full_match(st.c_str(),st.c_str()+st.size());
		return std::string(r?"1":"0")+" T=1000:"+hex0(st)+":"+(sv?"1":"0");
	}
	if(w.size()!=7) return "bad-op";
	built b;
	if(!build(w,b)) return "bad-op";
	if(w[0]=="C") {
		std::string x;
		if(!vh::unhex(w[6],x)) return "bad-op";
		outcome o1=run_rules(b.wrapped,x,b.repl);
		outcome o2=run_rules(b.direct,x,b.repl);
		if(!o1.err.empty()) return o1.err;
		if(!o2.err.empty()) return o2.err;
		std::string s1=show(o1),s2=show(o2);
		if(s1!=s2) return "direct-mismatch "+s1+" / "+s2;
		return s1+" T="+table_str(b.table)+" E="+enc_info(b,x,o1);
	}
	if(w[0]=="O") {
		std::vector<std::string> q=split(w[6],',');
		for(size_t i=0;i<q.size();i++) {
			std::vector<std::string> f=split(q[i]+":",':');   // value may be empty
			if(f.size()<2) return "bad-op";
			std::string v;
			if(!vh::unhex(f[1].empty()?std::string("-"):f[1],v)) return "bad-op";
			int id=atoi(f[0].c_str());
			std::map<int,pred>::const_iterator pp=b.preds.find(id);
			if(pp==b.preds.end()) return "bad-op";
			recording_validator rv; rv.id=id; rv.p=&pp->second; rv.table=&b.table;
			rv(v.c_str(),v.c_str()+v.size());
		}
		return "T="+table_str(b.table);
	}
	return "bad-op";
}

int main() { return vh::drive(run); }
