// C17 harness: the real booster::aio::io_service / deadline_timer / stream_socket and cppcms::thread_pool
// behind the line protocol of lean/Cppcms/C17/Driver.lean.
//
// Lock-step mode (L lines): the thread inside io_service::run() is parked every time it enters the
// reactor's system call (epoll_wait / poll / select are interposed at link time).  While it is parked
// the code is exactly at `reactor_->poll(...)` with polling_ == true and the mutex released, so the
// driving thread can issue a scripted batch of operations; `step[:f]` resumes the loop thread for one
// run_one iteration: the real system call is made with timeout 0 and its result is filtered down to
// socket f (the kernel may report any subset of the ready descriptors).  gettimeofday is interposed
// (virtual clock), so timers are deterministic.  Handlers are counting callables whose destruction is
// observed too (a handler destroyed without having been invoked was silently dropped).
//
// Free-running mode (C lines, thorough tier): k producer threads against a running loop, real time,
// real blocking polls and wake-ups; per-handler counters checked at quiescence.
#include "common.h"
#include <booster/aio/io_service.h>
#include <booster/aio/stream_socket.h>
#include <booster/aio/deadline_timer.h>
#include <booster/aio/acceptor.h>
#include <booster/aio/endpoint.h>
#include <booster/aio/buffer.h>
#include <booster/aio/reactor.h>
#include <booster/aio/aio_category.h>
#include <booster/posix_time.h>
#include <booster/system_error.h>
#include <booster/callback.h>
#include <cppcms/thread_pool.h>
#include <sys/socket.h>
#include <netinet/in.h>
#include <arpa/inet.h>
#include <sys/time.h>
#include <sys/epoll.h>
#include <sys/select.h>
#include <poll.h>
#include <unistd.h>
#include <fcntl.h>
#include <dlfcn.h>
#include <errno.h>
#include <signal.h>
#include <thread>
#include <mutex>
#include <condition_variable>
#include <atomic>
#include <set>
#include <map>
#include <memory>
#include <algorithm>
#include <stdexcept>
#include <chrono>

namespace io = booster::aio;
typedef booster::system::error_code error_code;

// ------------------------------------------------------------------ lock-step control + interposers
namespace ls {
	std::mutex m;
	std::condition_variable cv;
	bool lockstep=false;          // park the loop thread at its poll point
	bool virtual_time=false;
	long long vnow_ms=0;
	unsigned long park_gen=0;     // incremented every time the loop thread parks
	bool go=false;
	bool exited=false;            // run() returned or threw
	bool failed=false;
	int filter_fd=-1;             // only this one of our descriptors may be reported
	std::set<int> our_fds;        // descriptors of the scenario's sockets
	thread_local bool is_loop=false;
	static const long long BASE_SEC=1000000;

	void park()
	{
		std::unique_lock<std::mutex> lk(m);
		park_gen++;
		cv.notify_all();
		cv.wait(lk,[]{return go;});
		go=false;
	}
	bool hidden(int fd)
	{
		return our_fds.count(fd) && fd!=filter_fd;
	}
}

extern "C" int gettimeofday(struct timeval *tv,void *tz)
{
	typedef int (*fn_t)(struct timeval *,void *);
	static fn_t real=(fn_t)dlsym(RTLD_NEXT,"gettimeofday");
	if(ls::virtual_time && tv) {
		long long v;
		{ std::unique_lock<std::mutex> lk(ls::m); v=ls::vnow_ms; }
		tv->tv_sec=ls::BASE_SEC+v/1000;
		tv->tv_usec=(v%1000)*1000;
		return 0;
	}
	return real(tv,tz);
}

extern "C" int epoll_wait(int epfd,struct epoll_event *evs,int maxevents,int timeout)
{
	typedef int (*fn_t)(int,struct epoll_event *,int,int);
	static fn_t real=(fn_t)dlsym(RTLD_NEXT,"epoll_wait");
	if(!(ls::lockstep && ls::is_loop))
		return real(epfd,evs,maxevents,timeout);
	ls::park();
	int n=real(epfd,evs,maxevents,0);
	if(n<=0) return n;
	int k=0;
	std::unique_lock<std::mutex> lk(ls::m);
	for(int i=0;i<n;i++) {
		if(ls::hidden(evs[i].data.fd)) continue;
		evs[k++]=evs[i];
	}
	return k;
}

extern "C" int poll(struct pollfd *fds,nfds_t nfds,int timeout)
{
	typedef int (*fn_t)(struct pollfd *,nfds_t,int);
	static fn_t real=(fn_t)dlsym(RTLD_NEXT,"poll");
	if(!(ls::lockstep && ls::is_loop))
		return real(fds,nfds,timeout);
	ls::park();
	int n=real(fds,nfds,0);
	if(n<=0) return n;
	int k=0;
	std::unique_lock<std::mutex> lk(ls::m);
	for(nfds_t i=0;i<nfds;i++) {
		if(fds[i].revents==0) continue;
		if(ls::hidden(fds[i].fd)) { fds[i].revents=0; continue; }
		k++;
	}
	return k;
}

extern "C" int select(int nfds,fd_set *r,fd_set *w,fd_set *e,struct timeval *tv)
{
	typedef int (*fn_t)(int,fd_set *,fd_set *,fd_set *,struct timeval *);
	static fn_t real=(fn_t)dlsym(RTLD_NEXT,"select");
	if(!(ls::lockstep && ls::is_loop))
		return real(nfds,r,w,e,tv);
	ls::park();
	struct timeval zero={0,0};
	int n=real(nfds,r,w,e,&zero);
	if(n<=0) return n;
	int k=0;
	std::unique_lock<std::mutex> lk(ls::m);
	for(int fd=0;fd<nfds;fd++) {
		bool hid=ls::hidden(fd);
		fd_set *sets[3]={r,w,e};
		for(int j=0;j<3;j++) {
			if(sets[j] && FD_ISSET(fd,sets[j])) {
				if(hid) FD_CLR(fd,sets[j]); else k++;
			}
		}
	}
	return k;
}

// ------------------------------------------------------------------ loopback listeners for connect scenarios
// process-wide, created on first use, kept at high descriptor numbers.  `full`: backlog 0 with its accept queue already
// full - further SYNs are dropped, so a non-blocking connect() stays "in progress"; `good`: completes the handshake.
namespace lst {
	static int high(int fd) { if(fd<0) return fd; int h=::fcntl(fd,F_DUPFD,300); ::close(fd); return h; }
	static int make_listener(int backlog,int &port)
	{
		int l=high(::socket(AF_INET,SOCK_STREAM,0));
		if(l<0) return -1;
		struct sockaddr_in a; memset(&a,0,sizeof(a));
		a.sin_family=AF_INET; a.sin_addr.s_addr=htonl(INADDR_LOOPBACK); a.sin_port=0;
		if(::bind(l,(struct sockaddr *)&a,sizeof(a))<0 || ::listen(l,backlog)<0) { ::close(l); return -1; }
		socklen_t len=sizeof(a);
		if(::getsockname(l,(struct sockaddr *)&a,&len)<0) { ::close(l); return -1; }
		port=ntohs(a.sin_port);
		return l;
	}
	static int raw_connect(int port,bool nonblocking)
	{
		int f=high(::socket(AF_INET,SOCK_STREAM,0));
		if(f<0) return -1;
		if(nonblocking) ::fcntl(f,F_SETFL,::fcntl(f,F_GETFL,0)|O_NONBLOCK);
		struct sockaddr_in a; memset(&a,0,sizeof(a));
		a.sin_family=AF_INET; a.sin_addr.s_addr=htonl(INADDR_LOOPBACK); a.sin_port=htons(port);
		int r=::connect(f,(struct sockaddr *)&a,sizeof(a));
		if(r<0 && errno!=EINPROGRESS) { ::close(f); return -1; }
		return f;
	}
	static bool connected(int fd) { struct sockaddr_in a; socklen_t l=sizeof(a); return ::getpeername(fd,(struct sockaddr *)&a,&l)==0; }
	static int full_port()      // 0 = could not build one
	{
		static int port=-1;
		if(port>=0) return port;
		port=0;
		int p=0;
		if(make_listener(0,p)<0) return 0;
		for(int i=0;i<6;i++) { raw_connect(p,true); std::this_thread::sleep_for(std::chrono::milliseconds(20)); }
		std::this_thread::sleep_for(std::chrono::milliseconds(100));
		int probe=raw_connect(p,true);
		if(probe<0) return 0;
		std::this_thread::sleep_for(std::chrono::milliseconds(300));
		int err=0; socklen_t l=sizeof(err); ::getsockopt(probe,SOL_SOCKET,SO_ERROR,&err,&l);
		bool pending=!connected(probe) && err==0;
		::close(probe);
		if(pending) port=p;
		return port;
	}
	static int good_lfd=-1;
	static int good_port()
	{
		static int port=-1;
		if(port>=0) return port;
		port=0;
		int p=0;
		good_lfd=make_listener(128,p);
		if(good_lfd>=0) { ::fcntl(good_lfd,F_SETFL,::fcntl(good_lfd,F_GETFL,0)|O_NONBLOCK); port=p; }
		return port;
	}
	// take the established connection out of the good listener's queue (it would fill up over a long stream of cases);
	// the server side stays open until the scenario ends, so the client sees neither EOF nor hang-up
	static int good_accept()
	{
		for(int spin=0;spin<2000;spin++) {
			int a=::accept(good_lfd,0,0);
			if(a>=0) return high(a);
			std::this_thread::sleep_for(std::chrono::milliseconds(1));
		}
		return -1;
	}
}

// ------------------------------------------------------------------ scenario
struct op_t { std::string name; std::vector<std::string> a; };

static op_t parse_op(std::string const &w)
{
	op_t o; size_t p=0;
	std::vector<std::string> parts;
	for(;;) { size_t q=w.find(':',p); if(q==std::string::npos) { parts.push_back(w.substr(p)); break; } parts.push_back(w.substr(p,q-p)); p=q+1; }
	o.name=parts[0]; o.a.assign(parts.begin()+1,parts.end());
	return o;
}

struct hinfo {
	char kind; long long dl; int prog;
	int calls; std::string code; long long at; bool onloop; bool alive;
};

struct log_t { int id; std::string code; long long at; bool onloop; };

static std::string code_name(error_code const &e)
{
	if(!e) return "ok";
	if(e.category()==io::aio_error_cat) {
		if(e.value()==io::aio_error::canceled) return "canceled";
		if(e.value()==io::aio_error::select_failed) return "selfail";
		return "syserr";
	}
	if(e.value()==EBADF) return "badf";
	// "would block" is never a completion: it says the awaited event did NOT happen (the judge rejects it)
	if(e.value()==EAGAIN || e.value()==EWOULDBLOCK) return "again";
	return "syserr";
}

struct scenario;
static void run_prog(scenario *sc,int prog);

struct scenario {
	std::unique_ptr<io::io_service> srv;
	// devices: first the sockets of the socket pairs (peer = raw descriptor of the other side, never closed by the
	// script), then for every pipe its read end and its write end (both are devices of the scenario)
	std::vector<std::unique_ptr<io::basic_io_device> > socks;
	std::vector<int> ours,peers;
	std::vector<int> kind,peer_idx;   // 0 socket, 1 pipe read end, 2 pipe write end; index of the other end
	std::vector<bool> raw_closed;     // the application closed the descriptor itself (::close + cancel_io_events)
	std::vector<bool> nonowner;       // release()d: the device no longer owns the descriptor (closed raw at the end)
	std::vector<bool> reopenable;     // closed while run() was executing and no reset() since: the number is still free
	char iobuf[8];
	std::vector<std::unique_ptr<io::stream_socket> > targets;   // accept targets
	std::vector<int> clients;                                    // raw client connections made to our acceptors
	std::vector<int> aport;                                      // port of acceptor device i (0 otherwise)
	std::vector<std::unique_ptr<std::vector<char> > > bufs;      // buffers of async_read/async_write in flight
	std::vector<std::unique_ptr<io::deadline_timer> > timers;
	std::vector<std::vector<op_t> > progs;
	std::vector<hinfo> hs;
	std::vector<log_t> log;
	std::mutex hm;          // protects hs/log (free-running mode uses several threads)
	std::thread loop;
	std::thread::id loop_id;
	bool started=false,reset_happened=false,bad=false,hung=false;

	int new_handler(char kind,long long dl,int prog)
	{
		std::unique_lock<std::mutex> lk(hm);
		hinfo h={kind,dl,prog,0,"-",0,true,true};
		hs.push_back(h);
		return int(hs.size())-1;
	}
	void invoked(int id,std::string const &code)
	{
		long long now;
		{ std::unique_lock<std::mutex> lk(ls::m); now=ls::vnow_ms; }
		int prog;
		{
			std::unique_lock<std::mutex> lk(hm);
			hinfo &h=hs[id];
			bool onl = std::this_thread::get_id()==loop_id;
			if(h.calls==0) { h.code=code; h.at=now; h.onloop=onl; }
			else if(!onl) h.onloop=false;
			h.calls++;
			log_t l={id,code,now,onl};
			log.push_back(l);
			prog=h.prog;
		}
		run_prog(this,prog);
	}
	void destroyed(int id)
	{
		std::unique_lock<std::mutex> lk(hm);
		hs[id].alive=false;
	}
};

struct ev_call : public booster::callable<void(error_code const &)> {
	scenario *sc; int id;
	ev_call(scenario *s,int i):sc(s),id(i){}
	void operator()(error_code const &e) { sc->invoked(id,code_name(e)); }
	~ev_call() { sc->destroyed(id); }
};
struct io_call : public booster::callable<void(error_code const &,size_t)> {
	scenario *sc; int id;
	io_call(scenario *s,int i):sc(s),id(i){}
	void operator()(error_code const &e,size_t) { sc->invoked(id,code_name(e)); }
	~io_call() { sc->destroyed(id); }
};
struct fn_call : public booster::callable<void()> {
	scenario *sc; int id;
	fn_call(scenario *s,int i):sc(s),id(i){}
	void operator()() { sc->invoked(id,"ok"); }
	~fn_call() { sc->destroyed(id); }
};

static error_code code_from(std::string const &c)
{
	if(c=="ok") return error_code();
	if(c=="canceled") return error_code(io::aio_error::canceled,io::aio_error_cat);
	if(c=="selfail") return error_code(io::aio_error::select_failed,io::aio_error_cat);
	if(c=="badf") return error_code(EBADF,booster::system::system_category());
	return error_code(EIO,booster::system::system_category());
}

static io::basic_io_device *sock_of(scenario *sc,std::string const &f,std::unique_ptr<io::basic_io_device> &tmp)
{
	if(f=="x") { tmp.reset(new io::stream_socket(*sc->srv)); return tmp.get(); }
	size_t i=strtoul(f.c_str(),0,10);
	if(i>=sc->socks.size() || sc->raw_closed[i]) { tmp.reset(new io::stream_socket(*sc->srv)); return tmp.get(); }
	return sc->socks[i].get();
}

// ops that may be issued from the driving thread or from inside a handler
static void do_op(scenario *sc,op_t const &o)
{
	io::io_service &srv=*sc->srv;
	if(o.name=="post" && o.a.size()==1) {
		int id=sc->new_handler('p',0,atoi(o.a[0].c_str()));
		booster::intrusive_ptr<fn_call> p(new fn_call(sc,id));
		srv.post(io::handler(p));
	}
	else if(o.name=="pev" && o.a.size()==2) {
		int id=sc->new_handler('p',0,atoi(o.a[0].c_str()));
		booster::intrusive_ptr<ev_call> p(new ev_call(sc,id));
		srv.post(io::event_handler(p),code_from(o.a[1]));
	}
	else if(o.name=="tm" && o.a.size()==3) {
		size_t k=strtoul(o.a[0].c_str(),0,10);
		long long dl=atoll(o.a[1].c_str());
		if(k>=sc->timers.size()) { sc->bad=true; return; }
		int id=sc->new_handler('t',dl,atoi(o.a[2].c_str()));
		booster::intrusive_ptr<ev_call> p(new ev_call(sc,id));
		sc->timers[k]->expires_at(booster::ptime(ls::BASE_SEC+dl/1000,int((dl%1000)*1000000)));
		sc->timers[k]->async_wait(io::event_handler(p));
	}
	else if(o.name=="tc" && o.a.size()==1) {
		size_t k=strtoul(o.a[0].c_str(),0,10);
		if(k>=sc->timers.size()) { sc->bad=true; return; }
		sc->timers[k]->cancel();
	}
	else if((o.name=="ar" || o.name=="aw") && o.a.size()==2) {
		std::unique_ptr<io::basic_io_device> tmp;
		io::basic_io_device *s=sock_of(sc,o.a[0],tmp);
		int id=sc->new_handler('i',0,atoi(o.a[1].c_str()));
		booster::intrusive_ptr<ev_call> p(new ev_call(sc,id));
		if(o.name=="ar") s->on_readable(io::event_handler(p)); else s->on_writeable(io::event_handler(p));
	}
	else if(o.name=="ca" && o.a.size()==1) {
		std::unique_ptr<io::basic_io_device> tmp;
		sock_of(sc,o.a[0],tmp)->cancel();
	}
	else if((o.name=="xc" || o.name=="xr" || o.name=="xw") && o.a.size()==2) {
		// device wrappers on an unusable descriptor: never opened ("x") or closed device i
		std::unique_ptr<io::basic_io_device> tmp;
		io::basic_io_device *dev=sock_of(sc,o.a[0],tmp);
		io::stream_socket *s=dynamic_cast<io::stream_socket *>(dev);
		if(!s || s->native()!=io::invalid_socket) { sc->bad=true; return; }
		int id=sc->new_handler('p',0,atoi(o.a[1].c_str()));
		if(o.name=="xc") {
			booster::intrusive_ptr<ev_call> p(new ev_call(sc,id));
			s->async_connect(io::endpoint("127.0.0.1",1),io::event_handler(p));
		}
		else {
			booster::intrusive_ptr<io_call> p(new io_call(sc,id));
			if(o.name=="xr") s->async_read_some(io::buffer(sc->iobuf,1),io::io_handler(p));
			else s->async_write_some(io::buffer(static_cast<char const *>(sc->iobuf),1),io::io_handler(p));
		}
	}
	else if(o.name=="xa" && o.a.size()==2) {
		io::acceptor acc(srv);
		if(o.a[0]=="y") { error_code e; acc.open(io::pf_inet,e); acc.close(e); }
		io::stream_socket target(srv);
		int id=sc->new_handler('p',0,atoi(o.a[1].c_str()));
		booster::intrusive_ptr<ev_call> p(new ev_call(sc,id));
		acc.async_accept(target,io::event_handler(p));
	}
	else if((o.name=="xp" || o.name=="xg") && o.a.size()==2) {
		// a connect that is really pending (xp: SYNs dropped) or really completes (xg), on a connector device
		size_t i=strtoul(o.a[0].c_str(),0,10);
		io::stream_socket *s = i<sc->socks.size() && sc->kind[i]==3 ? dynamic_cast<io::stream_socket *>(sc->socks[i].get()) : 0;
		int port = o.name=="xp" ? lst::full_port() : lst::good_port();
		if(!s || s->native()!=io::invalid_socket || port==0) { sc->bad=true; return; }
		error_code e;
		s->open(io::pf_inet,e);
		if(e) { sc->bad=true; return; }
		sc->ours[i]=s->native();
		{ std::unique_lock<std::mutex> lk(ls::m); ls::our_fds.insert(s->native()); }
		int id=sc->new_handler('i',0,atoi(o.a[1].c_str()));
		booster::intrusive_ptr<ev_call> p(new ev_call(sc,id));
		s->async_connect(io::endpoint("127.0.0.1",port),io::event_handler(p));
		if(o.name=="xg") {
			for(int spin=0;spin<2000 && !lst::connected(s->native());spin++) std::this_thread::sleep_for(std::chrono::milliseconds(1));
			if(!lst::connected(s->native())) sc->bad=true;
			else { int a=lst::good_accept(); if(a<0) sc->bad=true; else sc->clients.push_back(a); }
		}
		else if(lst::connected(s->native())) sc->bad=true;
	}
	else if(o.name=="xs" && o.a.size()==2) {
		// async_read_some with a one byte buffer on an open socket (reader_some functor when nothing is there yet)
		std::unique_ptr<io::basic_io_device> tmp;
		io::stream_socket *s=dynamic_cast<io::stream_socket *>(sock_of(sc,o.a[0],tmp));
		if(!s) { sc->bad=true; return; }
		int id=sc->new_handler('i',0,atoi(o.a[1].c_str()));
		booster::intrusive_ptr<io_call> p(new io_call(sc,id));
		sc->bufs.push_back(std::unique_ptr<std::vector<char> >(new std::vector<char>(1)));
		s->async_read_some(io::buffer(&sc->bufs.back()->front(),1),io::io_handler(p));
	}
	else if(o.name=="nc" && o.a.size()==1) {
		// a device that does not own its descriptor (attach()-ed, or release()d) is closed: the pending waits must be
		// cancelled, the descriptor stays open and the device keeps referring to it
		size_t i=strtoul(o.a[0].c_str(),0,10);
		if(i<sc->socks.size() && !sc->raw_closed[i] && sc->socks[i]->native()!=io::invalid_socket) {
			sc->socks[i]->release();
			sc->nonowner[i]=true;
			error_code e;
			sc->socks[i]->close(e);
		}
	}
	else if(o.name=="xq" && o.a.size()==2) {
		size_t i=strtoul(o.a[0].c_str(),0,10);
		io::acceptor *a = i<sc->socks.size() && sc->kind[i]==5 ? dynamic_cast<io::acceptor *>(sc->socks[i].get()) : 0;
		if(!a) { sc->bad=true; return; }
		sc->targets.push_back(std::unique_ptr<io::stream_socket>(new io::stream_socket(srv)));
		int id=sc->new_handler('i',0,atoi(o.a[1].c_str()));
		booster::intrusive_ptr<ev_call> p(new ev_call(sc,id));
		a->async_accept(*sc->targets.back(),io::event_handler(p));
	}
	else if(o.name=="xR" && o.a.size()==3) {
		std::unique_ptr<io::basic_io_device> tmp;
		io::stream_socket *s=dynamic_cast<io::stream_socket *>(sock_of(sc,o.a[0],tmp));
		size_t n=strtoul(o.a[1].c_str(),0,10);
		if(!s || n==0) { sc->bad=true; return; }
		sc->bufs.push_back(std::unique_ptr<std::vector<char> >(new std::vector<char>(n)));
		int id=sc->new_handler('i',0,atoi(o.a[2].c_str()));
		booster::intrusive_ptr<io_call> p(new io_call(sc,id));
		s->async_read(io::buffer(&sc->bufs.back()->front(),n),io::io_handler(p));
	}
	else if(o.name=="xW" && o.a.size()==2) {
		std::unique_ptr<io::basic_io_device> tmp;
		io::stream_socket *s=dynamic_cast<io::stream_socket *>(sock_of(sc,o.a[0],tmp));
		if(!s) { sc->bad=true; return; }
		size_t n=8u<<20;     // far more than a socket pair buffers
		sc->bufs.push_back(std::unique_ptr<std::vector<char> >(new std::vector<char>(n,'w')));
		int id=sc->new_handler('i',0,atoi(o.a[1].c_str()));
		booster::intrusive_ptr<io_call> p(new io_call(sc,id));
		s->async_write(io::buffer(static_cast<char const *>(&sc->bufs.back()->front()),n),io::io_handler(p));
	}
	else if(o.name=="rx" && o.a.size()==1) {
		size_t i=strtoul(o.a[0].c_str(),0,10);
		if(i<sc->socks.size() && !sc->raw_closed[i] && sc->socks[i]->native()!=io::invalid_socket) {
			int fd=sc->socks[i]->native();
			::close(fd);
			srv.cancel_io_events(fd);
			sc->socks[i]->release();     // the device must not close (or cancel) the number again
			sc->raw_closed[i]=true;
			sc->reopenable[i]=sc->started;
		}
	}
	else if(o.name=="ro" && o.a.size()==1) {
		size_t i=strtoul(o.a[0].c_str(),0,10);
		if(i<sc->socks.size() && sc->kind[i]==0 && sc->reopenable[i] && (sc->raw_closed[i] || sc->socks[i]->native()==io::invalid_socket)) {
			sc->reopenable[i]=false;
			int target=sc->ours[i];
			int fds[2];
			if(::socketpair(AF_UNIX,SOCK_STREAM,0,fds)<0) { sc->bad=true; return; }
			int hi=::fcntl(fds[1],F_DUPFD,200); ::close(fds[1]);
			if(fds[0]!=target) {
				if(::fcntl(target,F_GETFD)!=-1) { ::close(fds[0]); ::close(hi); sc->bad=true; return; }   // number taken by somebody else
				if(::dup2(fds[0],target)<0) { sc->bad=true; return; }
				::close(fds[0]);
			}
			if(sc->peers[i]>=0) ::close(sc->peers[i]);
			sc->peers[i]=hi;
			if(sc->raw_closed[i]) { sc->socks[i].reset(new io::stream_socket(srv)); sc->raw_closed[i]=false; }
			sc->socks[i]->assign(target);
		}
	}
	else if(o.name=="cl" && o.a.size()==1) {
		size_t i=strtoul(o.a[0].c_str(),0,10);
		if(i<sc->socks.size() && !sc->raw_closed[i]) {
			if(sc->socks[i]->native()!=io::invalid_socket) sc->reopenable[i]=sc->started;
			error_code e;
			sc->socks[i]->close(e);
		}
	}
	else if(o.name=="pw" && o.a.size()==1) {
		size_t i=strtoul(o.a[0].c_str(),0,10);
		// the other end may have been closed by the script already (EPIPE): the byte is then simply not delivered
		if(i<sc->socks.size() && !sc->raw_closed[i]) {
			char c='x';
			if(sc->kind[i]==5) {
				// a client connects to our acceptor (the handshake completes in the kernel; nobody needs to accept yet)
				if(sc->socks[i]->native()!=io::invalid_socket) {
					int cfd=lst::raw_connect(sc->aport[i],false);
					if(cfd<0) sc->bad=true; else sc->clients.push_back(cfd);
				}
			}
			else if(sc->kind[i]==3) ;
			else if(sc->kind[i]==0 && sc->socks[i]->native()==io::invalid_socket) ;   // closed: nobody to write to
			else if(sc->kind[i]==0) (void)::send(sc->peers[i],&c,1,MSG_NOSIGNAL|MSG_DONTWAIT);
			else if(sc->kind[i]==1) {
				// a byte into the pipe, through its write end, if that is still open
				int wfd=sc->socks[sc->peer_idx[i]]->native();
				if(wfd!=io::invalid_socket) (void)::write(wfd,&c,1);
			}
		}
	}
	else if(o.name=="dr" && o.a.size()==1) {
		size_t i=strtoul(o.a[0].c_str(),0,10);
		if(i<sc->socks.size() && !sc->raw_closed[i] && sc->socks[i]->native()!=io::invalid_socket) {
			char buf[256];
			if(sc->kind[i]==0) { while(::recv(sc->socks[i]->native(),buf,sizeof(buf),MSG_DONTWAIT)>0) ; }
			else if(sc->kind[i]==1) { while(::read(sc->socks[i]->native(),buf,sizeof(buf))>0) ; }
		}
	}
	else if(o.name=="st" && o.a.empty()) {
		srv.stop();
	}
	else
		sc->bad=true;
}

static void run_prog(scenario *sc,int prog)
{
	if(prog<0 || size_t(prog)>=sc->progs.size()) return;
	// copy: the program table is immutable, but be safe against re-entrancy
	std::vector<op_t> const &ops=sc->progs[prog];
	for(size_t i=0;i<ops.size();i++) do_op(sc,ops[i]);
}

static bool wait_parked(unsigned long gen_before)
{
	std::unique_lock<std::mutex> lk(ls::m);
	return ls::cv.wait_for(lk,std::chrono::seconds(20),[&]{ return ls::park_gen>gen_before || ls::exited; });
}

static void loop_main(scenario *sc)
{
	ls::is_loop=true;
	bool failed=false;
	try { sc->srv->run(); }
	catch(std::exception const &) { failed=true; }
	std::unique_lock<std::mutex> lk(ls::m);
	ls::exited=true; ls::failed=failed;
	ls::cv.notify_all();
}

static void start_loop(scenario *sc)
{
	unsigned long g;
	{ std::unique_lock<std::mutex> lk(ls::m); g=ls::park_gen; ls::exited=false; ls::failed=false; ls::go=false; }
	sc->started=true;
	// the id must be known before the first handler can run: start the thread behind a gate
	std::mutex gm; std::condition_variable gcv; bool ready=false;
	sc->loop=std::thread([&,sc]{ { std::unique_lock<std::mutex> lk(gm); gcv.wait(lk,[&]{return ready;}); } loop_main(sc); });
	sc->loop_id=sc->loop.get_id();
	{ std::unique_lock<std::mutex> lk(gm); ready=true; gcv.notify_all(); }
	if(!wait_parked(g)) sc->hung=true;
}

static std::string run_loop_case(std::vector<std::string> const &w,int backend)
{
	if(w.size()<3) return "bad-op";
	scenario sc;
	size_t ns=0,np=0,nc=0,na=0,nt=strtoul(w[2].c_str(),0,10);
	{
		size_t cnt[4]={0,0,0,0}; int k=0; std::string h=w[1]; size_t p0=0;
		for(;k<4;k++) { size_t q=h.find('+',p0); cnt[k]=strtoul(h.substr(p0,q==std::string::npos?q:q-p0).c_str(),0,10); if(q==std::string::npos) break; p0=q+1; }
		ns=cnt[0]; np=cnt[1]; nc=cnt[2]; na=cnt[3];
	}
	size_t i=3;
	for(;i<w.size() && w[i]!="S";i++) {
		size_t eq=w[i].find('=');
		if(eq==std::string::npos) return "bad-op";
		std::string body=w[i].substr(eq+1);
		std::vector<op_t> ops;
		if(body!="-") {
			size_t p=0;
			for(;;) { size_t q=body.find(',',p); ops.push_back(parse_op(body.substr(p,q==std::string::npos?q:q-p))); if(q==std::string::npos) break; p=q+1; }
		}
		sc.progs.push_back(ops);
	}
	if(i>=w.size()) return "bad-op";
	i++;
	{
		std::unique_lock<std::mutex> lk(ls::m);
		ls::lockstep=true; ls::virtual_time=true; ls::vnow_ms=0; ls::go=false; ls::exited=false; ls::failed=false;
		ls::filter_fd=-1; ls::our_fds.clear();
	}
	sc.srv.reset(new io::io_service(backend));
	for(size_t k=0;k<ns;k++) {
		int fds[2];
		if(::socketpair(AF_UNIX,SOCK_STREAM,0,fds)<0) return "bad-op socketpair";
		std::unique_ptr<io::stream_socket> s(new io::stream_socket(*sc.srv));
		s->assign(fds[0]);
		sc.socks.push_back(std::move(s));
		// the peer lives at a high number: low numbers belong to the devices, so that re-use is deterministic
		int hi=::fcntl(fds[1],F_DUPFD,200); ::close(fds[1]); fds[1]=hi;
		sc.ours.push_back(fds[0]); sc.peers.push_back(fds[1]);
		sc.kind.push_back(0); sc.peer_idx.push_back(int(k)); sc.raw_closed.push_back(false); sc.reopenable.push_back(false); sc.nonowner.push_back(false);
		std::unique_lock<std::mutex> lk(ls::m);
		ls::our_fds.insert(fds[0]);
	}
	for(size_t k=0;k<np;k++) {
		int fds[2];
		if(::pipe(fds)<0) return "bad-op pipe";
		::fcntl(fds[0],F_SETFL,::fcntl(fds[0],F_GETFL,0)|O_NONBLOCK);
		::fcntl(fds[1],F_SETFL,::fcntl(fds[1],F_GETFL,0)|O_NONBLOCK);
		for(int e=0;e<2;e++) {
			std::unique_ptr<io::basic_io_device> dev(new io::basic_io_device(*sc.srv));
			dev->assign(fds[e]);
			sc.socks.push_back(std::move(dev));
			sc.ours.push_back(fds[e]); sc.peers.push_back(-1);
			sc.kind.push_back(e==0?1:2); sc.raw_closed.push_back(false); sc.reopenable.push_back(false); sc.nonowner.push_back(false);
			sc.peer_idx.push_back(int(ns+2*k+(e==0?1:0)));
			std::unique_lock<std::mutex> lk(ls::m);
			ls::our_fds.insert(fds[e]);
		}
	}
	for(size_t k=0;k<nc;k++) {
		// connector devices: stream sockets that are opened by the script (xp / xg)
		sc.socks.push_back(std::unique_ptr<io::basic_io_device>(new io::stream_socket(*sc.srv)));
		sc.ours.push_back(-1); sc.peers.push_back(-1); sc.kind.push_back(3); sc.peer_idx.push_back(-1);
		sc.raw_closed.push_back(false); sc.reopenable.push_back(false); sc.nonowner.push_back(false);
	}
	sc.aport.assign(sc.socks.size(),0);
	for(size_t k=0;k<na;k++) {
		std::unique_ptr<io::acceptor> a(new io::acceptor(*sc.srv));
		error_code e;
		a->open(io::pf_inet,e);
		if(!e) a->bind(io::endpoint("127.0.0.1",0),e);
		if(!e) a->listen(16,e);
		struct sockaddr_in sa; socklen_t sl=sizeof(sa);
		if(e || ::getsockname(a->native(),(struct sockaddr *)&sa,&sl)<0) return "bad-op acceptor";
		sc.aport.push_back(ntohs(sa.sin_port));
		sc.ours.push_back(a->native()); sc.peers.push_back(-1); sc.kind.push_back(5); sc.peer_idx.push_back(-1);
		sc.raw_closed.push_back(false); sc.reopenable.push_back(false); sc.nonowner.push_back(false);
		{ std::unique_lock<std::mutex> lk(ls::m); ls::our_fds.insert(a->native()); }
		sc.socks.push_back(std::move(a));
	}
	for(size_t k=0;k<nt;k++)
		sc.timers.push_back(std::unique_ptr<io::deadline_timer>(new io::deadline_timer(*sc.srv)));

	for(;i<w.size() && !sc.hung;i++) {
		op_t o=parse_op(w[i]);
		if(o.name=="T" && o.a.size()==1) {
			std::unique_lock<std::mutex> lk(ls::m);
			ls::vnow_ms=atoll(o.a[0].c_str());
		}
		else if(o.name=="start") {
			if(!sc.started) start_loop(&sc);
		}
		else if(o.name=="step") {
			bool parked;
			{ std::unique_lock<std::mutex> lk(ls::m); parked = sc.started && !ls::exited; }
			if(parked) {
				unsigned long g;
				{
					std::unique_lock<std::mutex> lk(ls::m);
					ls::filter_fd=-1;
					if(o.a.size()==1) {
						size_t f=strtoul(o.a[0].c_str(),0,10);
						if(f<sc.socks.size() && !sc.raw_closed[f] && sc.socks[f]->native()!=io::invalid_socket) ls::filter_fd=sc.socks[f]->native();
					}
					g=ls::park_gen;
					ls::go=true;
					ls::cv.notify_all();
				}
				if(!wait_parked(g)) sc.hung=true;
			}
		}
		else if(o.name=="rs") {
			bool ex;
			{ std::unique_lock<std::mutex> lk(ls::m); ex=ls::exited; }
			if(!sc.started || ex) {
				if(sc.loop.joinable()) sc.loop.join();
				sc.srv->reset();
				sc.started=false;
				for(size_t q=0;q<sc.reopenable.size();q++) sc.reopenable[q]=false;
				sc.reset_happened=true;
			}
		}
		else
			do_op(&sc,o);
	}
	// snapshot
	std::ostringstream out;
	if(sc.bad) out<<"bad-op";
	else if(sc.hung) out<<"hung";
	else {
		std::unique_lock<std::mutex> lk(sc.hm);
		out<<"log";
		for(size_t k=0;k<sc.log.size();k++) out<<' '<<sc.log[k].id<<':'<<sc.log[k].code<<':'<<sc.log[k].at<<':'<<(sc.log[k].onloop?'L':'X');
		out<<" | alive";
		for(size_t k=0;k<sc.hs.size();k++) if(sc.hs[k].alive) out<<' '<<k;
		out<<" | kinds";
		for(size_t k=0;k<sc.hs.size();k++) { out<<' '<<k<<':'<<sc.hs[k].kind; if(sc.hs[k].kind=='t') out<<':'<<sc.hs[k].dl; }
		bool ex,fl;
		{ std::unique_lock<std::mutex> lk2(ls::m); ex=ls::exited; fl=ls::failed; }
		out<<" | phase "<<(!sc.started?"notrunning":(ex?(fl?"failed":"stopped"):"polling"));
	}
	// teardown: let the loop thread go
	if(sc.started) {
		bool ex;
		{ std::unique_lock<std::mutex> lk(ls::m); ex=ls::exited; }
		if(!ex) {
			sc.srv->stop();
			std::unique_lock<std::mutex> lk(ls::m);
			ls::lockstep=false;
			ls::go=true;
			ls::cv.notify_all();
		}
		if(sc.loop.joinable()) sc.loop.join();
	}
	{
		std::unique_lock<std::mutex> lk(ls::m);
		ls::lockstep=false; ls::virtual_time=false;
	}
	for(size_t k=0;k<sc.socks.size();k++) if(sc.nonowner[k] && !sc.raw_closed[k] && sc.socks[k]->native()!=io::invalid_socket) ::close(sc.socks[k]->native());
	sc.timers.clear();
	sc.targets.clear();
	for(size_t k=0;k<sc.clients.size();k++) ::close(sc.clients[k]);
	sc.socks.clear();
	for(size_t k=0;k<sc.peers.size();k++) if(sc.peers[k]>=0) ::close(sc.peers[k]);
	sc.srv.reset();
	return out.str();
}

// ------------------------------------------------------------------ thread pool
struct pool_case {
	std::mutex m; std::condition_variable cv;
	bool released=false;
	int gates_started=0;
	std::vector<int> runs;
};

static std::string run_pool_case(std::vector<std::string> const &w)
{
	if(w.size()<2) return "bad-op";
	int n=atoi(w[1].c_str());
	if(n<=0 || n>16) return "bad-op";
	pool_case pc;
	std::unique_ptr<cppcms::thread_pool> pool(new cppcms::thread_pool(n));
	std::vector<int> ids;     // ids returned by post, by our job index
	std::vector<std::string> cres;
	bool bad=false,stopped=false;
	std::thread stopper;
	auto post=[&](int kind) {   // 0 gate, 1 normal, 2 throws
		int idx;
		{ std::unique_lock<std::mutex> lk(pc.m); idx=int(pc.runs.size()); pc.runs.push_back(0); }
		pool_case *p=&pc;
		int id=pool->post([p,idx,kind]{
			{
				std::unique_lock<std::mutex> lk(p->m);
				p->runs[idx]++;
				if(kind==0) { p->gates_started++; p->cv.notify_all(); p->cv.wait(lk,[p]{return p->released;}); }
				p->cv.notify_all();
			}
			// both catch clauses of the worker are exercised: std::exception and catch(...)
			if(kind==2) { if(idx%2) throw 42; throw std::runtime_error("job failed"); }
		});
		ids.push_back(id);
	};
	for(int i=0;i<n;i++) post(0);
	{
		std::unique_lock<std::mutex> lk(pc.m);
		if(!pc.cv.wait_for(lk,std::chrono::seconds(20),[&]{return pc.gates_started==n;})) return "hung-gates";
	}
	for(size_t i=2;i<w.size();i++) {
		op_t o=parse_op(w[i]);
		if(o.name=="p") post(1);
		else if(o.name=="px") post(2);
		else if(o.name=="c" && o.a.size()==1) {
			int id=atoi(o.a[0].c_str());
			bool r=pool->cancel(id);
			cres.push_back(o.a[0]+":"+(r?"1":"0"));
		}
		else if(o.name=="stop") {
			if(!stopped) {
				stopped=true;
				cppcms::thread_pool *pp=pool.get();
				stopper=std::thread([pp]{ pp->stop(); });
				// stop() takes the mutex, sets shut_down_ and then joins: give it time to get there
				std::this_thread::sleep_for(std::chrono::milliseconds(150));
			}
		}
		else if(o.name=="rel") {
			std::unique_lock<std::mutex> lk(pc.m);
			pc.released=true;
			pc.cv.notify_all();
			if(!stopped) {
				// wait until every job that is still queued has run: jobs are run in FIFO order, so post a
				// marker per worker is not enough with n workers; instead wait for the run counters
			}
		}
		else bad=true;
	}
	{
		std::unique_lock<std::mutex> lk(pc.m);
		pc.released=true;
		pc.cv.notify_all();
	}
	if(!stopped) {
		// quiescence: every job not successfully cancelled must eventually run; wait for that, bounded
		std::set<int> cancelled;
		for(size_t i=0;i<cres.size();i++) if(cres[i].size()>2 && cres[i].substr(cres[i].size()-2)==":1") cancelled.insert(atoi(cres[i].c_str()));
		std::unique_lock<std::mutex> lk(pc.m);
		pc.cv.wait_for(lk,std::chrono::seconds(10),[&]{
			for(size_t i=0;i<pc.runs.size();i++) if(pc.runs[i]==0 && !cancelled.count(ids[i])) return false;
			return true; });
		lk.unlock();
		// give a duplicated job the chance to show up
		std::this_thread::sleep_for(std::chrono::milliseconds(2));
		pool->stop();
	}
	else {
		if(stopper.joinable()) stopper.join();
	}
	pool.reset();
	if(bad) return "bad-op";
	std::ostringstream out;
	out<<"ran";
	// report by pool id (ids are 0,1,2,... in post order on one pool)
	for(size_t i=0;i<pc.runs.size();i++) out<<' '<<ids[i]<<':'<<pc.runs[i];
	out<<" | cancel";
	for(size_t i=0;i<cres.size();i++) out<<' '<<cres[i];
	return out.str();
}

// ------------------------------------------------------------------ free-running concurrency case
// C <producers> <rounds> <seed>: every producer owns one socket pair and one timer and does `rounds` random
// rounds of {post, timer arm (past/near deadline) + maybe cancel, arm readable + peer write or cancel,
// arm writeable}; it never arms a slot whose previous handler has not completed (NoDoubleArm).  At the end
// everything is cancelled/closed and the loop drained.  Output: "ok" iff every handler ran exactly once on
// the loop thread, timers not early, else the first offending handler.
struct fr_handler { std::atomic<int> calls; std::atomic<int> off_loop; std::atomic<int> early; char kind; };

static std::string run_free_case(std::vector<std::string> const &w,int backend)
{
	if(w.size()<4) return "bad-op";
	int producers=atoi(w[1].c_str()),rounds=atoi(w[2].c_str());
	uint64_t seed=strtoull(w[3].c_str(),0,10);
	if(producers<1 || producers>32) return "bad-op";
	io::io_service srv(backend);
	std::mutex hm;
	std::vector<std::unique_ptr<fr_handler> > hs;
	std::thread::id loop_id;
	auto mk=[&](char kind)->fr_handler* {
		std::unique_lock<std::mutex> lk(hm);
		hs.push_back(std::unique_ptr<fr_handler>(new fr_handler()));
		fr_handler *h=hs.back().get();
		h->calls=0; h->off_loop=0; h->early=0; h->kind=kind;
		return h;
	};
	struct prod { std::unique_ptr<io::stream_socket> s; int fd; int peer; std::unique_ptr<io::deadline_timer> t;
		std::atomic<int> rd_pending,wr_pending; };
	std::vector<std::unique_ptr<prod> > ps;
	for(int i=0;i<producers;i++) {
		int fds[2];
		if(::socketpair(AF_UNIX,SOCK_STREAM,0,fds)<0) return "bad-op socketpair";
		std::unique_ptr<prod> p(new prod());
		p->s.reset(new io::stream_socket(srv)); p->s->assign(fds[0]); p->fd=fds[0]; p->peer=fds[1];
		p->t.reset(new io::deadline_timer(srv));
		p->rd_pending=0; p->wr_pending=0;
		ps.push_back(std::move(p));
	}
	std::atomic<bool> loop_ready(false),loop_done(false);
	std::thread loop([&]{ loop_id=std::this_thread::get_id(); loop_ready=true; try { srv.run(); } catch(...) {} loop_done=true; });
	// stop() must end run() promptly (its wake-up is part of what is exercised): bounded wait, then give up loudly
	auto stop_and_join=[&]()->bool {
		srv.stop();
		for(int spin=0;spin<10000 && !loop_done;spin++) std::this_thread::sleep_for(std::chrono::milliseconds(1));
		if(!loop_done) {
			std::cout<<"hung-stop"<<std::endl;
			_exit(3);
		}
		loop.join();
		return true;
	};
	while(!loop_ready) std::this_thread::yield();
	std::vector<std::thread> ths;
	for(int i=0;i<producers;i++) {
		ths.push_back(std::thread([&,i]{
			vh::rng r(seed*1000+i);
			prod &p=*ps[i];
			for(int k=0;k<rounds;k++) {
				switch(r.below(6)) {
				case 0: {
					fr_handler *h=mk('p');
					srv.post([h,&loop_id]{ if(std::this_thread::get_id()!=loop_id) h->off_loop++; h->calls++; });
					break; }
				case 1: case 2: {
					fr_handler *h=mk('t');
					int ms=int(r.below(3));   // 0..2 ms from now
					booster::ptime dl=booster::ptime::now()+booster::ptime::milliseconds(ms);
					// io_service's own (thread-safe) timer interface: a deadline_timer object is not meant to be
					// shared between a producer thread and the loop thread (its waiter writes event_id_)
					int tid=srv.set_timer_event(dl,[h,dl,&loop_id](error_code const &e){
						if(std::this_thread::get_id()!=loop_id) h->off_loop++;
						if(!e && booster::ptime::now()<dl) h->early++;
						h->calls++; });
					if(r.below(2)) srv.cancel_timer_event(tid);
					break; }
				case 3: {
					if(p.rd_pending.load()!=0) break;      // previous readable handler still armed
					fr_handler *h=mk('i');
					p.rd_pending=1;
					prod *pp=&p;
					int rfd=p.fd;
					p.s->on_readable([h,pp,rfd,&loop_id](error_code const &e){
						if(std::this_thread::get_id()!=loop_id) h->off_loop++;
						char buf[64]; if(!e) while(::recv(rfd,buf,sizeof(buf),MSG_DONTWAIT)>0) ;
						h->calls++; pp->rd_pending=0; });
					if(r.below(3)) { char c='x'; (void)::send(p.peer,&c,1,MSG_NOSIGNAL|MSG_DONTWAIT); }
					break; }
				case 4: {
					if(p.wr_pending.load()!=0) break;
					fr_handler *h=mk('i');
					p.wr_pending=1;
					prod *pp=&p;
					p.s->on_writeable([h,pp,&loop_id](error_code const &){
						if(std::this_thread::get_id()!=loop_id) h->off_loop++;
						h->calls++; pp->wr_pending=0; });
					break; }
				case 5:
					// cancel() completes both slots with `canceled`; the slots are free again only once the
					// handlers ran, which the pending flags track
					p.s->cancel();
					break;
				}
				if(r.below(8)==0) std::this_thread::yield();
			}
		}));
	}
	for(size_t i=0;i<ths.size();i++) ths[i].join();
	// quiescence: cancel/close everything, then drain with a chain of posts.  The sockets are closed ON THE LOOP
	// THREAD (first posted closure): basic_io_device::close() from another thread while the loop polls queues the
	// cancel but closes the descriptor at once, so the loop thread's epoll_ctl(DEL) can run between the two - a
	// descriptor-level race (ThreadSanitizer reports it as "data race ... close_file_descriptor" vs epoll_ctl under
	// data_mutex_).  That hazard is exercised deterministically by the lock-step `cl:f`-while-polling scenarios
	// (known finding aio-queued-arm-overtaken-by-cancel-close, fd re-use cases); the TSan stream is about memory.
	std::mutex dm; std::condition_variable dcv; int rounds_done=0;
	for(int k=0;k<4;k++) {
		srv.post([&,k]{
			if(k==0) for(size_t i=0;i<ps.size();i++) { error_code e; ps[i]->s->close(e); }
			std::unique_lock<std::mutex> lk(dm); rounds_done++; dcv.notify_all(); });
		std::unique_lock<std::mutex> lk(dm);
		if(!dcv.wait_for(lk,std::chrono::seconds(20),[&]{return rounds_done==k+1;})) {
			// the loop does not answer any more: a lost wake-up or a dead loop
			lk.unlock();
			std::cout<<"hung"<<std::endl;
			_exit(3);
		}
	}
	// timers that were armed with a deadline in the (near) future and then re-armed are still pending: wait
	// for them (at most a few ms), bounded
	for(int spin=0;spin<2000;spin++) {
		bool all=true;
		{ std::unique_lock<std::mutex> lk(hm); for(size_t i=0;i<hs.size();i++) if(hs[i]->calls.load()==0) { all=false; break; } }
		if(all) break;
		std::this_thread::sleep_for(std::chrono::milliseconds(1));
	}
	stop_and_join();
	for(size_t i=0;i<ps.size();i++) ::close(ps[i]->peer);
	std::ostringstream out;
	bool ok=true;
	for(size_t i=0;i<hs.size() && ok;i++) {
		if(hs[i]->calls.load()!=1 || hs[i]->off_loop.load()!=0 || hs[i]->early.load()!=0) {
			ok=false;
			out<<"fail handler "<<i<<" kind "<<hs[i]->kind<<" calls "<<hs[i]->calls.load()<<" offloop "<<hs[i]->off_loop.load()<<" early "<<hs[i]->early.load();
		}
	}
	if(ok) out<<"ok";
	return out.str();
}

// ------------------------------------------------------------------ stale timer id (known finding)
// X <n>: timer A (deadline now) expires and is queued; before its waiter runs a handler arms n other timers (one of
// them very probably reuses A's slot in timer_events_index_) and calls A.cancel().  No B timer is ever cancelled
// by its owner; output: A <calls>:<code> B-canceled <0|1>.  Up to three attempts (the slot search is random).
static std::string run_stale_timer_case(std::vector<std::string> const &w,int backend)
{
	int n = w.size()>1 ? atoi(w[1].c_str()) : 30000;
	if(n<1 || n>32000) return "bad-op";
	std::string res;
	for(int attempt=0;attempt<3;attempt++) {
		io::io_service srv(backend);
		io::deadline_timer A(srv);
		std::vector<std::unique_ptr<io::deadline_timer> > B;
		int a_calls=0,b_canceled=0; std::string a_code="-";
		srv.post([&]{
			A.expires_from_now(booster::ptime::milliseconds(0));
			A.async_wait([&](error_code const &e){ a_calls++; a_code=code_name(e); });
			srv.post([&]{
				for(int i=0;i<n;i++) {
					B.emplace_back(new io::deadline_timer(srv));
					B.back()->expires_from_now(booster::ptime::milliseconds(3600*1000));
					B.back()->async_wait([&](error_code const &e){ if(e) b_canceled++; });
				}
				A.cancel();
				srv.post([&]{ srv.post([&]{ srv.stop(); }); });
			});
		});
		srv.run();
		std::ostringstream out;
		out<<"A "<<a_calls<<':'<<a_code<<" B-canceled "<<(b_canceled>0?1:0);
		res=out.str();
		if(b_canceled>0) break;
	}
	return res;
}

// a case that does not finish (a loop that spins or sleeps for ever) is reported, not waited for
static void watchdog(int)
{
	static char const msg[]="hung-watchdog\n";
	(void)::write(1,msg,sizeof(msg)-1);
	_exit(4);
}

int main(int argc,char **argv)
{
	int backend=io::reactor::use_default;
	signal(SIGPIPE,SIG_IGN);
	signal(SIGALRM,watchdog);
	if(argc>1) {
		std::string b=argv[1];
		if(b=="epoll") backend=io::reactor::use_epoll;
		else if(b=="poll") backend=io::reactor::use_poll;
		else if(b=="select") backend=io::reactor::use_select;
	}
	return vh::drive([&](std::vector<std::string> const &w)->std::string {
		if(w.empty()) return "bad-op";
		alarm(150);
		struct disarm { ~disarm(){ alarm(0); } } d;
		if(w[0]=="L") return run_loop_case(w,backend);
		if(w[0]=="K") return run_pool_case(w);
		if(w[0]=="C") return run_free_case(w,backend);
		if(w[0]=="X") return run_stale_timer_case(w,backend);
		return "bad-op";
	});
}
