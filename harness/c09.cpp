// C09 harness: one real mem_cache<thread_settings> (thread_cache_factory, behind impl::base_cache)
// used from 2..8 threads at once.  Every thread runs its own list of operations; for every
// operation the harness records a stamp before the call, a stamp after it (one global atomic
// counter) and the result; the CPPCMS_VERIF_HOOKS callback (cppcms_verif_cache_hook, called by
// the cache inside its critical section) records a stamp from the same counter: the operation's
// claimed linearisation point.  The check replays the operations in hook-stamp order through the
// sequential model and evaluates Spec.LinearizedBy on the history.
//
// The clock is virtual and per thread: time() is interposed at link time and returns the `now` of
// the operation the calling thread is executing.
//
// stdin:
//   case <nthreads> <limit> <spin> <flags>   flags&1: register the hook and take stamps (otherwise
//                                            nothing of the harness synchronises the threads: pure
//                                            ThreadSanitizer mode); flags&2: yield between operations
//                                            flags&4: handle operations use real booster::intrusive_ptr copies / resets
//                                            (their results are not recorded; a premature destruction really happens)
//   T <tid> addref | delref                  copy / drop a handle to the cache (intrusive_ptr_add_ref / del_ref()+delete):
//                                            main owns one handle for the whole case; at the end main drops it (recorded as
//                                            a `delref` of tid nthreads) — that del_ref() must be the one returning true
//   T <tid> <op>        op (C07 syntax): store <now> <key> <val> <trig,..|-> <deadline> <gen|->
//                                        fetch <now> <key> | rise <trig> | remove <key> | clear | stats
//   I <op>              prologue operation, run by the main thread before the threads are started (tid = nthreads+1)
//   X <op>              epilogue operation, run by the main thread after all threads were joined (tid = nthreads)
//   run
// stdout, per case:
//   R <tid> <idx> <inv> <res> <hook stamp|-> <result> ; <op>       one per operation
//   E <text>                                                       harness-detected anomalies
//   end
// Watchdog: every case must finish within C09_WATCHDOG seconds (default 30; the slowest case takes about a
// second): otherwise `HANG case <n>` is printed and the process exits with status 77 — an operation that never
// completes (e.g. a lookup spinning in a corrupted, cyclic bucket chain) is a violation, not a time-out.
#include "common.h"
#include "base_cache.h"
#include "cache_storage.h"
#include <booster/intrusive_ptr.h>
#include <atomic>
#include <thread>
#include <set>
#include <sched.h>
#include <time.h>
#include <signal.h>
#include <unistd.h>

static thread_local time_t tl_now = 1000;
extern "C" time_t time(time_t *t) { if(t) *t=tl_now; return tl_now; }

extern "C" { extern void (*cppcms_verif_cache_hook)(int point); }

using cppcms::impl::base_cache;

struct op_t {
	std::string text;		// the op words, echoed
	int kind;			// 0 store 1 fetch 2 rise 3 remove 4 clear 5 stats 6 addref 7 delref
	time_t now;
	std::string key,val;
	std::set<std::string> trigs;
	time_t deadline;
	bool has_gen; uint64_t gen;
	// recorded
	uint64_t inv,res,lin; int hooks; int point;
	std::string result;
	op_t():kind(-1),now(1000),deadline(0),has_gen(false),gen(0),inv(0),res(0),lin(0),hooks(0),point(0){}
};

static std::atomic<uint64_t> g_clock(1);
static std::atomic<int> g_ready(0);
static std::atomic<int> g_go(0);
static unsigned g_spin=0;
static thread_local op_t *tl_cur=0;
static thread_local vh::rng *tl_rng=0;

static void hook_cb(int point)
{
	op_t *o=tl_cur;
	if(!o) return;
	o->lin=g_clock.fetch_add(1);
	o->hooks++;
	o->point=point;
	if(g_spin && tl_rng) {
		// stay inside the critical section for a while: widens the window between a fetch's
		// LRU section and its copy-out, and the overlap of critical sections in general
		unsigned n=tl_rng->below(g_spin+1);
		for(volatile unsigned i=0;i<n;i++) {}
	}
}

static bool parse_trigs(std::string const &w,std::set<std::string> &out)
{
	if(w=="-") return true;
	size_t i=0;
	while(i<=w.size()) {
		size_t j=w.find(',',i);
		if(j==std::string::npos) j=w.size();
		std::string t,part=w.substr(i,j-i);
		if(part=="e") t="";
		else if(part=="-" || !vh::unhex(part,t)) return false;
		out.insert(t);
		i=j+1;
	}
	return true;
}

static bool parse_op(std::vector<std::string> const &w,size_t from,op_t &o)
{
	size_t n=w.size()-from;
	if(n==0) return false;
	std::string const &c=w[from];
	for(size_t i=from;i<w.size();i++) { if(i>from) o.text+=" "; o.text+=w[i]; }
	if(c=="store" && n==7) {
		o.kind=0; o.now=strtoll(w[from+1].c_str(),0,10);
		if(!vh::unhex(w[from+2],o.key) || !vh::unhex(w[from+3],o.val) || !parse_trigs(w[from+4],o.trigs)) return false;
		o.deadline=strtoll(w[from+5].c_str(),0,10);
		if(w[from+6]!="-") { o.has_gen=true; o.gen=strtoull(w[from+6].c_str(),0,10); }
		return true;
	}
	if(c=="fetch" && n==3) { o.kind=1; o.now=strtoll(w[from+1].c_str(),0,10); return vh::unhex(w[from+2],o.key); }
	if(c=="rise" && n==2) { o.kind=2; if(w[from+1]=="e") { o.key=""; return true; } return vh::unhex(w[from+1],o.key); }
	if(c=="remove" && n==2) { o.kind=3; return vh::unhex(w[from+1],o.key); }
	if(c=="clear" && n==1) { o.kind=4; return true; }
	if(c=="stats" && n==1) { o.kind=5; return true; }
	if(c=="addref" && n==1) { o.kind=6; return true; }
	if(c=="delref" && n==1) { o.kind=7; return true; }
	return false;
}

// handles: main owns one for the whole case; g_live = handles the harness knows to be alive besides main's
static std::atomic<long> g_live(0);
static std::atomic<long> g_premature(0);
static bool g_raw_handles=false;
static thread_local std::vector<booster::intrusive_ptr<base_cache> > *tl_handles=0;

static void exec(base_cache &cache,op_t &o)
{
	tl_now=o.now;
	switch(o.kind) {
	case 6:
		if(g_raw_handles) { tl_handles->push_back(booster::intrusive_ptr<base_cache>(&cache)); o.result="raw"; }
		else { cppcms::impl::intrusive_ptr_add_ref(&cache); g_live.fetch_add(1); o.result="added"; }
		break;
	case 7:
		if(g_raw_handles) { if(!tl_handles->empty()) tl_handles->pop_back(); o.result="raw"; }
		else {
			long others=g_live.fetch_sub(1)-1;
			bool last=cache.del_ref();	// what intrusive_ptr_release does; `delete` is withheld so that the run can be reported
			if(last) g_premature.fetch_add(1);
			(void)others;
			o.result=last?"dropped 1":"dropped 0";
		}
		break;
	case 0:
		if(o.has_gen) cache.store(o.key,o.val,o.trigs,o.deadline,&o.gen);
		else cache.store(o.key,o.val,o.trigs,o.deadline);
		o.result="ok";
		break;
	case 1: {
		std::string v; std::set<std::string> tr; time_t d=0; uint64_t g=0;
		if(!cache.fetch(o.key,&v,&tr,&d,&g)) { o.result="miss"; break; }
		std::ostringstream ss;
		ss<<"hit "<<vh::hex(v)<<" ";
		bool first=true;
		for(std::set<std::string>::const_iterator p=tr.begin();p!=tr.end();++p) { ss<<(first?"":",")<<(p->empty()?std::string("e"):vh::hex(*p)); first=false; }
		if(first) ss<<"-";
		ss<<" "<<(long long)d<<" "<<(unsigned long long)g;
		o.result=ss.str();
		break; }
	case 2: cache.rise(o.key); o.result="ok"; break;
	case 3: cache.remove(o.key); o.result="ok"; break;
	case 4: cache.clear(); o.result="ok"; break;
	case 5: { unsigned k=0,t=0; cache.stats(k,t); std::ostringstream ss; ss<<"stats "<<k<<" "<<t; o.result=ss.str(); break; }
	default: o.result="bad-op";
	}
}

static void worker(base_cache *cache,std::vector<op_t> *ops,int nthreads,unsigned flags,uint64_t seed)
{
	vh::rng r(seed);
	tl_rng=&r;
	std::vector<booster::intrusive_ptr<base_cache> > handles;
	tl_handles=&handles;
	g_ready.fetch_add(1);
	while(g_go.load()==0) { }	// start together
	(void)nthreads;
	for(size_t i=0;i<ops->size();i++) {
		op_t &o=(*ops)[i];
		if(flags&2) { if(r.below(4)==0) sched_yield(); }
		if(flags&1) {
			tl_cur=&o;
			o.inv=g_clock.fetch_add(1);
		}
		try { exec(*cache,o); }
		catch(std::exception const &e) { o.result=std::string("exception ")+e.what(); }
		catch(...) { o.result="exception unknown"; }
		if(flags&1) {
			o.res=g_clock.fetch_add(1);
			tl_cur=0;
		}
	}
	tl_rng=0;
	handles.clear();
	tl_handles=0;
}

static volatile unsigned long g_caseno=0;
static void on_alarm(int)
{
	char buf[96];
	int n=snprintf(buf,sizeof(buf),"HANG case %lu: operations did not complete\n",(unsigned long)g_caseno);
	if(n>0) { ssize_t r=write(1,buf,n); r=write(2,buf,n); (void)r; }
	_exit(77);
}

int main()
{
	unsigned watchdog=30;
	if(getenv("C09_WATCHDOG")) watchdog=atoi(getenv("C09_WATCHDOG"));
	signal(SIGALRM,on_alarm);
	std::ios::sync_with_stdio(false);
	std::string line;
	int nthreads=0; unsigned limit=0,flags=1;
	std::vector<std::vector<op_t> > progs;
	unsigned long caseno=0;
	while(std::getline(std::cin,line)) {
		std::vector<std::string> w=vh::words(line);
		if(w.empty()) continue;
		if(w[0]=="case" && w.size()==5) {
			nthreads=atoi(w[1].c_str()); limit=strtoul(w[2].c_str(),0,10); g_spin=strtoul(w[3].c_str(),0,10); flags=strtoul(w[4].c_str(),0,10);
			if(nthreads<1 || nthreads>64) { std::cout<<"E bad-case\nend\n"; nthreads=0; continue; }
			progs.assign(nthreads+2,std::vector<op_t>());	// [nthreads]: epilogue (main thread, after the join), [nthreads+1]: prologue (before the start)
			caseno++;
			g_caseno=caseno;
		}
		else if(w[0]=="T" && w.size()>=3) {
			int t=atoi(w[1].c_str());
			op_t o;
			if(t<0 || t>=nthreads || !parse_op(w,2,o)) { std::cout<<"E bad-op "<<line<<"\n"; continue; }
			progs[t].push_back(o);
		}
		else if(w[0]=="I" && w.size()>=2 && nthreads>0) {
			op_t o;
			if(!parse_op(w,1,o)) { std::cout<<"E bad-op "<<line<<"\n"; continue; }
			progs[nthreads+1].push_back(o);
		}
		else if(w[0]=="X" && w.size()>=2 && nthreads>0) {
			op_t o;
			if(!parse_op(w,1,o)) { std::cout<<"E bad-op "<<line<<"\n"; continue; }
			progs[nthreads].push_back(o);
		}
		else if(w[0]=="run") {
			// main's handle, owned by hand so that the final del_ref() can be observed: refs == 1 from here on
			base_cache *cache_raw=cppcms::impl::thread_cache_factory(limit).release();
			struct raw_ptr { base_cache *p; base_cache *get() const { return p; } base_cache *operator->() const { return p; } } cache={cache_raw};
			g_live.store(0); g_premature.store(0); g_raw_handles=(flags&4)!=0;
			g_clock.store(1); g_ready.store(0); g_go.store(0);
			cppcms_verif_cache_hook = (flags&1) ? hook_cb : 0;
			std::cout.flush();
			alarm(watchdog);
			// prologue: single-threaded
			g_go.store(1);
			worker(cache.get(),&progs[nthreads+1],1,flags&1,caseno*1000003ull+77773ull);
			g_ready.store(0); g_go.store(0);
			std::vector<std::thread> th;
			for(int t=0;t<nthreads;t++)
				th.push_back(std::thread(worker,cache.get(),&progs[t],nthreads,flags,caseno*1000003ull+t*7919ull+1));
			while(g_ready.load()<nthreads) { }
			g_go.store(1);
			for(int t=0;t<nthreads;t++) th[t].join();
			// epilogue: single-threaded, makes the final state (values, counters, LRU order via evictions) observable
			g_ready.store(0);
			worker(cache.get(),&progs[nthreads],1,flags&1,caseno*1000003ull+99991ull);
			// main drops its handle: this del_ref() — and no earlier one — must report that the count reached zero
			uint64_t f_inv=(flags&1)?g_clock.fetch_add(1):0;
			{ unsigned k=0,tg=0; cache->stats(k,tg); std::cout<<"F "<<k<<" "<<tg<<"\n"; }
			bool final_last=cache_raw->del_ref();
			uint64_t f_res=(flags&1)?g_clock.fetch_add(1):0;
			alarm(0);
			cppcms_verif_cache_hook=0;
			for(int t=0;t<=nthreads+1;t++) {
				for(size_t i=0;i<progs[t].size();i++) {
					op_t &o=progs[t][i];
					std::cout<<"R "<<t<<" "<<i<<" "<<o.inv<<" "<<o.res<<" ";
					if(o.hooks>0) std::cout<<o.lin; else std::cout<<"-";
					std::cout<<" "<<o.result<<" ; "<<o.text<<"\n";
					if(o.kind>=6) continue;		// handle operations: no hook in add_ref/del_ref
					if((flags&1) && o.hooks!=1) std::cout<<"E hook fired "<<o.hooks<<" times in "<<t<<"/"<<i<<" "<<o.text<<"\n";
					if((flags&1) && o.hooks==1) {
						// the hook point must fit the operation: 1/2 fetch, 3 rise, 4 clear, 5 stats, 6 remove, 7 store (6 too: copy failure path)
						bool ok = (o.kind==1 && ((o.point==1 && o.result=="miss") || (o.point==2 && o.result.compare(0,3,"hit")==0)))
							|| (o.kind==2 && o.point==3) || (o.kind==4 && o.point==4) || (o.kind==5 && o.point==5)
							|| (o.kind==3 && o.point==6) || (o.kind==0 && (o.point==7 || o.point==6));
						if(!ok) std::cout<<"E hook point "<<o.point<<" does not fit "<<t<<"/"<<i<<" "<<o.text<<" -> "<<o.result<<"\n";
					}
				}
			}
			std::cout<<"R "<<nthreads<<" "<<progs[nthreads].size()<<" "<<f_inv<<" "<<f_res<<" - dropped "<<(final_last?1:0)<<" ; delref\n";
			if(g_premature.load()) std::cout<<"E del_ref() returned true "<<g_premature.load()<<" time(s) while main still held its handle: the cache would have been destroyed under its users\n";
			if(!final_last) std::cout<<"E final del_ref() of the last handle returned false: reference count does not equal the number of live handles\n";
			if(g_live.load()!=0) std::cout<<"E harness: unbalanced handle program ("<<g_live.load()<<")\n";
			std::cout<<"end\n";
			std::cout.flush();
			if(final_last && !g_premature.load()) delete cache_raw;
		}
		else std::cout<<"E bad-line "<<line<<"\n";
	}
	return 0;
}
