// C05 harness: the real cppcms::sessions::{session_cookies, impl::hmac_cipher, impl::aes_cipher,
// impl::aes_factory}, session_pool::init and the crypto primitives behind a line protocol.
//
// Link-time interposition (no source change in /repo):
//   * time()                      -> virtual clock set by the `load`/`save` ops
//   * cppcms::urandom_device      -> deterministic entropy stream, every byte handed out is logged and
//                                    reported on the op's output line (" R <hex>")
//
// Objects live across lines (the CBC object chains its IVs), keyed by an id chosen by the case file.
#include "common.h"
#include <cppcms/session_cookies.h>
#include <cppcms/session_interface.h>
#include <cppcms/session_pool.h>
#include <cppcms/session_api.h>
#include <cppcms/http_cookie.h>
#include <cppcms/crypto.h>
#include <cppcms/urandom.h>
#include <cppcms/json.h>
#include <cppcms/util.h>
#include <cppcms/cppcms_error.h>
#include <booster/shared_ptr.h>
#include "hmac_encryptor.h"
#include "aes_encryptor.h"
#include <map>
#include <memory>
#include <time.h>

// ---------------------------------------------------------------- virtual clock
static time_t g_now = 1000000;
extern "C" time_t time(time_t *t) { if(t) *t=g_now; return g_now; }

// ---------------------------------------------------------------- entropy source
static vh::rng g_rng(0x5eed);
static std::string g_entropy_log;
namespace cppcms {
	struct urandom_device::_data {};
	urandom_device::urandom_device() {}
	urandom_device::~urandom_device() {}
	void urandom_device::generate(void *ptr,unsigned len)
	{
		unsigned char *p=static_cast<unsigned char *>(ptr);
		for(unsigned i=0;i<len;i++) { p[i]=(unsigned char)(g_rng.next()>>24); g_entropy_log.push_back(char(p[i])); }
	}
}

using namespace cppcms;

// ---------------------------------------------------------------- cookie adapter
struct adapter : public session_interface_cookie_adapter {
	std::string in;          // what the browser sent
	std::string out;         // last value set for the session cookie
	bool set_called=false, cleared=false;
	void set_cookie(http::cookie const &c) override
	{
		if(c.name()!="cppcms_session") return;
		set_called=true;
		out=util::urldecode(c.value());
		if(c.value().empty()) cleared=true;
	}
	std::string get_session_cookie(std::string const & /*name*/) override { return in; }
	std::set<std::string> get_cookie_names() override { std::set<std::string> s; if(!in.empty()) s.insert("cppcms_session"); return s; }
};

// the session_api the shim forwards to for the current op, and the payload it substitutes
static session_api *g_cur=0;
static std::string g_payload; static time_t g_timeout=0; static bool g_on_server=false;

struct shim_api : public session_api {
	void save(session_interface &si,std::string const & /*data*/,time_t /*timeout*/,bool newone,bool /*on_server*/) override
	{ g_cur->save(si,g_payload,g_timeout,newone,g_on_server); }
	bool load(session_interface &,std::string &,time_t &) override { return false; }
	void clear(session_interface &si) override { g_cur->clear(si); }
	bool is_blocking() override { return false; }
};
struct shim_factory : public session_api_factory {
	bool requires_gc() override { return false; }
	void gc() override {}
	booster::shared_ptr<session_api> get() override { return booster::shared_ptr<session_api>(new shim_api()); }
};

struct fwd_encryptor : public sessions::encryptor {
	sessions::encryptor *e;
	explicit fwd_encryptor(sessions::encryptor *p):e(p){}
	std::string encrypt(std::string const &p) override { return e->encrypt(p); }
	bool decrypt(std::string const &c,std::string &p) override { return e->decrypt(c,p); }
};

struct object {
	std::unique_ptr<sessions::encryptor> enc;           // raw encryptor (absent for `pool` objects)
	std::unique_ptr<session_pool> pool;                 // `pool` objects: configured through session_pool::init
	booster::shared_ptr<session_api> api;               // the session_cookies instance
};
static std::map<std::string,std::unique_ptr<object> > g_objs;
static std::unique_ptr<session_pool> g_pool;

static std::string classify(std::string const &m)
{
	if(m.find("key legth is too small")!=std::string::npos) return "keyTooSmall";
	if(m.find("without encryption method")!=std::string::npos) return "noMethod";
	if(m.find("Can't specify both")!=std::string::npos) return "bothStyles";
	if(m.find("without MAC")!=std::string::npos) return "cbcWithoutMac";
	if(m.find("Unknown encryptor")!=std::string::npos) return "unknownEncryptor";
	if(m.find("invalid key length")!=std::string::npos) return "badKeyLength";
	if(m.find("Invalid key size")!=std::string::npos) return "badKeyLength";
	if(m.find("hash algorithm")!=std::string::npos) return "unknownHash";
	if(m.find("unsupported hash function")!=std::string::npos) return "unknownHash";
	if(m.find("is not supported")!=std::string::npos) return "unknownCbc";
	if(m.find("should be stored on server")!=std::string::npos) return "onServer";
	return "other:"+m;
}

static std::string with_entropy(std::string const &r)
{
	if(g_entropy_log.empty()) return r;
	std::string o=r+" R "+vh::hex(g_entropy_log);
	g_entropy_log.clear();
	return o;
}

static std::string dash(std::string const &s) { return s=="-" ? std::string() : s; }

// create the object from a factory; a throw-away instance is probed first so that errors the library only
// reports at first use (unknown hash name, wrong CBC key size) are classified at creation, as the model does
template<typename F>
static std::string make(std::string const &id,F mk)
{
	try {
		{ std::unique_ptr<sessions::encryptor_factory> f(mk()); std::unique_ptr<sessions::encryptor> probe=f->get(); std::string p; probe->decrypt(probe->encrypt("probe"),p); }
		std::unique_ptr<sessions::encryptor_factory> f(mk());
		std::unique_ptr<object> o(new object());
		o->enc=f->get();
		o->api.reset(new sessions::session_cookies(std::unique_ptr<sessions::encryptor>(new fwd_encryptor(o->enc.get()))));
		g_objs[id]=std::move(o);
	}
	catch(std::exception const &e) { g_entropy_log.clear(); return "refused "+classify(e.what()); }
	g_entropy_log.clear();
	return "ok";
}

static std::string run(std::vector<std::string> const &w)
{
	using namespace cppcms::sessions;
	if(w.empty()) return "bad-op";
	std::string const &op=w[0];
	g_entropy_log.clear();
	if(!g_pool.get()) {
		json::value v; v["session"]["location"]="none";
		g_pool.reset(new session_pool(v));
		g_pool->backend(std::unique_ptr<session_api_factory>(new shim_factory()));
	}
	if(op=="seed" && w.size()==2) { g_rng=vh::rng(strtoull(w[1].c_str(),0,10)); return "ok"; }
	// ------------------------------------------------ primitives (oracle answers for the model)
	if(op=="mac" && w.size()==4) {
		std::string k,m; if(!vh::unhex(w[2],k)||!vh::unhex(w[3],m)) return "bad-op";
		crypto::hmac h(w[1],crypto::key(k.data(),k.size()));
		h.append(m.data(),m.size());
		std::vector<char> out(h.digest_size()+1,0);
		h.readout(&out[0]);
		return vh::hex(&out[0],out.size()-1);
	}
	if((op=="cbcenc"||op=="cbcdec") && w.size()==5) {
		std::string k,iv,d; if(!vh::unhex(w[2],k)||!vh::unhex(w[3],iv)||!vh::unhex(w[4],d)) return "bad-op";
		std::unique_ptr<crypto::cbc> c=crypto::cbc::create(w[1]);
		if(!c.get()) return "unknown-cbc";
		c->set_key(crypto::key(k.data(),k.size()));
		c->set_iv(iv.data(),iv.size());
		std::vector<char> out(d.size()+1,0);
		if(op=="cbcenc") c->encrypt(d.data(),&out[0],d.size()); else c->decrypt(d.data(),&out[0],d.size());
		return vh::hex(&out[0],d.size());
	}
	if(op=="dsize" && w.size()==2) {
		std::unique_ptr<crypto::message_digest> d=crypto::message_digest::create_by_name(w[1]);
		return d.get()? std::to_string(d->digest_size()) : "none";
	}
	if(op=="cbcinfo" && w.size()==2) {
		std::unique_ptr<crypto::cbc> c=crypto::cbc::create(w[1]);
		return c.get()? std::to_string(c->block_size())+" "+std::to_string(c->key_size()) : "none";
	}
	// ------------------------------------------------ object creation
	if(op=="hmac" && w.size()==4) {
		std::string k; if(!vh::unhex(w[3],k)) return "bad-op";
		std::string algo=w[2];
		return make(w[1],[&]{ return new sessions::impl::hmac_factory(algo,crypto::key(k.data(),k.size())); });
	}
	if(op=="aes" && w.size()==4) {
		std::string k; if(!vh::unhex(w[3],k)) return "bad-op";
		std::string algo=w[2];
		return make(w[1],[&]{ return new sessions::impl::aes_factory(algo,crypto::key(k.data(),k.size())); });
	}
	if(op=="aes2" && w.size()==6) {
		std::string ck,mk; if(!vh::unhex(w[3],ck)||!vh::unhex(w[5],mk)) return "bad-op";
		std::string cbc=w[2],mac=w[4];
		return make(w[1],[&]{ return new sessions::impl::aes_factory(cbc,crypto::key(ck.data(),ck.size()),mac,crypto::key(mk.data(),mk.size())); });
	}
	if(op=="pool" && w.size()==8) {
		// pool <id> <encryptor> <hmac> <cbc> <keyhex> <hmackeyhex> <cbckeyhex>   ("-" = empty / absent)
		json::value v;
		v["session"]["location"]="client";
		if(w[2]!="-") v["session"]["client"]["encryptor"]=w[2];
		if(w[3]!="-") v["session"]["client"]["hmac"]=w[3];
		if(w[4]!="-") v["session"]["client"]["cbc"]=w[4];
		v["session"]["client"]["key"]=dash(w[5]);
		v["session"]["client"]["hmac_key"]=dash(w[6]);
		v["session"]["client"]["cbc_key"]=dash(w[7]);
		try {
			std::unique_ptr<object> o(new object());
			o->pool.reset(new session_pool(v));
			o->pool->init();
			{ // errors reported at first use
				booster::shared_ptr<session_api> probe=o->pool->get();
				adapter a; session_interface si(*g_pool,a);
				g_cur=probe.get(); g_payload="probe"; g_timeout=g_now+10; g_on_server=false;
				si.load(); si.set("x","1"); si.save();
				adapter b; b.in=a.out; session_interface si2(*g_pool,b);
				std::string d; time_t t; probe->load(si2,d,t);
			}
			o->api=o->pool->get();
			g_objs[w[1]]=std::move(o);
		}
		catch(std::exception const &e) { g_entropy_log.clear(); return "refused "+classify(e.what()); }
		g_entropy_log.clear();
		return "ok";
	}
	if(op=="drop" && w.size()==2) { g_objs.erase(w[1]); return "ok"; }
	// ------------------------------------------------ ops on objects
	if(w.size()<2) return "bad-op";
	std::map<std::string,std::unique_ptr<object> >::iterator it=g_objs.find(w[1]);
	if(it==g_objs.end()) return "no-object";
	object &o=*it->second;
	if(op=="enc" && w.size()==3) {
		std::string p; if(!vh::unhex(w[2],p)||!o.enc.get()) return "bad-op";
		std::string c=o.enc->encrypt(p);
		return with_entropy("ok "+vh::hex(c));
	}
	if(op=="dec" && w.size()==3) {
		std::string c; if(!vh::unhex(w[2],c)||!o.enc.get()) return "bad-op";
		std::string p="previous";
		bool r=o.enc->decrypt(c,p);
		return with_entropy(r? "ok "+vh::hex(p) : std::string("fail"));
	}
	if((op=="save"||op=="saveon") && w.size()==5) {
		// save <id> <now> <timeout> <datahex>
		if(!vh::unhex(w[4],g_payload)) return "bad-op";
		g_now=strtoll(w[2].c_str(),0,10);
		g_timeout=strtoll(w[3].c_str(),0,10);
		g_on_server=(op=="saveon");
		g_cur=o.api.get();
		adapter a;
		session_interface si(*g_pool,a);
		si.load();
		si.set("x","1");
		try { si.save(); }
		catch(cppcms_error const &e) { return with_entropy("fail "+classify(e.what())); }
		if(!a.set_called) return with_entropy("no-cookie-set");
		return with_entropy("ok "+vh::hex(a.out));
	}
	if(op=="load" && w.size()==4) {
		// load <id> <now> <cookiehex>
		adapter a;
		if(!vh::unhex(w[3],a.in)) return "bad-op";
		g_now=strtoll(w[2].c_str(),0,10);
		session_interface si(*g_pool,a);
		std::string data="previous"; time_t t=-12345;
		bool r=o.api->load(si,data,t);
		std::string res;
		if(r) res="ok "+std::to_string((long long)t)+" "+vh::hex(data);
		else res="fail";
		res+=a.cleared? " cleared=1":" cleared=0";
		if(a.set_called && !a.cleared) res+=" unexpected-set-cookie";
		return with_entropy(res);
	}
	return "bad-op";
}

int main() { return vh::drive(run); }
