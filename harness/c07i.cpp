// C07 harness, trigger-recording layer: a real cppcms::service (SCGI on a unix socket in the current
// directory, thread_shared cache) with
//   * a stand-alone cppcms::cache_interface(service&) for the context-free operations (its triggers_ and
//     recorders persist across lines, as for a long-lived object), and
//   * an application whose main() builds a page: fetch_page(key); if it misses, runs a script of cache
//     operations through the request's own cache_interface (context().cache()), writes the body and calls
//     store_page(key, timeout).  One `ipage` line = one real request played over the socket.
// The clock is virtual (time() interposed, as in c07.cpp).
//
//   inew thread <cache.limit|-> | inew process <cache.limit|-> <cache.memory KiB|->      ("-" = key absent from the settings;
//                                   the shared segment is created once per process: use one cache.memory per harness run)
//   iadd <t> | ifetch <now> <k> <nt> | istore <now> <k> <v> <trigs|-> <timeout> <nt> | iattach <id> | idetach <id>
//   ireset | irise <t> | iclear | istats
//   ipage <now> <key> <timeout> <body> <op;op;…|->        (ops as above with ':' instead of blanks)
//                                   ops in front of an item `F` run before fetch_page, the others between fetch_page and store_page
// answers: ok | miss | hit <v> | detached <t,t,…> | cached <body> | built <answer;answer;…>, each followed by
// " | <keys> <triggers>" (stats of the shared cache after the line)
#include "common.h"
#include "buddy_allocator.h"
#define private public	// shmem_control::memory_ / size_ are read (never written) for the low-memory flag
#include "shmem_allocator.h"
#undef private
#include <cppcms/service.h>
#include <cppcms/application.h>
#include <cppcms/applications_pool.h>
#include <cppcms/cache_interface.h>
#include <cppcms/http_response.h>
#include <cppcms/http_request.h>
#include <cppcms/http_context.h>
#include <cppcms/json.h>
#include <booster/thread.h>
#include <sys/socket.h>
#include <sys/un.h>
#include <unistd.h>
#include <time.h>
#include <map>
#include <memory>
#include <set>

static time_t virtual_now = 1000;
extern "C" time_t time(time_t *t) { if(t) *t=virtual_now; return virtual_now; }

// memory pressure in the shared segment of the process_shared back-end (see harness/c07.cpp): the check_limits hook
// notes whether the allocator's largest free chunk was below 10 % of the segment at any evaluation of the loop guard
namespace cppcms { namespace impl { struct process_settings { static shmem_control *process_memory; }; } }
extern "C" { extern void (*cppcms_verif_limits_hook)(int in_loop); }
static bool pressure_seen=false;
static bool segment_low()
{
	cppcms::impl::shmem_control *m=cppcms::impl::process_settings::process_memory;
	return m && m->memory_->max_free_chunk() < m->size_/10;
}
static void limits_hook(int) { if(segment_low()) pressure_seen=true; }

static std::string trig_name(std::string const &w,bool &ok) { std::string t; ok=true; if(w=="e") return t; ok=vh::unhex(w,t) && w!="-"; return t; }
static bool parse_trigs(std::string const &w,std::set<std::string> &out)
{
	if(w=="-") return true;
	size_t i=0;
	while(i<=w.size()) {
		size_t j=w.find(',',i); if(j==std::string::npos) j=w.size();
		bool ok; std::string t=trig_name(w.substr(i,j-i),ok); if(!ok) return false;
		out.insert(t); i=j+1;
	}
	return true;
}
static std::string trigs_word(std::set<std::string> const &s)
{
	if(s.empty()) return "-";
	std::string r; bool first=true;
	for(std::set<std::string>::const_iterator p=s.begin();p!=s.end();++p) { r+=(first?"":","); r+=(p->empty()?std::string("e"):vh::hex(*p)); first=false; }
	return r;
}

// one cache operation against a cache_interface; `recs` are the recorders of that interface
typedef std::map<int,std::shared_ptr<cppcms::triggers_recorder> > recs_t;
static std::string do_op(cppcms::cache_interface &ci,recs_t &recs,std::vector<std::string> const &w)
{
	bool ok;
	if(w.size()==2 && w[0]=="iadd") { std::string t=trig_name(w[1],ok); if(!ok) return "bad-op"; ci.add_trigger(t); return "ok"; }
	if(w.size()==4 && w[0]=="ifetch") {
		std::string k,v; virtual_now=strtoll(w[1].c_str(),0,10);
		if(!vh::unhex(w[2],k)) return "bad-op";
		if(!ci.fetch_frame(k,v,w[3]=="1")) return "miss";
		return "hit "+vh::hex(v);
	}
	if(w.size()==7 && w[0]=="istore") {
		std::string k,v; std::set<std::string> tr; virtual_now=strtoll(w[1].c_str(),0,10);
		if(!vh::unhex(w[2],k) || !vh::unhex(w[3],v) || !parse_trigs(w[4],tr)) return "bad-op";
		ci.store_frame(k,v,tr,atoi(w[5].c_str()),w[6]=="1");
		return "ok";
	}
	if(w.size()==2 && w[0]=="iattach") { int id=atoi(w[1].c_str()); recs.erase(id); recs[id].reset(new cppcms::triggers_recorder(ci)); return "ok"; }
	if(w.size()==2 && w[0]=="idetach") {
		int id=atoi(w[1].c_str());
		recs_t::iterator p=recs.find(id);
		if(p==recs.end()) return "detached -";
		std::set<std::string> s=p->second->detach();
		recs.erase(p);
		return "detached "+trigs_word(s);
	}
	if(w.size()==1 && w[0]=="ireset") { ci.reset(); return "ok"; }
	if(w.size()==2 && w[0]=="irise") { std::string t=trig_name(w[1],ok); if(!ok) return "bad-op"; ci.rise(t); return "ok"; }
	if(w.size()==1 && w[0]=="iclear") { ci.clear(); return "ok"; }
	if(w.size()==1 && w[0]=="istats") { unsigned k=0,t=0; ci.stats(k,t); std::ostringstream ss; ss<<"stats "<<k<<" "<<t; return ss.str(); }
	return "bad-op";
}

// the page being built by the next request
struct page_script { std::string key,body; int timeout; std::vector<std::vector<std::string> > pre,ops; std::string result; };
static page_script g_page;

struct page_app : public cppcms::application {
	page_app(cppcms::service &s):cppcms::application(s){}
	virtual void main(std::string /*url*/)
	{
		response().content_type("application/octet-stream");
		recs_t recs;
		std::string r;
		// operations in front of the marker `F` run BEFORE fetch_page (a prologue that records triggers / stores frames)
		for(size_t i=0;i<g_page.pre.size();i++) { if(!r.empty()) r+=";"; r+=do_op(cache(),recs,g_page.pre[i]); }
		if(cache().fetch_page(g_page.key)) { g_page.result="cached"; return; }
		for(size_t i=0;i<g_page.ops.size();i++) { if(!r.empty()) r+=";"; r+=do_op(cache(),recs,g_page.ops[i]); }
		response().out().write(g_page.body.data(),g_page.body.size());
		cache().store_page(g_page.key,g_page.timeout);
		recs.clear();
		g_page.result="built "+(r.empty()?std::string("-"):r);
	}
};

struct server {
	std::unique_ptr<cppcms::service> srv;
	std::unique_ptr<booster::thread> thr;
	std::unique_ptr<cppcms::cache_interface> ci;
	recs_t recs;
	std::string sock;
	bool process;
	struct runner { server *self; void operator()() const { try { self->srv->run(); } catch(...) {} } };
	int connect_fd()
	{
		int fd=::socket(AF_UNIX,SOCK_STREAM,0);
		struct sockaddr_un u; memset(&u,0,sizeof(u)); u.sun_family=AF_UNIX; strncpy(u.sun_path,sock.c_str(),sizeof(u.sun_path)-1);
		if(::connect(fd,(struct sockaddr*)&u,sizeof(u))<0) { ::close(fd); return -1; }
		return fd;
	}
	void stop()
	{
		// the process-shared cache object is never destroyed (del_ref() is false): empty it, so that it does not keep
		// the segment occupied for the services created later in this process
		if(ci.get() && process) ci->clear();
		recs.clear(); ci.reset();
		if(srv.get()) { srv->shutdown(); if(thr.get()) thr->join(); thr.reset(); srv.reset(); }
	}
	// backend: thread | process; limit / memory: configured value or "-" (key absent from the settings)
	bool start(std::string const &backend,std::string const &limit,std::string const &memory)
	{
		stop();
		process=(backend=="process");
		sock="c07i.sock"; ::unlink(sock.c_str());
		cppcms::json::value cfg;
		cfg["service"]["api"]="scgi";
		cfg["service"]["socket"]=sock;
		cfg["service"]["worker_threads"]=1;
		cfg["cache"]["backend"]=(backend=="process" ? "process_shared" : "thread_shared");
		if(limit!="-") cfg["cache"]["limit"]=atoi(limit.c_str());
		if(memory!="-") cfg["cache"]["memory"]=atoi(memory.c_str());
		cfg["gzip"]["enable"]=false;
		cfg["logging"]["level"]="emergency";
		cfg["localization"]["locales"][0]="C";
		srv.reset(new cppcms::service(cfg));
		srv->applications_pool().mount(cppcms::create_pool<page_app>());
		ci.reset(new cppcms::cache_interface(*srv));
		runner r={this};
		thr.reset(new booster::thread(r));
		for(int i=0;i<3000;i++) { int fd=connect_fd(); if(fd>=0) { ::close(fd); return true; } usleep(1000); }
		return false;
	}
	// play one SCGI request, return the response body (after the header block)
	bool request(std::string &body)
	{
		int fd=connect_fd(); if(fd<0) return false;
		std::string h;
		char const *kv[]={"CONTENT_LENGTH","0","SCGI","1","REQUEST_METHOD","GET","PATH_INFO","/","SCRIPT_NAME","","QUERY_STRING","",
				  "SERVER_NAME","localhost","SERVER_PORT","80","REMOTE_ADDR","127.0.0.1","SERVER_PROTOCOL","HTTP/1.0"};
		for(unsigned i=0;i<sizeof(kv)/sizeof(kv[0]);i++) { h.append(kv[i]); h.push_back('\0'); }
		std::ostringstream ss; ss<<h.size()<<":"; std::string msg=ss.str()+h+",";
		size_t off=0; while(off<msg.size()) { ssize_t n=::write(fd,msg.data()+off,msg.size()-off); if(n<=0) { ::close(fd); return false; } off+=n; }
		std::string resp; char buf[4096];
		for(;;) { ssize_t n=::read(fd,buf,sizeof(buf)); if(n<=0) break; resp.append(buf,n); }
		::close(fd);
		size_t p=resp.find("\r\n\r\n");
		if(p==std::string::npos) return false;
		body=resp.substr(p+4);
		return true;
	}
};
static server g;

static std::string tail()
{
	unsigned k=0,t=0; g.ci->stats(k,t);
	std::ostringstream ss; ss<<" | "<<k<<" "<<t;
	if(g.process && (pressure_seen || segment_low())) ss<<" lowmem";	// an entry may legitimately have been evicted / dropped
	pressure_seen=false;
	return ss.str();
}

static std::vector<std::string> split(std::string const &s,char c)
{
	std::vector<std::string> r; size_t i=0;
	for(;;) { size_t j=s.find(c,i); if(j==std::string::npos) { r.push_back(s.substr(i)); break; } r.push_back(s.substr(i,j-i)); i=j+1; }
	return r;
}

static std::string run(std::vector<std::string> const &w)
{
	if(w[0]=="inew" && ((w.size()==3 && w[1]=="thread") || (w.size()==4 && w[1]=="process"))) {
		if(!g.start(w[1],w[2],w.size()==4?w[3]:std::string("-"))) return "cannot-start";
		return "ok"+tail();
	}
	if(!g.srv.get() || w.empty()) return "bad-op";
	if(w.size()==6 && w[0]=="ipage") {
		virtual_now=strtoll(w[1].c_str(),0,10);
		g_page=page_script();
		if(!vh::unhex(w[2],g_page.key) || !vh::unhex(w[4],g_page.body)) return "bad-op";
		g_page.timeout=atoi(w[3].c_str());
		if(w[5]!="-") { std::vector<std::string> ops=split(w[5],';'); bool pre=false; for(size_t i=0;i<ops.size();i++) pre=pre||ops[i]=="F";
			for(size_t i=0;i<ops.size();i++) { if(ops[i]=="F") { pre=false; continue; } (pre?g_page.pre:g_page.ops).push_back(split(ops[i],':')); } }
		std::string body;
		if(!g.request(body)) return "request-failed"+tail();
		if(g_page.result=="cached") return "cached "+vh::hex(body)+tail();
		if(body!=g_page.body) return "client-got-different-body "+vh::hex(body)+tail();
		return g_page.result+tail();
	}
	std::string r=do_op(*g.ci,g.recs,w);
	return r+tail();
}

int main()
{
	cppcms_verif_limits_hook=limits_hook;
	int r=vh::drive(run);
	g.stop();
	return r;
}
