// C10 harness: real cache_over_ip clients (tcp_cache_factory, with / without an L1 made by
// thread_cache_factory) against real tcp_cache_service instances on loopback, all in this process and
// driven from this one thread, so the global order of the synchronous calls is the order of the
// lines.  Ports are chosen by the kernel (bind to port 0), never the fixed ports of the repo's tests.
// time() is interposed at link time (virtual clock, read by the server threads and the L1s alike).
//
// lines (keys/values/triggers hex, "-" = empty, "e" = the empty trigger name; see lean/Cppcms/C10/Driver.lean):
//   cfg <srvlimit,..> <l1,..>      (l1: n = no L1, else the L1's limit)
//   drop                           every server's front-end restarted on its port over the same caches: all client
//                                  connections are dead; the next call of every client must reconnect and re-send
//   reset                          same cluster, every server cache and every L1 cleared directly (generation
//                                  counters keep running); saves the connections of a fresh cluster
//   fetch <c> <now> <key> <0|1> | store <c> <now> <key> <val> <trigs> <deadline> | rise <c> <t> | clear <c>
//   remove <c> <key> | stats <c>
//        answer: <result> | <keys> <trigs> of every server (asked directly, not over tcp) | same for every L1
//   raw <srv> <now> <frame>        frame bytes over a plain socket to server <srv>; answer: the reply frame
//   cw fetch <key> <0|1> <gen|-> <reply> | cw store <key> <val> <trigs> <deadline> <reply> | cw rise <t> <reply>
//   cw clear <reply> | cw stats <reply>
//        a real tcp_cache object talks to a scripted peer inside the harness: answer = the request
//        frame it put on the socket, then what it made of <reply>
//   rawseg <srv> <now> <n> <frame> | cws <n> <cw arguments>   the same, the request / the scripted reply sent in
//        pieces of n bytes with pauses, so that the receiver's read loop really sees partial data
//   layout                         offsetof/sizeof of the compiled tcp_operation_header
//   hash <n> <key>                 tcp_connector::hash with n connections
#include "common.h"
#include "base_cache.h"
#include "cache_storage.h"
#include "cache_over_ip.h"
#include "tcp_cache_server.h"
#include "tcp_cache_client.h"
#include "tcp_cache_protocol.h"
#include "tcp_messenger.h"
#include "session_memory_storage.h"
#include "session_tcp_storage.h"
#include <cppcms/session_storage.h>
#include <booster/thread.h>
#include <set>
#include <map>
#include <memory>
#include <atomic>
#include <time.h>
#include <unistd.h>
#include <errno.h>
#include <stddef.h>
#include <pthread.h>
#include <sys/socket.h>
#include <sys/time.h>
#include <netinet/in.h>
#include <netinet/tcp.h>
#include <arpa/inet.h>

static std::atomic<long long> virtual_now(1000);
extern "C" time_t time(time_t *t) { time_t v=virtual_now.load(); if(t) *t=v; return v; }

using namespace cppcms::impl;
typedef booster::intrusive_ptr<base_cache> cache_ptr;

// ------------------------------------------------------------------ sockets
static int listen_any(int &port)
{
	int s=socket(AF_INET,SOCK_STREAM,0);
	sockaddr_in a; memset(&a,0,sizeof a);
	a.sin_family=AF_INET; a.sin_addr.s_addr=htonl(INADDR_LOOPBACK); a.sin_port=0;
	for(int attempt=0;;attempt++) {
		// ephemeral ports can run out for a while (TIME_WAIT of earlier histories, other engineers' tests): wait, do not fail
		if(s>=0 && bind(s,(sockaddr*)&a,sizeof a)==0 && listen(s,16)==0) break;
		if(attempt>240) { perror("listen_any"); exit(3); }
		if(s>=0) close(s);
		usleep(500000);
		s=socket(AF_INET,SOCK_STREAM,0);
	}
	socklen_t l=sizeof a; getsockname(s,(sockaddr*)&a,&l);
	port=ntohs(a.sin_port);
	return s;
}
static int free_port() { int p; int s=listen_any(p); close(s); return p; }
static bool write_all(int fd,char const *p,size_t n) { while(n) { ssize_t r=::send(fd,p,n,MSG_NOSIGNAL); if(r<=0) { if(r<0&&errno==EINTR) continue; return false; } p+=r; n-=r; } return true; }
static bool read_all(int fd,char *p,size_t n) { while(n) { ssize_t r=::recv(fd,p,n,0); if(r<=0) { if(r<0&&errno==EINTR) continue; return false; } p+=r; n-=r; } return true; }
// send in pieces of `chunk` bytes with a pause in between (TCP_NODELAY is set): the receiver's read_some sees partial data
static bool write_chunked(int fd,char const *p,size_t n,size_t chunk)
{
	if(chunk==0) return write_all(fd,p,n);
	while(n) {
		size_t k=n<chunk?n:chunk;
		if(!write_all(fd,p,k)) return false;
		p+=k; n-=k;
		if(n) usleep(n>(1u<<20)?20:300);
	}
	return true;
}
static int connect_to(int port)
{
	int s=socket(AF_INET,SOCK_STREAM,0);
	sockaddr_in a; memset(&a,0,sizeof a);
	a.sin_family=AF_INET; a.sin_addr.s_addr=htonl(INADDR_LOOPBACK); a.sin_port=htons(port);
	if(connect(s,(sockaddr*)&a,sizeof a)<0) { close(s); return -1; }
	int one=1; setsockopt(s,IPPROTO_TCP,TCP_NODELAY,&one,sizeof one);
	timeval tv; tv.tv_sec=10; tv.tv_usec=0; setsockopt(s,SOL_SOCKET,SO_RCVTIMEO,&tv,sizeof tv);
	return s;
}
static uint32_t rd32(char const *p) { uint32_t v; memcpy(&v,p,4); return v; }

// ------------------------------------------------------------------ the cluster
struct server_node {
	cache_ptr cache;
	std::unique_ptr<tcp_cache_service> svc;
	booster::shared_ptr<cppcms::sessions::session_storage_factory> sess;
	int port;
	int rawfd;
	server_node():port(0),rawfd(-1){}
};
struct client_node { cache_ptr l1, c; };
static std::vector<std::unique_ptr<server_node> > servers;
static std::vector<client_node> clients;

static void drop_cluster()
{
	clients.clear();	// closes the connections (thread_specific_ptr<tcp_cache> of this thread)
	for(size_t i=0;i<servers.size();i++) {
		if(servers[i]->rawfd>=0) close(servers[i]->rawfd);
		servers[i]->svc.reset();	// stop + join
	}
	servers.clear();
}

static bool parse_list(std::string const &w,std::vector<std::string> &out)
{
	out.clear();
	size_t i=0;
	while(i<=w.size()) {
		size_t j=w.find(',',i);
		if(j==std::string::npos) j=w.size();
		out.push_back(w.substr(i,j-i));
		i=j+1;
	}
	return !out.empty();
}
static bool parse_val(std::string const &w,std::string &out)
{
	if(!w.empty() && w[0]=='r') {
		size_t x=w.find('x');
		if(x==std::string::npos || x!=3) return false;
		int a=vh::hexval(w[1]),b=vh::hexval(w[2]);
		if(a<0||b<0) return false;
		out.assign(strtoull(w.c_str()+x+1,0,10),char(a*16+b));
		return true;
	}
	return vh::unhex(w,out);
}
static bool parse_trig(std::string const &w,std::string &t)
{
	if(w=="e") { t=""; return true; }
	if(w=="-") return false;
	return vh::unhex(w,t);
}
static bool parse_trigs(std::string const &w,std::set<std::string> &out)
{
	if(w=="-") return true;
	std::vector<std::string> parts;
	parse_list(w,parts);
	for(size_t i=0;i<parts.size();i++) { std::string t; if(!parse_trig(parts[i],t)) return false; out.insert(t); }
	return true;
}
static std::string trigs_str(std::set<std::string> const &tr)
{
	if(tr.empty()) return "-";
	std::string r;
	for(std::set<std::string>::const_iterator p=tr.begin();p!=tr.end();++p) { if(p!=tr.begin()) r+=","; r+=p->empty()?std::string("e"):vh::hex(*p); }
	return r;
}

static std::string tail()
{
	std::ostringstream ss;
	ss<<" | ";
	for(size_t i=0;i<servers.size();i++) { unsigned k=0,t=0; servers[i]->cache->stats(k,t); ss<<(i?";":"")<<k<<" "<<t; }
	ss<<" | ";
	for(size_t i=0;i<clients.size();i++) {
		if(i) ss<<";";
		if(clients[i].l1) { unsigned k=0,t=0; clients[i].l1->stats(k,t); ss<<k<<" "<<t; } else ss<<"n";
	}
	return ss.str();
}

static std::string do_cfg(std::string const &sl,std::string const &ll)
{
	typedef booster::shared_ptr<cppcms::sessions::session_storage_factory> sfact;
	std::vector<std::string> a,b;
	if(!parse_list(sl,a) || !parse_list(ll,b)) return "bad-op";
	drop_cluster();
	std::vector<std::string> ips; std::vector<int> ports;
	for(size_t i=0;i<a.size();i++) {
		std::unique_ptr<server_node> n(new server_node());
		n->cache=thread_cache_factory(strtoul(a[i].c_str(),0,10));
		for(int attempt=0;;attempt++) {
			n->port=free_port();
			// every server also gets a session storage (session_memory_storage), as cppcms_scale configures it
			if(!n->sess) n->sess.reset(new cppcms::sessions::session_memory_storage_factory());
			try { n->svc.reset(new tcp_cache_service(n->cache,n->sess,1,"127.0.0.1",n->port)); break; }
			catch(std::exception const &e) { if(attempt>50) throw; }
		}
		ips.push_back("127.0.0.1"); ports.push_back(n->port);
		servers.push_back(std::move(n));
	}
	for(size_t i=0;i<b.size();i++) {
		client_node c;
		if(b[i]!="n") c.l1=thread_cache_factory(strtoul(b[i].c_str(),0,10));
		c.c=tcp_cache_factory(ips,ports,c.l1);
		// connect now (stats talks to every server) and wait out a temporary shortage of ephemeral ports, so that
		// no operation of the history can fail with "connect: Cannot assign requested address"
		for(int attempt=0;;attempt++) {
			try { unsigned k,t; c.c->stats(k,t); break; }
			catch(std::exception const &e) { if(attempt>240) throw; usleep(500000); }
		}
		clients.push_back(c);
	}
	return "ok"+tail();
}

// ------------------------------------------------------------------ raw frames to a real server
static size_t raw_chunk=0;
static std::string do_raw(size_t i,std::string const &frame)
{
	if(i>=servers.size() || frame.size()<sizeof(tcp_operation_header)) return "bad-op";
	if(frame.size()!=sizeof(tcp_operation_header)+rd32(frame.data()+offsetof(tcp_operation_header,size))) return "bad-op";
	server_node &n=*servers[i];
	if(n.rawfd<0) n.rawfd=connect_to(n.port);
	if(n.rawfd<0) return "connect-failed";
	if(!write_chunked(n.rawfd,frame.data(),frame.size(),raw_chunk)) return "write-failed";
	std::string reply(sizeof(tcp_operation_header),'\0');
	if(!read_all(n.rawfd,&reply[0],reply.size())) return "no-reply";
	uint32_t sz=rd32(reply.data()+offsetof(tcp_operation_header,size));
	if(sz) { std::string p(sz,'\0'); if(!read_all(n.rawfd,&p[0],sz)) return "short-reply"; reply+=p; }
	return vh::hex(reply);
}

// ------------------------------------------------------------------ a real tcp_cache against a scripted peer
static pthread_mutex_t peer_mu=PTHREAD_MUTEX_INITIALIZER;
static std::string peer_reply, peer_request;
static size_t peer_chunk=0;
static int peer_port=0;
static void *peer_conn(void *arg)
{
	int fd=(int)(intptr_t)arg;
	for(;;) {
		std::string req(sizeof(tcp_operation_header),'\0');
		if(!read_all(fd,&req[0],req.size())) break;
		uint32_t sz=rd32(req.data()+offsetof(tcp_operation_header,size));
		if(sz) { std::string p(sz,'\0'); if(!read_all(fd,&p[0],sz)) break; req+=p; }
		std::string rep; size_t chunk;
		pthread_mutex_lock(&peer_mu); peer_request=req; rep=peer_reply; chunk=peer_chunk; pthread_mutex_unlock(&peer_mu);
		if(!write_chunked(fd,rep.data(),rep.size(),chunk)) break;
	}
	close(fd);
	return 0;
}
static void *peer_accept(void *arg)
{
	int ls=(int)(intptr_t)arg;
	for(;;) {
		int fd=accept(ls,0,0);
		if(fd<0) { if(errno==EINTR) continue; break; }
		int one=1; setsockopt(fd,IPPROTO_TCP,TCP_NODELAY,&one,sizeof one);
		pthread_t t; pthread_create(&t,0,peer_conn,(void*)(intptr_t)fd); pthread_detach(t);
	}
	return 0;
}
static std::unique_ptr<tcp_cache> peer_client;
static std::unique_ptr<cppcms::sessions::tcp_storage> peer_sess;
static tcp_cache &scripted_client()
{
	if(!peer_client) {
		int ls=listen_any(peer_port);
		pthread_t t; pthread_create(&t,0,peer_accept,(void*)(intptr_t)ls); pthread_detach(t);
		std::vector<std::string> ips(1,"127.0.0.1"); std::vector<int> ports(1,peer_port);
		peer_client.reset(new tcp_cache(ips,ports));
		peer_sess.reset(new cppcms::sessions::tcp_storage(ips,ports));
	}
	return *peer_client;
}
static bool set_reply(std::string const &hexw)
{
	std::string r;
	if(!vh::unhex(hexw,r) || r.size()<sizeof(tcp_operation_header)) return false;
	if(r.size()!=sizeof(tcp_operation_header)+rd32(r.data()+offsetof(tcp_operation_header,size))) return false;
	pthread_mutex_lock(&peer_mu); peer_reply=r; peer_request.clear(); pthread_mutex_unlock(&peer_mu);
	return true;
}
static std::string got_request()
{
	pthread_mutex_lock(&peer_mu); std::string r=peer_request; pthread_mutex_unlock(&peer_mu);
	return vh::hex(r);
}
static std::string do_cw(std::vector<std::string> const &w)
{
	tcp_cache &tc=scripted_client();
	if(w.size()==6 && w[1]=="fetch") {
		std::string k,a; std::set<std::string> tg; time_t to=0; uint64_t g=0; bool tinu=w[4]!="-";
		if(!vh::unhex(w[2],k) || !set_reply(w[5])) return "bad-op";
		if(tinu) g=strtoull(w[4].c_str(),0,10);
		int r=tc.fetch(k,a,w[3]=="1"?&tg:0,to,g,tinu);
		std::ostringstream ss; ss<<got_request()<<" ";
		if(r==tcp_cache::up_to_date) ss<<"uptodate";
		else if(r==tcp_cache::not_found) ss<<"notfound";
		else ss<<"found "<<vh::hex(a)<<" "<<trigs_str(tg)<<" "<<(long long)to<<" "<<(unsigned long long)g;
		return ss.str();
	}
	if(w.size()==7 && w[1]=="store") {
		std::string k,v; std::set<std::string> tr;
		if(!vh::unhex(w[2],k) || !parse_val(w[3],v) || !parse_trigs(w[4],tr) || !set_reply(w[6])) return "bad-op";
		tc.store(k,v,tr,strtoll(w[5].c_str(),0,10));
		return got_request();
	}
	if(w.size()==4 && w[1]=="rise") { std::string t; if(!parse_trig(w[2],t) || !set_reply(w[3])) return "bad-op"; tc.rise(t); return got_request(); }
	if(w.size()==3 && w[1]=="clear") { if(!set_reply(w[2])) return "bad-op"; tc.clear(); return got_request(); }
	if(w.size()==6 && w[1]=="ssave") {
		std::string sid,v;
		if(!vh::unhex(w[2],sid) || !parse_val(w[4],v) || !set_reply(w[5])) return "bad-op";
		peer_sess->save(sid,strtoll(w[3].c_str(),0,10),v);
		return got_request();
	}
	if(w.size()==4 && w[1]=="sremove") {
		std::string sid; if(!vh::unhex(w[2],sid) || !set_reply(w[3])) return "bad-op";
		peer_sess->remove(sid);
		return got_request();
	}
	if(w.size()==4 && w[1]=="sload") {
		std::string sid,out="previous"; time_t to=77;
		if(!vh::unhex(w[2],sid) || !set_reply(w[3])) return "bad-op";
		bool ok=peer_sess->load(sid,to,out);
		std::ostringstream ss; ss<<got_request()<<" ";
		if(ok) ss<<"some "<<(long long)to<<" "<<vh::hex(out); else ss<<"none";
		return ss.str();
	}
	if(w.size()==3 && w[1]=="stats") {
		if(!set_reply(w[2])) return "bad-op";
		unsigned k=7,t=7; tc.stats(k,t);
		std::ostringstream ss; ss<<got_request()<<" "<<k<<" "<<t; return ss.str();
	}
	return "bad-op";
}

// ------------------------------------------------------------------ layout, hash
static int bit_of(void (*set)(tcp_operation_header &),size_t &off)
{
	tcp_operation_header h; memset(&h,0,sizeof h); set(h);
	unsigned char const *p=reinterpret_cast<unsigned char const*>(&h);
	for(size_t i=0;i<sizeof h;i++) for(int b=0;b<8;b++) if(p[i]>>b&1) { off=i/4*4; return int((i%4)*8+b); }
	off=0; return -1;
}
static void set_tt(tcp_operation_header &h) { h.operations.fetch.transfer_triggers=1; }
static void set_tinu(tcp_operation_header &h) { h.operations.fetch.transfer_if_not_uptodate=1; }
static std::string do_layout()
{
	std::ostringstream ss;
	#define OFF(n,f) ss<<n<<"@"<<offsetof(tcp_operation_header,f)<<" "
	OFF("opcode",opcode); OFF("size",size);
	OFF("fetch.current_gen",operations.fetch.current_gen); OFF("fetch.key_len",operations.fetch.key_len);
	size_t o; int b=bit_of(set_tt,o); ss<<"fetch.transfer_triggers@"<<o<<"."<<b<<" ";
	b=bit_of(set_tinu,o); ss<<"fetch.transfer_if_not_uptodate@"<<o<<"."<<b<<" ";
	OFF("rise.trigger_len",operations.rise.trigger_len);
	OFF("store.timeout",operations.store.timeout); OFF("store.key_len",operations.store.key_len);
	OFF("store.data_len",operations.store.data_len); OFF("store.triggers_len",operations.store.triggers_len);
	OFF("data.generation",operations.data.generation); OFF("data.timeout",operations.data.timeout);
	OFF("data.data_len",operations.data.data_len); OFF("data.triggers_len",operations.data.triggers_len);
	OFF("out_stats.keys",operations.out_stats.keys); OFF("out_stats.triggers",operations.out_stats.triggers);
	OFF("session_save.timeout",operations.session_save.timeout); OFF("session_data.timeout",operations.session_data.timeout);
	ss<<"sizeof="<<sizeof(tcp_operation_header);
	// the model takes time_t = int64_t (to_time_t is then the identity) and a little-endian host
	uint32_t one=1;
	if(sizeof(time_t)!=8 || *reinterpret_cast<unsigned char*>(&one)!=1) ss<<" UNSUPPORTED-ABI";
	return ss.str();
}

struct hasher : public tcp_connector {
	hasher(std::vector<std::string> const &i,std::vector<int> const &p) : tcp_connector(i,p) {}
	unsigned h(std::string const &k) { return hash(k); }
};
static std::map<int,hasher*> hashers;
static std::string do_hash(int n,std::string const &k)
{
	if(n<1 || n>16) return "bad-op";
	if(!hashers.count(n)) {
		std::vector<std::string> ips; std::vector<int> ports;
		for(int i=0;i<n;i++) { int p; listen_any(p); ips.push_back("127.0.0.1"); ports.push_back(p); }	// never accepted: the backlog completes the connects
		hashers[n]=new hasher(ips,ports);
	}
	return std::to_string(hashers[n]->h(k));
}

// ------------------------------------------------------------------ watchdog
// A blocking read of the real client that never completes (peer and client out of step) must not stall the check:
// if one line takes longer than 20 s of real time the harness reports it and exits (status 5).
static std::atomic<long long> op_started(0);
static long long mono_ms() { timespec ts; clock_gettime(CLOCK_MONOTONIC,&ts); return ts.tv_sec*1000LL+ts.tv_nsec/1000000; }
static void *watchdog(void *)
{
	for(;;) {
		usleep(200000);
		long long st=op_started.load();
		if(st && mono_ms()-st>20000) {
			char const msg[]="hang: no answer from the real code within 20 s\n";
			ssize_t r=write(1,msg,sizeof(msg)-1); (void)r;
			_exit(5);
		}
	}
	return 0;
}
struct op_scope { op_scope(){ op_started=mono_ms(); } ~op_scope(){ op_started=0; } };

// ------------------------------------------------------------------ line protocol
static std::string run1(std::vector<std::string> const &w);
static std::string run(std::vector<std::string> const &w) { op_scope g; return run1(w); }
static std::string run1(std::vector<std::string> const &w)
{
	if(w.empty()) return "bad-op";
	if(w[0]=="cfg" && w.size()==3) return do_cfg(w[1],w[2]);
	if(w[0]=="drop" && w.size()==1) {
		// fault: the network front-end of every server is stopped and started again on the same port over the same
		// mem_cache and session storage (nothing is lost); every established client connection is dead afterwards.
		// messenger::transmit must notice, reconnect and RE-SEND: the drop is invisible to the callers.
		for(size_t i=0;i<servers.size();i++) {
			server_node &n=*servers[i];
			if(n.rawfd>=0) { close(n.rawfd); n.rawfd=-1; }
			n.svc.reset();
			for(int attempt=0;;attempt++) {
				try { n.svc.reset(new tcp_cache_service(n.cache,n.sess,1,"127.0.0.1",n.port)); break; }
				catch(std::exception const &) { if(attempt>400) throw; usleep(10000); }
			}
		}
		return "ok"+tail();
	}
	if(w[0]=="reset" && w.size()==1) {
		for(size_t i=0;i<servers.size();i++) servers[i]->cache->clear();
		for(size_t i=0;i<clients.size();i++) if(clients[i].l1) clients[i].l1->clear();
		return "ok"+tail();
	}
	if(w[0]=="layout" && w.size()==1) return do_layout();
	if(w[0]=="hash" && w.size()==3) { std::string k; if(!vh::unhex(w[2],k)) return "bad-op"; return do_hash(atoi(w[1].c_str()),k); }
	if(w[0]=="cw") { pthread_mutex_lock(&peer_mu); peer_chunk=0; pthread_mutex_unlock(&peer_mu); return do_cw(w); }
	if(w[0]=="cws" && w.size()>2) {
		pthread_mutex_lock(&peer_mu); peer_chunk=strtoul(w[1].c_str(),0,10); pthread_mutex_unlock(&peer_mu);
		std::vector<std::string> v(w.begin()+1,w.end()); v[0]="cw";
		return do_cw(v);
	}
	if(w[0]=="rawseg" && w.size()==5) {
		std::string fr; if(!vh::unhex(w[4],fr)) return "bad-op";
		virtual_now=strtoll(w[2].c_str(),0,10);
		raw_chunk=strtoul(w[3].c_str(),0,10);
		std::string r=do_raw(strtoul(w[1].c_str(),0,10),fr);
		raw_chunk=0;
		return r;
	}
	if(w[0]=="raw" && w.size()==4) {
		std::string fr; if(!vh::unhex(w[3],fr)) return "bad-op";
		virtual_now=strtoll(w[2].c_str(),0,10);
		return do_raw(strtoul(w[1].c_str(),0,10),fr);
	}
	if(w.size()<2) return "bad-op";
	size_t ci=strtoul(w[1].c_str(),0,10);
	if(ci>=clients.size()) return "bad-op";
	base_cache &c=*clients[ci].c;
	if(w[0]=="fetch" && w.size()==5) {
		std::string k,v; std::set<std::string> tr; time_t d=0; uint64_t g=0;
		virtual_now=strtoll(w[2].c_str(),0,10);
		if(!vh::unhex(w[3],k)) return "bad-op";
		bool tags=w[4]=="1";
		if(!c.fetch(k,&v,tags?&tr:0,&d,&g)) return "miss"+tail();
		std::ostringstream ss;
		ss<<"hit "<<vh::hex(v)<<" "<<trigs_str(tr)<<" "<<(long long)d<<" "<<(unsigned long long)g;
		return ss.str()+tail();
	}
	if(w[0]=="store" && w.size()==7) {
		std::string k,v; std::set<std::string> tr;
		virtual_now=strtoll(w[2].c_str(),0,10);
		if(!vh::unhex(w[3],k) || !parse_val(w[4],v) || !parse_trigs(w[5],tr)) return "bad-op";
		c.store(k,v,tr,strtoll(w[6].c_str(),0,10));
		return "ok"+tail();
	}
	if(w[0]=="rise" && w.size()==3) { std::string t; if(!parse_trig(w[2],t)) return "bad-op"; c.rise(t); return "ok"+tail(); }
	if(w[0]=="clear" && w.size()==2) { c.clear(); return "ok"+tail(); }
	if(w[0]=="remove" && w.size()==3) { std::string k; if(!vh::unhex(w[2],k)) return "bad-op"; c.remove(k); return "ok"+tail(); }
	if(w[0]=="stats" && w.size()==2) { unsigned k=0,t=0; c.stats(k,t); std::ostringstream ss; ss<<"stats "<<k<<" "<<t; return ss.str()+tail(); }
	return "bad-op";
}

int main()
{
	pthread_t wd; pthread_create(&wd,0,watchdog,0); pthread_detach(wd);
	int r=vh::drive(run);
	peer_sess.reset();
	peer_client.reset();
	drop_cluster();
	return r;
}
