// C18 harness: the real cppcms::sessions::session_file_storage (private header, as the repo's
// own storage_test uses it) behind the script protocol of lean/Cppcms/C18/Driver.lean.
//
// One input line = one script over a fresh scratch directory (cwd/store), ops separated by ';':
//   flock 0|1            construct the storage with force_flock (fcntl lock + inode re-check path)
//   now N                virtual clock (time() is interposed at link time, no source change)
//   put NAME HEX         materialise a file (earlier state / garbage)
//   save SID T HEX       real save; answers the write() calls it made:  w=LEN@OFF,...
//   csave SID T HEX K J S MASK
//                        real save that stops after K complete write() calls and J bytes of the next
//                        (the interposed write() stores J bytes, then fails with EIO: the bytes on
//                        "disk" are those of a process that stopped there); then only the S-byte
//                        sectors listed in MASK ("all", "-", or i,j,...) keep the new content, the
//                        others are put back to the earlier content (zero-filled holes; length = max
//                        of old length and end of last kept sector).  Answers w=... like save.
//   ksave ...            same arguments as csave, but the save runs in a forked child that is *killed* (_exit) inside the
//                        interposed write() at the crash point — a process that really stops there; answers w=killed
//   load SID             real load:  ok T HEX | none
//   probe SID            real load of a *copy* of SID's file (non-destructive): ok T HEX | none
//   remove SID           real remove
//   gc                   real gc (through session_file_storage_factory::gc_job)
//   crc HEX              cppcms::impl::crc32_calc (zlib in this build) over the bytes, decimal
//   ls                   NAME:HEX,... sorted
// Output: the answers joined by " | ".
#include "common.h"
#include "session_posix_file_storage.h"
#include "crc32.h"
#include <cppcms/cppcms_error.h>
#include <sys/types.h>
#include <sys/stat.h>
#include <sys/syscall.h>
#include <sys/wait.h>
#include <dirent.h>
#include <fcntl.h>
#include <unistd.h>
#include <errno.h>
#include <time.h>
#include <algorithm>
#include <set>
#include <memory>

// ---------------------------------------------------------------- link-time interposers
static time_t g_now = 0;
static bool g_armed = false;          // inside a real save()
static long g_full = -1;              // number of complete write() calls allowed (-1: unlimited)
static size_t g_partial = 0;          // bytes of the next call that still reach the file
static long g_calls = 0;
static bool g_kill = false;           // stop the process (child) at the crash point instead of failing the call
static std::string g_wlog;

extern "C" time_t time(time_t *t) { if(t) *t=g_now; return g_now; }

extern "C" ssize_t write(int fd,const void *buf,size_t n)
{
	if(!g_armed || fd<=2)
		return syscall(SYS_write,fd,buf,n);
	off_t off=lseek(fd,0,SEEK_CUR);
	size_t todo=n;
	bool fail=false;
	if(g_full>=0 && g_calls>=g_full) {
		todo = (g_calls==g_full) ? std::min(n,g_partial) : 0;
		fail=true;
	}
	g_calls++;
	ssize_t r=0;
	if(todo>0) {
		r=syscall(SYS_write,fd,buf,todo);
		if(r!=(ssize_t)todo) { g_wlog+="!short"; }
		if(!g_wlog.empty()) g_wlog+=",";
		g_wlog+=std::to_string(todo)+"@"+std::to_string((long long)off);
	}
	if(fail) { if(g_kill) _exit(0); errno=EIO; return -1; }
	return r;
}

// ---------------------------------------------------------------- helpers
static std::string g_dir;

static std::string path_of(std::string const &name) { return g_dir+"/"+name; }

static bool read_file(std::string const &p,std::string &out)
{
	out.clear();
	int fd=open(p.c_str(),O_RDONLY);
	if(fd<0) return false;
	char buf[65536]; ssize_t r;
	while((r=read(fd,buf,sizeof(buf)))>0) out.append(buf,r);
	close(fd);
	return true;
}
static void write_file(std::string const &p,std::string const &data)
{
	int fd=open(p.c_str(),O_CREAT|O_TRUNC|O_WRONLY,0666);
	if(fd<0) throw std::runtime_error("harness: cannot create "+p);
	size_t off=0;
	while(off<data.size()) {
		ssize_t r=syscall(SYS_write,fd,data.data()+off,data.size()-off);
		if(r<=0) { close(fd); throw std::runtime_error("harness: write failed"); }
		off+=r;
	}
	close(fd);
}
static std::vector<std::string> list_dir()
{
	std::vector<std::string> v;
	DIR *d=opendir(g_dir.c_str());
	if(!d) return v;
	while(struct dirent *e=readdir(d)) {
		std::string n=e->d_name;
		if(n=="."||n=="..") continue;
		v.push_back(n);
	}
	closedir(d);
	std::sort(v.begin(),v.end());
	return v;
}
static void wipe()
{
	std::vector<std::string> v=list_dir();
	for(size_t i=0;i<v.size();i++) unlink(path_of(v[i]).c_str());
}
static bool good_name(std::string const &n)
{
	if(n.empty()||n.size()>64) return false;
	for(size_t i=0;i<n.size();i++) if(!isalnum((unsigned char)n[i])) return false;
	return true;
}

// the crash model's sector rule, materialised (see Model.lean `sectorMix`)
static std::string sector_mix(std::string const &old,std::string const &L,size_t S,bool all,std::set<size_t> const &T)
{
	size_t pend=0;
	for(size_t p=L.size();p>0;p--) if(all || T.count((p-1)/S)) { pend=p; break; }
	size_t len=std::max(old.size(),pend);
	size_t full=std::max(old.size(),L.size());
	std::string c;
	for(size_t p=0;p<full && p<len;p++) {
		bool t = p<L.size() && (all || T.count(p/S));
		if(p>=L.size()) c.push_back(old[p]);
		else if(t) c.push_back(L[p]);
		else c.push_back(p<old.size()?old[p]:char(0));
	}
	return c;
}

typedef cppcms::sessions::session_file_storage_factory factory_t;

static std::string load_str(cppcms::sessions::session_storage &st,std::string const &sid)
{
	time_t t=-777; std::string out="prev";
	if(!st.load(sid,t,out)) return "none";
	return "ok "+std::to_string((long long)t)+" "+vh::hex(out);
}

static std::string run(std::vector<std::string> const &w)
{
	wipe();
	g_now=0;
	bool flock=false;
	std::unique_ptr<factory_t> fac;
	booster::shared_ptr<cppcms::sessions::session_storage> st;
	std::string res;
	size_t i=0;
	while(i<w.size()) {
		size_t e=i;
		while(e<w.size() && w[e]!=";") e++;
		std::vector<std::string> op(w.begin()+i,w.begin()+e);
		i = e<w.size()? e+1 : e;
		if(op.empty()) continue;
		std::string a;
		try {
			if(!fac && op[0]!="flock") { fac.reset(new factory_t(g_dir,5,1,flock)); st=fac->get(); }
			if(op[0]=="flock" && op.size()==2) { flock=(op[1]=="1"); a="ok"; }
			else if(op[0]=="now" && op.size()==2) { g_now=strtoll(op[1].c_str(),0,10); a="ok"; }
			else if(op[0]=="put" && op.size()==3 && good_name(op[1])) {
				std::string d; if(!vh::unhex(op[2],d)) return "bad-op";
				write_file(path_of(op[1]),d); a="ok";
			}
			else if((op[0]=="save" && op.size()==4) || ((op[0]=="csave" || op[0]=="ksave") && op.size()==8)) {
				if(!good_name(op[1]) || op[1].size()<4) return "bad-op";
				std::string d; if(!vh::unhex(op[3],d)) return "bad-op";
				time_t t=strtoll(op[2].c_str(),0,10);
				bool crash=(op[0]!="save");
				bool kill=(op[0]=="ksave");
				std::string old; bool had=read_file(path_of(op[1]),old);
				(void)had;
				g_calls=0; g_wlog.clear();
				g_full=-1; g_partial=0;
				if(crash) { g_full=strtol(op[4].c_str(),0,10); g_partial=strtoull(op[5].c_str(),0,10); }
				std::string note;
				if(kill) {
					std::cout.flush();
					pid_t pid=fork();
					if(pid<0) throw std::runtime_error("harness: fork failed");
					if(pid==0) {
						g_kill=true; g_armed=true;
						try { st->save(op[1],t,d); } catch(...) {}
						_exit(0);
					}
					int status=0;
					while(waitpid(pid,&status,0)<0 && errno==EINTR) ;
					if(!WIFEXITED(status) || WEXITSTATUS(status)!=0) throw std::runtime_error("harness: child died abnormally");
					a="w=killed";
				}
				else {
					g_armed=true;
					try { st->save(op[1],t,d); }
					catch(cppcms::cppcms_error const &) { note=" err"; }
					catch(...) { g_armed=false; throw; }
					g_armed=false;
					a="w="+(g_wlog.empty()?std::string("-"):g_wlog);
				}
				if(crash) {
					size_t S=strtoull(op[6].c_str(),0,10);
					if(S==0) return "bad-op";
					bool all=(op[7]=="all");
					std::set<size_t> T;
					if(!all && op[7]!="-") {
						std::istringstream ss(op[7]); std::string x;
						while(std::getline(ss,x,',')) T.insert(strtoull(x.c_str(),0,10));
					}
					std::string L; read_file(path_of(op[1]),L);
					write_file(path_of(op[1]),sector_mix(old,L,S,all,T));
				}
				else if(!note.empty()) a+=note;
			}
			else if(op[0]=="load" && op.size()==2 && good_name(op[1]) && op[1].size()>=4) a=load_str(*st,op[1]);
			else if(op[0]=="probe" && op.size()==2 && good_name(op[1])) {
				std::string d;
				static std::string const tmp="fffffffffffffffffffffffffffffff0";
				if(!read_file(path_of(op[1]),d)) a="none";
				else { write_file(path_of(tmp),d); a=load_str(*st,tmp); unlink(path_of(tmp).c_str()); }
			}
			else if(op[0]=="remove" && op.size()==2 && good_name(op[1]) && op[1].size()>=4) { st->remove(op[1]); a="ok"; }
			else if(op[0]=="crc" && op.size()==2) {
				std::string d; if(!vh::unhex(op[1],d)) return "bad-op";
				cppcms::impl::crc32_calc cc; cc.process_bytes(d.data(),d.size());
				a=std::to_string((unsigned long)cc.checksum());
			}
			else if(op[0]=="gc" && op.size()==1) { fac->gc_job(); a="ok"; }
			else if(op[0]=="ls" && op.size()==1) {
				std::vector<std::string> v=list_dir();
				for(size_t k=0;k<v.size();k++) {
					std::string d; read_file(path_of(v[k]),d);
					if(k) a+=",";
					a+=v[k]+":"+vh::hex(d);
				}
				if(v.empty()) a="-";
			}
			else return "bad-op";
		}
		catch(std::exception const &ex) { g_armed=false; a=std::string("exception ")+ex.what(); for(size_t k=0;k<a.size();k++) if(a[k]=='\n'||a[k]=='|') a[k]=' '; }
		if(!res.empty()) res+=" | ";
		res+=a;
	}
	return res.empty()?"-":res;
}

int main()
{
	char cwd[4096];
	if(!getcwd(cwd,sizeof(cwd))) return 2;
	g_dir=std::string(cwd)+"/store";
	mkdir(g_dir.c_str(),0777);
	return vh::drive(run);
}
