// C12 harness: the real cppcms::impl::multipart_parser (header-only, driven like
// tests/multipart_parser_test.cpp), http::content_type, and http::request driven by the real
// cgi::connection::load_content/on_some_content_read loop through a connection subclass whose
// async_read_some hands out exactly the chunks of the case.  Line protocol of
// lean/Cppcms/C12/Driver.lean.
#include "common.h"
#include "multipart_parser.h"
#include <cppcms/http_content_type.h>
#include <sstream>
#include <fstream>
#include <dirent.h>
#include <sys/stat.h>
#include <unistd.h>

#include "c12_request.h"
#include "http_file_buffer.h"   // after the public headers: it opens namespace cppcms::http::impl

static std::string tmpdir_ok, tmpdir_bad;

static std::string slurp(std::istream &in)
{
	std::string res;
	in.clear();
	in.seekg(0);
	std::streambuf *b=in.rdbuf();
	int c;
	while((c=b->sbumpc())!=EOF) res+=char(c);
	in.clear();
	in.seekg(0);
	return res;
}

std::string c12_file_str(cppcms::http::file &f)
{
	long long len=f.size();
	std::string data=slurp(f.data());
	std::string r=vh::hex(f.name())+","+vh::hex(f.filename())+","+vh::hex(f.mime())+","+vh::hex(data);
	if((long long)data.size()!=len) r+="!size="+std::to_string(len);
	// read-back from other seek positions and through istream::read must give the same bytes
	size_t offs[]={1,1023,1024,1025,data.size()/2,data.size()>0?data.size()-1:0};
	for(size_t k=0;k<sizeof(offs)/sizeof(offs[0]);k++) {
		size_t off=offs[k];
		if(off==0 || off>=data.size()) continue;
		std::istream &in=f.data();
		in.clear();
		in.seekg(off);
		std::string got;
		char buf[700];
		while(in.read(buf,sizeof(buf)) || in.gcount()>0) got.append(buf,in.gcount());
		in.clear();
		in.seekg(0);
		if(got!=data.substr(off)) { r+="!reread@"+std::to_string(off)+"="+std::to_string(got.size()); break; }
	}
	return r;
}


static int count_left()
{
	int left=0;
	if(DIR *d=opendir(tmpdir_ok.c_str())) {
		while(dirent *e=readdir(d)) if(e->d_name[0]!='.') left++;
		closedir(d);
	}
	return left;
}

static std::string run_mp_inner(std::vector<std::string> const &w);

// every temporary file of the case must be gone once the parser and its files are destroyed
static std::string run_mp(std::vector<std::string> const &w)
{
	std::string r=run_mp_inner(w);
	int left=count_left();
	if(left) r+=" TEMP-FILES-LEFT="+std::to_string(left);
	return r;
}

static std::string run_mp_inner(std::vector<std::string> const &w)
{
	typedef cppcms::impl::multipart_parser mp;
	std::string ct;
	if(!vh::unhex(w[1],ct)) return "bad-op";
	long long mem=atoll(w[2].c_str());
	bool disk_ok = w[3]=="1";
	std::vector<std::string> chunks;
	for(size_t i=4;i<w.size();i++) { std::string c; if(!vh::unhex(w[i],c)) return "bad-op"; chunks.push_back(c); }
	mp parser(disk_ok ? tmpdir_ok : tmpdir_bad, mem<0 ? size_t(-1) : size_t(mem));
	if(!parser.set_content_type(ct)) return "noboundary";
	std::ostringstream out;
	bool stop=false;
	bool first=true;
	for(size_t i=0;i<chunks.size() && !stop;i++) {
		// own exact-size copy so that ASan sees any read past the chunk
		std::vector<char> buf(chunks[i].begin(),chunks[i].end());
		char const *b=buf.data(), *e=b+buf.size();
		while(b!=e) {
			char const *before=b;
			mp::parsing_result_type r=parser.consume(b,e);
			if(b<before || b>e) return "pointer-out-of-range";
			long long size=0;
			if(r==mp::content_ready) size=parser.last_file().size();
			else if(r==mp::meta_ready || r==mp::content_partial) size=parser.get_file().size();
			if(!first) out<<' ';
			first=false;
			out<<int(r)<<'/'<<(b-before)<<'/'<<(parser.has_file()?1:0)<<'/'<<size;
			if(!mp::is_ok(r) && r!=mp::eof) { stop=true; break; }
			if(r==mp::eof && b!=e) return "eof-with-rest";
		}
	}
	out<<" F ";
	mp::files_type files=parser.get_files();
	if(files.empty()) out<<"-";
	for(size_t i=0;i<files.size();i++) {
		if(i) out<<';';
		out<<c12_file_str(*files[i]);
	}
	return out.str();
}

static std::string pairs_str(std::multimap<std::string,std::string> const &m)
{
	if(m.empty()) return "-";
	std::string r;
	for(std::multimap<std::string,std::string>::const_iterator p=m.begin();p!=m.end();++p) {
		if(!r.empty()) r+=";";
		r+=vh::hex(p->first)+"="+vh::hex(p->second);
	}
	return r;
}

static std::string run_ct(std::vector<std::string> const &w)
{
	std::string s;
	if(!vh::unhex(w[1],s)) return "bad-op";
	cppcms::http::content_type a(s);
	cppcms::http::content_type b(s.data(),s.data()+s.size());
	if(a.media_type()!=b.media_type() || a.parameters()!=b.parameters()) return "overload-mismatch";
	if(a.media_type()!=(a.type().empty()?std::string():a.type()+"/"+a.subtype())) return "type-subtype-mismatch";
	std::map<std::string,std::string> ps=a.parameters();
	std::multimap<std::string,std::string> mm(ps.begin(),ps.end());
	return vh::hex(a.media_type())+" "+pairs_str(mm);
}

// fb <limit> <diskOk> <data> <ops>: the real file_buffer; ops = comma separated write sizes (0 = one sputc, k = sputn of k bytes);
// after every write: in_memory()/size()/bytes accepted; then the content read back from offset 0
static std::string run_fb(std::vector<std::string> const &w)
{
	std::string data;
	if(!vh::unhex(w[3],data)) return "bad-op";
	size_t limit=strtoull(w[1].c_str(),0,10);
	std::ostringstream out;
	std::string name;
	{
		cppcms::http::impl::file_buffer fb(limit);
		fb.temp_dir(w[2]=="1" ? tmpdir_ok : tmpdir_bad);
		size_t pos=0;
		std::istringstream ops(w[4]);
		std::string tok;
		bool first=true;
		while(std::getline(ops,tok,',')) {
			size_t k=strtoull(tok.c_str(),0,10);
			size_t want = k==0 ? 1 : k;
			if(pos+want>data.size()) break;
			// exact-size copy: ASan sees reads past the chunk
			std::vector<char> chunk(data.begin()+pos,data.begin()+pos+want);
			long long got;
			if(k==0) got = fb.sputc(chunk[0])==EOF ? 0 : 1;
			else got = fb.sputn(chunk.data(),k);
			pos+=want;
			if(!first) out<<' ';
			first=false;
			out<<(fb.in_memory()?1:0)<<'/'<<fb.size()<<'/'<<got;
			if(got!=(long long)want) break;
		}
		std::string back;
		if(fb.pubseekpos(0,std::ios_base::in)!=std::streampos(std::streamoff(-1)) || fb.size()==0) {
			int c;
			while((c=fb.sbumpc())!=EOF) back+=char(c);
		}
		out<<" R "<<vh::hex(back);
		name=fb.name();
		fb.close();
	}
	if(!name.empty()) ::unlink(name.c_str());   // file_buffer itself never removes its file (http::file::close does)
	return out.str();
}

static std::string run(std::vector<std::string> const &w)
{
	if(w.size()==5 && w[0]=="fb") return run_fb(w);
	if(w.size()>=4 && w[0]=="mp") return run_mp(w);
	if(w.size()==2 && w[0]=="ct") return run_ct(w);
	if(w.size()>=10 && w[0]=="rq") return c12_run_request(w,tmpdir_ok,tmpdir_bad);
	if(w.size()==3 && w[0]=="lim") return c12_run_limits(w);
	if(w.size()==2 && w[0]=="form") return c12_run_form(w);
	return "bad-op";
}

int main()
{
	char cwd[4096];
	if(!getcwd(cwd,sizeof(cwd))) return 2;
	tmpdir_ok=std::string(cwd)+"/c12_uploads";
	mkdir(tmpdir_ok.c_str(),0700);
	tmpdir_bad=std::string(cwd)+"/c12_no_such_dir/x";
	setenv("TEMP",tmpdir_ok.c_str(),1);   // default uploads path of the service
	int rc=vh::drive(run);
	// every temporary file must be gone
	int left=0;
	if(DIR *d=opendir(tmpdir_ok.c_str())) {
		while(dirent *e=readdir(d)) if(e->d_name[0]!='.') left++;
		closedir(d);
	}
	if(left) { std::cerr<<"C12: "<<left<<" temporary upload files left behind"<<std::endl; return 3; }
	return rc;
}
