// C13 harness: the real embedded file server behind the line protocol of
// lean/Cppcms/C13/Driver.lean.
//
// The translation unit of the file server is compiled into this harness (from the working
// tree, with -fno-access-control) so that the file-static is_file_prefix and the private
// check_in_document_root can be driven directly; the service started below therefore runs
// exactly this code (the archive member is not pulled in because every symbol is defined here).
//
//   norm <hex>                      file_server::normalize_path
//   prefix <hex p> <hex f>          is_file_prefix(p,f)
//   cfg <sym> <list> <async> <docroot hex> <alias spec|-> <index hex>
//                                   (re)start a cppcms::service with file_server.enable over loopback HTTP
//   fs <hex path_info>              dump realpath/stat/readdir/read answers for every path the
//   fst <hex target>                file server can consult for this PATH_INFO / request target
//   cidr <hex file_name> [table]    file_server::check_in_document_root on an instance of the current config
//   req <hex target> [table]        GET over HTTP, reply summarised
#include "common.h"
#include <algorithm>
#include <map>
#include <set>
#include <memory>
#include <fstream>
#include <sys/types.h>
#include <sys/stat.h>
#include <sys/socket.h>
#include <netinet/in.h>
#include <arpa/inet.h>
#include <poll.h>
#include <dirent.h>
#include <unistd.h>
#include <limits.h>
#include <errno.h>
#include <signal.h>
#include <internal_file_server.cpp>
#include <cppcms/service.h>
#include <cppcms/applications_pool.h>
#include <cppcms/mount_point.h>
#include <cppcms/json.h>
#include <cppcms/util.h>
#include <booster/thread.h>
#include <booster/function.h>

using cppcms::impl::file_server;

struct config {
	bool sym,list; int async; // 0: sync (config), 1: file_server.async=true (config), 2: file_server(srv,true) mounted asynchronously by hand
	std::string root;
	std::vector<std::pair<std::string,std::string> > alias;
	std::string index;
};

static config cur;
static std::unique_ptr<cppcms::service> srv;
static std::unique_ptr<booster::thread> srv_thread;
static std::unique_ptr<file_server> direct;   // instance for direct calls, same settings
static int port = 0;
static bool refused = false;       // the file_server constructor threw for the current configuration
static std::string refused_what;
static bool unresponsive = false;  // a request got no reply: the event loop is stuck; do not wait 20 s for each further one

static volatile bool run_failed = false, accepting = false, run_ended = false;
// run() throws when the port cannot be bound (another process took it between the probe and the bind):
// before the service accepted its first connection that is a retry with another port; afterwards an
// exception out of run() is the service dying on a request
static void run_service()
{
	try { srv->run(); }
	catch(std::exception const &e) {
		// an asynchronously mounted file server is constructed inside the event loop: its constructor's
		// exception ends run() - for a configuration the constructor refuses that is the expected outcome
		if(refused && std::string(e.what()).find("Invalid alias")!=std::string::npos) { run_ended=true; return; }
		if(!accepting) { run_failed=true; return; }
		fprintf(stderr,"service::run threw: %s\n",e.what()); abort();
	}
}

static void stop_service()
{
	if(unresponsive) { fflush(stdout); _exit(0); }   // a stuck event loop cannot be shut down
	direct.reset();
	if(srv.get()) {
		srv->shutdown();
		if(srv_thread.get()) srv_thread->join();
		srv_thread.reset();
		srv.reset();
	}
}

static int connect_port(int p)
{
	int fd=socket(AF_INET,SOCK_STREAM,0);
	if(fd<0) return -1;
	struct sockaddr_in a; memset(&a,0,sizeof(a));
	a.sin_family=AF_INET; a.sin_port=htons(p); a.sin_addr.s_addr=htonl(INADDR_LOOPBACK);
	if(connect(fd,(struct sockaddr*)&a,sizeof(a))<0) { close(fd); return -1; }
	return fd;
}

static bool port_free(int p)
{
	int fd=socket(AF_INET,SOCK_STREAM,0);
	if(fd<0) return false;
	int one=1; setsockopt(fd,SOL_SOCKET,SO_REUSEADDR,&one,sizeof(one));
	struct sockaddr_in a; memset(&a,0,sizeof(a));
	a.sin_family=AF_INET; a.sin_port=htons(p); a.sin_addr.s_addr=htonl(INADDR_LOOPBACK);
	bool ok = bind(fd,(struct sockaddr*)&a,sizeof(a))==0;
	close(fd);
	return ok;
}

static std::string start_service(config const &c)
{
	stop_service();
	cppcms::json::value v;
	v["service"]["api"]="http";
	v["service"]["ip"]="127.0.0.1";
	v["service"]["worker_threads"]=2;
	v["http"]["timeout"]=10;
	v["file_server"]["enable"]= c.async!=2;
	v["file_server"]["document_root"]=c.root;
	// values equal to the documented defaults are left out, so that the constructor's own defaults are what runs
	if(c.list) v["file_server"]["listing"]=c.list;
	if(!c.sym) v["file_server"]["check_symlink"]=c.sym;
	v["file_server"]["async"]= c.async==1;
	if(c.index!="index.html") v["file_server"]["index"]=c.index;
	v["logging"]["level"]="error";
	for(size_t i=0;i<c.alias.size();i++) {
		// the constructor strips one trailing '/': add one so that the instance stores exactly c.alias[i].first
		v["file_server"]["alias"][i]["url"]=c.alias[i].first+"/";
		v["file_server"]["alias"][i]["path"]=c.alias[i].second;
	}
	// pick a loopback port nobody listens on (other checks run concurrently)
	if(port==0) port = getenv("C13_TEST_PORT") ? atoi(getenv("C13_TEST_PORT")) : 21000 + (getpid()*37)%20000;
	for(int attempt=0;attempt<8;attempt++) {
		for(int tries=0;tries<200;tries++) {
			if(port_free(port) || getenv("C13_TEST_PORT")) break;   // the env variable (self-test only) skips the probe
			port++;
			if(port>64000) port=21000;
		}
		v["service"]["port"]=port;
		run_failed=false; accepting=false; run_ended=false;
		srv.reset(new cppcms::service(v));
		if(c.async==2) {
			// service.cpp mounts create_pool<file_server>() (async_ = false) even for file_server.async=true;
			// this variant runs the async_file_handler path of main
			srv->applications_pool().mount(cppcms::create_pool<file_server>(true),cppcms::mount_point(""),cppcms::app::asynchronous);
		}
		refused=false;
		try { direct.reset(new file_server(*srv,c.async==2)); }
		catch(cppcms::cppcms_error const &e) { direct.reset(); refused=true; refused_what=e.what(); }
		srv_thread.reset(new booster::thread(run_service));
		for(int i=0;i<1000 && !run_failed;i++) {
			// ready = *this* service answers (a foreign listener on the port would also accept a connect)
			int fd=connect_port(port);
			if(fd>=0) {
				char const rq[]="GET /__c13_probe HTTP/1.0\r\n\r\n";
				::send(fd,rq,sizeof(rq)-1,MSG_NOSIGNAL);
				std::string got;
				bool eof=false;
				for(int k=0;k<30 && !run_failed && !run_ended;k++) {
					struct pollfd p; p.fd=fd; p.events=POLLIN; p.revents=0;
					if(poll(&p,1,100)>0) {
						char buf[2048]; ssize_t n=::recv(fd,buf,sizeof(buf),0);
						if(n<=0) { eof = n==0; break; }
						got.append(buf,n);
						if(got.find("CppCMS")!=std::string::npos) break;
					}
				}
				close(fd);
				if(!run_failed && (got.find("CppCMS")!=std::string::npos || (refused && (eof || run_ended || got.find("HTTP/")==0)))) {
					accepting=true;
					return refused ? "refused" : "ok";
				}
			}
			usleep(10000);
		}
		// could not bind / did not come up: drop this instance and try the next port
		direct.reset();
		if(!run_failed) srv->shutdown();
		srv_thread->join(); srv_thread.reset(); srv.reset();
		port += 7;
	}
	return "service-did-not-start";
}

// ---------------------------------------------------------------- file system oracle
static std::string cstr(std::string const &s) { return std::string(s.c_str()); }

struct oracle {
	std::map<std::string,std::string> out; // key token -> value
	std::vector<std::string> order;
	void put(std::string const &k,std::string const &v) { if(out.insert(std::make_pair(k,v)).second) order.push_back(k); }
	void q_realpath(std::string const &q,std::string &res,bool &ok) {
		char buf[PATH_MAX+1];
		char *r=::realpath(q.c_str(),buf);
		ok = r!=0;
		if(ok) res=r;
		put("R:"+vh::hex(q), ok ? vh::hex(res) : std::string("!"));
	}
	void q_path(std::string const &p,bool children) {
		struct stat st;
		int mode = ::stat(p.c_str(),&st) < 0 ? 0 : int(st.st_mode);
		{ std::ostringstream ss; ss<<mode; put("S:"+vh::hex(p),ss.str()); }
		if(children && ((mode & S_IFREG) || S_ISCHR(mode))) {
			// (character devices too: a changed mode test may open them; reads are capped)
			std::ifstream f(p.c_str(),std::ios_base::binary);
			if(!f) put("F:"+vh::hex(p),"!");
			else { std::string buf(65536,'\0'); f.read(&buf[0],buf.size()); buf.resize(f.gcount()); put("F:"+vh::hex(p),vh::hex(buf)); }
		}
		if(children && cur.list && (mode & S_IFDIR)) {
			DIR *d=opendir(p.c_str());
			if(!d) { put("D:"+vh::hex(p),"!"); return; }
			std::string names;
			std::vector<std::string> all;
			while(struct dirent *e=readdir(d)) { all.push_back(e->d_name); }
			closedir(d);
			for(size_t i=0;i<all.size();i++) { if(i) names+=","; names+=vh::hex(all[i]); }
			put("D:"+vh::hex(p),names.empty()?std::string("."):names);
			for(size_t i=0;i<all.size();i++) q_path(cstr(p+"/"+all[i]),false);
		}
	}
	void for_file_name(std::string const &f) {
		std::vector<std::string> roots; roots.push_back(cur.root);
		for(size_t i=0;i<cur.alias.size();i++) roots.push_back(cur.alias[i].second);
		std::string names[2]={f,f+"/"+cur.index};
		for(int k=0;k<2;k++) {
			std::string n=names[k];
			file_server::normalize_path(n);
			std::vector<std::string> suffixes; suffixes.push_back(n);
			for(size_t i=0;i<cur.alias.size();i++) {
				size_t l=cur.alias[i].first.size();
				if(l<=n.size()) { std::string s=n.substr(l); if(s.empty()) s="/"; suffixes.push_back(s); }
			}
			for(size_t r=0;r<roots.size();r++) for(size_t s=0;s<suffixes.size();s++) {
				if(cur.sym) {
					std::string real; bool ok;
					q_realpath(cstr(roots[r]+"/"+suffixes[s]),real,ok);
					if(ok) q_path(real,true);
				}
				else {
					std::string lex=roots[r]+suffixes[s];
					if(!lex.empty() && lex[lex.size()-1]=='/') lex.resize(lex.size()-1);
					q_path(cstr(lex),true);
				}
			}
		}
	}
	std::string str() {
		std::string r;
		for(size_t i=0;i<order.size();i++) { if(i) r+=" "; r+=order[i]+"="+out[order[i]]; }
		return r.empty()?std::string("-"):r;
	}
};

static std::string path_info_of_target(std::string const &t)
{
	// what http_api.cpp does: cut at '?', util::urldecode, keep up to the first NUL (string_pool::add)
	std::string p=t.substr(0,t.find('?'));
	return cstr(cppcms::util::urldecode(p));
}

// ---------------------------------------------------------------- HTTP client
static bool http_get(std::string const &target,std::string &reply)
{
	int fd=connect_port(port);
	if(fd<0) return false;
	std::string rq="GET "+target+" HTTP/1.0\r\nHost: localhost\r\n\r\n";
	size_t off=0;
	while(off<rq.size()) {
		ssize_t n=::send(fd,rq.data()+off,rq.size()-off,MSG_NOSIGNAL);
		if(n<=0) break;
		off+=n;
	}
	reply.clear();
	for(;;) {
		struct pollfd p; p.fd=fd; p.events=POLLIN; p.revents=0;
		int r=poll(&p,1,20000);
		if(r<=0) { close(fd); return false; }
		char buf[16384];
		ssize_t n=::recv(fd,buf,sizeof(buf),0);
		if(n<0) { if(errno==EINTR) continue; break; }
		if(n==0) break;
		reply.append(buf,n);
		if(reply.size() > (8u<<20)) break;   // an endless stream (a device served as a file) must not hang the check
	}
	close(fd);
	return true;
}

static std::string between(std::string const &s,size_t from,std::string const &a,std::string const &b,size_t *endp=0)
{
	size_t i=s.find(a,from);
	if(i==std::string::npos) { if(endp) *endp=std::string::npos; return ""; }
	i+=a.size();
	size_t j=s.find(b,i);
	if(j==std::string::npos) { if(endp) *endp=std::string::npos; return ""; }
	if(endp) *endp=j+b.size();
	return s.substr(i,j-i);
}

static std::string summarize(std::string const &reply)
{
	if(reply.empty()) return "closed";   // connection closed without any reply
	size_t he=reply.find("\r\n\r\n");
	if(reply.compare(0,5,"HTTP/")!=0 || he==std::string::npos) return "garbled "+vh::hex(reply.substr(0,200));
	std::string head=reply.substr(0,he+2), body=reply.substr(he+4);
	int status=atoi(head.c_str()+9);
	if(status==404) return "404";
	if(status==302 || status==301) {
		// the Location value runs to the end of its header line
		std::string loc=between("\r\n"+head,0,"\r\nLocation: ","\r\n");
		std::ostringstream ss; ss<<"redirect "<<vh::hex(loc);
		return ss.str();
	}
	if(status!=200) { std::ostringstream ss; ss<<"status "<<status; return ss.str(); }
	if(body.find("<html><head><title>Directory Listing</title></head>")!=std::string::npos) {
		std::string r="list "+vh::hex(between(body,0,"<h1>Index of ","</h1>\n"));
		bool parent = body.find("<tr><td><code><a href='../' >..</a></code></td>")!=std::string::npos;
		r+= parent ? " P" : " N";
		// every row: the raw anchor element between "<tr><td><code>" and "</code></td>" (the ".." row excepted);
		// it is judged and compared as a whole, so an attribute that ends early cannot hide in a lenient parse
		size_t pos=0;
		std::string const open="<tr><td><code>", close="</code></td>";
		for(;;) {
			size_t i=body.find(open,pos);
			if(i==std::string::npos) break;
			i+=open.size();
			size_t k=body.find(close,i);
			if(k==std::string::npos) { r+=" badrow"; break; }
			std::string cell=body.substr(i,k-i);
			pos=k+close.size();
			if(cell=="<a href='../' >..</a>") continue;
			r+=" "+vh::hex(cell);
		}
		return r;
	}
	return "file "+vh::hex(body);
}

// ---------------------------------------------------------------- protocol
static std::string run(std::vector<std::string> const &w)
{
	std::string a,b;
	if(w.empty()) return "bad-op";
	if(w[0]=="norm" && w.size()==2 && vh::unhex(w[1],a)) {
		file_server::normalize_path(a);
		return vh::hex(a);
	}
	if(w[0]=="prefix" && w.size()==3 && vh::unhex(w[1],a) && vh::unhex(w[2],b)) {
		return cppcms::impl::is_file_prefix(a,b) ? "1" : "0";
	}
	if(w[0]=="cfg" && w.size()>=7) {   // further words: realpath answers for the configured paths (model only)
		config c;
		c.sym=w[1]=="1"; c.list=w[2]=="1"; c.async=atoi(w[3].c_str());
		if(!vh::unhex(w[4],c.root) || !vh::unhex(w[6],c.index)) return "bad-op";
		if(w[5]!="-") {
			std::istringstream ss(w[5]); std::string item;
			while(std::getline(ss,item,',')) {
				size_t k=item.find(':');
				std::string u,t;
				if(k==std::string::npos || !vh::unhex(item.substr(0,k),u) || !vh::unhex(item.substr(k+1),t)) return "bad-op";
				c.alias.push_back(std::make_pair(u,t));
			}
		}
		cur=c;
		return start_service(c);
	}
	if(w[0]=="rp" && w.size()==2 && vh::unhex(w[1],a)) {   // libc's answer for a configuration path
		char buf[PATH_MAX+1];
		char *r=::realpath(a.c_str(),buf);
		return r ? vh::hex(std::string(r)) : std::string("!");
	}
	if(!srv.get()) return "no-config";
	if(refused) {
		if(w[0]=="fs" || w[0]=="fst") return "-";
		if(w[0]=="cidr") return "refused";
	}
	else if(!direct.get()) return "no-config";
	if(w[0]=="fs" && w.size()==2 && vh::unhex(w[1],a)) { oracle o; o.for_file_name(a); return o.str(); }
	if(w[0]=="fst" && w.size()==2 && vh::unhex(w[1],a)) { oracle o; o.for_file_name(path_info_of_target(a)); return o.str(); }
	if(w[0]=="cidr" && w.size()>=2 && vh::unhex(w[1],a)) {
		// the instance's settings must be what the configuration said (ctor canonicalises them)
		if(direct->document_root_!=cur.root || direct->alias_.size()!=cur.alias.size()
		   || direct->check_symlinks_!=cur.sym || direct->list_directories_!=cur.list || direct->index_file_!=cur.index)
			return "settings-mismatch";
		for(size_t i=0;i<cur.alias.size();i++)
			if(direct->alias_[i]!=cur.alias[i]) return "settings-mismatch";
		std::string real;
		bool ok=direct->check_in_document_root(a,real);
		return ok ? "ok "+vh::hex(real) : std::string("none");
	}
	if(w[0]=="raw" && w.size()>=2 && vh::unhex(w[1],a)) {   // debugging aid: the whole reply
		std::string reply;
		if(!http_get(a,reply)) return "no-reply";
		return vh::hex(reply.substr(0,4096));
	}
	if(w[0]=="req" && w.size()>=2 && vh::unhex(w[1],a)) {
		std::string reply;
		if(unresponsive) return "no-reply (service unresponsive since an earlier request)";
		// the constructor's exception left service::run(): a deployment's process has terminated by now (the
		// listening socket of this harness process would still queue connections that nobody will ever answer)
		if(refused && run_ended) return "closed";
		if(!http_get(a,reply)) {
			if(refused) return "closed";   // no instance, possibly no event loop any more: nothing is served
			unresponsive=true; return "no-reply";
		}
		return summarize(reply);
	}
	return "bad-op";
}

int main()
{
	signal(SIGPIPE,SIG_IGN);
	int rc=vh::drive(run);
	stop_service();
	return rc;
}
