// C07/C08 harness: the real mem_cache behind impl::base_cache (thread_cache_factory /
// process_cache_factory, as tests/cache_backend_test.cpp builds them), driven by the line protocol
// of lean/Cppcms/C07/Driver.lean.  The clock is virtual: time() is interposed at link time
// (the definition below wins over libc's for every caller in the executable, including
// cache_storage.o) and every fetch/store line carries `now`.
//
//   argv[1] = size of the shared segment for the process back-end (bytes, default 64 MiB; the
//             segment is created once per process by process_settings::init)
//
// lines (keys/values/triggers hex, "-" = empty; value may be r<hexbyte>x<count> = count copies):
//   new thread <limit> | new process <limit> <segment bytes = argv[1]>
//   store <now> <key> <val> <trig,trig,..|-> <deadline> <gen|-> [annotations ignored here]
//   fetch <now> <key> | rise <trig> | remove <key> | clear | stats | avail
//   fork <n>            n worker processes are forked now (after `new process …`); `@<i> <line>` = the line is executed
//                       by worker i (0 = this process); the answer is the worker's
// answer: <result> [copyfail] [nem=<0/1 per evaluation of check_limits' guard>] | <keys> <triggers> [lowmem] [maxavail-mismatch]
#include "common.h"
#include "base_cache.h"
#include "cache_storage.h"
#include "buddy_allocator.h"
// shmem_control's private members (memory_ = the buddy allocator of the segment) are read, never written:
// the reference answers of not_enough_memory() are computed from the allocator itself, not through
// shmem_control::max_available()
#define private public
#include "shmem_allocator.h"
#undef private
#include <booster/intrusive_ptr.h>
#include <set>
#include <time.h>
#include <unistd.h>
#include <sys/wait.h>
#include <signal.h>

static time_t virtual_now = 1000;
extern "C" time_t time(time_t *t) { if(t) *t=virtual_now; return virtual_now; }

// process_settings::process_memory is a static data member with external linkage defined in
// cache_storage.cpp; re-declaring the struct's relevant part gives access to the segment
// (max_available(), trial allocations) without touching the source.
namespace cppcms { namespace impl { struct process_settings { static shmem_control *process_memory; }; } }

// check_limits hook (/repo `hook:` commit, CPPCMS_VERIF_HOOKS): at every evaluation point of the loop guard record
// what not_enough_memory() *should* answer: largest free chunk of the buddy allocator < 10% of the segment
// (process_settings::not_enough_memory, fraction checked by the translator)
extern "C" { extern void (*cppcms_verif_limits_hook)(int in_loop); }
static std::string nem_trace;
static bool is_process_now=false;
static void limits_hook(int)
{
	if(!is_process_now) return;
	cppcms::impl::shmem_control *m=cppcms::impl::process_settings::process_memory;
	nem_trace.push_back(m->memory_->max_free_chunk() < m->size_/10 ? '1' : '0');
}

using cppcms::impl::base_cache;
static booster::intrusive_ptr<base_cache> cache;
static bool is_process=false;
static size_t shm_size=64u<<20;

static void drop_cache()
{
	if(!cache) return;
	base_cache *raw=cache.get();
	bool proc=is_process;
	cache=0;	// thread back-end: last reference deletes it; process back-end: del_ref() is false
	if(proc) delete raw;	// give the object and its containers back to the segment
}

static bool parse_val(std::string const &w,std::string &out)
{
	if(!w.empty() && w[0]=='r') {
		size_t x=w.find('x');
		if(x==std::string::npos || x!=3) return false;
		int a=vh::hexval(w[1]),b=vh::hexval(w[2]);
		if(a<0||b<0) return false;
		out.assign(strtoull(w.c_str()+x+1,0,10),char(a*16+b));
		return true;
	}
	return vh::unhex(w,out);
}

static bool parse_trigs(std::string const &w,std::set<std::string> &out)
{
	if(w=="-") return true;
	size_t i=0;
	while(i<=w.size()) {
		size_t j=w.find(',',i);
		if(j==std::string::npos) j=w.size();
		std::string t;
		std::string part=w.substr(i,j-i);
		if(part=="e") t="";	// the empty trigger name
		else if(!vh::unhex(part,t) || part=="-") return false;
		out.insert(t);
		i=j+1;
	}
	return true;
}

static std::string tail()
{
	unsigned k=0,t=0;
	cache->stats(k,t);
	std::ostringstream ss;
	ss<<" | "<<k<<" "<<t;
	if(is_process) {
		cppcms::impl::shmem_control *m=cppcms::impl::process_settings::process_memory;
		if(m->max_available() < m->size()/10) ss<<" lowmem";
		// what shmem_control reports must be what the allocator of the segment says
		if(m->max_available()!=m->memory_->max_free_chunk() || m->available()!=m->memory_->total_free_memory())
			ss<<" maxavail-mismatch";
	}
	return ss.str();
}

// ---- worker processes (`fork <n>`): children forked after the process-shared cache was created execute the lines
// addressed to them (`@<i> <op …>`); the parent sequences them through pipes, so the global history is the order of
// the lines.  Everything a worker does must be visible to all others: the cache is *process* shared.
struct worker { pid_t pid; int to; int from; };
static std::vector<worker> workers;
static std::string run(std::vector<std::string> const &w);

static void stop_workers()
{
	for(size_t i=0;i<workers.size();i++) { ::close(workers[i].to); ::close(workers[i].from); }
	for(size_t i=0;i<workers.size();i++) { int st=0; ::waitpid(workers[i].pid,&st,0); }
	workers.clear();
}
static bool read_line(int fd,std::string &line)
{
	line.clear(); char c;
	for(;;) { ssize_t n=::read(fd,&c,1); if(n<=0) return false; if(c=='\n') return true; line.push_back(c); }
}
static bool write_all(int fd,std::string const &s)
{
	size_t off=0; while(off<s.size()) { ssize_t n=::write(fd,s.data()+off,s.size()-off); if(n<=0) return false; off+=n; } return true;
}
static bool start_workers(int n)
{
	for(int i=0;i<n;i++) {
		int a[2],b[2];
		if(::pipe(a)!=0 || ::pipe(b)!=0) return false;
		pid_t pid=::fork();
		if(pid<0) return false;
		if(pid==0) {
			::close(a[1]); ::close(b[0]);
			for(size_t j=0;j<workers.size();j++) { ::close(workers[j].to); ::close(workers[j].from); }
			workers.clear();
			std::string line;
			while(read_line(a[0],line)) {
				std::string r;
				try { r=run(vh::words(line)); } catch(std::exception const &e) { r=std::string("exception ")+e.what(); }
				if(!write_all(b[1],r+"\n")) break;
			}
			::_exit(0);
		}
		::close(a[0]); ::close(b[1]);
		worker wk={pid,a[1],b[0]}; workers.push_back(wk);
	}
	return true;
}

static std::string run(std::vector<std::string> const &w)
{
	if(w.empty()) return "bad-op";
	if(w[0].size()>1 && w[0][0]=='@') {
		size_t i=strtoul(w[0].c_str()+1,0,10);
		std::vector<std::string> rest(w.begin()+1,w.end());
		if(i==0) return run(rest);
		if(i>workers.size()) return "bad-op";
		std::string line,reply;
		for(size_t j=0;j<rest.size();j++) { if(j) line+=" "; line+=rest[j]; }
		if(!write_all(workers[i-1].to,line+"\n") || !read_line(workers[i-1].from,reply)) return "worker-died";
		return reply;
	}
	if(w[0]=="fork" && w.size()==2) {
		if(!cache || !workers.empty()) return "bad-op";
		if(!start_workers(atoi(w[1].c_str()))) return "cannot-fork";
		return "ok"+tail();
	}
	if(w[0]=="new" && w.size()>=3) {
		stop_workers();
		drop_cache();
		unsigned limit=strtoul(w[2].c_str(),0,10);
		if(w[1]=="thread" && w.size()==3) { is_process=false; cache=cppcms::impl::thread_cache_factory(limit); }
		else if(w[1]=="process" && w.size()==4 && strtoull(w[3].c_str(),0,10)==shm_size) {
			// the case line names the segment size (the model derives size_limit() from it)
			is_process=true; cache=cppcms::impl::process_cache_factory(shm_size,limit);
		}
		else return "bad-op";
		return "ok"+tail();
	}
	if(!cache) return "bad-op";
	if(w[0]=="store" && w.size()>=7) {
		std::string k,v; std::set<std::string> tr;
		virtual_now=strtoll(w[1].c_str(),0,10);
		if(!vh::unhex(w[2],k) || !parse_val(w[3],v) || !parse_trigs(w[4],tr)) return "bad-op";
		time_t deadline=strtoll(w[5].c_str(),0,10);
		bool copyfail=false;
		if(is_process && v.size()>15) {
			// oracle for the model's StoreEnv.copyFails: would the value copy (one allocation of
			// size+1 bytes; shorter strings live in the SSO buffer) fail right now?
			cppcms::impl::shmem_control *m=cppcms::impl::process_settings::process_memory;
			void *p=m->malloc(v.size()+1);
			if(p) m->free(p); else copyfail=true;
		}
		nem_trace.clear(); is_process_now=is_process;
		if(w[6]=="-") cache->store(k,v,tr,deadline);
		else { uint64_t g=strtoull(w[6].c_str(),0,10); cache->store(k,v,tr,deadline,&g); }
		is_process_now=false;
		std::string r=copyfail?"ok copyfail":"ok";
		if(is_process && !nem_trace.empty()) r+=" nem="+nem_trace;	// oracle for the model's StoreEnv.lowMem
		return r+tail();
	}
	if(w[0]=="fetch" && w.size()==3) {
		std::string k,v; std::set<std::string> tr; time_t d=0; uint64_t g=0;
		virtual_now=strtoll(w[1].c_str(),0,10);
		if(!vh::unhex(w[2],k)) return "bad-op";
		if(!cache->fetch(k,&v,&tr,&d,&g)) return "miss"+tail();
		std::ostringstream ss;
		ss<<"hit "<<vh::hex(v)<<" ";
		bool first=true;
		for(std::set<std::string>::const_iterator p=tr.begin();p!=tr.end();++p) { ss<<(first?"":",")<<(p->empty()?std::string("e"):vh::hex(*p)); first=false; }
		if(first) ss<<"-";
		ss<<" "<<(long long)d<<" "<<(unsigned long long)g;
		// the two-argument convenience overload and null out-pointers must agree
		std::string v2;
		if(!cache->fetch(k,v2,0) || v2!=v) return "overload-mismatch"+tail();
		return ss.str()+tail();
	}
	if(w[0]=="rise" && w.size()==2) { std::string t; if(w[1]=="e") t=""; else if(!vh::unhex(w[1],t)) return "bad-op"; cache->rise(t); return "ok"+tail(); }
	if(w[0]=="remove" && w.size()==2) { std::string k; if(!vh::unhex(w[1],k)) return "bad-op"; cache->remove(k); return "ok"+tail(); }
	if(w[0]=="clear" && w.size()==1) { cache->clear(); return "ok"+tail(); }
	if(w[0]=="stats" && w.size()==1) { return "ok"+tail(); }
	if(w[0]=="avail" && w.size()==1) {
		if(!is_process) return "avail -";
		cppcms::impl::shmem_control *m=cppcms::impl::process_settings::process_memory;
		std::ostringstream ss; ss<<"avail "<<m->available()<<" "<<m->max_available();
		return ss.str();
	}
	return "bad-op";
}

int main(int argc,char **argv)
{
	cppcms_verif_limits_hook=limits_hook;
	if(argc>1) shm_size=strtoull(argv[1],0,10);
	::signal(SIGPIPE,SIG_IGN);
	int r=vh::drive(run);
	stop_workers();
	drop_cache();
	return r;
}
