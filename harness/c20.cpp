// C20 harness: the real url_dispatcher / application::main / mount_point / applications_pool /
// url_mapper behind the line protocol of lean/Cppcms/C20/Driver.lean, plus an "oracle" mode that
// calls libpcre DIRECTLY (never through booster::regex) to record the raw answers of the engine for
// every (pattern, subject) pair a case can ask about.
//
//   c20            : one output line per case line (what the real code did)
//   c20 oracle     : one output line per case line = the oracle words to append to the case
//
// Case line:  <kind> <args…> | <application tree> | <oracle words>
//   tree  := "{" item* "}"
//   item  := "L" id re meth kind            handler        (kind: h0 | hN:<sel,…> | rh | g | g:<grp>:<hex>)
//          | "U" keyhex tplhex               url_mapper::assign(key,tpl)   (key "-" : assign(tpl))
//          | "W"                              this application calls mapper().map() now, i.e. before it is mounted
//          | "C" re sel name tplhex tree     child: dispatcher().mount(re,child,sel) if re!="_",
//                                                   mapper().mount(name,tpl,child) if name!="_"
//   re    := "_" | "r"hex | "i"hex (icase) | "u"hex (utf8) | "v"hex (icase+utf8)
//   kind  additionally: t | t:<grp>.<T>,…  (url_dispatcher::map with typed parameters; T: s string, i int, u unsigned, l long long, q unsigned long long)
//   "CA" = like "C" but the child is handed over with application::add(…) instead of attach(…)
#include "common.h"
#include <cppcms/service.h>
#include <cppcms/application.h>
#include <memory>
#include <string>
#include <list>
#include <booster/shared_ptr.h>
#include <booster/intrusive_ptr.h>
#include <booster/enable_shared_from_this.h>
#include <booster/hold_ptr.h>
#include <booster/noncopyable.h>
#include <cppcms/defs.h>
#include <cppcms/application.h>
// application_specific_pool::get(service&) is what http::context uses to obtain the application of the pool returned
// by applications_pool::get_application_specific_pool; it is private (context is a friend).  The harness needs it to
// see WHICH classic asynchronous application a request was given to, so the access specifier is lifted for this one header.
#define private public
#include <cppcms/applications_pool.h>
#undef private
#include <cppcms/url_dispatcher.h>
#include <cppcms/url_mapper.h>
#include <cppcms/mount_point.h>
#include <cppcms/http_context.h>
#include <cppcms/http_response.h>
#include <cppcms/http_request.h>
#include <cppcms/cppcms_error.h>
#include <cppcms/encoding.h>
#include <locale>
#include <cppcms/json.h>
#include <booster/regex.h>
#include <pcre.h>
#include <set>
#include <map>
#include <memory>
#include "dummy_api.h"

using vh::hex; using vh::unhex;
typedef std::vector<std::string> words_t;

// ---------------------------------------------------------------- parsed case
struct re_tok { bool present; bool icase; bool utf8; std::string pat; re_tok():present(false),icase(false),utf8(false){} };
static bool parse_re(std::string const &w,re_tok &r)
{
	r=re_tok();
	if(w=="_") return true;
	if(w.empty() || (w[0]!='r' && w[0]!='i' && w[0]!='u' && w[0]!='v')) return false;
	r.present=true; r.icase=(w[0]=='i'||w[0]=='v'); r.utf8=(w[0]=='u'||w[0]=='v');
	return unhex(w.substr(1),r.pat);
}
struct node_spec;
struct item_spec {
	char type; // L U C
	// L
	int id; re_tok re; bool has_meth; std::string meth; std::string kind; std::vector<int> sel; std::string types; bool has_rej; int rej_g; std::string rej_v;
	// U
	std::string key; bool key_empty; std::string tpl;
	// C
	int csel; bool has_name; bool use_add; std::string name; std::shared_ptr<node_spec> child;
	item_spec():type(0),id(0),has_meth(false),has_rej(false),rej_g(0),key_empty(false),csel(0),has_name(false),use_add(false){}
};
struct node_spec { std::vector<item_spec> items; };

static bool parse_node(words_t const &w,size_t &i,node_spec &n)
{
	if(i>=w.size() || w[i]!="{") return false;
	i++;
	while(i<w.size() && w[i]!="}") {
		item_spec it;
		if(w[i]=="L") {
			if(i+4>=w.size()) return false;
			it.type='L'; it.id=atoi(w[i+1].c_str());
			if(!parse_re(w[i+2],it.re) || !it.re.present) return false;
			if(w[i+3]!="_") { it.has_meth=true; if(!unhex(w[i+3],it.meth)) return false; }
			std::string k=w[i+4];
			if(k=="h0"||k=="rh"||k=="g"||k=="t") it.kind=k;
			else if(k.compare(0,2,"t:")==0) {
				it.kind="t";
				std::string rest=k.substr(2); size_t p=0;
				while(p<=rest.size()) {
					size_t e=rest.find(',',p); if(e==std::string::npos) e=rest.size();
					std::string one=rest.substr(p,e-p); size_t dot=one.find('.');
					if(dot==std::string::npos || dot+2!=one.size()) return false;
					it.sel.push_back(atoi(one.substr(0,dot).c_str())); it.types.push_back(one[dot+1]);
					p=e+1;
				}
				if(it.sel.empty()||it.sel.size()>3) return false;
			}
			else if(k.compare(0,3,"hN:")==0) {
				it.kind="hN";
				std::string rest=k.substr(3); size_t p=0;
				while(p<=rest.size()) { size_t e=rest.find(',',p); if(e==std::string::npos) e=rest.size(); it.sel.push_back(atoi(rest.substr(p,e-p).c_str())); p=e+1; }
				if(it.sel.empty()||it.sel.size()>6) return false;
			}
			else if(k.compare(0,2,"g:")==0) {
				it.kind="g"; it.has_rej=true;
				size_t c=k.find(':',2); if(c==std::string::npos) return false;
				it.rej_g=atoi(k.substr(2,c-2).c_str());
				if(!unhex(k.substr(c+1),it.rej_v)) return false;
			}
			else return false;
			i+=5;
		}
		else if(w[i]=="W") {
			it.type='W';
			i+=1;
		}
		else if(w[i]=="U") {
			if(i+2>=w.size()) return false;
			it.type='U';
			if(!unhex(w[i+1],it.key) || !unhex(w[i+2],it.tpl)) return false;
			i+=3;
		}
		else if(w[i]=="C" || w[i]=="CA") {
			if(i+4>=w.size()) return false;
			it.type='C'; it.use_add=(w[i]=="CA");
			if(!parse_re(w[i+1],it.re)) return false;
			it.csel=atoi(w[i+2].c_str());
			if(w[i+3]!="_") { it.has_name=true; if(!unhex(w[i+3],it.name)) return false; }
			if(!unhex(w[i+4],it.tpl)) return false;
			i+=5;
			it.child.reset(new node_spec());
			if(!parse_node(w,i,*it.child)) return false;
		}
		else return false;
		n.items.push_back(it);
	}
	if(i>=w.size()) return false;
	i++; // }
	return true;
}

// ---------------------------------------------------------------- event log shared by all handlers
static std::vector<std::string> g_log;
static std::string all_groups(booster::cmatch const &m)
{
	std::string r;
	for(size_t i=0;i<m.size();i++) { if(i) r+=","; r+= m[int(i)].matched ? hex(m[int(i)].str()) : std::string("~"); }
	return r;
}
static std::string itos(long long v){ std::ostringstream ss; ss<<v; return ss.str(); }
static std::string strs(std::vector<std::string> const &v)
{
	std::string r; for(size_t i=0;i<v.size();i++) { if(i) r+=","; r+=hex(v[i]); } return r;
}

// ---------------------------------------------------------------- typed handlers (url_dispatcher::map with member functions)
static std::string show(std::string const &v){ return v; }
template<typename T> static std::string show(T v){ std::ostringstream ss; ss.imbue(std::locale::classic()); ss<<v; return ss.str(); }
struct typed_h {
	int id;
	explicit typed_h(int i):id(i){}
	void h0(){ g_log.push_back("R"+itos(id)+":"); }
	template<typename A> void h1(A a){ g_log.push_back("R"+itos(id)+":"+strs({show(a)})); }
	template<typename A,typename B> void h2(A a,B b){ g_log.push_back("R"+itos(id)+":"+strs({show(a),show(b)})); }
	template<typename A,typename B,typename C> void h3(A a,B b,C c){ g_log.push_back("R"+itos(id)+":"+strs({show(a),show(b),show(c)})); }
};
template<typename T> struct tag { typedef T type; };
template<typename F> static void with_type(char c,F f)
{
	switch(c) {
	case 's': f(tag<std::string>()); break;
	case 'i': f(tag<int>()); break;
	case 'u': f(tag<unsigned>()); break;
	case 'l': f(tag<long long>()); break;
	case 'q': f(tag<unsigned long long>()); break;
	default: throw std::runtime_error("spec: parameter type");
	}
}
struct typed_reg {
	cppcms::url_dispatcher &d; bool has_meth; std::string meth; booster::regex re; typed_h *h; std::vector<int> g;
	void r0() { if(has_meth) d.map(meth,re,&typed_h::h0,h); else d.map(re,&typed_h::h0,h); }
	template<typename A> void r1() { if(has_meth) d.map(meth,re,&typed_h::h1<A>,h,g[0]); else d.map(re,&typed_h::h1<A>,h,g[0]); }
	template<typename A,typename B> void r2() { if(has_meth) d.map(meth,re,&typed_h::h2<A,B>,h,g[0],g[1]); else d.map(re,&typed_h::h2<A,B>,h,g[0],g[1]); }
	template<typename A,typename B,typename C> void r3() { if(has_meth) d.map(meth,re,&typed_h::h3<A,B,C>,h,g[0],g[1],g[2]); else d.map(re,&typed_h::h3<A,B,C>,h,g[0],g[1],g[2]); }
	void go(std::string const &t)
	{
		if(t.empty()) { r0(); return; }
		with_type(t[0],[&](auto a){ typedef typename decltype(a)::type A;
			if(t.size()==1) { this->template r1<A>(); return; }
			with_type(t[1],[&](auto b){ typedef typename decltype(b)::type B;
				if(t.size()==2) { this->template r2<A,B>(); return; }
				// third parameter: string or int only (keeps the number of instantiations bounded)
				if(t[2]=='s') this->template r3<A,B,std::string>();
				else if(t[2]=='i') this->template r3<A,B,int>();
				else throw std::runtime_error("spec: third parameter type");
			});
		});
	}
};

// ---------------------------------------------------------------- the application built from a node_spec
class app : public cppcms::application {
public:
	std::vector<app*> kids; // in item order of the C items
	std::vector<app*> added; // children handed over with add(): owned here
	std::vector<std::unique_ptr<typed_h> > typed;
	~app() { for(size_t i=0;i<added.size();i++) delete added[i]; }
	app(cppcms::service &s,node_spec const &n) : cppcms::application(s)
	{
		for(size_t k=0;k<n.items.size();k++) {
			item_spec const &it=n.items[k];
			if(it.type=='L') add_leaf(it);
			else if(it.type=='W') {
				// generate a URL now, while this application is not mounted anywhere yet (whatever comes out)
				std::ostringstream ss;
				try { mapper().map(ss,""); } catch(cppcms::cppcms_error const &) {}
			}
			else if(it.type=='U') {
				if(it.key.empty()) mapper().assign(it.tpl); else mapper().assign(it.key,it.tpl);
			}
			else {
				app *c=new app(s,*it.child);
				kids.push_back(c);
				if(it.use_add) {
					added.push_back(c);
					if(it.re.present && it.has_name) add(*c,it.name,it.tpl,it.re.pat,it.csel);
					else if(it.re.present) add(*c,it.re.pat,it.csel);
					else if(it.has_name) add(*c,it.name,it.tpl);
					else add(*c);
				}
				else if(it.re.present && it.has_name) attach(c,it.name,it.tpl,it.re.pat,it.csel);
				else if(it.re.present) attach(c,it.re.pat,it.csel);
				else if(it.has_name) attach(c,it.name,it.tpl);
				else attach(c);
			}
		}
	}
	void add_leaf(item_spec const &it)
	{
		int id=it.id;
		std::string const &p=it.re.pat;
		int flags=(it.re.icase ? int(booster::regex::icase) : 0)|(it.re.utf8 ? int(booster::regex::utf8) : 0);
		if(it.kind=="t") {
			typed.push_back(std::unique_ptr<typed_h>(new typed_h(id)));
			typed_reg r={dispatcher(),it.has_meth,it.meth,booster::regex(p,flags),typed.back().get(),it.sel};
			r.go(it.types);
			return;
		}
		if(it.kind=="g") {
			booster::regex re(p,flags);
			bool has_rej=it.has_rej; int g=it.rej_g; std::string v=it.rej_v;
			cppcms::url_dispatcher::generic_handler h=[id,has_rej,g,v](cppcms::application &,booster::cmatch const &m) -> bool {
				if(has_rej && m[g].str()==v) { g_log.push_back("X"+itos(id)+":"+all_groups(m)); return false; }
				g_log.push_back("R"+itos(id)+":"+all_groups(m)); return true;
			};
			if(it.has_meth) dispatcher().map_generic(it.meth,re,h); else dispatcher().map_generic(re,h);
			return;
		}
		if(it.re.icase || it.re.utf8 || it.has_meth) throw std::runtime_error("spec: flags/method only on generic options");
		typedef std::string S;
		if(it.kind=="h0") dispatcher().assign(p,[id](){ g_log.push_back("R"+itos(id)+":"); });
		else if(it.kind=="rh") dispatcher().assign_generic(p,[id](booster::cmatch const &m){ g_log.push_back("R"+itos(id)+":"+all_groups(m)); });
		else {
			std::vector<int> const &s=it.sel;
			switch(s.size()) {
			case 1: dispatcher().assign(p,cppcms::url_dispatcher::handler1([id](S a){ g_log.push_back("R"+itos(id)+":"+strs({a})); }),s[0]); break;
			case 2: dispatcher().assign(p,cppcms::url_dispatcher::handler2([id](S a,S b){ g_log.push_back("R"+itos(id)+":"+strs({a,b})); }),s[0],s[1]); break;
			case 3: dispatcher().assign(p,cppcms::url_dispatcher::handler3([id](S a,S b,S c){ g_log.push_back("R"+itos(id)+":"+strs({a,b,c})); }),s[0],s[1],s[2]); break;
			case 4: dispatcher().assign(p,cppcms::url_dispatcher::handler4([id](S a,S b,S c,S d){ g_log.push_back("R"+itos(id)+":"+strs({a,b,c,d})); }),s[0],s[1],s[2],s[3]); break;
			case 5: dispatcher().assign(p,cppcms::url_dispatcher::handler5([id](S a,S b,S c,S d,S e){ g_log.push_back("R"+itos(id)+":"+strs({a,b,c,d,e})); }),s[0],s[1],s[2],s[3],s[4]); break;
			case 6: dispatcher().assign(p,cppcms::url_dispatcher::handler6([id](S a,S b,S c,S d,S e,S f){ g_log.push_back("R"+itos(id)+":"+strs({a,b,c,d,e,f})); }),s[0],s[1],s[2],s[3],s[4],s[5]); break;
			default: throw std::runtime_error("spec: hN arity");
			}
		}
	}
	app *descend(std::vector<int> const &path)
	{
		app *a=this;
		for(size_t i=0;i<path.size();i++) { if(path[i]<0 || size_t(path[i])>=a->kids.size()) return 0; a=a->kids[path[i]]; }
		return a;
	}
};

static cppcms::service *g_srv;
static std::string g_out;

static booster::shared_ptr<cppcms::http::context> make_context(std::string const &method,std::string const &host="h",std::string const &script="/s",std::string const &path="/p")
{
	std::map<std::string,std::string> env;
	env["HTTP_HOST"]=host; env["SCRIPT_NAME"]=script; env["PATH_INFO"]=path; env["REQUEST_METHOD"]=method;
	g_out.clear();
	booster::shared_ptr<dummy_api> api(new dummy_api(*g_srv,env,g_out));
	return booster::shared_ptr<cppcms::http::context>(new cppcms::http::context(api));
}

static std::string join_log()
{
	if(g_log.empty()) return "-";
	std::string r; for(size_t i=0;i<g_log.size();i++) { if(i) r+=";"; r+=g_log[i]; } return r;
}

// ---------------------------------------------------------------- direct libpcre oracle
struct pat_key { int fl; std::string pat; bool operator<(pat_key const &o) const { return fl!=o.fl ? fl<o.fl : pat<o.pat; } };
static int fl_of(re_tok const &r){ return (r.icase?1:0)|(r.utf8?2:0); }
static std::string tok(pat_key const &k){ static char const c[]="riuv"; return std::string(1,c[k.fl&3])+hex(k.pat); }

static bool g_want_valid=false; // the case has typed handlers: record cppcms::encoding::valid for every subject
static void collect_patterns(node_spec const &n,std::set<pat_key> &ps)
{
	for(size_t k=0;k<n.items.size();k++) {
		item_spec const &it=n.items[k];
		if(it.type=='L') {
			pat_key pk={fl_of(it.re),it.re.pat}; ps.insert(pk);
			if(it.has_meth) { pat_key mk={0,it.meth}; ps.insert(mk); }
			if(it.kind=="t") g_want_valid=true;
		}
		else if(it.type=='C') {
			if(it.re.present) { pat_key pk={fl_of(it.re),it.re.pat}; ps.insert(pk); }
			collect_patterns(*it.child,ps);
		}
	}
}

struct compiled { pcre *plain; pcre *anch; int count; compiled():plain(0),anch(0),count(-1){} };

static std::string oracle_words(std::set<pat_key> const &ps,std::set<std::string> subjects)
{
	std::ostringstream out;
	std::map<pat_key,compiled> cs;
	for(std::set<pat_key>::const_iterator p=ps.begin();p!=ps.end();++p) {
		compiled c; char const *err=0; int off=0; int fl=((p->fl&1)?PCRE_CASELESS:0)|((p->fl&2)?PCRE_UTF8:0);
		// the pattern as written must compile (this is where the group count comes from) …
		c.plain=pcre_compile(p->pat.c_str(),fl,&err,&off,0);
		// … and so must "(?:" pattern ")\z", the expression whose anchored match at offset 0 is the oracle
		std::string a="(?:"+std::string(p->pat.c_str())+")\\z";
		if(c.plain) c.anch=pcre_compile(a.c_str(),fl,&err,&off,0);
		if(c.plain && c.anch && pcre_fullinfo(c.plain,0,PCRE_INFO_CAPTURECOUNT,&c.count)==0)
			out<<" I "<<tok(*p)<<" "<<c.count;
		else { c.count=-1; out<<" I "<<tok(*p)<<" x"; }
		cs[*p]=c;
	}
	// close the subject set under "captured group of some pattern on some subject"
	std::set<std::string> done;
	subjects.insert(std::string()); // an unmatched / out-of-range group converts to the empty string
	while(!subjects.empty()) {
		std::string s=*subjects.begin(); subjects.erase(subjects.begin());
		if(!done.insert(s).second) continue;
		for(std::map<pat_key,compiled>::iterator c=cs.begin();c!=cs.end();++c) {
			if(c->second.count<0) continue;
			int acount=0; pcre_fullinfo(c->second.anch,0,PCRE_INFO_CAPTURECOUNT,&acount);
			std::vector<int> ov((acount+1)*3,0);
			int rc=pcre_exec(c->second.anch,0,s.data(),int(s.size()),0,PCRE_ANCHORED,&ov[0],int(ov.size()));
			if(rc<=0) continue; // "no match" is the default answer of the table: only matches are listed
			out<<" O "<<tok(c->first)<<" "<<hex(s)<<" ";
			for(int i=0;i<rc;i++) {
				if(i) out<<",";
				out<<ov[2*i]<<"."<<ov[2*i+1];
				if(ov[2*i]>=0 && ov[2*i+1]>=ov[2*i] && size_t(ov[2*i+1])<=s.size()) {
					std::string g=s.substr(ov[2*i],ov[2*i+1]-ov[2*i]);
					if(!done.count(g)) subjects.insert(g);
				}
			}
		}
	}
	for(std::map<pat_key,compiled>::iterator c=cs.begin();c!=cs.end();++c) { if(c->second.plain) pcre_free(c->second.plain); if(c->second.anch) pcre_free(c->second.anch); }
	if(g_want_valid) {
		// second external of the typed handlers: "valid text in the request's encoding" (cppcms::encoding::valid, called directly)
		std::locale loc=make_context("GET")->locale();
		for(std::set<std::string>::const_iterator s=done.begin();s!=done.end();++s) {
			size_t n=0;
			out<<" V "<<hex(*s)<<" "<<(cppcms::encoding::valid(loc,s->data(),s->data()+s->size(),n)?"1":"0");
		}
	}
	std::string r=out.str();
	return r.empty()? r : r.substr(1);
}
static std::string cstr_of(std::string const &s){ return std::string(s.c_str()); }

// ---------------------------------------------------------------- mount points
struct mp_spec { re_tok host,script,path; int group; bool sel_path; };
static bool parse_mp(words_t const &w,size_t &i,mp_spec &m)
{
	if(i+4>=w.size()) return false;
	if(!parse_re(w[i],m.host)||!parse_re(w[i+1],m.script)||!parse_re(w[i+2],m.path)) return false;
	m.group=atoi(w[i+3].c_str()); m.sel_path=(w[i+4]=="1");
	i+=5; return true;
}
static booster::regex mk_re(re_tok const &r){ return r.present ? booster::regex(r.pat,(r.icase?int(booster::regex::icase):0)|(r.utf8?int(booster::regex::utf8):0)) : booster::regex(); }
static cppcms::mount_point mk_mp(mp_spec const &m)
{
	return cppcms::mount_point(m.sel_path?cppcms::mount_point::match_path_info:cppcms::mount_point::match_script_name,
		mk_re(m.host),mk_re(m.script),mk_re(m.path),m.group);
}
static void mp_patterns(mp_spec const &m,std::set<pat_key> &ps)
{
	re_tok const *r[3]={&m.host,&m.script,&m.path};
	for(int i=0;i<3;i++) if(r[i]->present) { pat_key k={fl_of(*r[i]),r[i]->pat}; ps.insert(k); }
}

// ---------------------------------------------------------------- error enums
static std::string map_err(std::string const &what)
{
	if(what.find("not found for")!=std::string::npos) return "keyNotFound";
	if(what.find("invalid number of parameters")!=std::string::npos) return "badArity";
	if(what.find("is not child application key")!=std::string::npos) return "notChild";
	if(what.find("Index of parameter out of range")!=std::string::npos) return "indexRange";
	if(what.find("no parent found")!=std::string::npos) return "noParent";
	if(what.find("number of keywords is larger")!=std::string::npos) return "tooManyKeywords";
	return "other("+what+")";
}
static std::string tpl_err(std::string const &what)
{
	if(what.find("empty index between {}")!=std::string::npos) return "emptyIndex";
	if(what.find("index 0 is invalid")!=std::string::npos) return "zeroIndex";
	if(what.find("'{' in url without '}'")!=std::string::npos) return "unclosed";
	if(what.find("'}' in url without '{'")!=std::string::npos) return "strayClose";
	if(what.find("should use only 1 parameter")!=std::string::npos) return "appArity";
	if(what.find("key may not be")!=std::string::npos) return "badKey";
	if(what.find("can't be shared with")!=std::string::npos || what.find("be shared with mounted")!=std::string::npos) return "sharedKey";
	return "other("+what+")";
}

static std::string do_map(cppcms::url_mapper &m,std::string const &key,std::vector<std::string> const &p)
{
	std::ostringstream ss;
	try {
		switch(p.size()) {
		case 0: m.map(ss,key); break;
		case 1: m.map(ss,key,p[0]); break;
		case 2: m.map(ss,key,p[0],p[1]); break;
		case 3: m.map(ss,key,p[0],p[1],p[2]); break;
		case 4: m.map(ss,key,p[0],p[1],p[2],p[3]); break;
		case 5: m.map(ss,key,p[0],p[1],p[2],p[3],p[4]); break;
		case 6: m.map(ss,key,p[0],p[1],p[2],p[3],p[4],p[5]); break;
		default: return "bad-op";
		}
	}
	catch(cppcms::cppcms_error const &e) { return "err:"+map_err(e.what()); }
	return "ok:"+hex(ss.str());
}

// split the case line at the "|" words
static std::vector<words_t> sections(words_t const &w)
{
	std::vector<words_t> s(1);
	for(size_t i=0;i<w.size();i++) { if(w[i]=="|") s.push_back(words_t()); else s.back().push_back(w[i]); }
	return s;
}

struct tree_holder {
	booster::intrusive_ptr<app> root;
};

static bool g_oracle=false;

// D <meth|_> <urlhex> | tree | oracle
static std::string run_D(std::vector<words_t> const &s)
{
	if(s.size()<2 || s[0].size()!=3) return "bad-op";
	bool has_ctx = s[0][1]!="_";
	std::string meth,url;
	if(has_ctx && !unhex(s[0][1],meth)) return "bad-op";
	if(!unhex(s[0][2],url)) return "bad-op";
	node_spec n; size_t i=0;
	if(!parse_node(s[1],i,n) || i!=s[1].size()) return "bad-op";
	if(g_oracle) {
		std::set<pat_key> ps; collect_patterns(n,ps);
		std::set<std::string> subj; subj.insert(url); subj.insert(cstr_of(url)); if(has_ctx) subj.insert(meth);
		return oracle_words(ps,subj);
	}
	booster::intrusive_ptr<app> root;
	try { root=new app(*g_srv,n); }
	catch(booster::regex_error const &) { return "cfg-error"; }
	g_log.clear();
	booster::shared_ptr<cppcms::http::context> ctx;
	if(has_ctx) { ctx=make_context(meth); root->assign_context(ctx); }
	std::string res;
	try {
		bool r=root->dispatcher().dispatch(url);
		res = r ? "1" : "0";
		if(has_ctx && ctx->response().get_header("Status").compare(0,3,"404")==0) g_log.push_back("NF");
	}
	catch(cppcms::cppcms_error const &e) {
		// application::main of a child without a context: response() is not available
		res = "exc";
	}
	if(has_ctx) root->release_context();
	return res+" "+join_log();
}

// MP <mp> <hosthex> <scripthex> <pathhex> | | oracle
static std::string run_MP(std::vector<words_t> const &s)
{
	size_t i=1; mp_spec m;
	if(!parse_mp(s[0],i,m) || i+3!=s[0].size()) return "bad-op";
	std::string h,sc,p;
	if(!unhex(s[0][i],h)||!unhex(s[0][i+1],sc)||!unhex(s[0][i+2],p)) return "bad-op";
	if(g_oracle) {
		std::set<pat_key> ps; mp_patterns(m,ps);
		std::set<std::string> subj; std::string const *a[3]={&h,&sc,&p};
		for(int k=0;k<3;k++) { subj.insert(*a[k]); subj.insert(cstr_of(*a[k])); }
		return oracle_words(ps,subj);
	}
	try {
		cppcms::mount_point mp=mk_mp(m);
		std::pair<bool,std::string> r1=mp.match(h,sc,p);
		std::pair<bool,std::string> r2=mp.match(h.c_str(),sc.c_str(),p.c_str());
		return std::string("S:")+(r1.first?"1:":"0:")+hex(r1.second)+" C:"+(r2.first?"1:":"0:")+hex(r2.second);
	}
	catch(booster::regex_error const &) { return "cfg-error"; }
}

static cppcms::json::value service_config(bool url_throws=true)
{
	cppcms::json::value cfg;
	cfg["service"]["api"]="scgi";
	cfg["service"]["socket"]="c20-unused.sock"; // never opened: the service is not run
	cfg["misc"]["invalid_url_throws"]=url_throws; // false is the default of cppcms: real_map then builds the URL in a steal_buffer<>
	cfg["http"]["script"]="/s";
	cfg["logging"]["stderr"]=false; // every service adds a sink to the global logger (never removed): one service per P case would make stderr quadratic
	cfg["localization"]["locales"][0]="en_US.UTF-8"; // request text is UTF-8 (validate_encoding of typed parameters)
	return cfg;
}

// P <methhex> <hosthex> <scripthex> <pathhex> <k> <rounds> | <S|A> mp1 tree1 | <S|A> mp2 tree2 … | oracle
//   S: applications_pool::mount(create_pool<app>(tree),mp,flags)            -> list `apps`
//   A: applications_pool::mount(booster::intrusive_ptr<application>,mp)     -> list `legacy_async_apps`
//   rounds: that many times first: route the request and, if a classic asynchronous application got it, let it die
static std::string run_P(std::vector<words_t> const &s)
{
	if(s[0].size()!=7) return "bad-op";
	std::string meth,h,sc,p;
	if(!unhex(s[0][1],meth)||!unhex(s[0][2],h)||!unhex(s[0][3],sc)||!unhex(s[0][4],p)) return "bad-op";
	size_t k=atoi(s[0][5].c_str());
	size_t rounds=atoi(s[0][6].c_str());
	if(s.size()<k+1) return "bad-op";
	std::vector<mp_spec> mps(k); std::vector<node_spec> trees(k); std::vector<bool> legacy(k);
	for(size_t j=0;j<k;j++) {
		size_t i=1;
		if(s[1+j].empty() || (s[1+j][0]!="S" && s[1+j][0]!="A")) return "bad-op";
		legacy[j]=(s[1+j][0]=="A");
		if(!parse_mp(s[1+j],i,mps[j]) || !parse_node(s[1+j],i,trees[j]) || i!=s[1+j].size()) return "bad-op";
	}
	if(g_oracle) {
		std::set<pat_key> ps;
		for(size_t j=0;j<k;j++) { mp_patterns(mps[j],ps); collect_patterns(trees[j],ps); }
		std::set<std::string> subj; subj.insert(meth); subj.insert(cstr_of(h)); subj.insert(cstr_of(sc)); subj.insert(cstr_of(p));
		return oracle_words(ps,subj);
	}
	// classic asynchronous mounts cannot be unmounted: every case gets its own service
	cppcms::service srv(service_config());
	cppcms::service *saved=g_srv; g_srv=&srv;
	std::string res;
	{
		std::vector<booster::shared_ptr<cppcms::application_specific_pool> > pools(k);
		std::vector<booster::intrusive_ptr<app> > apps(k);
		try {
			for(size_t j=0;j<k;j++) {
				if(legacy[j]) {
					apps[j]=new app(srv,trees[j]);
					srv.applications_pool().mount(booster::intrusive_ptr<cppcms::application>(apps[j]),mk_mp(mps[j]));
				}
				else {
					// the constructor argument is copied into the pool; applications are built on demand
					pools[j]=cppcms::create_pool<app>(trees[j]);
					srv.applications_pool().mount(pools[j],mk_mp(mps[j]),cppcms::app::asynchronous);
				}
			}
			for(size_t round=0;;round++) {
				std::string matched;
				booster::shared_ptr<cppcms::application_specific_pool> got=
					srv.applications_pool().get_application_specific_pool(h.c_str(),sc.c_str(),p.c_str(),matched);
				if(!got) { res="none"; break; }
				booster::intrusive_ptr<cppcms::application> a=got->get(srv); // as http::context does
				if(!a) { res="no-app"; break; }
				size_t idx=k;
				for(size_t j=0;j<k;j++) if((pools[j] && pools[j]==got) || (apps[j] && apps[j].get()==a.get())) idx=j;
				if(idx==k) { res="unknown-pool"; break; }
				if(round<rounds && legacy[idx]) {
					// the application dies: its pool gets flags()==-1 and is purged by the next scan
					a=0; apps[idx]=0;
					continue;
				}
				g_log.clear();
				booster::shared_ptr<cppcms::http::context> ctx=make_context(meth,cstr_of(h),cstr_of(sc),cstr_of(p));
				a->assign_context(ctx);
				a->main(matched);
				if(ctx->response().get_header("Status").compare(0,3,"404")==0) g_log.push_back("NF");
				a->release_context();
				res=itos(idx)+" "+hex(matched)+" "+join_log();
				break;
			}
		}
		catch(booster::regex_error const &) { res="cfg-error"; }
		for(size_t j=0;j<k;j++) if(pools[j]) srv.applications_pool().unmount(pools[j]);
	}
	g_srv=saved;
	return res;
}

// T <isapp> <keyhex> <tplhex> <nh> k v … | |
static std::string run_T(std::vector<words_t> const &s)
{
	words_t const &w=s[0];
	if(w.size()<5) return "bad-op";
	bool isapp=(w[1]=="1");
	std::string key,tpl;
	if(!unhex(w[2],key)||!unhex(w[3],tpl)) return "bad-op";
	size_t nh=atoi(w[4].c_str());
	if(w.size()!=5+2*nh) return "bad-op";
	if(g_oracle) return "";
	node_spec empty;
	booster::intrusive_ptr<app> root=new app(*g_srv,empty);
	for(size_t j=0;j<nh;j++) { std::string k,v; if(!unhex(w[5+2*j],k)||!unhex(w[6+2*j],v)) return "bad-op"; root->mapper().set_value(k,v); }
	try {
		if(isapp) {
			app *c=new app(*g_srv,empty);
			c->mapper().assign("CH");
			root->attach(c,key,tpl);
		}
		else root->mapper().assign(key,tpl);
	}
	catch(cppcms::cppcms_error const &e) { return "err:"+tpl_err(e.what()); }
	// render with 0..6 parameters: the arity is the one count that does not answer badArity
	std::string r="ok";
	for(size_t n=0;n<=6;n++) {
		std::vector<std::string> p; for(size_t j=0;j<n;j++) p.push_back("<"+itos(j+1)+">");
		r+=" "+do_map(root->mapper(),key,p);
	}
	return r;
}

static bool parse_path(std::string const &w,std::vector<int> &path)
{
	path.clear();
	if(w=="-") return true;
	size_t p=0;
	while(p<=w.size()) { size_t e=w.find('.',p); if(e==std::string::npos) e=w.size(); path.push_back(atoi(w.substr(p,e-p).c_str())); p=e+1; }
	return true;
}

// U <roothex> <nh> k v … <pos> <keyhex> <np> params… | tree |          (pos: "-" or i.j.k = child indexes from the root)
// R <meth> <roothex> <nh> k v … <pos> <keyhex> <np> params… | tree | oracle   : map, strip root, dispatch from the root
static cppcms::service *g_srv_nt; // misc.invalid_url_throws=false
static std::string run_UR_in(std::vector<words_t> const &s,bool route);
static std::string run_UR(std::vector<words_t> const &s,bool route,bool nothrow)
{
	cppcms::service *saved=g_srv;
	if(nothrow) g_srv=g_srv_nt;
	std::string r;
	try { r=run_UR_in(s,route); } catch(...) { g_srv=saved; throw; }
	g_srv=saved;
	return r;
}
static std::string run_UR_in(std::vector<words_t> const &s,bool route)
{
	words_t const &w=s[0];
	size_t i=1; std::string meth;
	if(route) { if(w.size()<2 || !unhex(w[1],meth)) return "bad-op"; i=2; }
	if(w.size()<i+2) return "bad-op";
	std::string rootp; if(!unhex(w[i],rootp)) return "bad-op";
	size_t nh=atoi(w[i+1].c_str()); i+=2;
	if(w.size()<i+2*nh+3) return "bad-op";
	std::vector<std::pair<std::string,std::string> > helpers;
	for(size_t j=0;j<nh;j++) { std::string k,v; if(!unhex(w[i],k)||!unhex(w[i+1],v)) return "bad-op"; helpers.push_back(std::make_pair(k,v)); i+=2; }
	std::vector<int> pos; parse_path(w[i],pos);
	std::string key; if(!unhex(w[i+1],key)) return "bad-op";
	size_t np=atoi(w[i+2].c_str()); i+=3;
	if(w.size()!=i+np || np>6) return "bad-op";
	std::vector<std::string> params(np);
	for(size_t j=0;j<np;j++) if(!unhex(w[i+j],params[j])) return "bad-op";
	if(s.size()<2) return "bad-op";
	node_spec n; size_t ti=0;
	if(!parse_node(s[1],ti,n) || ti!=s[1].size()) return "bad-op";
	booster::intrusive_ptr<app> root;
	try { root=new app(*g_srv,n); }
	catch(booster::regex_error const &) { return "cfg-error"; }
	catch(cppcms::cppcms_error const &) { return "cfg-error"; }
	root->mapper().root(rootp);
	for(size_t j=0;j<helpers.size();j++) root->mapper().set_value(helpers[j].first,helpers[j].second);
	app *at=root->descend(pos);
	if(!at) return "bad-op";
	std::string m=do_map(at->mapper(),key,params);
	if(!route) return g_oracle ? std::string() : m;
	std::string url; bool mapped=false;
	if(m.compare(0,3,"ok:")==0) {
		std::string full; unhex(m.substr(3),full);
		if(full.compare(0,rootp.size(),rootp)==0) { url=full.substr(rootp.size()); mapped=true; }
	}
	if(g_oracle) {
		if(!mapped) return "";
		std::set<pat_key> ps; collect_patterns(n,ps);
		std::set<std::string> subj; subj.insert(url); subj.insert(cstr_of(url)); subj.insert(meth);
		return oracle_words(ps,subj);
	}
	if(!mapped) return m;
	g_log.clear();
	booster::shared_ptr<cppcms::http::context> ctx=make_context(meth);
	root->assign_context(ctx);
	root->main(url);
	if(ctx->response().get_header("Status").compare(0,3,"404")==0) g_log.push_back("NF");
	root->release_context();
	return m+" "+join_log();
}

static std::string run_kind(words_t const &w,std::vector<words_t> const &s);
static std::string run(words_t const &w)
{
	if(w.empty()) return "bad-op";
	std::vector<words_t> s=sections(w);
	g_want_valid=false;
	if(g_oracle) {
		// oracle mode answers with oracle words only; a case the real code rejects has none
		g_oracle=false; std::string r;
		try { g_oracle=true; r=run_kind(w,s); } catch(...) { g_oracle=true; return ""; }
		return (r.compare(0,2,"I ")==0 || r.compare(0,2,"O ")==0) ? r : std::string();
	}
	return run_kind(w,s);
}
static std::string run_kind(words_t const &w,std::vector<words_t> const &s)
{
	if(w[0]=="D") return run_D(s);
	if(w[0]=="MP") return run_MP(s);
	if(w[0]=="P") return run_P(s);
	if(w[0]=="T") return run_T(s);
	if(w[0]=="U") return run_UR(s,false,false);
	if(w[0]=="R") return run_UR(s,true,false);
	if(w[0]=="Un") return run_UR(s,false,true);
	if(w[0]=="Rn") return run_UR(s,true,true);
	return "bad-op";
}

int main(int argc,char **argv)
{
	g_oracle = argc>1 && std::string(argv[1])=="oracle";
	cppcms::service srv(service_config());
	cppcms::service srv_nt(service_config(false));
	g_srv=&srv; g_srv_nt=&srv_nt;
	return vh::drive(run);
}
