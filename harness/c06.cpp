// C06 harness: the real cppcms::session_interface over a real cppcms::session_pool, driven through the
// public API with a session_interface_cookie_adapter that plays the browser's cookie jar (the way
// src/capi/session.cpp and tests/session_interface_test.cpp do it, no HTTP).  Line protocol of
// lean/Cppcms/C06/Driver.lean (see there).
//
//  * clock: time() is interposed at link time (definition below wins for every caller in the executable);
//  * server storages are the real ones (session_memory_storage_factory, session_file_storage_factory
//    with the arguments session_pool::init uses for an external pool) wrapped in a logging decorator that
//    records every call of the session_storage interface (operation, key) — that is the observation for
//    "identifiers not of the issued form never address storage";
//  * storage listing: every key ever saved (memory) / every directory entry (files) is probed with the
//    inner storage's load() at a clock value before all deadlines;
//  * client-side cookies use the real hmac(sha1) encryptor configured through the pool's settings;
//  * session-cookie values and storage keys are canonicalised by first occurrence.
//
// argv[1] (optional): directory under which the file storage directories are created (default ".").
#include "common.h"
#include <cppcms/session_interface.h>
#include <cppcms/session_pool.h>
#include <cppcms/session_storage.h>
#include <cppcms/http_cookie.h>
#include <cppcms/json.h>
#include <cppcms/util.h>
#include <cppcms/cppcms_error.h>
#include <booster/backtrace.h>
#include <typeinfo>
#include "session_memory_storage.h"
#include "session_posix_file_storage.h"
#include "session_tcp_storage.h"
#include "tcp_cache_server.h"
#include "base_cache.h"
#include <sys/socket.h>
#include <netinet/in.h>
#include <arpa/inet.h>
#include <map>
#include <set>
#include <memory>
#include <algorithm>
#include <time.h>
#include <dirent.h>
#include <unistd.h>
#include <sys/stat.h>
#include <sys/wait.h>
#include <locale>
#include <cppcms/urandom.h>

static time_t virtual_now = 1000;
extern "C" time_t time(time_t *t) { if(t) *t=virtual_now; return virtual_now; }
static const time_t PROBE_TIME = -(time_t(1)<<60);

using namespace cppcms;
typedef std::vector<std::pair<char,std::string> > call_log;

static call_log calls;
static std::set<std::string> saved_keys;

struct logging_storage : public sessions::session_storage {
	booster::shared_ptr<sessions::session_storage> inner;
	logging_storage(booster::shared_ptr<sessions::session_storage> i) : inner(i) {}
	void save(std::string const &sid,time_t timeout,std::string const &in)
	{
		calls.push_back(std::make_pair('s',sid)); saved_keys.insert(sid);
		inner->save(sid,timeout,in);
	}
	bool load(std::string const &sid,time_t &timeout,std::string &out)
	{
		calls.push_back(std::make_pair('l',sid));
		return inner->load(sid,timeout,out);
	}
	void remove(std::string const &sid)
	{
		calls.push_back(std::make_pair('r',sid));
		inner->remove(sid);
	}
	bool is_blocking() { return inner->is_blocking(); }
};

struct logging_factory : public sessions::session_storage_factory {
	std::unique_ptr<sessions::session_storage_factory> real;
	booster::shared_ptr<sessions::session_storage> inner;	// the object that holds the records (probed for the listing)
	booster::shared_ptr<sessions::session_storage> wrapped;
	logging_factory(sessions::session_storage_factory *r,booster::shared_ptr<sessions::session_storage> backend=booster::shared_ptr<sessions::session_storage>()) : real(r)
	{
		inner = backend ? backend : real->get();
		wrapped.reset(new logging_storage(real->get()));
	}
	booster::shared_ptr<sessions::session_storage> get() { return wrapped; }
	bool requires_gc() { return real->requires_gc(); }
	void gc_job() { real->gc_job(); }
};

struct jar {
	std::string cookie;
	std::map<std::string,std::string> exposed;
};

struct set_cookie_call { std::string key; bool is_session; std::string value; std::string age; bool del; };

static std::string const prefix="sc";

struct adapter : public session_interface_cookie_adapter {
	std::string presented;
	std::set<std::string> names;
	std::vector<set_cookie_call> *shared;
	adapter() : shared(0) {}
	void set_cookie(http::cookie const &c)
	{
		set_cookie_call s;
		std::string n=c.name();
		if(n==prefix) { s.is_session=true; }
		else if(n.compare(0,prefix.size()+1,prefix+"_")==0) { s.is_session=false; s.key=n.substr(prefix.size()+1); }
		else { s.is_session=false; s.key="?"+n; }
		s.value=util::urldecode(c.value());
		s.del=false;
		if(c.max_age_defined()) {
			if(c.max_age()==0) { s.age="del"; s.del=true; }
			else s.age=std::to_string(c.max_age());
		}
		else if(c.expires_defined()) s.age="exp";
		else s.age="ses";
		shared->push_back(s);
	}
	std::string get_session_cookie(std::string const &) { return presented; }
	std::set<std::string> get_cookie_names() { return names; }
};

// ---------------------------------------------------------------- world
static std::unique_ptr<session_pool> pool;
static logging_factory *factory=0;	// owned by the pool
static std::string kind;
// network storage: session_tcp_storage -> in-process tcp_cache_service -> session_memory_storage
// (network2 / network3: that many nodes, each with its own memory storage; session.server.ips/ports list them all)
static std::vector<std::unique_ptr<cppcms::impl::tcp_cache_service> > tcp_svcs;
static std::vector<booster::shared_ptr<sessions::session_storage_factory> > tcp_backends;
static std::vector<int> tcp_ports;
static bool is_network() { return kind.compare(0,7,"network")==0; }
static std::string files_dir;
static std::string base_dir=".";
static int history_no=0;
static std::map<int,jar> jars;
static std::vector<std::string> issued;
static std::set<std::string> mentioned;

static int free_port()
{
	int s=socket(AF_INET,SOCK_STREAM,0);
	sockaddr_in a; memset(&a,0,sizeof a);
	a.sin_family=AF_INET; a.sin_addr.s_addr=htonl(INADDR_LOOPBACK); a.sin_port=0;
	int p=0;
	if(bind(s,(sockaddr*)&a,sizeof a)==0) { socklen_t l=sizeof a; getsockname(s,(sockaddr*)&a,&l); p=ntohs(a.sin_port); }
	close(s);
	return p;
}

static void rm_dir(std::string const &d)
{
	DIR *dir=opendir(d.c_str());
	if(!dir) return;
	while(struct dirent *e=readdir(dir)) {
		std::string n=e->d_name;
		if(n=="."||n=="..") continue;
		unlink((d+"/"+n).c_str());
	}
	closedir(dir);
	rmdir(d.c_str());
}

static std::string adler_abbr(std::string const &s)
{
	if(s.size()<=48) return vh::hex(s);
	unsigned long a=1,b=0;
	for(size_t i=0;i<s.size();i++) { a=(a+(unsigned char)s[i])%65521; b=(b+a)%65521; }
	return "z"+std::to_string(s.size())+"."+vh::hex(s.substr(0,16))+"."+std::to_string(b*65536+a);
}

static std::string canon_tok(std::vector<std::string> const &tab,std::string const &v)
{
	if(v.empty()) return "-";
	for(size_t i=0;i<tab.size();i++) if(tab[i]==v) return std::string(1,v[0])+"#"+std::to_string(i);
	return "x"+vh::hex(v);
}
static std::string canon_key(std::string const &k)
{
	std::string v="I"+k;
	for(size_t i=0;i<issued.size();i++) if(issued[i]==v) return "I#"+std::to_string(i);
	return "x"+vh::hex(k);
}

static std::string err_kind(std::exception const &e)
{
	std::string m=e.what();
	if(dynamic_cast<std::bad_cast const *>(&e)) return "badCast";
	if(m.find("key too long")!=std::string::npos) return "keyTooLong";
	if(m.find("value too long")!=std::string::npos) return "valueTooLong";
	if(m.find("format violation -> pack")!=std::string::npos) return "formatPack";
	if(m.find("format violation data")!=std::string::npos) return "formatData";
	if(m.find("Can't use cookies backend")!=std::string::npos) return "cookiesOnServer";
	for(size_t i=0;i<m.size();i++) if(m[i]==' '||m[i]=='\n') m[i]='_';
	return "other:"+m;
}

static bool parse_val(std::string const &w,std::string &out)
{
	if(!w.empty() && w[0]=='r') {
		size_t x=w.find('x');
		if(x!=3) return false;
		int a=vh::hexval(w[1]),b=vh::hexval(w[2]);
		if(a<0||b<0) return false;
		out.assign(strtoull(w.c_str()+x+1,0,10),char(a*16+b));
		return true;
	}
	return vh::unhex(w,out);
}

static std::vector<std::string> split(std::string const &s,char c)
{
	std::vector<std::string> r; size_t i=0;
	for(;;) { size_t j=s.find(c,i); if(j==std::string::npos) { r.push_back(s.substr(i)); break; } r.push_back(s.substr(i,j-i)); i=j+1; }
	return r;
}

static std::string join(std::vector<std::string> const &v)
{
	std::string r="[";
	for(size_t i=0;i<v.size();i++) { if(i) r+=";"; r+=v[i]; }
	return r+"]";
}

static std::string store_listing()
{
	std::vector<std::string> rows;
	std::set<std::string> keys;
	if(kind=="memory" || is_network()) keys=saved_keys;
	else {
		DIR *dir=opendir(files_dir.c_str());
		if(dir) {
			while(struct dirent *e=readdir(dir)) { std::string n=e->d_name; if(n!="."&&n!="..") keys.insert(n); }
			closedir(dir);
		}
	}
	time_t keep=virtual_now;
	virtual_now=PROBE_TIME;
	// every node is asked directly (not over tcp); with more than one node only records whose deadline has not
	// passed are listed: each node's memory storage collects expired records on its own schedule
	std::vector<booster::shared_ptr<sessions::session_storage> > nodes;
	if(is_network()) for(size_t i=0;i<tcp_backends.size();i++) nodes.push_back(tcp_backends[i]->get());
	else nodes.push_back(factory->inner);
	for(std::set<std::string>::const_iterator p=keys.begin();p!=keys.end();++p) {
		bool any=false;
		for(size_t n=0;n<nodes.size();n++) {
			time_t to=0; std::string data;
			bool ok=false;
			try { ok=nodes[n]->load(*p,to,data); } catch(...) { ok=false; }
			if(!ok) continue;
			any=true;
			if(nodes.size()>1 && to<keep) continue;
			rows.push_back(canon_key(*p)+"@"+std::to_string((long long)to)+"="+adler_abbr(data));
		}
		if(!any && kind=="files") rows.push_back(canon_key(*p)+"@?");
	}
	virtual_now=keep;
	std::sort(rows.begin(),rows.end());
	return join(rows);
}

// a global locale that groups digits ("86,400"): the library must not let it leak into what it stores
struct grouping_numpunct : public std::numpunct<char> {
	char do_thousands_sep() const { return ','; }
	std::string do_grouping() const { return "\3"; }
};

static std::string do_new(std::vector<std::string> const &w)
{
	if(w.size()!=6 && !(w.size()==7 && w[6]=="grp")) return "bad-op";
	if(w.size()==7) std::locale::global(std::locale(std::locale::classic(),new grouping_numpunct()));
	else std::locale::global(std::locale::classic());
	pool.reset(); factory=0;
	tcp_svcs.clear(); tcp_backends.clear(); tcp_ports.clear();
	if(!files_dir.empty()) { rm_dir(files_dir); files_dir.clear(); }
	jars.clear(); issued.clear(); mentioned.clear(); calls.clear(); saved_keys.clear();
	std::string loc=w[1]; kind=w[2];
	json::value cfg;
	cfg["session"]["location"]=loc;
	static char const *hows[]={"fixed","renew","browser"};
	int how=atoi(w[3].c_str());
	if(how<0||how>2) return "bad-op";
	cfg["session"]["expire"]=hows[how];
	cfg["session"]["timeout"]=atoi(w[4].c_str());
	cfg["session"]["client_size_limit"]=atoi(w[5].c_str());
	cfg["session"]["cookies"]["prefix"]=prefix;
	cfg["session"]["client"]["encryptor"]="hmac";
	cfg["session"]["client"]["key"]="232074faa0fd37de20858bf8cd0a7d04";
	pool.reset(new session_pool(cfg));
	if(loc!="client") {
		sessions::session_storage_factory *real=0;
		if(kind=="memory") real=new sessions::session_memory_storage_factory();
		else if(kind=="files") {
			files_dir=base_dir+"/files_"+std::to_string(history_no++);
			rm_dir(files_dir);
			// arguments of session_pool::init for a pool without a service: (dir, hw+1, 2, true)
			real=new sessions::session_file_storage_factory(files_dir,5,2,true);
		}
		else if(is_network()) {
			size_t n = kind=="network" ? 1 : size_t(atoi(kind.c_str()+7));
			if(n<1||n>8) return "bad-op";
			std::vector<std::string> ips; std::vector<int> ports;
			for(size_t i=0;i<n;i++) {
				tcp_backends.push_back(booster::shared_ptr<sessions::session_storage_factory>(new sessions::session_memory_storage_factory()));
				int port=0;
				for(int attempt=0;;attempt++) {
					port=free_port();
					try {
						tcp_svcs.push_back(std::unique_ptr<cppcms::impl::tcp_cache_service>(
							new cppcms::impl::tcp_cache_service(booster::intrusive_ptr<cppcms::impl::base_cache>(),tcp_backends.back(),1,"127.0.0.1",port)));
						break;
					}
					catch(std::exception const &) { if(attempt>50) throw; }
				}
				ips.push_back("127.0.0.1"); ports.push_back(port);
			}
			tcp_ports=ports;
			factory=new logging_factory(new sessions::tcp_factory(ips,ports),tcp_backends[0]->get());
		}
		else return "bad-op";
		if(!factory) factory=new logging_factory(real);
		pool->storage(std::unique_ptr<sessions::session_storage_factory>(factory));
	}
	pool->init();
	return "ok";
}

static bool resolve_cookie(int b,std::string const &spec,std::string &out)
{
	std::vector<std::string> p=split(spec,':');
	if(p[0]=="jar" && p.size()==1) { out=jars[b].cookie; return true; }
	if(p[0]=="none" && p.size()==1) { out.clear(); return true; }
	if(p[0]=="raw" && p.size()==2) return vh::unhex(p[1],out);
	if(p[0]=="old" && p.size()==2) {
		std::vector<std::string> cand;
		for(size_t i=issued.size();i-->0;) {
			bool held=false;
			for(std::map<int,jar>::const_iterator q=jars.begin();q!=jars.end();++q) if(q->second.cookie==issued[i]) held=true;
			if(!held) cand.push_back(issued[i]);
		}
		if(cand.empty()) out.clear(); else out=cand[strtoull(p[1].c_str(),0,10)%cand.size()];
		return true;
	}
	if(p[0]=="steal" && p.size()==2) { out=jars[atoi(p[1].c_str())].cookie; return true; }
	return false;
}

struct op { std::string name,k,v; long n; };

static bool parse_ops(std::vector<std::string> const &w,size_t from,size_t to,std::vector<op> &ops)
{
	for(size_t i=from;i<to;i++) {
		std::vector<std::string> p=split(w[i],':');
		op o; o.name=p[0]; o.n=0;
		if(o.name=="set" && p.size()==3) { if(!vh::unhex(p[1],o.k)||!parse_val(p[2],o.v)) return false; mentioned.insert(o.k); }
		else if((o.name=="erase"||o.name=="expose"||o.name=="hide") && p.size()==2) { if(!vh::unhex(p[1],o.k)) return false; mentioned.insert(o.k); }
		else if((o.name=="age"||o.name=="how"||o.name=="srv") && p.size()==2) o.n=strtol(p[1].c_str(),0,10);
		else if((o.name=="clear"||o.name=="defage"||o.name=="defhow"||o.name=="reset") && p.size()==1) ;
		else return false;
		ops.push_back(o);
	}
	return true;
}

static std::string read_state(session_interface &s)
{
	std::set<std::string> keys=s.key_set();
	keys.insert(mentioned.begin(),mentioned.end());
	keys.insert("_t"); keys.insert("_h"); keys.insert("_s");
	std::vector<std::string> ents;
	for(std::set<std::string>::const_iterator k=keys.begin();k!=keys.end();++k) {
		if(!s.is_set(*k)) continue;
		ents.push_back(vh::hex(*k)+"="+adler_abbr(s.get(*k))+":"+(s.is_exposed(*k)?"1":"0"));
	}
	return std::to_string(s.age())+","+std::to_string(s.expiration())+","+(s.on_server()?"1":"0")+","+join(ents);
}

static void apply_ops(session_interface &s,std::vector<op> const &ops)
{
	for(size_t i=0;i<ops.size();i++) {
		op const &o=ops[i];
		if(o.name=="set") s.set(o.k,o.v);
		else if(o.name=="erase") s.erase(o.k);
		else if(o.name=="clear") s.clear();
		else if(o.name=="expose") s.expose(o.k);
		else if(o.name=="hide") s.hide(o.k);
		else if(o.name=="age") s.age(int(o.n));
		else if(o.name=="defage") s.default_age();
		else if(o.name=="how") s.expiration(int(o.n));
		else if(o.name=="defhow") s.default_expiration();
		else if(o.name=="srv") s.on_server(o.n!=0);
		else if(o.name=="reset") s.reset_session();
	}
}

// req  <b> <now> <cookie> <op>*                         one object: load, mutate, save
// req2 <b> <now> <cookie1> <op>* / <cookie2> <op>*      one object: load with cookie1, mutate, then
//        set_cookie_adapter_and_reload() with an adapter presenting cookie2, mutate, save
static std::string do_req(std::vector<std::string> const &w)
{
	bool two = w[0]=="req2";
	if(w.size()<4 || !pool.get()) return "bad-op";
	int b=atoi(w[1].c_str());
	virtual_now=strtoll(w[2].c_str(),0,10);
	size_t slash=w.size();
	if(two) {
		slash=std::find(w.begin(),w.end(),"/")-w.begin();
		if(slash+1>=w.size()) return "bad-op";
	}
	std::string presented,presented2;
	std::vector<op> ops,ops2;
	if(!parse_ops(w,4,slash,ops)) return "bad-op";
	if(two && !parse_ops(w,slash+2,w.size(),ops2)) return "bad-op";
	if(!resolve_cookie(b,w[3],presented)) return "bad-op";
	jar &j=jars[b];
	if(w[3]!="jar") j.cookie=presented;
	// the second cookie is resolved against the jars as they are once the first one is installed
	if(two && !resolve_cookie(b,w[slash+1],presented2)) return "bad-op";
	if(two && w[slash+1]!="jar") j.cookie=presented2;
	std::vector<set_cookie_call> out;
	adapter a,a2;
	a.shared=&out; a2.shared=&out;
	a.presented=presented; a2.presented=presented2;
	for(std::map<std::string,std::string>::const_iterator p=j.exposed.begin();p!=j.exposed.end();++p) a.names.insert(prefix+"_"+p->first);
	a2.names=a.names;
	calls.clear();
	std::string p_str=canon_tok(issued,presented),p2_str=canon_tok(issued,presented2);
	std::string reads,reads1,saved;
	{
		session_interface s(*pool,a);
		bool loaded=false;
		try {
			s.load();
			reads=read_state(s);
			if(two) {
				reads1=reads;
				apply_ops(s,ops);
				s.set_cookie_adapter_and_reload(a2);
				reads=read_state(s);
			}
			loaded=true;
		}
		catch(std::exception const &e) { reads="err:"+err_kind(e); if(two && reads1.empty()) reads1=reads; }
		if(!loaded) saved=reads;
		else {
			try {
				apply_ops(s,two ? ops2 : ops);
				s.save();
				saved="ok";
			}
			catch(std::exception const &e) { saved="err:"+err_kind(e); }
		}
	}
	// the browser applies the Set-Cookie calls in order
	std::vector<std::string> cs;
	for(size_t i=0;i<out.size();i++) {
		set_cookie_call const &c=out[i];
		if(c.is_session) {
			if(!c.value.empty() && std::find(issued.begin(),issued.end(),c.value)==issued.end()) issued.push_back(c.value);
			if(c.del) j.cookie.clear(); else j.cookie=c.value;
		}
		else {
			if(c.del) j.exposed.erase(c.key); else j.exposed[c.key]=c.value;
		}
	}
	for(size_t i=0;i<out.size();i++) {
		set_cookie_call const &c=out[i];
		if(c.is_session) cs.push_back("@="+canon_tok(issued,c.value)+":"+c.age);
		else cs.push_back(vh::hex(c.key)+"="+adler_abbr(c.value)+":"+c.age);
	}
	std::vector<std::string> je;
	for(std::map<std::string,std::string>::const_iterator p=j.exposed.begin();p!=j.exposed.end();++p) je.push_back(vh::hex(p->first)+"="+adler_abbr(p->second));
	std::vector<std::string> lg;
	for(size_t i=0;i<calls.size();i++) lg.push_back(std::string(1,calls[i].first)+canon_key(calls[i].second));
	std::string listing = factory ? store_listing() : "[]";
	std::string head = two ? "P1 "+p_str+" R1 "+reads1+" P "+p2_str : "P "+p_str;
	return head+" R "+reads+" S "+saved+" C "+join(cs)+" J "+canon_tok(issued,j.cookie)+","+join(je)+" T "+listing+" A "+join(lg);
}

static std::string run(std::vector<std::string> const &w)
{
	if(w.empty()) return "bad-op";
	if(w[0]=="new") return do_new(w);
	if(w[0]=="req" || w[0]=="req2") return do_req(w);
	if(w[0]=="forksids" && w.size()==1) {
		// Fresh made observable: one small draw in the parent, then two forked workers each create a server-side session
		// over the shared storage; the identifiers they issue must differ
		if(!pool.get() || !factory) return "bad-op";
		{ unsigned char b[16]; urandom_device d; d.generate(b,sizeof(b)); }
		std::string got[2];
		for(int c=0;c<2;c++) {
			int fds[2];
			if(pipe(fds)!=0) return "bad-op";
			std::cout.flush();
			pid_t pid=fork();
			if(pid==0) {
				close(fds[0]);
				std::string sid="?";
				try {
					std::vector<set_cookie_call> out;
					adapter a; a.shared=&out;
					{
						session_interface s(*pool,a);
						s.load();
						s.set("k",std::string(200,'x'));
						s.on_server(true);
						s.save();
					}
					for(size_t i=0;i<out.size();i++) if(out[i].is_session && !out[i].del) sid=out[i].value;
				}
				catch(...) { sid="exception"; }
				if(write(fds[1],sid.data(),sid.size())<0) {}
				_exit(0);
			}
			close(fds[1]);
			char buf[256]; ssize_t n;
			while((n=read(fds[0],buf,sizeof(buf)))>0) got[c].append(buf,n);
			close(fds[0]);
			int st=0; waitpid(pid,&st,0);
		}
		if(got[0].size()!=33 || got[1].size()!=33) return "bad "+vh::hex(got[0])+" "+vh::hex(got[1]);
		for(int c=0;c<2;c++) { try { factory->inner->remove(got[c].substr(1)); } catch(...) {} }	// the workers' sessions are not part of the history
		return got[0]!=got[1] ? "distinct" : "same";
	}
	if(w[0]=="drop" && w.size()==1) {
		// fault: every node's network front-end is stopped and started again on the same port over the same
		// session_storage object (the records persist); the client's established connections are dead afterwards
		if(!pool.get()) return "bad-op";
		for(size_t i=0;i<tcp_svcs.size();i++) {
			tcp_svcs[i].reset();
			for(int attempt=0;;attempt++) {
				try {
					tcp_svcs[i].reset(new cppcms::impl::tcp_cache_service(booster::intrusive_ptr<cppcms::impl::base_cache>(),tcp_backends[i],1,"127.0.0.1",tcp_ports[i]));
					break;
				}
				catch(std::exception const &) { if(attempt>200) throw; usleep(10000); }
			}
		}
		return "ok";
	}
	if(w[0]=="gc" && w.size()==2) {
		if(!pool.get()) return "bad-op";
		virtual_now=strtoll(w[1].c_str(),0,10);
		if(factory) factory->gc_job();
		return "T "+(factory ? store_listing() : std::string("[]"));
	}
	return "bad-op";
}

int main(int argc,char **argv)
{
	if(argc>1) base_dir=argv[1];
	int r=vh::drive(run);
	pool.reset(); tcp_svcs.clear(); tcp_backends.clear();
	if(!files_dir.empty()) rm_dir(files_dir);
	return r;
}
