// Shared harness for C01/C02: real cppcms::service instances (one per front-end: embedded HTTP on a
// loopback TCP port, SCGI and FastCGI on unix sockets in the current directory) with an echo
// application mounted four times (sync "/s", async "/a", async + raw content filter "/f", sync catch-all), and a
// client that plays a case's byte string with the case's segmentation.
//
// Observation points (no source hooks; link-time interposition only):
//   * ::readv (the only read primitive booster::aio::stream_socket uses) is interposed: it counts the
//     bytes the server consumed (drain barrier between segments) and records the size of every read
//     (the segmentation the server really saw; the model is run on exactly that).
//   * application-level counters: main() calls before/after the content is ready, filter on_error and
//     on_end_of_content calls.
//   * an exception leaving service::run() is caught in the service thread and reported (`exc=`); the
//     service is then rebuilt so that later cases are still examined.
#pragma once
#include "common.h"
#include <cppcms/service.h>
#include <cppcms/application.h>
#include <cppcms/applications_pool.h>
#include <cppcms/mount_point.h>
#include <cppcms/http_request.h>
#include <cppcms/http_response.h>
#include <cppcms/http_context.h>
#include <cppcms/http_cookie.h>
#include <cppcms/http_content_filter.h>
#include <cppcms/json.h>
#include <booster/thread.h>
#include <booster/shared_ptr.h>
#include <sys/types.h>
#include <sys/socket.h>
#include <sys/un.h>
#include <sys/uio.h>
#include <netinet/in.h>
#include <netinet/tcp.h>
#include <arpa/inet.h>
#include <poll.h>
#include <fcntl.h>
#include <unistd.h>
#include <dlfcn.h>
#include <errno.h>
#include <time.h>
#include <atomic>
#include <mutex>
#include <memory>
#include <map>

namespace c01 {

// ------------------------------------------------------------------ observation
struct stats_t {
	std::atomic<int> main_pre, main_ready, on_error, on_eoc;
	stats_t():main_pre(0),main_ready(0),on_error(0),on_eoc(0){}
};
static stats_t g_stats;
static std::atomic<long long> g_consumed(0);
static std::mutex g_reads_mx;
static std::vector<int> g_reads;

static double now_s()
{
	struct timespec ts; clock_gettime(CLOCK_MONOTONIC,&ts);
	return ts.tv_sec + ts.tv_nsec*1e-9;
}

} // c01

// booster::aio::stream_socket::readv -> ::readv : every byte the server takes from a socket passes here
extern "C" ssize_t readv(int fd,const struct iovec *iov,int cnt)
{
	typedef ssize_t (*fn_t)(int,const struct iovec *,int);
	static fn_t real = (fn_t)dlsym(RTLD_NEXT,"readv");
	ssize_t r = real(fd,iov,cnt);
	if(r>0) {
		std::lock_guard<std::mutex> g(c01::g_reads_mx);
		c01::g_reads.push_back(int(r));
		c01::g_consumed += r;
	}
	return r;
}

namespace c01 {

// ------------------------------------------------------------------ echo application
static void put_rec(std::string &out,char tag,std::string const &k,std::string const &v)
{
	out+=tag;
	uint32_t a=k.size(),b=v.size();
	char h[8]={char(a>>24),char(a>>16),char(a>>8),char(a),char(b>>24),char(b>>16),char(b>>8),char(b)};
	out.append(h,4); out+=k; out.append(h+4,4); out+=v;
}

struct filter_data {
	std::string chunks;
	int nchunks;
	filter_data():nchunks(0){}
};

class echo : public cppcms::application, public cppcms::http::raw_content_filter {
public:
	int kind; // 0 sync, 1 async, 2 async + content filter, 3 sync catch-all (any other SCRIPT_NAME, also none)
	echo(cppcms::service &s,int k) : cppcms::application(s), kind(k) {}
	virtual void on_data_chunk(void const *p,size_t n)
	{
		filter_data *d=context().get_specific<filter_data>();
		if(d) { d->chunks.append(static_cast<char const*>(p),n); d->nchunks++; }
	}
	virtual void on_end_of_content() { g_stats.on_eoc++; }
	virtual void on_error() { g_stats.on_error++; }
	virtual void main(std::string /*path*/)
	{
		if(kind==2 && !request().is_ready()) {
			g_stats.main_pre++;
			context().reset_specific<filter_data>(new filter_data());
			std::string bs=request().get("bs");
			if(!bs.empty()) request().setbuf(atoi(bs.c_str()));
			std::string ab=request().get("abort");
			if(!ab.empty()) { int code=atoi(ab.c_str()); if(code<400 || code>599) code=400; throw cppcms::http::abort_upload(code); }
			request().set_content_filter(*this);
			return;
		}
		g_stats.main_ready++;
		std::string out;
		put_rec(out,'M',"kind",kind==0?"sync":kind==1?"async":kind==2?"filter":"default");
		std::map<std::string,std::string> env=request().getenv();
		for(std::map<std::string,std::string>::const_iterator p=env.begin();p!=env.end();++p)
			put_rec(out,'E',p->first,p->second);
		// by-name lookups (string_map::get through connection::getenv(name)) next to the getenv() map above
		for(std::map<std::string,std::string>::const_iterator p=env.begin();p!=env.end();++p)
			put_rec(out,'N',p->first,request().getenv(p->first));
		typedef cppcms::http::request::form_type form_type;
		form_type const &g=request().get();
		for(form_type::const_iterator p=g.begin();p!=g.end();++p) put_rec(out,'G',p->first,p->second);
		form_type const &po=request().post();
		for(form_type::const_iterator p=po.begin();p!=po.end();++p) put_rec(out,'P',p->first,p->second);
		typedef std::map<std::string,cppcms::http::cookie> cookies_type;
		cookies_type const &ck=request().cookies();
		for(cookies_type::const_iterator p=ck.begin();p!=ck.end();++p) {
			std::string v=p->second.value(); v+='\0'; v+=p->second.path(); v+='\0'; v+=p->second.domain();
			put_rec(out,'C',p->first,v);
		}
		filter_data *d = kind==2 ? context().get_specific<filter_data>() : 0;
		if(d) {
			put_rec(out,'B',"",d->chunks);
			put_rec(out,'M',"nchunks",std::to_string(d->nchunks));
		}
		else {
			std::pair<void *,size_t> r=request().raw_post_data();
			put_rec(out,'B',"",std::string(static_cast<char const*>(r.first),r.second));
		}
		put_rec(out,'M',"files",std::to_string(request().files().size()));
		put_rec(out,'Z',"","");
		response().content_type("application/octet-stream");
		if(kind==0 || kind==3) response().io_mode(cppcms::http::response::nogzip);
		response().out().write(out.data(),out.size());
	}
};

// ------------------------------------------------------------------ one service per front-end
struct server {
	std::string api;        // http | scgi | fastcgi
	std::string sock;       // unix socket path (scgi/fastcgi)
	int port;               // tcp port (http)
	std::unique_ptr<cppcms::service> srv;
	std::unique_ptr<booster::thread> thr;
	std::atomic<bool> dead;
	bool restart;   // asked for by the client side (service not reachable)
	std::string exc;
	std::mutex mx;
	server():port(0),dead(false),restart(false),backend_port(0),dead_port(0){}

	// a port below the ephemeral range (so a connect() that races with the listener can never
	// self-connect), checked to be free right now
	static int free_port()
	{
		static unsigned seed = unsigned(getpid())*2654435761u ^ unsigned(time(0));
		for(int tries=0;tries<200;tries++) {
			seed = seed*1103515245u + 12345u;
			int p = 12000 + int((seed>>8) % 18000);
			int fd=::socket(AF_INET,SOCK_STREAM,0);
			struct sockaddr_in a; memset(&a,0,sizeof(a)); a.sin_family=AF_INET; a.sin_addr.s_addr=htonl(INADDR_LOOPBACK); a.sin_port=htons(p);
			int r=::bind(fd,(struct sockaddr*)&a,sizeof(a));
			::close(fd);
			if(r==0) return p;
		}
		return 0;
	}
	struct runner {
		server *self;
		void operator()() const
		{
			try { self->srv->run(); }
			catch(std::exception const &e) { std::lock_guard<std::mutex> g(self->mx); self->exc=e.what(); self->dead=true; }
			catch(...) { std::lock_guard<std::mutex> g(self->mx); self->exc="unknown"; self->dead=true; }
		}
	};
	// "fwd": an SCGI service (unix socket) configured with forwarding.rules: SCRIPT_NAME /fwd is forwarded to the backend
	// `backend_port` (an SCGI service over TCP with the echo application, api name "bk"), SCRIPT_NAME /dead to a port
	// nobody listens on.  Everything else is served by the fwd service's own echo applications (probe).
	int backend_port, dead_port;
	void start(std::string const &a,int bk_port=0)
	{
		api=a;
		for(int attempt=0;;attempt++) {
			try {
				cppcms::json::value cfg;
				cfg["service"]["api"]=(api=="fwd" || api=="bk") ? std::string("scgi") : api;
				if(api=="http" || api=="bk") { port=free_port(); cfg["service"]["ip"]="127.0.0.1"; cfg["service"]["port"]=port; }
				else { sock="c01_"+api+".sock"; cfg["service"]["socket"]=sock; }
				if(api=="fwd") {
					backend_port=bk_port; dead_port=free_port();
					cfg["forwarding"]["rules"][0]["script_name"]="/fwd";
					cfg["forwarding"]["rules"][0]["ip"]="127.0.0.1";
					cfg["forwarding"]["rules"][0]["port"]=backend_port;
					cfg["forwarding"]["rules"][1]["script_name"]="/dead";
					cfg["forwarding"]["rules"][1]["ip"]="127.0.0.1";
					cfg["forwarding"]["rules"][1]["port"]=dead_port;
				}
				cfg["service"]["worker_threads"]=2;
				cfg["service"]["input_buffer_size"]=4096;
				cfg["http"]["script_names"][0]="/s";
				cfg["http"]["script_names"][1]="/a";
				cfg["http"]["script_names"][2]="/f";
				cfg["http"]["timeout"]=30;
				cfg["gzip"]["enable"]=false;
				cfg["security"]["content_length_limit"]=128;       // KiB
				cfg["security"]["multipart_form_data_limit"]=128;  // KiB
				cfg["logging"]["level"]="emergency";
				cfg["localization"]["locales"][0]="C";
				srv.reset(new cppcms::service(cfg));
				srv->applications_pool().mount(cppcms::create_pool<echo>(0),cppcms::mount_point("/s"));
				srv->applications_pool().mount(cppcms::create_pool<echo>(1),cppcms::mount_point("/a"),cppcms::app::asynchronous);
				srv->applications_pool().mount(cppcms::create_pool<echo>(2),cppcms::mount_point("/f"),cppcms::app::asynchronous | cppcms::app::content_filter);
				srv->applications_pool().mount(cppcms::create_pool<echo>(3));
				dead=false; exc.clear();
				runner r={this};
				thr.reset(new booster::thread(r));
				// wait until it accepts
				for(int i=0;i<2000;i++) { int fd=connect_fd(); if(fd>=0) { ::close(fd); return; } if(dead) break; usleep(1000); }
				stop();
			}
			catch(std::exception const &e) { if(attempt>5) throw; }
			if(attempt>5) throw std::runtime_error("cannot start "+api+" service");
		}
	}
	void stop()
	{
		if(srv.get()) { if(!dead) srv->shutdown(); if(thr.get()) thr->join(); thr.reset(); srv.reset(); }
	}
	// connect with a 2 s limit: a service whose event loop hangs stops accepting, a blocking connect() to its full
	// backlog would wait forever
	static bool timed_connect(int fd,struct sockaddr *sa,socklen_t len)
	{
		int fl=fcntl(fd,F_GETFL,0);
		fcntl(fd,F_SETFL,fl|O_NONBLOCK);
		int r=::connect(fd,sa,len);
		if(r<0 && errno==EINPROGRESS) {
			struct pollfd p; p.fd=fd; p.events=POLLOUT; p.revents=0;
			if(::poll(&p,1,2000)<=0) return false;
			int err=0; socklen_t el=sizeof(err);
			if(getsockopt(fd,SOL_SOCKET,SO_ERROR,&err,&el)<0 || err!=0) return false;
			r=0;
		}
		if(r<0) return false;
		fcntl(fd,F_SETFL,fl);
		return true;
	}
	int connect_fd()
	{
		if(api=="http" || api=="bk") {
			int fd=::socket(AF_INET,SOCK_STREAM,0);
			struct sockaddr_in a; memset(&a,0,sizeof(a)); a.sin_family=AF_INET; a.sin_addr.s_addr=htonl(INADDR_LOOPBACK); a.sin_port=htons(port);
			if(!timed_connect(fd,(struct sockaddr*)&a,sizeof(a))) { ::close(fd); return -1; }
			int one=1; setsockopt(fd,IPPROTO_TCP,TCP_NODELAY,&one,sizeof(one));
			return fd;
		}
		int fd=::socket(AF_UNIX,SOCK_STREAM,0);
		struct sockaddr_un u; memset(&u,0,sizeof(u)); u.sun_family=AF_UNIX; strncpy(u.sun_path,sock.c_str(),sizeof(u.sun_path)-1);
		if(!timed_connect(fd,(struct sockaddr*)&u,sizeof(u))) { ::close(fd); return -1; }
		return fd;
	}
};

// ------------------------------------------------------------------ client
struct outcome {
	std::string reply;          // every byte the server sent
	std::vector<int> reads;     // sizes of the server's reads during the case
	bool timeout,peer_closed,write_failed,connect_failed;
	int barrier_miss;
	outcome():timeout(false),peer_closed(false),write_failed(false),connect_failed(false),barrier_miss(0){}
};

static int g_barrier_ms = 60;
static int g_final_ms = 12000;

// drain whatever the server already sent; returns false when the peer closed
static bool drain(int fd,outcome &o)
{
	for(;;) {
		char buf[65536];
		ssize_t n=::recv(fd,buf,sizeof(buf),MSG_DONTWAIT);
		if(n>0) { o.reply.append(buf,n); continue; }
		if(n==0) { o.peer_closed=true; return false; }
		if(errno==EINTR) continue;
		if(errno==EAGAIN || errno==EWOULDBLOCK) return true;
		o.peer_closed=true; return false;
	}
}

// close mode: "hc" half-close after the last byte then read to EOF; "rst" reset after the last byte; "wt" wait for the answer
static outcome play(server &s,std::vector<std::string> const &segs,std::string const &mode)
{
	outcome o;
	{ std::lock_guard<std::mutex> g(g_reads_mx); g_reads.clear(); }
	long long base=g_consumed;
	int fd=s.connect_fd();
	if(fd<0) { o.connect_failed=true; return o; }
	long long sent=0;
	for(size_t i=0;i<segs.size() && !o.write_failed && !o.peer_closed;i++) {
		std::string const &b=segs[i];
		size_t off=0;
		while(off<b.size()) {
			ssize_t n=::send(fd,b.data()+off,b.size()-off,MSG_NOSIGNAL);
			if(n<0) { if(errno==EINTR) continue; o.write_failed=true; break; }
			off+=n;
		}
		sent+=off;
		// drain barrier: the next segment goes out only after the server consumed this one,
		// or answered/closed, or is evidently not reading any more
		double deadline=now_s()+g_barrier_ms*1e-3;
		int spins=0;
		while(g_consumed-base < sent) {
			if(!drain(fd,o)) break;
			if(s.dead) break;
			if(now_s()>deadline) { o.barrier_miss++; break; }
			if(++spins<200) sched_yield(); else usleep(50);
		}
	}
	if(mode.compare(0,3,"rst")==0) {
		// "rst" or "rst:<microseconds>": reset the connection that long after the server took the last byte
		if(mode.size()>4) { int us=atoi(mode.c_str()+4); double t=now_s()+us*1e-6; while(now_s()<t) { } }
		struct linger l; l.l_onoff=1; l.l_linger=0;
		setsockopt(fd,SOL_SOCKET,SO_LINGER,&l,sizeof(l));
		::close(fd);
		usleep(2000);
	}
	else {
		// "hc": half-close, then read to EOF; "wt": keep the sending side open and wait for the server to answer and close
		// (a gateway waiting for its answer; the forwarder treats a half-close of the client as a disconnect)
		if(mode!="wt") ::shutdown(fd,SHUT_WR);
		double deadline=now_s()+g_final_ms*1e-3;
		while(!o.peer_closed) {
			struct pollfd p; p.fd=fd; p.events=POLLIN; p.revents=0;
			int r=::poll(&p,1,20);
			if(r>0) { if(!drain(fd,o)) break; }
			if(s.dead) { drain(fd,o); break; }
			if(now_s()>deadline) { o.timeout=true; break; }
		}
		::close(fd);
	}
	{ std::lock_guard<std::mutex> g(g_reads_mx); o.reads=g_reads; }
	return o;
}

static std::string flags(outcome const &o)
{
	std::string f;
	if(o.timeout) f+="T";
	if(o.peer_closed) f+="C";
	if(o.write_failed) f+="W";
	if(o.connect_failed) f+="N";
	if(f.empty()) f="-";
	return f;
}

// ------------------------------------------------------------------ the three services, lazily started
struct farm {
	std::map<std::string,std::unique_ptr<server> > m;
	std::map<std::string,std::string> probe_req, probe_ref;
	server &get(std::string const &api)
	{
		int bk_port=0;
		if(api=="fwd") {
			// the backend first; when it had to be rebuilt (new port) the forwarding service is rebuilt as well
			std::unique_ptr<server> &b=m["bk"];
			if(!b.get() || b->dead || b->restart) {
				if(b.get()) b->stop();
				b.reset(new server());
				b->start("bk");
				if(m["fwd"].get()) m["fwd"]->restart=true;
			}
			bk_port=b->port;
		}
		std::unique_ptr<server> &p=m[api];
		if(!p.get() || p->dead || p->restart) {
			if(p.get()) p->stop();
			p.reset(new server());
			p->start(api,bk_port);
		}
		return *p;
	}
	void stop_all() { for(auto &kv:m) if(kv.second.get()) kv.second->stop(); m.clear(); }
};

} // c01
