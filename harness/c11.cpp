// C11 harness: the real cppcms::json::value (load / save / operator>> / operator<< /
// get_value<T> / to_json) behind the line protocol of lean/Cppcms/C11/Driver.lean.
#include "common.h"
#include <cppcms/json.h>
#include <locale>
#include <sstream>
#include <iomanip>
#include <limits>
#include <cmath>

using namespace cppcms;

// stream locales whose numpunct differs from the classic one: decimal comma with and without
// grouping, and locales that keep '.' but group digits (en_US / fr / de_CH style separators,
// uniform and mixed group sizes)
struct punct : public std::numpunct<char> {
	char dp,ts; std::string gr;
	punct(char d,char t,std::string const &g) : dp(d),ts(t),gr(g) {}
	char do_decimal_point() const override { return dp; }
	char do_thousands_sep() const override { return ts; }
	std::string do_grouping() const override { return gr; }
};
static std::vector<std::locale> const &locales()
{
	static std::vector<std::locale> v;
	if(v.empty()) {
		v.push_back(std::locale(std::locale::classic(),new punct(',','.',"\3")));   // 1.234.567,5
		v.push_back(std::locale(std::locale::classic(),new punct('.',',',"\3")));   // 1,234,567.5
		v.push_back(std::locale(std::locale::classic(),new punct('.',' ',"\3")));   // 1 234 567.5
		v.push_back(std::locale(std::locale::classic(),new punct('.','\'',"\3")));  // 1'234'567.5
		v.push_back(std::locale(std::locale::classic(),new punct('.',',',"\2\3"))); // 1,234,5,67.5 style mixed groups
		v.push_back(std::locale(std::locale::classic(),new punct('.',',',"\3\2"))); // 12,34,567.5 (en_IN)
		v.push_back(std::locale(std::locale::classic(),new punct(',','.',"")));      // 1234567,5
	}
	return v;
}
static std::locale const &comma_locale() { return locales()[0]; }
// how this locale prints a number with a 7-digit integer part (shows that it is active)
static std::string probe(std::locale const &l)
{
	std::ostringstream os; os.imbue(l); os<<std::setprecision(16)<<1234567.5; return os.str();
}

static std::string hex16(uint64_t v)
{
	char buf[32]; snprintf(buf,sizeof(buf),"%016llx",(unsigned long long)v); return buf;
}
static uint64_t bits_of(double d) { uint64_t u; memcpy(&u,&d,8); return u; }
static double double_of(uint64_t u) { double d; memcpy(&d,&u,8); return d; }

static void show(json::value const &v,std::string &out)
{
	switch(v.type()) {
	case json::is_undefined: out+=" u"; break;
	case json::is_null: out+=" n"; break;
	case json::is_boolean: out+= v.boolean() ? " t" : " f"; break;
	case json::is_number: out+=" d "+hex16(bits_of(v.number())); break;
	case json::is_string: out+=" s "+vh::hex(v.str()); break;
	case json::is_array: {
		json::array const &a=v.array();
		out+=" a "+std::to_string(a.size());
		for(size_t i=0;i<a.size();i++) show(a[i],out);
		break; }
	case json::is_object: {
		json::object const &o=v.object();
		out+=" o "+std::to_string(o.size());
		for(json::object::const_iterator p=o.begin();p!=o.end();++p) {
			out+=" "+vh::hex(p->first.str());
			show(p->second,out);
		}
		break; }
	default: out+=" ?";
	}
}
static std::string show(json::value const &v) { std::string s; show(v,s); return s.substr(1); }

// build a tree through the public API from the word list
static bool build(std::vector<std::string> const &w,size_t &i,json::value &out)
{
	if(i>=w.size()) return false;
	std::string const &k=w[i++];
	if(k=="u") { out=json::value(); return true; }
	if(k=="n") { out.null(); return true; }
	if(k=="t") { out.boolean(true); return true; }
	if(k=="f") { out.boolean(false); return true; }
	if(k=="d") { if(i>=w.size()) return false; out.number(double_of(strtoull(w[i++].c_str(),0,16))); return true; }
	if(k=="s") { std::string s; if(i>=w.size()||!vh::unhex(w[i++],s)) return false; out.str(s); return true; }
	if(k=="a") {
		if(i>=w.size()) return false;
		size_t n=strtoull(w[i++].c_str(),0,10);
		out.array(json::array());
		for(size_t j=0;j<n;j++) {
			json::value c;
			if(!build(w,i,c)) return false;
			out.array().push_back(c);
		}
		return true;
	}
	if(k=="o") {
		if(i>=w.size()) return false;
		size_t n=strtoull(w[i++].c_str(),0,10);
		out.object(json::object());
		for(size_t j=0;j<n;j++) {
			std::string key;
			if(i>=w.size()||!vh::unhex(w[i++],key)) return false;
			json::value c;
			if(!build(w,i,c)) return false;
			out.object().insert(std::make_pair(string_key(key),c));
		}
		return true;
	}
	return false;
}

// structural equality with numbers compared to within the printed precision
static bool approx_eq(json::value const &a,json::value const &b)
{
	if(a.type()!=b.type()) return false;
	switch(a.type()) {
	case json::is_number: {
		double x=a.number(),y=b.number();
		if(x==y) return true;
		double m=std::fabs(x)>std::fabs(y)?std::fabs(x):std::fabs(y);
		return std::fabs(x-y) <= m*1e-15;   // 16 significant digits printed
	}
	case json::is_array: {
		if(a.array().size()!=b.array().size()) return false;
		for(size_t i=0;i<a.array().size();i++) if(!approx_eq(a.array()[i],b.array()[i])) return false;
		return true; }
	case json::is_object: {
		json::object const &x=a.object(),&y=b.object();
		if(x.size()!=y.size()) return false;
		json::object::const_iterator p=x.begin(),q=y.begin();
		for(;p!=x.end();++p,++q) { if(p->first.str()!=q->first.str() || !approx_eq(p->second,q->second)) return false; }
		return true; }
	default: return a==b;
	}
}

// exact equality on bit patterns of numbers (operator== would equate 0 and -0)
static bool exact_eq(json::value const &a,json::value const &b) { return show(a)==show(b); }

static std::string do_parse(std::string const &text,bool full)
{
	// reference variant: pointer overload, reports the consumed prefix
	json::value v0; v0.str("untouched");
	char const *b=text.data(),*e=b+text.size();
	int line0=-1;
	bool ok0=v0.load(b,e,full,&line0);
	std::string r0 = ok0 ? "ok "+std::to_string(b-text.data())+" "+show(v0) : std::string("fail");
	if(!ok0 && show(v0)!="s "+vh::hex(std::string("untouched"))) return "failed-parse-modified-target "+show(v0);
	// istream overload
	{
		std::istringstream is(text);
		json::value v; v.str("untouched");
		int line=-1;
		bool ok=v.load(is,full,&line);
		if(ok!=ok0 || (ok && !exact_eq(v,v0)) || (!ok && line!=line0)) return "variant-mismatch istream "+r0;
		if(!ok && show(v)!="s "+vh::hex(std::string("untouched"))) return "failed-parse-modified-target(istream)";
	}
	// istream with each non-classic locale imbued
	for(size_t li=0;li<locales().size();li++) {
		std::istringstream is(text);
		is.imbue(locales()[li]);
		json::value v;
		bool ok=v.load(is,full);
		if(ok!=ok0 || (ok && !exact_eq(v,v0))) return "variant-mismatch istream-locale#"+std::to_string(li)+" "+r0;
		if(is.getloc()!=locales()[li]) return "locale-not-restored";
	}
	// operator>> (never forces eof)
	if(!full) {
		std::istringstream is(text);
		json::value v;
		is >> v;
		bool ok=!is.fail();
		if(ok!=ok0 || (ok && !exact_eq(v,v0))) return "variant-mismatch operator>> "+r0;
	}
	return r0;
}

static std::string do_write(json::value const &v,bool readable)
{
	int how = readable ? json::readable : json::compact;
	std::string t0;
	try { t0=v.save(how); }
	catch(json::bad_value_cast const &) {
		// the stream variants must throw as well and restore the locale
		for(size_t li=0;li<locales().size();li++) {
			std::ostringstream os; os.imbue(locales()[li]);
			try { v.save(os,how); return "variant-mismatch save(ostream) did not throw"; }
			catch(json::bad_value_cast const &) {}
			if(os.getloc()!=locales()[li]) return "locale-not-restored-after-throw";
		}
		return "throw";
	}
	{
		std::ostringstream os; v.save(os,how);
		if(os.str()!=t0) return "variant-mismatch save(ostream) "+vh::hex(os.str());
	}
	// "regardless of the stream's locale": the same text under every locale, locale left in place
	for(size_t li=0;li<locales().size();li++) {
		std::locale const &L=locales()[li];
		std::string pr=probe(L);
		std::ostringstream os; os.imbue(L);
		os<<std::setprecision(16)<<1234567.5<<'|';   // the locale is active before ... (write_value leaves precision 16 behind)
		v.save(os,how);
		os<<'|'<<1234567.5;                    // ... and after the write
		if(os.str()!=pr+"|"+t0+"|"+pr) return "variant-mismatch save(ostream) under locale#"+std::to_string(li)+" "+vh::hex(os.str());
		if(os.getloc()!=L) return "locale-not-restored locale#"+std::to_string(li);
		if(!readable) {
			std::ostringstream o2; o2.imbue(L); o2<<v;
			if(o2.str()!=t0) return "variant-mismatch operator<< under locale#"+std::to_string(li)+" "+vh::hex(o2.str());
			if(o2.getloc()!=L) return "locale-not-restored(operator<<) locale#"+std::to_string(li);
		}
	}
	if(!readable) {
		std::ostringstream os; os<<v;
		if(os.str()!=t0) return "variant-mismatch operator<< "+vh::hex(os.str());
	}
	// round trip on the real code
	std::string rt;
	json::value v1;
	char const *b=t0.data();
	if(!v1.load(b,b+t0.size(),true)) rt="fail";
	else if(!approx_eq(v,v1)) rt="neq";
	else {
		std::string t1=v1.save(how);
		json::value v2;
		char const *b1=t1.data();
		if(!v2.load(b1,b1+t1.size(),true)) rt="fail2";
		else if(!exact_eq(v1,v2)) rt="neq2";
		else if(exact_eq(v,v1)) rt="exact";
		else rt="approx";
	}
	return vh::hex(t0)+" "+rt;
}

template<typename T>
static std::string get_int(json::value const &v)
{
	try {
		T r=v.get_value<T>();
		if(std::numeric_limits<T>::is_signed) return "ok "+std::to_string((long long)r);
		return "ok "+std::to_string((unsigned long long)r);
	}
	catch(json::bad_value_cast const &) { return "throw"; }
}

static std::string run(std::vector<std::string> const &w)
{
	if(w.size()==3 && w[0]=="parse") {
		std::string text; if(!vh::unhex(w[2],text)) return "bad-op";
		return do_parse(text,w[1]=="1");
	}
	if(w.size()>=4 && w[0]=="load") {
		std::string text; if(!vh::unhex(w[2],text)) return "bad-op";
		json::value tgt; size_t i=3;
		if(!build(w,i,tgt) || i!=w.size()) return "bad-op";
		char const *b=text.data();
		bool ok=tgt.load(b,b+text.size(),w[1]=="1");
		return std::string(ok?"1 ":"0 ")+show(tgt);
	}
	if(w.size()>=3 && w[0]=="write") {
		json::value v; size_t i=2;
		if(!build(w,i,v) || i!=w.size()) return "bad-op";
		return do_write(v,w[1]=="1");
	}
	if(w.size()>=2 && w[0]=="api") {
		// object assembled through the API with std::string keys: v[key]=child, then every key read back
		size_t n=strtoull(w[1].c_str(),0,10), i=2;
		json::value v;
		v.object(json::object());
		std::vector<std::pair<std::string,json::value> > asg;
		for(size_t j=0;j<n;j++) {
			std::string key; json::value c;
			if(i>=w.size() || !vh::unhex(w[i++],key) || !build(w,i,c)) return "bad-op";
			v[key]=c;
			asg.push_back(std::make_pair(key,c));
		}
		if(i!=w.size()) return "bad-op";
		// the last assignment to each (byte-identical) key must be what the key reads back as
		for(size_t j=0;j<asg.size();j++) {
			bool later=false;
			for(size_t k=j+1;k<asg.size();k++) if(asg[k].first==asg[j].first) later=true;
			if(later) continue;
			json::value const &cv=v;
			if(cv[asg[j].first].is_undefined() || !exact_eq(cv[asg[j].first],asg[j].second))
				return "api-alias key "+vh::hex(asg[j].first)+" reads back as "+show(cv[asg[j].first])+" in "+show(v);
			json::object::const_iterator p=v.object().find(string_key(asg[j].first));
			if(p==v.object().end() || p->first.str()!=asg[j].first) return "api-alias find "+vh::hex(asg[j].first)+" in "+show(v);
		}
		return show(v);
	}
	if(w.size()==2 && w[0]=="num") {
		std::string text; if(!vh::unhex(w[1],text)) return "bad-op";
		std::istringstream is(text);
		is.imbue(std::locale::classic());
		double d=0;
		is>>d;
		if(is.fail()) return "fail";
		size_t pos = is.eof() ? text.size() : size_t(is.tellg());
		return "ok "+hex16(bits_of(d))+" "+std::to_string(pos);
	}
	if(w.size()==2 && w[0]=="fmt") {
		std::ostringstream os;
		os.imbue(std::locale("C"));
		os<<std::setprecision(std::numeric_limits<double>::digits10+1)<<double_of(strtoull(w[1].c_str(),0,16));
		return vh::hex(os.str());
	}
	if(w.size()==2 && w[0]=="tojson") {
		std::string s; if(!vh::unhex(w[1],s)) return "bad-op";
		std::string r1=json::to_json(s);
		std::ostringstream os; json::to_json(s,os);
		if(os.str()!=r1) return "variant-mismatch to_json";
		return vh::hex(r1);
	}
	if(w.size()==5 && w[0]=="get") {
		json::value v; v.number(double_of(strtoull(w[4].c_str(),0,16)));
		std::string const &t=w[1];
		if(t=="char") return get_int<char>(v);
		if(t=="schar") return get_int<signed char>(v);
		if(t=="uchar") return get_int<unsigned char>(v);
		if(t=="wchar") return get_int<wchar_t>(v);
		if(t=="short") return get_int<short>(v);
		if(t=="ushort") return get_int<unsigned short>(v);
		if(t=="int") return get_int<int>(v);
		if(t=="uint") return get_int<unsigned int>(v);
		if(t=="long") return get_int<long>(v);
		if(t=="ulong") return get_int<unsigned long>(v);
		if(t=="llong") return get_int<long long>(v);
		if(t=="ullong") return get_int<unsigned long long>(v);
		return "bad-op";
	}
	if(w.size()==3 && w[0]=="getf") {
		// floating extraction: prints the bits of the result (float widened back to double)
		json::value v; v.number(double_of(strtoull(w[2].c_str(),0,16)));
		try {
			if(w[1]=="float") { float f=v.get_value<float>(); return "ok "+hex16(bits_of(double(f))); }
			if(w[1]=="double") { double d=v.get_value<double>(); return "ok "+hex16(bits_of(d)); }
			if(w[1]=="ldouble") { long double d=v.get_value<long double>(); return "ok "+hex16(bits_of(double(d))); }
		}
		catch(json::bad_value_cast const &) { return "throw"; }
		return "bad-op";
	}
	if(w.size()==3 && w[0]=="setget") {
		// set_value<T>(x) then number(): integers survive exactly
		json::value v;
		long long x=strtoll(w[2].c_str(),0,10);
		try {
			if(w[1]=="int") v.set_value<int>(int(x));
			else if(w[1]=="llong") v.set_value<long long>(x);
			else if(w[1]=="ullong") v.set_value<unsigned long long>((unsigned long long)x);
			else return "bad-op";
		}
		catch(json::bad_value_cast const &) { return "throw"; }
		return "ok "+hex16(bits_of(v.number()));
	}
	return "bad-op";
}

int main() { return vh::drive(run); }
