// Shared helpers for the C++ harnesses: hex line protocol on stdin/stdout.
// One output line per input line; "-" is the empty byte string.
#pragma once
#include <string>
#include <vector>
#include <iostream>
#include <sstream>
#include <cstdio>
#include <cstdlib>
#include <cstring>
#include <stdint.h>

namespace vh {

inline int hexval(char c) {
	if('0'<=c && c<='9') return c-'0';
	if('a'<=c && c<='f') return c-'a'+10;
	if('A'<=c && c<='F') return c-'A'+10;
	return -1;
}
inline bool unhex(std::string const &h,std::string &out) {
	out.clear();
	if(h=="-") return true;
	if(h.size()%2) return false;
	out.reserve(h.size()/2);
	for(size_t i=0;i<h.size();i+=2) {
		int a=hexval(h[i]),b=hexval(h[i+1]);
		if(a<0||b<0) return false;
		out.push_back(char(a*16+b));
	}
	return true;
}
inline std::string hex(std::string const &s) {
	if(s.empty()) return "-";
	static char const d[]="0123456789abcdef";
	std::string r; r.reserve(s.size()*2);
	for(size_t i=0;i<s.size();i++) { unsigned char c=s[i]; r.push_back(d[c>>4]); r.push_back(d[c&15]); }
	return r;
}
inline std::string hex(void const *p,size_t n) { return hex(std::string(static_cast<char const*>(p),n)); }
inline std::vector<std::string> words(std::string const &line) {
	std::vector<std::string> w; std::istringstream ss(line); std::string x;
	while(ss>>x) w.push_back(x);
	return w;
}
// drive: calls f(words) -> output line, for every stdin line; flushes every line so that a
// sanitizer abort leaves the already answered cases on stdout.
template<typename F>
int drive(F f) {
	std::string line;
	std::ios::sync_with_stdio(false);
	while(std::getline(std::cin,line)) {
		std::vector<std::string> w=words(line);
		std::string r;
		try { r=f(w); }
		catch(std::exception const &e) { r=std::string("exception ")+e.what(); for(size_t i=0;i<r.size();i++) if(r[i]=='\n') r[i]=' '; }
		catch(...) { r="exception unknown"; }
		std::cout<<r<<'\n';
		std::cout.flush();
	}
	return 0;
}

// heap copy of exactly n bytes (no terminating NUL, no slack): a one-byte over-read or
// over-write next to it is an ASan report.
struct exact_buf {
	char *p; size_t n;
	explicit exact_buf(std::string const &s):p(new char[s.size()]),n(s.size()) { if(n) memcpy(p,s.data(),n); }
	explicit exact_buf(size_t k):p(new char[k]),n(k) { if(n) memset(p,0,n); }
	~exact_buf(){ delete [] p; }
	char *begin() const { return p; }
	char *end() const { return p+n; }
	unsigned char *ubegin() const { return reinterpret_cast<unsigned char*>(p); }
	unsigned char *uend() const { return reinterpret_cast<unsigned char*>(p)+n; }
	std::string str() const { return std::string(p,n); }
private:
	exact_buf(exact_buf const &); void operator=(exact_buf const &);
};

// deterministic PRNG (splitmix64) for harness-side choices
struct rng {
	uint64_t s;
	explicit rng(uint64_t seed):s(seed){}
	uint64_t next(){ uint64_t z=(s+=0x9e3779b97f4a7c15ULL); z=(z^(z>>30))*0xbf58476d1ce4e5b9ULL; z=(z^(z>>27))*0x94d049bb133111ebULL; return z^(z>>31); }
	uint64_t below(uint64_t n){ return n?next()%n:0; }
};

} // vh
