// C14 harness, part 2: the real cppcms::widgets::text (src/form.cpp: base_text::load / validate) driven
// through real http::context objects built in-process over tests/dummy_api.h (as the repo's own
// tests do), several requests against ONE widget object.  Line protocol of lean/Cppcms/C14/Driver.lean:
//   form <op> <op> ...    ops: nm1 nm0 ne vc1 vc0 cl va lim:<min>:<max> sv:<hex> ld:<u|l>:<hex> la:<u|l>
//   output: one token per load (L<valid><set>:<value hex>) and per validate (V<verdict><valid>)
#include "common.h"
#include <map>
#include <memory>
#include <locale>
#include <booster/shared_ptr.h>
#include <booster/hold_ptr.h>
#include <booster/noncopyable.h>
#include <cppcms/defs.h>
// request::prepare() (parses QUERY_STRING) is private and normally called by the connection code;
// access control does not change the ABI.
#define private public
#include <cppcms/http_request.h>
#undef private
#include <cppcms/service.h>
#include <cppcms/json.h>
#include <cppcms/http_context.h>
#include <cppcms/http_response.h>
#include <cppcms/form.h>
#include "tests/dummy_api.h"

static cppcms::service *srv;
static std::string sink;

static booster::shared_ptr<cppcms::http::context> request(std::string const &query,std::string const &loc)
{
	std::map<std::string,std::string> env;
	env["HTTP_HOST"]="www.example.com";
	env["SCRIPT_NAME"]="/foo";
	env["PATH_INFO"]="/bar";
	env["REQUEST_METHOD"]="GET";
	env["QUERY_STRING"]=query;
	booster::shared_ptr<dummy_api> api(new dummy_api(*srv,env,sink));
	booster::shared_ptr<cppcms::http::context> cnt(new cppcms::http::context(api));
	cnt->request().prepare();
	cnt->locale(loc);
	return cnt;
}
static std::string pct(std::string const &s)
{
	static char const d[]="0123456789ABCDEF";
	std::string r;
	for(size_t i=0;i<s.size();i++) { unsigned char c=s[i]; r+='%'; r+=d[c>>4]; r+=d[c&15]; }
	return r;
}
static std::vector<std::string> split(std::string const &s,char sep)
{
	std::vector<std::string> r; std::string cur;
	for(size_t i=0;i<s.size();i++) { if(s[i]==sep) { r.push_back(cur); cur.clear(); } else cur+=s[i]; }
	r.push_back(cur);
	return r;
}

static std::string run(std::vector<std::string> const &w)
{
	if(w.empty() || w[0]!="form") return "bad-op";
	std::unique_ptr<cppcms::widgets::text> t(new cppcms::widgets::text());
	std::string out;
	for(size_t i=1;i<w.size();i++) {
		std::vector<std::string> p=split(w[i],':');
		std::string tok;
		if(p[0]=="nm1") t->name("t");
		else if(p[0]=="nm0") t->name("");
		else if(p[0]=="ne") t->non_empty();
		else if(p[0]=="vc1") t->validate_charset(true);
		else if(p[0]=="vc0") t->validate_charset(false);
		else if(p[0]=="cl") t->clear();
		else if(p[0]=="lim" && p.size()==3) t->limits(atoi(p[1].c_str()),atoi(p[2].c_str()));
		else if(p[0]=="sv" && p.size()==2) { std::string v; if(!vh::unhex(p[1],v)) return "bad-op"; t->value(v); }
		else if(p[0]=="va") { bool r=t->validate(); tok=std::string("V")+(r?"1":"0")+(t->valid()?"1":"0"); }
		else if((p[0]=="ld" && p.size()==3) || (p[0]=="la" && p.size()==2)) {
			std::string loc = p[1]=="u" ? "en_US.UTF-8" : "en_US.ISO8859-1";
			std::string q="other=1";
			if(p[0]=="ld") { std::string v; if(!vh::unhex(p[2],v)) return "bad-op"; q="x=1&t="+pct(v)+"&other=1"; }
			booster::shared_ptr<cppcms::http::context> c=request(q,loc);
			t->load(*c);
			tok=std::string("L")+(t->valid()?"1":"0")+(t->set()?"1":"0")+":"+(t->set()?vh::hex(t->value()):std::string("?"));
		}
		else return "bad-op";
		if(!tok.empty()) { if(!out.empty()) out+=" "; out+=tok; }
	}
	return out.empty()?"-":out;
}

int main()
{
	cppcms::json::value cfg;
	cfg["localization"]["locales"][0]="en_US.UTF-8";
	cfg["localization"]["locales"][1]="en_US.ISO8859-1";
	cppcms::service s(cfg);
	srv=&s;
	return vh::drive(run);
}
