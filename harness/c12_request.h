// Request-level part of the C12 harness.
//
// A subclass of cppcms::impl::cgi::connection plays the front-end: the environment is given,
// async_read_headers completes at once, async_read_some hands out exactly the next chunk of the
// case (never more than the room request::get_buffer() offered).  Everything between -
// connection::load_content / on_some_content_read / handle_http_error, context::on_headers_ready,
// request::prepare / on_content_start / get_buffer / on_content_progress - is the real code.
// Two applications are mounted in a (not running) cppcms::service: "/plain" (synchronous: no
// content filter) and "/flt" (asynchronous | content_filter: main() is called before the body is
// read and installs per-request limits and a raw or multipart filter).
#pragma once
#include "common.h"
#include "cgi_api.h"
#include "response_headers.h"
#include <cppcms/service.h>
#include <cppcms/application.h>
#include <cppcms/applications_pool.h>
#include <cppcms/mount_point.h>
#include <cppcms/http_context.h>
#include <cppcms/http_request.h>
#include <cppcms/http_response.h>
#include <cppcms/http_file.h>
#include <cppcms/http_content_filter.h>
#include <cppcms/json.h>
#include <booster/aio/stream_socket.h>
#include <booster/aio/io_service.h>
#include <booster/system_error.h>
#include <dirent.h>

std::string c12_file_str(cppcms::http::file &f);

namespace c12 {

using cppcms::impl::cgi::io_handler;
using cppcms::impl::cgi::handler;
using cppcms::impl::cgi::callback;

struct case_cfg {
	// filter: 0 none, 1 raw, 2 multipart
	int filter;
	long long content_limit, multipart_limit;
	long long mem_limit;
	int bufsize;
	std::string uploads;
	std::string events;        // filter event trace
	std::string raw_seen;      // bytes handed to raw filter
	std::string ready_data;    // bytes the reading filter got from file.data() in on_data_ready
	std::string flags;
	bool main_called_early;
	case_cfg():filter(0),content_limit(0),multipart_limit(0),mem_limit(0),bufsize(65536),main_called_early(false){}
};
static case_cfg *g_case=0;

struct raw_flt : public cppcms::http::raw_content_filter {
	void on_data_chunk(void const *p,size_t n) { g_case->raw_seen.append(static_cast<char const *>(p),n); g_case->events+="c"+std::to_string(n)+","; }
	void on_end_of_content() { g_case->events+="end,"; }
	void on_error() { g_case->events+="err,"; }
};
struct mp_flt : public cppcms::http::multipart_filter {
	void on_new_file(cppcms::http::file &f) { g_case->events+="new:"+vh::hex(f.name())+":"+std::to_string(f.size())+","; }
	void on_upload_progress(cppcms::http::file &f) { g_case->events+="prog:"+std::to_string(f.size())+","; }
	void on_data_ready(cppcms::http::file &f) { g_case->events+="ready:"+std::to_string(f.size())+","; }
	void on_end_of_content() { g_case->events+="end,"; }
	void on_error() { g_case->events+="err,"; }
};

// a filter that inspects every part through file.data() in its callbacks (the way tests/filter_test.cpp and
// the documentation do: seekg(0), stream data().rdbuf()) and leaves the read position where the read ended
struct reading_flt : public mp_flt {
	static std::string read_all(cppcms::http::file &f)
	{
		std::ostringstream ss;
		f.data().seekg(0);
		if(f.size()>0) ss << f.data().rdbuf();
		return ss.str();
	}
	void on_upload_progress(cppcms::http::file &f)
	{
		std::string d=read_all(f);
		if((long long)d.size()!=f.size()) g_case->flags+=" FILTER-SHORT-READ(progress:"+std::to_string(d.size())+"/"+std::to_string(f.size())+")";
		mp_flt::on_upload_progress(f);
	}
	void on_data_ready(cppcms::http::file &f)
	{
		std::string d=read_all(f);
		if((long long)d.size()!=f.size()) g_case->flags+=" FILTER-SHORT-READ(ready:"+std::to_string(d.size())+"/"+std::to_string(f.size())+")";
		g_case->ready_data+=d;
		mp_flt::on_data_ready(f);
	}
};

class flt_app : public cppcms::application {
public:
	flt_app(cppcms::service &s):cppcms::application(s){}
	void main(std::string)
	{
		if(!request().is_ready()) {
			g_case->main_called_early=true;
			request().limits().content_length_limit(g_case->content_limit);
			request().limits().multipart_form_data_limit(g_case->multipart_limit);
			request().limits().file_in_memory_limit(g_case->mem_limit);
			request().limits().uploads_path(g_case->uploads);
			request().setbuf(g_case->bufsize);
			if(g_case->filter==1) request().reset_content_filter(new raw_flt());
			else if(g_case->filter==2) request().reset_content_filter(new mp_flt());
			else if(g_case->filter==4) request().reset_content_filter(new reading_flt());
		}
	}
};
class plain_app : public cppcms::application {
public:
	plain_app(cppcms::service &s):cppcms::application(s){}
	void main(std::string) {}
};

class conn : public cppcms::impl::cgi::connection {
public:
	conn(cppcms::service &srv,std::map<std::string,std::string> const &env,std::vector<std::string> const &chunks) :
		cppcms::impl::cgi::connection(srv),
		sock_(srv.get_io_service()),
		srv_(&srv),
		chunks_(chunks),
		next_(0),off_(0),
		starved(false),reads(0),bad_room(false),pending(false),pend_p(0),pend_room(0)
	{
		for(std::map<std::string,std::string>::const_iterator p=env.begin();p!=env.end();++p)
			env_.add(pool_.add(p->first),pool_.add(p->second));
		booster::system::error_code e;
		sock_.open(booster::aio::pf_unix,e);
	}
	std::string headers,body;
	std::string sizes;  // sizes handed to on_content_progress
	bool starved;       // the case ran out of chunks while the request still wanted input
	int reads;
	bool bad_room;

	virtual void set_response_headers(cppcms::impl::response_headers &h)
	{
		cppcms::impl::response_headers::string_buffer_wrapper wr;
		h.format_cgi_headers(wr,true);
		headers=wr.data();
	}
	virtual booster::aio::const_buffer format_output(booster::aio::const_buffer const &in,bool,booster::system::error_code &) { return in; }
	virtual void async_write(booster::aio::const_buffer const &buf,bool,handler const &h)
	{
		std::pair<booster::aio::const_buffer::entry const *,size_t> all=buf.get();
		for(size_t i=0;i<all.second;i++) body.append(static_cast<char const *>(all.first[i].ptr),all.first[i].size);
		h(booster::system::error_code());
	}
	virtual bool write(booster::aio::const_buffer const &buf,bool,booster::system::error_code &)
	{
		std::pair<booster::aio::const_buffer::entry const *,size_t> all=buf.get();
		for(size_t i=0;i<all.second;i++) body.append(static_cast<char const *>(all.first[i].ptr),all.first[i].size);
		return true;
	}
	virtual bool nonblocking_write(booster::aio::const_buffer const &buf,bool eof,booster::system::error_code &e) { return write(buf,eof,e); }
	virtual void on_async_write_start() {}
	virtual void on_async_write_progress(bool) {}
	virtual void do_eof() {}
	virtual booster::aio::io_service &get_io_service() { return srv_->get_io_service(); }
protected:
	virtual booster::aio::stream_socket &socket() { return sock_; }
	virtual void async_read_headers(handler const &h) { h(booster::system::error_code()); }
	virtual bool keep_alive() { return false; }
	virtual void async_read_eof(callback const &) {}
	virtual void async_read_some(void *p,size_t room,io_handler const &h)
	{
		// remember the request; pump() completes it (iteratively: a synchronous completion here would
		// nest one on_some_content_read per read on the stack)
		pend_p=p; pend_room=room; pend_h=h; pending=true;
	}
public:
	bool pending;
	// complete pending reads until the request stops reading
	void pump()
	{
		while(pending) {
			pending=false;
			// hand out the rest of the current chunk, at most `room` bytes (a read() never returns more)
			while(next_<chunks_.size() && off_==chunks_[next_].size()) { next_++; off_=0; }
			if(next_>=chunks_.size()) { starved=true; return; }   // peer sends nothing more: the read never completes
			if(pend_room==0 || pend_p==0) { bad_room=true; return; }
			size_t n=chunks_[next_].size()-off_;
			if(n>pend_room) n=pend_room;
			memcpy(pend_p,chunks_[next_].data()+off_,n);
			off_+=n;
			reads++;
			sizes+=std::to_string(n)+",";
			io_handler hc=pend_h;
			pend_h=io_handler();
			hc(booster::system::error_code(),n);
		}
	}
private:
	void *pend_p; size_t pend_room; io_handler pend_h;
private:
	booster::aio::stream_socket sock_;
	cppcms::service *srv_;
	std::vector<std::string> chunks_;
	size_t next_,off_;
};

struct completion {
	int *state;
	completion(int *s):state(s){}
	void operator()(cppcms::http::context::completion_type t) const
	{
		*state = (t==cppcms::http::context::operation_completed) ? 1 : 2;
	}
};

static cppcms::service *the_service()
{
	static cppcms::service *srv=0;
	if(!srv) {
		cppcms::json::value cfg;
		cfg["service"]["api"]="scgi";
		cfg["service"]["socket"]="stdin";
		cfg["service"]["worker_threads"]=1;
		cfg["logging"]["level"]="error";
		srv=new cppcms::service(cfg);
		srv->applications_pool().mount(cppcms::create_pool<plain_app>(),cppcms::mount_point("/plain"),cppcms::app::synchronous);
		srv->applications_pool().mount(cppcms::create_pool<flt_app>(),cppcms::mount_point("/flt"),cppcms::app::asynchronous | cppcms::app::content_filter);
	}
	return srv;
}

static std::string pairs_str(std::multimap<std::string,std::string> const &m)
{
	if(m.empty()) return "-";
	std::string r;
	for(std::multimap<std::string,std::string>::const_iterator p=m.begin();p!=m.end();++p) {
		if(!r.empty()) r+=";";
		r+=vh::hex(p->first)+"="+vh::hex(p->second);
	}
	return r;
}

static int count_dir(std::string const &dir)
{
	int left=0;
	if(DIR *d=opendir(dir.c_str())) {
		while(dirent *e=readdir(d)) if(e->d_name[0]!='.') left++;
		closedir(d);
	}
	return left;
}

// rq <contentType> <cl> <contentLimit> <multipartLimit> <memLimit> <diskOk> <chunk>*        (model line)
// the harness reads two more optional leading words in the content type slot: see run_request
} // c12

static std::string c12_strip(std::string s) { if(!s.empty() && s[s.size()-1]==',') s.erase(s.size()-1); return s.empty()?std::string("-"):s; }

// rq <flt> <ct> <cl> <climit> <mlimit> <mem> <disk> <bufsize> <query> <chunk>*
// flt 0/1/2: application "/flt" (asynchronous|content_filter) installs the limits, the buffer size and
// no / a raw / a multipart filter before the body is read; flt 3: application "/plain" (synchronous,
// service defaults, arguments climit..bufsize ignored).
static std::string c12_run_request(std::vector<std::string> const &w,std::string const &tmp_ok,std::string const &tmp_bad)
{
	using namespace c12;
	if(w.size()<10) return "bad-op";
	int flt=atoi(w[1].c_str());
	std::string ct,query;
	if(!vh::unhex(w[2],ct) || !vh::unhex(w[9],query)) return "bad-op";
	long long cl=atoll(w[3].c_str());
	std::vector<std::string> chunks;
	for(size_t i=10;i<w.size();i++) { std::string c; if(!vh::unhex(w[i],c)) return "bad-op"; chunks.push_back(c); }
	cppcms::service *srv=the_service();
	case_cfg cc;
	cc.filter=flt; cc.content_limit=atoll(w[4].c_str()); cc.multipart_limit=atoll(w[5].c_str()); cc.mem_limit=atoll(w[6].c_str());
	cc.uploads=(w[7]=="1")?tmp_ok:tmp_bad;
	cc.bufsize=atoi(w[8].c_str());
	g_case=&cc;
	std::map<std::string,std::string> env;
	env["HTTP_HOST"]="localhost";
	env["SCRIPT_NAME"]=(flt==3)?"/plain":"/flt";
	env["PATH_INFO"]="/x";
	env["REQUEST_METHOD"]=cl>0?"POST":"GET";
	env["QUERY_STRING"]=query;
	env["CONTENT_TYPE"]=ct;
	env["CONTENT_LENGTH"]=std::to_string(cl);
	std::ostringstream out;
	{
		booster::shared_ptr<conn> c(new conn(*srv,env,chunks));
		booster::shared_ptr<cppcms::http::context> ctx(new cppcms::http::context(c));
		int state=0;
		c->async_prepare_request(ctx.get(),completion(&state));
		c->pump();
		bool delivered = !ctx->request().post().empty() || !ctx->request().files().empty();
		if(state==1) {
			out<<"status 200 post "<<pairs_str(ctx->request().post())<<" files ";
			cppcms::http::request::files_type fs=ctx->request().files();
			if(fs.empty()) out<<"-";
			for(size_t i=0;i<fs.size();i++) { if(i) out<<';'; out<<c12_file_str(*fs[i]); }
		}
		else if(state==2) {
			size_t p=c->headers.find("Status: ");
			out<<"status "<<(p==std::string::npos?std::string("?"):c->headers.substr(p+8,3));
			if(delivered) out<<" DELIVERED-ON-ERROR";
		}
		else {
			out<<(c->starved?"waiting":"stuck");
			if(delivered) out<<" DELIVERED-EARLY";
		}
		if(c->bad_room) out<<" BAD-ROOM";
		if(flt!=3 && cl>0 && !cc.main_called_early) out<<" NO-EARLY-MAIN";
		out<<" get "<<pairs_str(ctx->request().get());
		out<<" | sizes "<<c12_strip(c->sizes)<<" raw "<<vh::hex(cc.raw_seen)<<" ev "<<c12_strip(cc.events);
		out<<cc.flags;
		if(flt==4 && state==1) out<<" rd "<<vh::hex(cc.ready_data);   // what the reading filter got out of file.data() in on_data_ready
	}
	int left=count_dir(tmp_ok);
	if(left) out<<" TEMP-FILES-LEFT="<<left;
	g_case=0;
	return out.str();
}

// lim <content_length_limit KiB|-> <multipart_form_data_limit KiB|->: a service configured with these settings; the byte
// limits a new request starts with (content_limits(cached_settings)); "-" = key absent
static std::string c12_run_limits(std::vector<std::string> const &w)
{
	cppcms::json::value cfg;
	cfg["service"]["api"]="scgi";
	cfg["service"]["socket"]="stdin";
	cfg["service"]["worker_threads"]=1;
	cfg["logging"]["level"]="error";
	if(w[1]!="-") cfg["security"]["content_length_limit"]=atoi(w[1].c_str());
	if(w[2]!="-") cfg["security"]["multipart_form_data_limit"]=atoi(w[2].c_str());
	cppcms::service s(cfg);
	std::map<std::string,std::string> env;
	std::vector<std::string> chunks;
	std::ostringstream out;
	{
		booster::shared_ptr<c12::conn> c(new c12::conn(s,env,chunks));
		booster::shared_ptr<cppcms::http::context> ctx(new cppcms::http::context(c));
		out<<"limits "<<ctx->request().limits().content_length_limit()<<" "<<ctx->request().limits().multipart_form_data_limit();
	}
	return out.str();
}

static std::string c12_run_form(std::vector<std::string> const &w)
{
	return "unimplemented";
}
