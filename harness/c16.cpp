// C16 harness: the real cppcms::crypto::{message_digest,hmac,cbc,key} behind the line protocol of
// lean/Cppcms/C16/Driver.lean.
//   c16            : answers with the cppcms implementation
//   c16 ref        : answers the same lines with the system libcrypto called directly
//                    (MD5/SHA1/SHA2 one-shot functions, HMAC(), raw AES block calls + own chaining)
//   c16 oracle     : rewrites `cbcq` lines into concrete `cbc` lines carrying the table of raw AES
//                    block-function answers the Lean model needs (external recorded from the library)
#include "common.h"
#include <cppcms/crypto.h>
#include "aes_encryptor.h"
#include <booster/backtrace.h>
#include <openssl/md5.h>
#include <openssl/sha.h>
#include <openssl/hmac.h>
#include <openssl/evp.h>
#include <openssl/aes.h>
#include <memory>
#include <map>
#include <fstream>

using namespace cppcms;
typedef std::vector<std::string> strs;

// words -> groups separated by "/", each word one hex chunk
static bool parse_groups(strs const &w,size_t from,std::vector<strs> &g)
{
	g.clear(); g.push_back(strs());
	for(size_t i=from;i<w.size();i++) {
		if(w[i]=="/") { g.push_back(strs()); continue; }
		std::string b;
		if(!vh::unhex(w[i],b)) return false;
		g.back().push_back(b);
	}
	return true;
}
static std::string join(strs const &v)
{
	std::string r;
	for(size_t i=0;i<v.size();i++) { if(i) r+=' '; r+=v[i]; }
	return r;
}
static std::string cat(strs const &v) { std::string r; for(size_t i=0;i<v.size();i++) r+=v[i]; return r; }

static bool known_algo(std::string const &a)
{
	return a=="md5"||a=="sha1"||a=="sha224"||a=="sha256"||a=="sha384"||a=="sha512";
}
static std::string ref_digest(std::string const &a,std::string const &m)
{
	unsigned char out[64]; unsigned n=0;
	unsigned char const *p=reinterpret_cast<unsigned char const*>(m.data());
	if(a=="md5") { MD5(p,m.size(),out); n=16; }
	else if(a=="sha1") { SHA1(p,m.size(),out); n=20; }
	else if(a=="sha224") { SHA224(p,m.size(),out); n=28; }
	else if(a=="sha256") { SHA256(p,m.size(),out); n=32; }
	else if(a=="sha384") { SHA384(p,m.size(),out); n=48; }
	else if(a=="sha512") { SHA512(p,m.size(),out); n=64; }
	return vh::hex(out,n);
}
static EVP_MD const *evp(std::string const &a)
{
	if(a=="md5") return EVP_md5();
	if(a=="sha1") return EVP_sha1();
	if(a=="sha224") return EVP_sha224();
	if(a=="sha256") return EVP_sha256();
	if(a=="sha384") return EVP_sha384();
	return EVP_sha512();
}

static std::string op_dg(strs const &w,bool ref,bool variant)
{
	if(w.size()<2 || !known_algo(w[1])) return "bad-op";
	std::vector<strs> g;
	if(!parse_groups(w,2,g)) return "bad-op";
	strs out;
	if(ref) {
		for(size_t i=0;i<g.size();i++) out.push_back(ref_digest(w[1],cat(g[i])));
		return join(out);
	}
	std::unique_ptr<crypto::message_digest> d;
	if(variant) {
		// the static factories where they exist, and a clone() of the object
		std::unique_ptr<crypto::message_digest> d0;
		if(w[1]=="md5") d0=crypto::message_digest::md5();
		else if(w[1]=="sha1") d0=crypto::message_digest::sha1();
		else { std::string up=w[1]; for(size_t i=0;i<up.size();i++) up[i]=toupper(up[i]); d0=crypto::message_digest::create_by_name(up); }
		if(!d0.get()) return "no-such-digest";
		d0->append("junk",4);
		d.reset(d0->clone());
	}
	else
		d=crypto::message_digest::create_by_name(w[1]);
	if(!d.get()) return "no-such-digest";
	for(size_t i=0;i<g.size();i++) {
		for(size_t j=0;j<g[i].size();j++) {
			// hand over an exact-size heap copy so that ASan sees any over-read
			std::unique_ptr<char[]> buf(new char[g[i][j].size()+1]);
			memcpy(buf.get(),g[i][j].data(),g[i][j].size());
			d->append(g[i][j].empty() ? static_cast<void const *>(buf.get()) : buf.get(),g[i][j].size());
		}
		std::unique_ptr<unsigned char[]> o(new unsigned char[d->digest_size()]);
		d->readout(o.get());
		out.push_back(vh::hex(o.get(),d->digest_size()));
	}
	return join(out);
}

static std::string op_hmac(strs const &w,bool ref,bool variant)
{
	if(w.size()<3 || !known_algo(w[1])) return "bad-op";
	std::string keyb;
	if(!vh::unhex(w[2],keyb)) return "bad-op";
	std::vector<strs> g;
	if(!parse_groups(w,3,g)) return "bad-op";
	strs out;
	if(ref) {
		for(size_t i=0;i<g.size();i++) {
			std::string m=cat(g[i]);
			unsigned char o[EVP_MAX_MD_SIZE]; unsigned n=0;
			static char const dummy=0;
			HMAC(evp(w[1]),keyb.empty()?&dummy:keyb.data(),keyb.size(),reinterpret_cast<unsigned char const*>(m.data()),m.size(),o,&n);
			out.push_back(vh::hex(o,n));
		}
		return join(out);
	}
	crypto::key k(keyb.data(),keyb.size());
	std::unique_ptr<crypto::hmac> h;
	if(variant) h.reset(new crypto::hmac(crypto::message_digest::create_by_name(w[1]),k));
	else h.reset(new crypto::hmac(w[1],k));
	for(size_t i=0;i<g.size();i++) {
		for(size_t j=0;j<g[i].size();j++) {
			std::unique_ptr<char[]> buf(new char[g[i][j].size()+1]);
			memcpy(buf.get(),g[i][j].data(),g[i][j].size());
			h->append(buf.get(),g[i][j].size());
		}
		std::unique_ptr<unsigned char[]> o(new unsigned char[h->digest_size()]);
		h->readout(o.get());
		out.push_back(vh::hex(o.get(),h->digest_size()));
	}
	return join(out);
}

static std::string xor16(std::string const &a,std::string const &b)
{
	std::string r(16,'\0');
	for(int i=0;i<16;i++) r[i]=a[i]^b[i];
	return r;
}

// `cbc <bits> <key> <iv> <table> (e|d <hex>)*`
static std::string op_cbc(strs const &w,bool ref)
{
	if(w.size()<5 || (w.size()-5)%2) return "bad-op";
	unsigned bits=atoi(w[1].c_str());
	std::string keyb,iv;
	if(!vh::unhex(w[2],keyb) || !vh::unhex(w[3],iv)) return "bad-op";
	if((bits!=128 && bits!=192 && bits!=256) || keyb.size()!=bits/8 || iv.size()!=16) return "bad-op";
	strs out;
	if(ref) {
		AES_KEY ek,dk;
		AES_set_encrypt_key(reinterpret_cast<unsigned char const*>(keyb.data()),bits,&ek);
		AES_set_decrypt_key(reinterpret_cast<unsigned char const*>(keyb.data()),bits,&dk);
		std::string ive=iv,ivd=iv;
		for(size_t i=5;i<w.size();i+=2) {
			std::string d,o;
			if(!vh::unhex(w[i+1],d) || d.size()%16) return "bad-op";
			for(size_t b=0;b<d.size();b+=16) {
				unsigned char tmp[16];
				if(w[i]=="e") {
					std::string x=xor16(d.substr(b,16),ive);
					AES_encrypt(reinterpret_cast<unsigned char const*>(x.data()),tmp,&ek);
					ive.assign(reinterpret_cast<char*>(tmp),16);
					o+=ive;
				}
				else if(w[i]=="d") {
					AES_decrypt(reinterpret_cast<unsigned char const*>(d.data()+b),tmp,&dk);
					o+=xor16(std::string(reinterpret_cast<char*>(tmp),16),ivd);
					ivd=d.substr(b,16);
				}
				else return "bad-op";
			}
			out.push_back(vh::hex(o));
		}
		return join(out);
	}
	std::unique_ptr<crypto::cbc> c=crypto::cbc::create(bits==128?crypto::cbc::aes128:bits==192?crypto::cbc::aes192:crypto::cbc::aes256);
	if(!c.get()) return "no-such-cipher";
	if(c->block_size()!=16 || c->key_size()!=bits/8) return "bad-sizes";
	c->set_key(crypto::key(keyb.data(),keyb.size()));
	c->set_iv(iv.data(),iv.size());
	for(size_t i=5;i<w.size();i+=2) {
		std::string d;
		if(!vh::unhex(w[i+1],d) || d.size()%16) return "bad-op";
		std::unique_ptr<char[]> in(new char[d.size()+1]),o(new char[d.size()+1]);
		memcpy(in.get(),d.data(),d.size());
		if(w[i]=="e") c->encrypt(in.get(),o.get(),d.size());
		else if(w[i]=="d") c->decrypt(in.get(),o.get(),d.size());
		else return "bad-op";
		out.push_back(vh::hex(o.get(),d.size()));
	}
	return join(out);
}

// `cbcq <bits> <key> <iv> (e <hex> | D | T <iv'>)*` -> concrete `cbc` line with the AES table.
//   D       : decrypt (one call) everything encrypted so far since the last D
//   X <hex> : decrypt the given bytes
static std::string op_cbcq(strs const &w)
{
	if(w.size()<4) return "bad-op";
	unsigned bits=atoi(w[1].c_str());
	std::string keyb,iv;
	if(!vh::unhex(w[2],keyb) || !vh::unhex(w[3],iv)) return "bad-op";
	if((bits!=128 && bits!=192 && bits!=256) || keyb.size()!=bits/8 || iv.size()!=16) return "bad-op";
	AES_KEY ek,dk;
	AES_set_encrypt_key(reinterpret_cast<unsigned char const*>(keyb.data()),bits,&ek);
	AES_set_decrypt_key(reinterpret_cast<unsigned char const*>(keyb.data()),bits,&dk);
	std::string ive=iv,pending;
	std::map<std::string,std::string> table;
	strs ops;
	for(size_t i=4;i<w.size();) {
		if(w[i]=="e" && i+1<w.size()) {
			std::string d;
			if(!vh::unhex(w[i+1],d) || d.size()%16) return "bad-op";
			for(size_t b=0;b<d.size();b+=16) {
				unsigned char tmp[16];
				std::string x=xor16(d.substr(b,16),ive);
				AES_encrypt(reinterpret_cast<unsigned char const*>(x.data()),tmp,&ek);
				ive.assign(reinterpret_cast<char*>(tmp),16);
				table[x]=ive;
				pending+=ive;
			}
			ops.push_back("e"); ops.push_back(w[i+1]);
			i+=2;
		}
		else if(w[i]=="D" || (w[i]=="X" && i+1<w.size())) {
			std::string d;
			if(w[i]=="D") { d=pending; pending.clear(); i+=1; }
			else { if(!vh::unhex(w[i+1],d) || d.size()%16) return "bad-op"; i+=2; }
			for(size_t b=0;b<d.size();b+=16) {
				unsigned char tmp[16];
				AES_decrypt(reinterpret_cast<unsigned char const*>(d.data()+b),tmp,&dk);
				table[std::string(reinterpret_cast<char*>(tmp),16)]=d.substr(b,16);
			}
			ops.push_back("d"); ops.push_back(vh::hex(d));
		}
		else return "bad-op";
	}
	std::string t;
	for(std::map<std::string,std::string>::const_iterator p=table.begin();p!=table.end();++p) {
		if(!t.empty()) t+=',';
		t+=vh::hex(p->first)+":"+vh::hex(p->second);
	}
	if(t.empty()) t="-";
	return "cbc "+w[1]+" "+w[2]+" "+w[3]+" "+t+(ops.empty()?"":" "+join(ops));
}

// `cbcuse <bits> <key|none> <iv|none>`: set_key / set_iv when given, then encrypt one block
static std::string op_cbcuse(strs const &w)
{
	if(w.size()!=4) return "bad-op";
	unsigned bits=atoi(w[1].c_str());
	if(bits!=128 && bits!=192 && bits!=256) return "bad-op";
	std::string keyb,iv;
	bool has_key = w[2]!="none", has_iv = w[3]!="none";
	if(has_key && !vh::unhex(w[2],keyb)) return "bad-op";
	if(has_iv && !vh::unhex(w[3],iv)) return "bad-op";
	std::unique_ptr<crypto::cbc> c=crypto::cbc::create(bits==128?"aes":bits==192?"AES-192":"aes256");
	if(!c.get()) return "no-such-cipher";
	try {
		if(has_key) c->set_key(crypto::key(keyb.data(),keyb.size()));
		if(has_iv) {
			std::unique_ptr<char[]> b(new char[iv.size()+1]);
			memcpy(b.get(),iv.data(),iv.size());
			c->set_iv(b.get(),iv.size());
		}
		char in[16]={0},out[16];
		c->encrypt(in,out,16);
		c->decrypt(out,in,16);
		for(int i=0;i<16;i++) if(in[i]!=0) return "round-trip-failed";
		return "ok";
	}
	catch(booster::invalid_argument const &e) {
		std::string m=e.what();
		if(m.find("Invalid key size")!=std::string::npos) return "err-key-size";
		if(m.find("Invalid IV size")!=std::string::npos) return "err-iv-size";
		return "other-error";
	}
	catch(booster::runtime_error const &e) {
		std::string m=e.what();
		if(m.find("without key")!=std::string::npos) return "err-no-key";
		if(m.find("without initial vector")!=std::string::npos) return "err-no-iv";
		return "other-error";
	}
}

// ---- the cookie layer on top of cbc + hmac (src/aes_encryptor.cpp; proved in C05, exercised here) ----
// independent decoder of an aes_cipher text, libcrypto only: body ‖ HMAC(mac key, body); body = CBC of
// (one block nobody reads) ‖ uint32 length (host order) ‖ payload ‖ zero padding.  Returns false if malformed.
static bool ref_aes_decode(unsigned bits,std::string const &ck,std::string const &mac,std::string const &mk,std::string const &c,std::string &payload)
{
	unsigned ds=EVP_MD_get_size(evp(mac));
	if(c.size()<ds+32 || (c.size()-ds)%16) return false;
	size_t real=c.size()-ds;
	unsigned char tag[EVP_MAX_MD_SIZE]; unsigned n=0;
	static char const dummy=0;
	HMAC(evp(mac),mk.empty()?&dummy:mk.data(),mk.size(),reinterpret_cast<unsigned char const*>(c.data()),real,tag,&n);
	if(n!=ds || memcmp(tag,c.data()+real,ds)!=0) return false;
	AES_KEY dk;
	AES_set_decrypt_key(reinterpret_cast<unsigned char const*>(ck.data()),bits,&dk);
	std::string plain;
	for(size_t b=16;b<real;b+=16) {          // block 0 decrypts to garbage without the sender's IV: skip it
		unsigned char tmp[16];
		AES_decrypt(reinterpret_cast<unsigned char const*>(c.data()+b),tmp,&dk);
		plain+=xor16(std::string(reinterpret_cast<char*>(tmp),16),c.substr(b-16,16));
	}
	uint32_t size=0;
	memcpy(&size,plain.data(),4);
	if(size>plain.size()-4) return false;
	payload=plain.substr(4,size);
	return true;
}
static unsigned bits_of(std::string const &name)
{
	if(name.find("192")!=std::string::npos) return 192;
	if(name.find("256")!=std::string::npos) return 256;
	return 128;
}
static std::string aes_exercise(sessions::encryptor &e1,sessions::encryptor &e2,unsigned bits,std::string const &ck,std::string const &mac,std::string const &mk,std::string const &p)
{
	std::string c1=e1.encrypt(p),c2=e1.encrypt(p);            // one object used twice: the IV chain moves on
	if(c1.size()!=c2.size()) return "length-differs-between-calls";
	if(c1==c2) return "same-cipher-text-twice";
	std::string o;
	if(!e2.decrypt(c1,o) || o!=p) return "decrypt-failed-1";
	o="x"; if(!e2.decrypt(c2,o) || o!=p) return "decrypt-failed-2";     // receiver used twice
	o="x"; if(!e2.decrypt(c1,o) || o!=p) return "decrypt-failed-replayed";
	o="x"; if(!e1.decrypt(c2,o) || o!=p) return "decrypt-failed-by-sender";
	std::string r;
	if(!ref_aes_decode(bits,ck,mac,mk,c1,r) || r!=p) return "independent-decoder-disagrees-1";
	if(!ref_aes_decode(bits,ck,mac,mk,c2,r) || r!=p) return "independent-decoder-disagrees-2";
	std::string t=c1; t[(p.size()*7+3)%t.size()]^=0x10;
	o="x"; if(e2.decrypt(t,o)) return "tampered-text-accepted";
	t=c1.substr(0,c1.size()-1);
	if(e2.decrypt(t,o)) return "truncated-text-accepted";
	char buf[32]; snprintf(buf,sizeof(buf),"ok %u",unsigned(c1.size()));
	return buf;
}
// `aesrt <cbc name> <cbc key> <mac name> <mac key> <payload>`
static std::string op_aesrt(strs const &w)
{
	std::string ck,mk,p;
	if(w.size()!=6 || !vh::unhex(w[2],ck) || !vh::unhex(w[4],mk) || !vh::unhex(w[5],p) || !known_algo(w[3])) return "bad-op";
	try {
		sessions::impl::aes_cipher e1(w[1],w[3],crypto::key(ck.data(),ck.size()),crypto::key(mk.data(),mk.size()));
		sessions::impl::aes_cipher e2(w[1],w[3],crypto::key(ck.data(),ck.size()),crypto::key(mk.data(),mk.size()));
		return aes_exercise(e1,e2,bits_of(w[1]),ck,w[3],mk,p);
	}
	catch(booster::invalid_argument const &e) { return "refused"; }
}
// `aesfac <cbc name> <combined key> <payload>`: aes_factory(algo,key) against the key split / derivation done here
static std::string op_aesfac(strs const &w)
{
	std::string k,p;
	if(w.size()!=4 || !vh::unhex(w[2],k) || !vh::unhex(w[3],p)) return "bad-op";
	unsigned bits=bits_of(w[1]),cks=bits/8,ds=20;
	std::string ck,mk;
	bool expect_ok=true;
	if(k.size()==cks+ds) { ck=k.substr(0,cks); mk=k.substr(cks); }
	else if(k.size()>=cks) {
		EVP_MD const *md = k.size()*8<=256 ? EVP_sha256() : EVP_sha512();
		unsigned char k1[EVP_MAX_MD_SIZE],k2[EVP_MAX_MD_SIZE]; unsigned n=0;
		HMAC(md,k.data(),k.size(),reinterpret_cast<unsigned char const*>("0"),1,k1,&n);
		HMAC(md,k.data(),k.size(),reinterpret_cast<unsigned char const*>("\1"),1,k2,&n);
		ck.assign(reinterpret_cast<char*>(k1),cks); mk.assign(reinterpret_cast<char*>(k2),ds);
	}
	else expect_ok=false;
	try {
		sessions::impl::aes_factory f(w[1],crypto::key(k.data(),k.size()));
		if(!expect_ok) return "accepted-short-key";
		std::unique_ptr<sessions::encryptor> e1=f.get(),e2=f.get();
		return aes_exercise(*e1,*e2,bits,ck,"sha1",mk,p);
	}
	catch(booster::invalid_argument const &e) { return expect_ok ? "refused-good-key" : "refused"; }
}

static std::string key_result(crypto::key const &k) { return "ok "+vh::hex(k.data(),k.size()); }

static std::string op_key(strs const &w)
{
	std::string text;
	if(w.size()!=2 || !vh::unhex(w[1],text)) return "bad-op";
	std::string r[3];
	for(int variant=0;variant<3;variant++) {
		try {
			if(variant==0) {
				std::unique_ptr<char[]> buf(new char[text.size()+1]);   // exact size: over-reads are seen
				memcpy(buf.get(),text.data(),text.size());
				crypto::key k("ffff");
				k.set_hex(buf.get(),text.size());
				r[variant]=key_result(k);
			}
			else if(variant==1) {
				crypto::key k(text);
				r[variant]=key_result(k);
			}
			else {
				if(text.find('\0')!=std::string::npos) { r[variant]=r[0]; continue; }   // C-string constructor cannot carry NUL
				crypto::key k(text.c_str());
				crypto::key k2(k);             // copy keeps the bytes
				r[variant]=key_result(k2);
			}
		}
		catch(booster::invalid_argument const &e) {
			std::string m=e.what();
			if(m.find("not multiple of 2")!=std::string::npos) r[variant]="odd";
			else if(m.find("invalid characters")!=std::string::npos) r[variant]="invalid";
			else r[variant]="other-error";
		}
	}
	if(r[0]!=r[1] || r[0]!=r[2]) return "overload-mismatch "+r[0]+" | "+r[1]+" | "+r[2];
	return r[0];
}

// `keyfile <content>`: key::read_from_file on a file with these bytes
static std::string op_keyfile(strs const &w)
{
	std::string text;
	if(w.size()!=2 || !vh::unhex(w[1],text)) return "bad-op";
	char const *path="c16_keyfile.tmp";
	{ std::ofstream f(path,std::ios::binary|std::ios::trunc); f.write(text.data(),text.size()); }
	std::string r;
	try {
		crypto::key k("00");
		k.read_from_file(path);
		r=key_result(k);
	}
	catch(booster::invalid_argument const &e) {
		std::string m=e.what();
		if(m.find("not multiple of 2")!=std::string::npos) r="odd";
		else if(m.find("invalid characters")!=std::string::npos) r="invalid";
		else r="other-error";
	}
	catch(booster::runtime_error const &e) {
		std::string m=e.what();
		if(m.find("is empty")!=std::string::npos) r="empty-file";
		else r="other-error";
	}
	remove(path);
	return r;
}

// `big <algo> <total> <chunk> <byte-seed>`: digest of <total> bytes (byte i = (seed + i*131) mod 251), fed in
// appends of <chunk> bytes; only impl and ref answer this (the Lean model cannot hold such lists)
static std::string op_big(strs const &w,bool ref)
{
	if(w.size()!=5 || !known_algo(w[1])) return "bad-op";
	unsigned long long total=strtoull(w[2].c_str(),0,10),chunk=strtoull(w[3].c_str(),0,10),seed=strtoull(w[4].c_str(),0,10);
	if(chunk==0 || chunk>(1ull<<33) || total>(1ull<<34)) return "bad-op";
	size_t bufn = chunk<total?chunk:total;
	std::vector<unsigned char> buf(bufn?bufn:1);
	unsigned long long pos=0;
	std::unique_ptr<crypto::message_digest> d;
	EVP_MD_CTX *ctx=0;
	if(ref) { ctx=EVP_MD_CTX_new(); EVP_DigestInit_ex(ctx,evp(w[1]),0); }
	else { d=crypto::message_digest::create_by_name(w[1]); if(!d.get()) return "no-such-digest"; }
	while(pos<total) {
		size_t n = total-pos<chunk ? total-pos : chunk;
		for(size_t i=0;i<n;i++) buf[i]=(unsigned char)((seed+(pos+i)*131)%251);
		if(ref) EVP_DigestUpdate(ctx,&buf[0],n); else d->append(&buf[0],n);
		pos+=n;
	}
	unsigned char o[64]; unsigned n=0;
	if(ref) { EVP_DigestFinal_ex(ctx,o,&n); EVP_MD_CTX_free(ctx); }
	else { d->readout(o); n=d->digest_size(); }
	return vh::hex(o,n);
}

int main(int argc,char **argv)
{
	std::string mode = argc>1 ? argv[1] : "impl";
	bool ref = mode=="ref";
	bool oracle = mode=="oracle";
	return vh::drive([&](strs const &w)->std::string {
		if(w.empty()) return "bad-op";
		if(oracle) return w[0]=="cbcq" ? op_cbcq(w) : join(w);
		if(w[0]=="dg") return op_dg(w,ref,false);
		if(w[0]=="dg2") return op_dg(w,ref,true);
		if(w[0]=="hmac") return op_hmac(w,ref,false);
		if(w[0]=="hmac2") return op_hmac(w,ref,true);
		if(w[0]=="cbc") return op_cbc(w,ref);
		if(w[0]=="cbcuse") return ref ? "n/a" : op_cbcuse(w);
		if(w[0]=="aesrt") return ref ? "n/a" : op_aesrt(w);
		if(w[0]=="aesfac") return ref ? "n/a" : op_aesfac(w);
		if(w[0]=="key") return ref ? "n/a" : op_key(w);
		if(w[0]=="keyfile") return ref ? "n/a" : op_keyfile(w);
		if(w[0]=="big") return op_big(w,ref);
		return "bad-op";
	});
}
