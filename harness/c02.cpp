// C02 harness: same program as the C01 harness (real services + segmenting client + counters); see c01.cpp.
#include "c01.cpp"
