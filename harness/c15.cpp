// C15 harness: the real cppcms::util::{escape,urlencode,urldecode} and cppcms::b64url::*
// behind the line protocol of lean/Cppcms/C15/Driver.lean.
#include "common.h"
#include <cppcms/util.h>
#include <cppcms/base64.h>
#include <cppcms/filters.h>
#include <cppcms/form.h>
#include <locale>
#include <streambuf>
#include <memory>

// a streambuf that accepts at most `room` bytes in total (sputn stores a prefix)
struct limited_buf : public std::streambuf {
	std::string data; size_t room;
	explicit limited_buf(size_t r):room(r){}
	std::streamsize xsputn(char const *p,std::streamsize n) override {
		std::streamsize k = (size_t(n)<room)?n:std::streamsize(room);
		data.append(p,k); room-=k; return k;
	}
	int overflow(int c) override {
		if(c==EOF) return 0;
		if(room==0) return EOF;
		data.push_back(char(c)); room--; return c;
	}
};

// a streamable object whose operator<< performs several writes (the template filters must
// transform the bytes in the order written, whatever the sizes of the individual writes)
struct pieces { std::vector<std::string> v; };
static std::ostream &operator<<(std::ostream &out,pieces const &p)
{
	for(size_t i=0;i<p.v.size();i++) {
		if(i%3==2) { for(size_t k=0;k<p.v[i].size();k++) out.put(p.v[i][k]); }   // bytewise
		else out.write(p.v[i].data(),p.v[i].size());
	}
	return out;
}

static std::string run(std::vector<std::string> const &w)
{
	using namespace cppcms;
	std::string a;
	if(w.size()>=2 && w[0]!="form" && w[0]!="fltN" && !vh::unhex(w[1],a) && w[0]!="encsize" && w[0]!="decsize") return "bad-op";
	vh::exact_buf xa(a);   // pointer overloads read from a heap block of exactly a.size() bytes
	// one output path per op; the model maps all of them to the same function and the
	// property predicate is judged on each path's own output
	if(w.size()==2 && w[0]=="escape") return vh::hex(util::escape(a));
	if(w.size()==2 && w[0]=="escape_os") { std::ostringstream ss; util::escape(xa.begin(),xa.end(),ss); return vh::hex(ss.str()); }
	if(w.size()==2 && w[0]=="escape_flt") { std::ostringstream fs; fs<<filters::escape(a); return vh::hex(fs.str()); }
	if(w.size()==3 && w[0]=="escapesb") {
		limited_buf lb(strtoull(w[2].c_str(),0,10));
		int rc=util::escape(xa.begin(),xa.end(),lb);
		return vh::hex(lb.data)+(rc==0?" 1":" 0");
	}
	if(w.size()==2 && w[0]=="urlencode") return vh::hex(util::urlencode(a));
	if(w.size()==2 && w[0]=="urlencode_os") { std::ostringstream ss; util::urlencode(xa.begin(),xa.end(),ss); return vh::hex(ss.str()); }
	if(w.size()==2 && w[0]=="urlencode_sb") { limited_buf lb(size_t(1)<<40); int rc=util::urlencode(xa.begin(),xa.end(),lb); return vh::hex(lb.data)+(rc==0?" 1":" 0"); }
	if(w.size()==2 && w[0]=="urlencode_flt") { std::ostringstream fs; fs<<filters::urlencode(a); return vh::hex(fs.str()); }
	if(w.size()==2 && w[0]=="urldecode") {
		std::string r1=util::urldecode(a);
		std::string r2=util::urldecode(xa.begin(),xa.end());
		if(r1!=r2) return "overload-mismatch";
		return vh::hex(r1);
	}
	if(w.size()==2 && w[0]=="urlrt") return vh::hex(util::urldecode(util::urlencode(a)));
	if(w.size()==2 && w[0]=="b64rt") {
		std::string out;
		if(!b64url::decode(b64url::encode(a),out)) return "fail";
		return "ok "+vh::hex(out);
	}
	if(w.size()==2 && w[0]=="b64enc") return vh::hex(b64url::encode(a));
	if(w.size()==2 && w[0]=="b64enc_os") {
		std::ostringstream ss; b64url::encode(xa.ubegin(),xa.uend(),ss); return vh::hex(ss.str());
	}
	if(w.size()==2 && w[0]=="b64enc_flt") { std::ostringstream fs; fs<<filters::base64_urlencode(a); return vh::hex(fs.str()); }
	if(w.size()==2 && w[0]=="b64encraw") {
		// pointer variant into a heap buffer of exactly the advertised size (ASan red zone behind it)
		int n=b64url::encoded_size(a.size());
		vh::exact_buf buf(n>0?size_t(n):0);
		unsigned char *e=b64url::encode(xa.ubegin(),xa.uend(),buf.ubegin());
		return vh::hex(buf.p,e-buf.ubegin());
	}
	if(w.size()==2 && w[0]=="b64dec") {
		std::string out="prev";
		if(!b64url::decode(a,out)) return "fail";
		return "ok "+vh::hex(out);
	}
	if(w.size()==2 && w[0]=="b64decraw") {
		// raw pointer decoder; buffer sized generously (len 1 mod 4 writes 3 bytes although the
		// size function reports the length as invalid: recorded in DESIGN.md section 6)
		int n=b64url::decoded_size(a.size());
		size_t cap = n>=0 ? size_t(n) : a.size()/4*3+3;
		vh::exact_buf buf(cap);
		unsigned char *e=b64url::decode(xa.ubegin(),xa.uend(),buf.ubegin());
		return vh::hex(buf.p,e-buf.ubegin());
	}
	// fltN <escape|urlencode|base64> <piece>... : filter applied to an object that writes in pieces
	if(w.size()>=3 && w[0]=="fltN") {
		pieces p;
		for(size_t i=2;i<w.size();i++) { std::string t; if(!vh::unhex(w[i],t)) return "bad-op"; p.v.push_back(t); }
		std::ostringstream fs;
		if(w[1]=="escape") fs<<cppcms::filters::escape(p);
		else if(w[1]=="urlencode") fs<<cppcms::filters::urlencode(p);
		else if(w[1]=="base64") fs<<cppcms::filters::base64_urlencode(p);
		else return "bad-op";
		return vh::hex(fs.str());
	}
	// form <widget> <list 0..4> <xhtml 0/1> <valid 0/1> <message> <help> <error> <value>
	if(w.size()==9 && w[0]=="form") {
		std::string M,H,E,V;
		if(!vh::unhex(w[5],M)||!vh::unhex(w[6],H)||!vh::unhex(w[7],E)||!vh::unhex(w[8],V)) return "bad-op";
		static form_flags::html_list_type const lists[]={form_flags::as_p,form_flags::as_table,form_flags::as_ul,form_flags::as_dl,form_flags::as_space};
		int l=atoi(w[2].c_str())%5; bool xhtml=w[3]=="1"; bool valid=w[4]=="1";
		std::ostringstream ss; ss.imbue(std::locale::classic());
		form_context ctx(ss,xhtml?form_flags::as_xhtml:form_flags::as_html,lists[l]);
		#define COMMON(x) x.name("n"); x.id("i"); x.message(M); x.help(H); x.error_message(E); x.valid(valid);
		if(w[1]=="text") { widgets::text t; COMMON(t); t.value(V); t.render(ctx); }
		else if(w[1]=="textarea") { widgets::textarea t; COMMON(t); t.value(V); t.render(ctx); }
		else if(w[1]=="password") { widgets::password t; COMMON(t); t.value(V); t.render(ctx); }
		else if(w[1]=="hidden") { widgets::hidden t; COMMON(t); t.value(V); t.render(ctx); }
		else if(w[1]=="checkbox") { widgets::checkbox t; COMMON(t); t.identification(V); t.render(ctx); }
		else if(w[1]=="select") { widgets::select t; COMMON(t); t.add(V,V); t.add("plain","p"); t.render(ctx); }
		else if(w[1]=="radio") { widgets::radio t; COMMON(t); t.add(V,V); t.add("plain","p"); t.render(ctx); }
		else if(w[1]=="multi") { widgets::select_multiple t; COMMON(t); t.add(V,V,true); t.add("plain","p"); t.render(ctx); }
		else if(w[1]=="submit") { widgets::submit t; COMMON(t); t.value(V); t.render(ctx); }
		else return "bad-op";
		#undef COMMON
		return vh::hex(ss.str());
	}
	if(w.size()==2 && w[0]=="encsize") return std::to_string(b64url::encoded_size(strtoull(w[1].c_str(),0,10)));
	if(w.size()==2 && w[0]=="decsize") return std::to_string(b64url::decoded_size(strtoull(w[1].c_str(),0,10)));
	return "bad-op";
}

int main() { return vh::drive(run); }
