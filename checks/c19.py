#!/usr/bin/env python3
"""C19 — serialized objects round-trip exactly; malformed archives are rejected safely.
See DESIGN.md section 5 (C19) and design.d/C19.md.  Usage: checks/c19.py [--tier quick|thorough] [--replay file]"""
import os, sys, json, struct
sys.path.insert(0, os.path.join(os.path.dirname(os.path.abspath(__file__)), "..", "lib"))
from vcheck import *

P = "Cppcms.C19.Props."
OBLIGATIONS = [
    (P + "load_safe", "for every type and every byte string (< 2^64 bytes): all read intervals inside the archive, cursor inside, result is a value or an archive_error"),
    (P + "load_safe_resume", "the same from any safe state (several objects in one archive, serialize() methods)"),
    (P + "primitives_safe", "next_chunk_size / read_chunk / read_chunk_as_string keep a safe state safe"),
    (P + "load_ok_wellformed", "a successful load of any byte string returns a well-formed value (sizes, sorted unique sets/maps, sorted multisets, array lengths)"),
    (P + "sizeBad_exact", "the regenerated length test of next_chunk_size is exactly 'header+payload fit' (no over-read, no spurious rejection)"),
    (P + "prefix_bound_counterexample", "historical D1: the pre-fix bound accepts length 7 at ptr 0 in an 8-byte archive"),
    (P + "save_load_roundtrip", "for every type and well-formed value within the uint32 guard: load (save v) = v and the loader ends at eof"),
    (P + "save_load_roundtrip_framed", "the same at any position inside a larger archive"),
    (P + "pod_codec_roundtrip", "unsigned-integer object representation (either byte order, from the compiler's macros): decode(encode n) = n mod 256^k, k bytes, encode(decode b) = b"),
    (P + "operator_lt_order", "operator< of the model: strict weak order on every type (asymmetric, negatively transitive, transitive); total (incomparable => equal) on well-formed values of key types"),
    (P + "container_elements_load_independently", "vector/list/set/multiset load = count + a chain of the one state-only element load into a default-constructed object (value_type tmp inside the loop, pinned by the translator); a tagged user class is loaded by loadTaggedInto on the default object"),
    (P + "multi_containers_keep_load_order", "multimap/multiset load of any archive: result is a permutation of the entries read and every key class keeps its archive order (stable)"),
    (P + "unique_containers_keep_first", "map/set load of any archive: of the entries of one key class exactly the first one read survives"),
    (P + "json_law_from_C11", "the jsonRT hypothesis for C11's codec (compact save, full load; flags regenerated from archive_traits.h) is C11's write_parse_roundtrip_partial with mapNum rt v = v"),
    (P + "json_value_roundtrip", "a json::value saved to an archive loads back to the same tree under C11's hypotheses and the uint32 guard on its text"),
    (P + "session_store_data_fetch_data_roundtrip", "session store_data then fetch_data (same request: C06 setValue/dfind; next request: C06 loadData_saveData) returns the object; key < 1024 bytes, serialised object < 2 MiB"),
    (P + "session_store_data_over_limit_throws", "a serialised object of >= 2 MiB makes the session's save_data throw"),
    (P + "cache_fetch_data_returns_latest_store_data", "cache fetch_data hit = bytes of the most recent, not invalidated store of the key (C07 fetch_returns_latest_store); loading them yields the stored object"),
    (P + "cache_store_data_fetch_data_roundtrip", "cache store_data then fetch_data before the deadline with no invalidating operation and no eviction hits and yields the object (C07 live_entry_always_found)"),
    (P + "wrappers_roundtrip", "abstract form kept for other stores: any store with get (set k d) = d"),
    (P + "string_chunk_truncates", "beyond the guard: write_chunk stores len mod 2^32, the string is read back truncated"),
    (P + "string_roundtrip_fails_beyond_guard", "a std::string of >= 2^32 bytes does not round-trip (why sizesFit is needed)"),
]

# the instantiations compiled into harness/c19.cpp (checked against its `types` answer at run time)
TYPES = ("B.L.s B.M.s.v4 B.p4 B.s C.s L.C.p4 L.L.s L.R.s L.X.p4.s L.s L.v2 M.P.p1.s.Q.s M.p2.S.s M.p4.R.v2 M.p4.s "
         "M.s.M.p2.s M.s.p8 M.s.v4 P.L.s.S.p4 P.R.p1.R.M.s.p4 P.p4.s P.s.P.p1.v8 Q.L.s Q.p4 Q.s R.B.s R.L.s R.R.s R.p4 R.s "
         "S.L.s S.P.p2.s S.p4 S.p8 S.s S.v1 U.L.s U.s X.R.s.Q.P.p4.s X.p4.s X.s.X.v2.S.s d8 i4 p1 p2 p4 p8 s v1 v2 v4 v8 "
         "W.p4 W.s W.P.p1.s L.W.p2 N.p4.s N.s.v4 N.p1.W.s M.W.p1.s B.A3.s B.p12 B.A2.L.s X.p8.A2.S.s B.A1.M.s.p4 "
         "j L.j M.s.j R.j P.p4.j B.j X.j.s H.s H.v4 B.H.M.s.p2 K.s L.K.p4 K.S.s I.s Q.I.v2 X.I.p4.H.s "
         "S.v2 M.v4.p1 S.v8 S.S.p2 S.M.p1.s S.Q.p4 S.W.s S.P.s.v2 "
         "T.s.v4 L.T.s.v4 Q.T.s.v4 M.s.L.T.s.v4 B.L.T.s.v4 X.L.T.s.v4.M.s.L.T.s.v4 T.T.s.v4.s L.P.p4.T.s.v4 Q.R.T.s.v4 L.T.p2.M.p1.s N.p4.L.T.s.v4 L.L.T.s.v4").split()


def keyable_name(name):
    """types whose operator< the harness answers (cmp): unsigned PODs, strings, containers and pairs of them"""
    return all(w in ("p1", "p2", "p4", "p8", "s", "v1", "v2", "v4", "v8", "L", "Q", "S", "W", "M", "N", "P") for w in name.split("."))

# the harness must not be able to take the machine down when a (mutated) loader loops or allocates without bound
HARNESS_ENV = {"ASAN_OPTIONS": "detect_leaks=0:abort_on_error=0:allocator_may_return_null=1:hard_rss_limit_mb=3000:max_allocation_size_mb=2000"}

POD = {"p1": 1, "p2": 2, "p4": 4, "p8": 8, "i4": 4, "d8": 8}
VEC = {"v1": 1, "v2": 2, "v4": 4, "v8": 8}
UN = {"L": "seq", "Q": "seq", "S": "set", "R": "ptr", "U": "ptr", "C": "ptr", "H": "ptr", "K": "ptr", "I": "ptr", "B": "box", "W": "mset"}
BIN = {"M": "map", "P": "pair", "X": "pair", "N": "mmap", "T": "tagged"}


def parse_ty(words):
    w = words.pop(0)
    if w in POD:
        return ("pod", POD[w])
    if w in VEC:
        return ("vec", VEC[w])
    if w == "s":
        return ("str",)
    if w == "j":
        return ("json",)
    if w in UN:
        t = parse_ty(words)
        return t if UN[w] == "box" else (UN[w], t)
    if w in BIN:
        a = parse_ty(words)
        b = parse_ty(words)
        return (BIN[w], a, b)
    if w[0] == "p" and w[1:].isdigit():
        return ("pod", int(w[1:]))
    if w[0] == "A" and w[1:].isdigit():
        return ("arr", parse_ty(words), int(w[1:]))
    raise ValueError(w)


def ty_of(name):
    return parse_ty(name.split("."))


# ---- value generation (python values: bytes | list | tuple | None/('some',v))
def rbytes(rng, n):
    return rng.randbytes(n)


def gen_str(rng, big):
    r = rng.random()
    if r < 0.15:
        return b""
    if r < 0.35:
        return bytes(rng.choice(b"\x00ab\xff") for _ in range(rng.randrange(1, 6)))   # NULs, few distinct -> duplicates
    if r < 0.9:
        return rbytes(rng, rng.randrange(1, 24))
    return rbytes(rng, rng.choice((255, 256, 257, 300, big)))


# every control character as an escape: the writer's \\u00XX table (all 32 rows) is exercised by a round trip (seed C19-10)
CTRL_STR = b'"' + b"".join(b"\\u%04x" % i for i in range(32)) + b'"'


def jcanon(bs):
    """compact text of a json string as value::save is documented to write it (independent of src/json.cpp's table)"""
    short = {8: b"\\b", 9: b"\\t", 10: b"\\n", 12: b"\\f", 13: b"\\r", 34: b'\\"', 92: b"\\\\"}
    return b'"' + b"".join(short.get(c, b"\\u%04x" % c if c < 32 else bytes([c])) for c in bs) + b'"'


_ALLCTRL = jcanon(bytes(range(32)))
CTRL_CANON = {CTRL_STR: _ALLCTRL, b'{' + CTRL_STR + b':[' + CTRL_STR + b']}': b'{' + _ALLCTRL + b':[' + _ALLCTRL + b']}',
              b'"\\u000e"': jcanon(b"\x0e"), b'"\\u001f\\u000f"': jcanon(b"\x1f\x0f")}
JSTR = ["", "a", "b", "ab", "x y", "k_1", "\u00e9", "zz-9", "A", "0"]


def gen_json_text(rng, depth=0):
    """canonical compact text as value::save writes it: sorted unique keys, no blanks, integers and halves"""
    r = rng.random()
    if depth >= 3 or r < 0.5:
        c = rng.randrange(7)
        if c == 0:
            return b"null"
        if c == 1:
            return b"true"
        if c == 2:
            return b"false"
        if c == 3:
            return str(rng.choice((0, 1, 2, 7, 10, 255, 65536, 123456789012, rng.randrange(-1000, 1000)))).encode()
        if c == 4:
            return ("%s%d.5" % (rng.choice(("", "-")), rng.randrange(0, 1000))).encode()
        return b'"' + rng.choice(JSTR).encode("utf-8") + b'"'
    if r < 0.75:
        return b"[" + b",".join(gen_json_text(rng, depth + 1) for _ in range(rng.randrange(0, 5))) + b"]"
    keys = sorted(set(rng.choice(JSTR).encode("utf-8") for _ in range(rng.randrange(0, 5))))
    return b"{" + b",".join(b'"' + k + b'":' + gen_json_text(rng, depth + 1) for k in keys) + b"}"


def savable(t, v):
    """archive_traits<T>::save returns normally: no undefined json::value inside"""
    k = t[0]
    if k == "json":
        return v != ("JU",)
    if k in ("pod", "str", "vec"):
        return True
    if k in ("seq", "set", "mset", "arr"):
        return all(savable(t[1], x) for x in v)
    if k in ("map", "mmap"):
        return all(savable(t[1], a) and savable(t[2], b) for a, b in v)
    if k == "pair":
        return savable(t[1], v[0]) and savable(t[2], v[1])
    if k == "ptr":
        return v is None or savable(t[1], v[1])
    if k == "tagged":
        sel = tag_sel(v[0])
        return savable(t[1], v[1]) if sel == 1 else (savable(t[2], v[2]) if sel == 2 else True)


def dflt(t):
    """the default-constructed object"""
    k = t[0]
    if k == "pod":
        return bytes(t[1])
    if k in ("str", "vec"):
        return b""
    if k in ("seq", "set", "mset", "map", "mmap"):
        return []
    if k == "arr":
        return [dflt(t[1]) for _ in range(t[2])]
    if k == "pair":
        return (dflt(t[1]), dflt(t[2]))
    if k == "ptr":
        return None
    if k == "json":
        return ("JU",)
    if k == "tagged":
        return (bytes(4), dflt(t[1]), dflt(t[2]))


def tag_sel(kind):
    n = int.from_bytes(kind, "little")
    return n if n in (1, 2) else 0


def gen_val(rng, t, big=1000, depth=0):
    k = t[0]
    if k == "tagged":
        kind = struct.pack("<I", rng.choice((0, 0, 1, 1, 1, 2, 2, 3, 0xffffffff, 256, 0x01000000)))
        sel = tag_sel(kind)
        return (kind, gen_val(rng, t[1], big, depth + 1) if sel == 1 else dflt(t[1]),
                gen_val(rng, t[2], big, depth + 1) if sel == 2 else dflt(t[2]))
    if k == "json":
        return ("JU",) if rng.random() < 0.04 else ("J", gen_json_text(rng))
    if k == "pod":
        r = rng.random()
        if r < 0.2:
            return bytes(t[1])
        if r < 0.4:
            return bytes([rng.randrange(3)]) + bytes(t[1] - 1)
        if r < 0.5:
            return b"\xff" * t[1]
        return rbytes(rng, t[1])
    if k == "str":
        return gen_str(rng, big)
    if k == "vec":
        n = rng.choice((0, 0, 1, 2, 3, 5, 17, rng.randrange(0, 40)))
        if rng.random() < 0.03:
            n = big // t[1]
        return rbytes(rng, n * t[1])
    if k in ("seq", "set", "mset"):
        n = rng.choice((0, 0, 1, 2, 3, 4, 6)) if depth else rng.choice((0, 1, 2, 3, 5, 8, 13))
        return [gen_val(rng, t[1], big, depth + 1) for _ in range(n)]
    if k == "arr":
        return [gen_val(rng, t[1], big, depth + 1) for _ in range(t[2])]
    if k in ("map", "mmap"):
        n = rng.choice((0, 0, 1, 2, 3, 4, 6)) if depth else rng.choice((0, 1, 2, 3, 5, 8))
        return [(gen_val(rng, t[1], big, depth + 1), gen_val(rng, t[2], big, depth + 1)) for _ in range(n)]
    if k == "pair":
        return (gen_val(rng, t[1], big, depth + 1), gen_val(rng, t[2], big, depth + 1))
    if k == "ptr":
        return None if rng.random() < 0.35 else ("some", gen_val(rng, t[1], big, depth + 1))
    raise ValueError(k)


def perturb(rng, t, v):
    """a value near v (for comparisons): change one leaf / drop or add one element"""
    k = t[0]
    if k in ("pod", "str", "vec"):
        if not v or rng.random() < 0.3:
            return v + (rbytes(rng, t[1]) if k != "str" else b"a") if k != "pod" else rbytes(rng, t[1])
        i = rng.randrange(len(v))
        return v[:i] + bytes([v[i] ^ (1 << rng.randrange(8))]) + v[i + 1:]
    if k in ("seq", "set", "mset"):
        if not v:
            return [gen_val(rng, t[1], 50, 1)]
        i = rng.randrange(len(v))
        r = rng.random()
        if r < 0.25:
            return v[:i] + v[i + 1:]
        return v[:i] + [perturb(rng, t[1], v[i])] + v[i + 1:]
    if k in ("map", "mmap"):
        if not v:
            return [(gen_val(rng, t[1], 50, 1), gen_val(rng, t[2], 50, 1))]
        i = rng.randrange(len(v))
        a, b = v[i]
        return v[:i] + [(a, perturb(rng, t[2], b)) if rng.random() < 0.5 else (perturb(rng, t[1], a), b)] + v[i + 1:]
    if k == "pair":
        return (perturb(rng, t[1], v[0]), v[1]) if rng.random() < 0.5 else (v[0], perturb(rng, t[2], v[1]))
    return v


def same_size_variant(rng, t, v):
    """an object with the same serialized size that differs in a late byte (or None): change the last byte of the
    last non-empty leaf that is serialized"""
    k = t[0]
    if k in ("pod", "str", "vec"):
        if not v:
            return None
        return v[:-1] + bytes([v[-1] ^ (1 << rng.randrange(8))])
    if k in ("seq", "arr"):
        for i in range(len(v) - 1, -1, -1):
            w = same_size_variant(rng, t[1], v[i])
            if w is not None:
                return v[:i] + [w] + v[i + 1:]
        return None
    if k in ("map", "mmap"):
        for i in range(len(v) - 1, -1, -1):
            w = same_size_variant(rng, t[2], v[i][1])
            if w is not None:
                return v[:i] + [(v[i][0], w)] + v[i + 1:]
        return None
    if k == "pair":
        w = same_size_variant(rng, t[2], v[1])
        if w is not None:
            return (v[0], w)
        w = same_size_variant(rng, t[1], v[0])
        return None if w is None else (w, v[1])
    if k == "ptr":
        if v is None:
            return None
        w = same_size_variant(rng, t[1], v[1])
        return None if w is None else ("some", w)
    if k == "tagged":
        sel = tag_sel(v[0])
        if sel == 1:
            w = same_size_variant(rng, t[1], v[1])
            return None if w is None else (v[0], w, v[2])
        if sel == 2:
            w = same_size_variant(rng, t[2], v[2])
            return None if w is None else (v[0], v[1], w)
        return None
    return None


def key(t, v):
    """python ordering key = operator< of the C++ type"""
    k = t[0]
    if k == "pod":
        return int.from_bytes(v, "little")
    if k == "str":
        return v
    if k == "vec":
        return tuple(int.from_bytes(v[i:i + t[1]], "little") for i in range(0, len(v), t[1]))
    if k in ("seq", "arr"):
        return tuple(key(t[1], x) for x in v)
    if k in ("set", "mset"):
        return tuple(key(t[1], x) for x in norm(t, v))
    if k in ("map", "mmap"):
        return tuple((key(t[1], a), key(t[2], b)) for a, b in norm(t, v))
    if k == "pair":
        return (key(t[1], v[0]), key(t[2], v[1]))
    raise ValueError("pointer types are not keys")


def norm(t, v):
    """what the C++ object holds after the elements were inserted in the given order"""
    k = t[0]
    if k in ("pod", "str", "vec", "json"):
        return v
    if k in ("seq", "arr"):
        return [norm(t[1], x) for x in v]
    if k == "mset":
        return sorted((norm(t[1], x) for x in v), key=lambda x: key(t[1], x))          # stable
    if k == "mmap":
        return sorted(((norm(t[1], a), norm(t[2], b)) for a, b in v), key=lambda p: key(t[1], p[0]))   # stable: equal keys keep their order
    if k == "set":
        seen, out = set(), []
        for x in v:
            x = norm(t[1], x)
            kk = key(t[1], x)
            if kk not in seen:
                seen.add(kk)
                out.append((kk, x))
        return [x for _, x in sorted(out, key=lambda p: p[0])]
    if k == "map":
        seen, out = set(), []
        for a, b in v:
            a, b = norm(t[1], a), norm(t[2], b)
            kk = key(t[1], a)
            if kk not in seen:
                seen.add(kk)
                out.append((kk, (a, b)))
        return [x for _, x in sorted(out, key=lambda p: p[0])]
    if k == "pair":
        return (norm(t[1], v[0]), norm(t[2], v[1]))
    if k == "ptr":
        return None if v is None else ("some", norm(t[1], v[1]))
    if k == "tagged":
        return (v[0], norm(t[1], v[1]), norm(t[2], v[2]))


def toks(t, v):
    k = t[0]
    if k in ("pod", "vec"):
        return ["x" + v.hex()]
    if k == "str":
        return ["s" + v.hex()]
    if k == "json":
        return ["ju"] if v == ("JU",) else ["j" + v[1].hex()]
    if k in ("seq", "set", "mset"):
        return ["n%d" % len(v)] + [w for x in v for w in toks(t[1], x)]
    if k == "arr":
        return [w for x in v for w in toks(t[1], x)]
    if k in ("map", "mmap"):
        return ["n%d" % len(v)] + [w for a, b in v for w in toks(t[1], a) + toks(t[2], b)]
    if k == "pair":
        return toks(t[1], v[0]) + toks(t[2], v[1])
    if k == "ptr":
        return ["0"] if v is None else ["1"] + toks(t[1], v[1])
    if k == "tagged":
        return ["x" + v[0].hex()] + toks(t[1], v[1]) + toks(t[2], v[2])


def py_save(t, v):
    """independent python serializer (third implementation; used only to cross-check `save` outputs)"""
    def chunk(d):
        return struct.pack("<I", len(d) & 0xffffffff) + d
    k = t[0]
    if k in ("pod", "vec", "str"):
        return chunk(v)
    if k == "json":
        return chunk(v[1])
    if k in ("seq", "set", "mset"):
        return chunk(struct.pack("<Q", len(v))) + b"".join(py_save(t[1], x) for x in v)
    if k == "arr":
        return b"".join(py_save(t[1], x) for x in v)
    if k in ("map", "mmap"):
        return chunk(struct.pack("<Q", len(v))) + b"".join(py_save(t[1], a) + py_save(t[2], b) for a, b in v)
    if k == "pair":
        return py_save(t[1], v[0]) + py_save(t[2], v[1])
    if k == "ptr":
        return chunk(b"\x01") if v is None else chunk(b"\x00") + py_save(t[1], v[1])
    if k == "tagged":
        sel = tag_sel(v[0])
        return chunk(v[0]) + (py_save(t[1], v[1]) if sel == 1 else (py_save(t[2], v[2]) if sel == 2 else b""))


# ---- malformed stream
def headers(a):
    """offsets of the chunk headers of a well-formed archive"""
    out, o = [], 0
    while o + 4 <= len(a):
        out.append(o)
        o += 4 + struct.unpack_from("<I", a, o)[0]
    return out


def u32(x):
    return struct.pack("<I", x & 0xffffffff)


def mutations(rng, a, thorough):
    """every truncation (short archives; boundaries +-2 and a sample otherwise), every length-field mutation of the
    first headers (+-1..4, remaining +-1..4, wrap values), count-field mutations, byte flips, insertions"""
    out = []
    n = len(a)
    hs = headers(a)
    if n <= (400 if thorough else 120):
        cuts = range(n)
    else:
        cuts = set(rng.randrange(n) for _ in range(40))
        for h in hs[:30]:
            for d in (-2, -1, 0, 1, 2, 3, 4, 5):
                if 0 <= h + d < n:
                    cuts.add(h + d)
        cuts = sorted(cuts)
    for c in cuts:
        out.append(a[:c])
    pick = hs if len(hs) <= (60 if thorough else 16) else hs[:8] + rng.sample(hs[8:], (40 if thorough else 8))
    for h in pick:
        L = struct.unpack_from("<I", a, h)[0]
        rem = n - h - 4
        vals = set()
        for d in range(1, 5):
            vals.update((L + d, L - d, rem + d, rem - d))
        vals.update((rem, 0, 0xffffffff, 0xfffffffc, 0xfffffffb, 0xfffffff8, 0x80000000, 0x7fffffff,
                     (1 << 32) - h, (1 << 32) - h - 1, (1 << 32) - h - 4, (1 << 32) - h - 5, n, n - h, n + 1))
        for v in vals:
            v &= 0xffffffff
            if v != L:
                out.append(a[:h] + u32(v) + a[h + 4:])
        if L == 8:     # a count (or a 64-bit POD): off by one, huge
            c = struct.unpack_from("<Q", a, h + 4)[0]
            for v in (c + 1, c - 1, c + 2, 0, 1 << 32, (1 << 64) - 1, 1 << 63, 1 << 60):
                v &= (1 << 64) - 1
                if v != c:
                    out.append(a[:h + 4] + struct.pack("<Q", v) + a[h + 12:])
        if L == 1:     # pointer flag
            for v in (0, 1, 2, 0xff):
                if a[h + 4] != v:
                    out.append(a[:h + 4] + bytes([v]) + a[h + 5:])
    for _ in range(6 if thorough else 3):
        if n:
            i = rng.randrange(n)
            out.append(a[:i] + bytes([a[i] ^ (1 << rng.randrange(8))]) + a[i + 1:])
            out.append(a[:i] + rbytes(rng, rng.randrange(1, 5)) + a[i:])
            out.append(a[:i] + a[i + 1:])
    out.append(a + b"\x00")
    out.append(a + rbytes(rng, rng.randrange(1, 9)))
    return out


def hexs0(b):
    return b.hex() if b else "-"


ERRS = ("err eof", "err hdr", "err size", "err len", "err json")


def run_impl(c, hbin, cases):
    """run the harness; after a sanitizer abort / crash restart it behind the crashing case.
    returns (outputs aligned with cases, crashes [(index, stderr)])"""
    outs, crashes, start = [], [], 0
    while start < len(cases) and len(crashes) < 12:
        rc, o, err = c.run_lines(hbin, cases[start:], timeout=240 + len(cases) // 300, env=HARNESS_ENV)
        if rc == 124:
            err = "TIMEOUT: the harness did not finish (endless loop / unbounded work in the loader?)\n" + err
        outs.extend(o[:len(cases) - start])
        if start + len(o) >= len(cases):
            if rc != 0:
                crashes.append((len(cases) - 1, err))
            break
        k = start + len(o)
        crashes.append((k, err))
        outs.append("<crash>")
        start = k + 1
        if rc == 124:        # do not wait for further time-outs
            break
    while len(outs) < len(cases):
        outs.append("<not run>")
    return outs, crashes


def main():
    c = Check("C19")
    thorough = c.tier == "thorough"
    rng = c.rng
    c.rule = ("cases = protocol lines for harness and model: save/rt/srt/ssave and cache/session store_data+fetch_data (crt/zrt) of recursively generated values over the %d type "
              "instantiations compiled into the harness (empty containers, duplicate and unsorted set/map input, NUL strings, null and "
              "non-null pointers, strings around 255/256/64Ki); load/sload of every truncation, every length-field mutation "
              "(L+-1..4, remaining+-1..4, wrap values such as 0xfffffffc and 2^32-ptr), count and pointer-flag mutations, bit flips, "
              "insertions and deletions of valid archives, random bytes, and the exhaustive edge space (every length field in 0..13, 2^31-4..2^31+3, 2^32-14..2^32-1 over bodies of 0..9 bytes, at ptr 0 and behind a chunk; thorough: every 1- and 2-byte archive); raw primitive scripts (ops, incl. reset/mode rewinds), archive reuse (load2) and write_chunk (wr). "
              "non-trivial = model output is an archive_error, or a successful save/load/round trip of a value with >= 3 tokens; "
              "distinct = distinct case lines" % len(TYPES))
    c.trusted += [
        "translators of the imported models (translate/c06.py, c07.py, c11.py are re-run; Props imports Cppcms.C06.Lemmas, Cppcms.C07.Props, Cppcms.C11.Props)",
        "translator translate/c19.py + translate/cexpr.py: conditions, read offsets/lengths and ptr_ updates of eof/next_chunk_size/read_chunk/"
        "read_chunk_as_string, header width of write_chunk, POD-vector count/length expressions, shape checks of the container and smart-pointer macros",
        "hand-written in Model.lean: statement order inside the archive functions, little-endian/sizeof(size_t)=8 (x86-64), the archive_traits "
        "dispatch (count chunk then elements, flag byte for pointers), container insertion semantics and operator< of key types; tied by correspondence",
        "correspondence harness harness/c19.cpp (ASan+UBSan build of the working tree, -fno-access-control to read archive::ptr_ and to poison the "
        "slack of archive::buffer_ so that a 1-byte over-read is reported)",
        "libstdc++ containers/std::string, booster smart pointers (not modelled beyond their value)",
    ]
    c.assumptions += [
        "archive length < 2^64 (hypothesis of load_safe/round-trip theorems: a std::string in a 64-bit address space)",
        "round trip: value well-formed (wf: POD sizes, sets/map keys strictly increasing, multiset/multimap keys non-decreasing, array lengths), sizesFit (every chunk payload < 2^32 bytes, counts < 2^64) and jsonRT (every json::value inside satisfies read (write v) = some v: C11's law, see json_law_from_C11)",
        "session wrappers: session map sorted and within save_data's limits, key < 1024 bytes, serialised object < 2 MiB; cache liveness: limit 0, no failing allocation, no invalidating operation, not expired",
        "json::value is modelled through an external codec (C11's model in the driver); which cookie/token carries the session bytes to the next request is C06's subject",
    ]

    c.translate("c19.py")
    # Props imports the models (and the cited theorems) of C06, C07 and C11: their generated parts must describe the
    # tree being checked as well, and nobody else may rebuild those modules while they are being read
    for dep in ("c06.py", "c07.py", "c11.py"):
        c.translate(dep)
    with Lock("lake-C06"), Lock("lake-C07"), Lock("lake-C11"):
        proved = c.prove(["Cppcms.C19.Props"], OBLIGATIONS, exe="c19_model")
    if thorough and proved:
        c.leanchecker(["Cppcms.C19.Props"])
    model = c.model_exe()
    ok_impl = c.impl_build(targets=("cppcms-static", "booster-static"))
    hbin = c.harness("c19", extra=["-fno-access-control", "-O0", "-g1"])   # -O0: 3x faster compile of ~70 instantiations if ok_impl else None
    if not (hbin and os.path.exists(model)):
        c.finish()

    # ---- replay mode
    if c.replay_path:
        rp = json.load(open(c.replay_path))
        cases = [rp["case"]] if rp.get("case") else []
        cases += [v["case"] for v in rp.get("further_failing_cases", []) if v.get("case")]
        outs, crashes = run_impl(c, hbin, cases)
        _, mo, _ = c.run_lines(model, cases)
        for i, cs in enumerate(cases):
            print("case :", cs[:2000]); print("impl :", outs[i][:2000]); print("model:", (mo[i] if i < len(mo) else None))
        for k, err in crashes:
            print("crash at case", k, "\n", err[-3000:])
            c.violation("sanitizer abort / crash of the real code", {"case": cases[k], "stderr": err[-3000:]})
        for i, cs in enumerate(cases):
            if i < len(mo) and outs[i] != mo[i] and not crashes:
                c.broke("replayed case differs", f"{cs[:300]} impl={outs[i][:300]} model={mo[i][:300]}")
        c.finish()

    # ---- registry check
    rc, o, err = c.run_lines(hbin, ["types"])
    if rc != 0 or not o or o[0].split() != sorted(TYPES):
        c.broke("harness type registry differs from checks/c19.py TYPES", (o[0] if o else err)[:1500])
    types = {n: ty_of(n) for n in TYPES}
    serializable = [n for n in TYPES if n[0] in "BXT"]

    # ---- phase A: valid values
    corpus_dir = os.path.join(ROOT, "gen", "corpus", "C19")
    corpus = []
    if os.path.isdir(corpus_dir):
        for f in sorted(os.listdir(corpus_dir)):
            for line in open(os.path.join(corpus_dir, f)):
                line = line.strip()
                if line and not line.startswith("#"):
                    corpus.append(line)
    casesA, expect = list(corpus), {}
    per_type = 90 if thorough else 24
    big = 70000 if thorough else 3000
    values = []          # (type name, normalized python value)
    for name in TYPES:
        t = types[name]
        for i in range(per_type):
            v = gen_val(rng, t, big if i % 7 == 3 else 300)
            nv = norm(t, v)
            tk = " ".join(toks(t, v))
            if not savable(t, nv):          # an undefined json::value inside: save throws json::bad_value_cast
                for op in ("rt", "save") + (("srt", "ssave", "crt", "zrt", "zsv") if name in serializable else ()):
                    line = f"{op} {name} {tk}"
                    casesA.append(line)
                    expect[line] = "throw"
                continue
            values.append((name, nv))
            ntk = " ".join(toks(t, nv))
            arch = hexs0(py_save(t, nv))
            if name in serializable and i % 3 == 0:
                # overwrite with an object of the same serialized size that differs late (after the NULs every archive has)
                w2 = same_size_variant(rng, t, nv)
                nb = norm(t, w2) if w2 is not None else None
                if nb is None or nb == nv or len(py_save(t, nb)) != len(py_save(t, nv)):
                    nb = norm(t, gen_val(rng, t, 300))
                if savable(t, nb):
                    btk = " ".join(toks(t, nb))
                    for mode in (0, 1, 2):
                        if mode == 0 and max(len(py_save(t, nv)), len(py_save(t, nb))) > 400:
                            continue
                        for first, second in ((ntk, btk), (btk, ntk)):
                            line = f"zow{mode} {name} {first} {second}"
                            casesA.append(line)
                            expect[line] = "ok " + second
                if i % 6 == 0:
                    line = f"cpo {name} {ntk}"
                    casesA.append(line)
                    expect[line] = "miss"
            # the archive of the elements in the order generated (unsorted, duplicate keys): what the containers make of it
            raw = py_save(t, v)
            if raw != py_save(t, nv):
                line = f"load{'+' if i % 2 else ''} {name} {hexs0(raw)}"
                casesA.append(line)
                expect[line] = f"ok {ntk} @{len(raw)}"
            if keyable_name(name):
                for other in (nv, norm(t, gen_val(rng, t, 300)), norm(t, perturb(rng, t, nv))):
                    for a, b in ((nv, other), (other, nv)):
                        line = f"cmp {name} {ntk} {' '.join(toks(t, b))}" if a is nv else f"cmp {name} {' '.join(toks(t, a))} {ntk}"
                        casesA.append(line)
                        expect[line] = "1" if key(t, a) < key(t, b) else "0"
            for op in ("rt", "rt+", "save") + (("srt", "srt+", "ssave", "crt", "zrt", "crt+", "zrt+", "zsv") if name in serializable else ()):
                if op == "zsv" and i % 4:
                    continue
                if op.endswith("+") and i % 3:
                    continue
                # json inside: the same line once more under a process-wide grouping locale (`~`), same expectation
                for sfx in (("", "~") if (name == "j" or name.endswith(".j")) and op in ("rt", "save", "srt", "crt", "zrt") else ("",)):
                    line = f"{op}{sfx} {name} {tk}"
                    casesA.append(line)
                    if op in ("rt", "rt+"):
                        expect[line] = f"ok {ntk} eof=1"
                    elif op in ("srt", "srt+", "crt", "zrt", "crt+", "zrt+", "zsv"):
                        expect[line] = f"ok {ntk}"
                    else:
                        expect[line] = arch
    # payloads around 2^16 (a length field narrower than it should be shows here) -- few, they are long lines
    for name, n in (("s", 65535), ("s", 65536), ("v1", 65537), ("v4", 70000), ("B.s", 66000), ("L.s", 65536)) + \
            ((("s", 1 << 20), ("v8", (1 << 20) + 8), ("M.s.v4", 300000)) if thorough else ()):
        t = types[name]
        pay = rbytes(rng, n)
        v = [pay, b"x"] if name == "L.s" else ([(b"k", pay)] if name == "M.s.v4" else pay)
        nv = norm(t, v)
        ntk = " ".join(toks(t, nv))
        for op in ("rt", "save"):
            line = f"{op} {name} {ntk}"
            casesA.append(line)
            expect[line] = f"ok {ntk} eof=1" if op == "rt" else hexs0(py_save(t, nv))
    # the session's save_data limit (2 MiB per value): the serialised object just below, at and above it,
    # through store_data, save(), a new request's load() and fetch_data
    LIM = 2 * 1024 * 1024
    for name, n in (("B.s", LIM - 4 - 1), ("B.s", LIM - 4), ("B.s", LIM - 4 + 1)) + ((("B.L.s", LIM - 12 - 4 - 1), ("B.L.s", LIM - 12 - 4)) if thorough else ()):
        t = types[name]
        pay = rbytes(rng, n)
        nv = [pay] if name == "B.L.s" else pay
        ntk = " ".join(toks(t, nv))
        line = f"zsv {name} {ntk}"
        casesA.append(line)
        expect[line] = f"ok {ntk}" if len(py_save(t, nv)) < LIM else "toolong"
    # json texts that are not in the writer's canonical form (blanks, unsorted / duplicate keys, escapes, exponents,
    # the parser's extensions): no python oracle, model (C11) and code must agree on the normalised text
    for txt in (b' { "b" : 1 , "a" : [ 1 , 2 ] } ', b'{"a":1,"a":2}', b'"\\u00e9\\n\\t\\/"', b'[1e3,1E-2,-0.0,12345678901234567890]', b'[1,]', b'01',
                b'// c\n[null]', b'"\xc3\xa9\x7f"', b'[0.1,0.2,0.30000000000000004,1e308,5e-324]', b'{"":{"":{}}}', b'[[[[[[[[[[1]]]]]]]]]]',
                b'"\\ud83d\\ude00"', CTRL_STR, b'{' + CTRL_STR + b':[' + CTRL_STR + b']}', b'"\\u000e"', b'"\\u001f\\u000f"', b'{"a":tru}', b'[1 2]', b'', b'nul', b'1e999', b'"\xff"', b'[' * 600 + b']' * 600):
        casesA.append(f"rt j j{txt.hex()}")
        if txt in CTRL_CANON:                       # python oracle: the value's canonical text, written by jcanon below
            expect[casesA[-1]] = f"ok j{CTRL_CANON[txt].hex()} eof=1"
        casesA.append(f"load j {hexs0(struct.pack('<I', len(txt)) + txt)}")
        casesA.append(f"load+ M.s.j {hexs0(struct.pack('<I', 8) + struct.pack('<Q', 1) + struct.pack('<I', 1) + b'k' + struct.pack('<I', len(txt)) + txt)}")
    for _ in range(300 if thorough else 60):
        casesA.append("wr " + " ".join(hexs0(rbytes(rng, rng.choice((0, 0, 1, 2, 7, 8, rng.randrange(0, 70))))) for _ in range(rng.randrange(0, 6))))
    casesA = list(dict.fromkeys(casesA))

    # ---- phase B: malformed archives derived from the valid ones
    casesB = []
    vals_for_mut = values if thorough else [values[i] for i in sorted(rng.sample(range(len(values)), min(len(values), 330)))]
    for name, nv in vals_for_mut:
        t = types[name]
        a = py_save(t, nv)
        if len(a) > (6000 if thorough else 1500):
            continue
        ntk = " ".join(toks(t, nv))
        for line in (f"load {name} {hexs0(a)}", f"load+ {name} {hexs0(a)}"):
            casesB.append(line)
            expect[line] = f"ok {ntk} @{len(a)}"        # a valid archive loads to the value and is consumed entirely
        if name in serializable:
            casesB.append(f"sload {name} {hexs0(a)}")
            casesB.append(f"sload+ {name} {hexs0(a)}")
        for m in mutations(rng, a, thorough):
            casesB.append(f"load{'+' if rng.random() < 0.15 else ''} {name} {hexs0(m)}")
            if name in serializable and rng.random() < 0.3:
                casesB.append(f"sload {name} {hexs0(m)}")
        # one archive object used twice (str() must restart at 0)
        ms2 = mutations(rng, a, False)
        line = f"load2 {name} {hexs0(rng.choice(ms2))} {hexs0(a)}"
        casesB.append(line)
        expect[line] = f"ok {ntk} @{len(a)}"
        casesB.append(f"load2 {name} {hexs0(a)} {hexs0(rng.choice(ms2))}")
        # an archive of one type read as another type
        other = rng.choice(TYPES)
        casesB.append(f"load {other} {hexs0(a)}")
        # raw primitives over the valid archive and two mutations
        hs = headers(a)
        for _ in range(3):
            script = []
            for h in hs[:rng.randrange(1, 8)]:
                L = struct.unpack_from("<I", a, h)[0]
                script.append(rng.choice(("s", "n s", "r%d" % L, "r%d" % L, "e r%d" % L, "n n r%d" % L, "r%d" % max(0, L + rng.choice((-1, 1, 4))))))
            script.append(rng.choice(("e", "n", "s", "r0", "r4", "e e", "z s e", "m n s", "z n")))
            casesB.append(f"ops {hexs0(a)} {' '.join(script)}")
            # reset() / mode(load) rewind: the same reads must give the same answers again
            head = " ".join(x for x in script[:-1] if "z" not in x and "m" not in x)
            if head:
                casesB.append(f"ops {hexs0(a)} {head} {rng.choice('zm')} {head}")
            ms = mutations(rng, a, False)
            casesB.append(f"ops {hexs0(rng.choice(ms))} {' '.join(script)}")
    for _ in range(6000 if thorough else 1200):
        b = rbytes(rng, rng.choice((0, 1, 3, 4, 5, 8, 12, 13, 16, rng.randrange(0, 64))))
        if rng.random() < 0.5 and len(b) >= 4:      # plausible first header
            b = u32(rng.choice((0, 1, 4, 8, len(b) - 4, len(b) - 3, len(b), len(b) - 5 & 0xffffffff))) + b[4:]
        casesB.append(f"load {rng.choice(TYPES)} {hexs0(b)}")
        if rng.random() < 0.2:
            casesB.append(f"ops {hexs0(b)} {' '.join(rng.choice(('n', 's', 'e', 'r0', 'r1', 'r4', 'r8')) for _ in range(rng.randrange(1, 5)))}")
    # small exhaustive spaces: every length field near 0 / near the remaining size / near 2^31 and 2^32, over every body length 0..9
    edge_vals = list(range(0, 14)) + list(range((1 << 32) - 14, 1 << 32)) + list(range((1 << 31) - 4, (1 << 31) + 4))
    edge_types = ("s", "v1", "v2", "p4", "L.s", "R.s", "S.p1" if "S.p1" in types else "S.p4", "B.A3.s")
    for body in range(0, 10):
        for v in edge_vals:
            a = u32(v) + bytes(range(65, 65 + body))
            casesB.append(f"ops {hexs0(a)} n s e")
            casesB.append(f"ops {hexs0(a)} r{min(v, 64)} e")
            for name in edge_types:
                casesB.append(f"load {name} {hexs0(a)}")
            # the same behind a valid 1-byte chunk (ptr_ != 0)
            casesB.append(f"ops {hexs0(u32(1) + b'Z' + a)} s n s e")
            casesB.append(f"load P.p4.s {hexs0(u32(4) + b'ZZZZ' + a)}")
    if thorough:       # every archive of 1 and 2 bytes, every 4-byte archive with three zero bytes, every 5-byte archive with a 1-byte length
        for name in ("s", "v2", "L.s", "R.s"):
            for x in range(256):
                casesB.append(f"load {name} {bytes([x]).hex()}")
                casesB.append(f"load {name} {bytes([x, 0, 0, 0]).hex()}")
                casesB.append(f"load {name} {bytes([x, 0, 0, 0, 65]).hex()}")
                for y in range(256):
                    casesB.append(f"load {name} {bytes([x, y]).hex()}")
    casesB = list(dict.fromkeys(casesB))

    cases = casesA + casesB
    c.log(f"cases: {len(casesA)} valid-value lines, {len(casesB)} malformed/primitive lines")
    out_i, crashes = run_impl(c, hbin, cases)
    rc_m, out_m, err_m = c.run_lines(model, cases, timeout=3000)
    if rc_m != 0 or len(out_m) != len(cases):
        c.broke("model driver crashed or lost lines", err_m)
        out_m = out_m + ["<no output: model driver died>"] * (len(cases) - len(out_m))
    c.evaluations += len(cases)
    c.traces_validated += sum(1 for x in out_i if not x.startswith("<"))
    crash_idx = {k for k, _ in crashes}
    diffs = [(k, cases[k], out_i[k], out_m[k]) for k in range(len(cases)) if out_i[k] != out_m[k] and k not in crash_idx]
    c.log(f"correspond: {len(cases)} cases, {len(diffs)} diffs, {len(crashes)} crashes of the real code")

    # ---- coverage counters
    dist, kinds = {}, {}
    for cs, om in zip(cases, out_m):
        w = cs.split(" ", 2)
        dist[w[0]] = dist.get(w[0], 0) + 1
        w[0] = w[0].rstrip("~").rstrip("+")
        kd = "err" if "err " in om else ("ok" if om.startswith("ok") else "bytes")
        if w[0] in ("load", "sload", "load2", "ops"):
            kk = om.split(" @")[0] if w[0] != "ops" else ("err " + om.split("err ")[1].split()[0] if "err " in om else "ok")
            kk = kk if kk.startswith("err") else "ok"
            kinds[kk] = kinds.get(kk, 0) + 1
        if w[0] == "cmp":
            if len(cs.split()) >= 5:
                c.nontrivial.add(cs)
        elif kd == "err" or (kd in ("ok", "bytes") and len(cs.split()) >= 5) or (w[0] in ("load", "sload", "load2") and kd == "ok" and len(om.split()) >= 4):
            c.nontrivial.add(cs)
    c.extra_cov["op_distribution"] = dist
    c.extra_cov["load_outcomes_in_model"] = kinds
    pick = [0, len(casesA) // 2, len(casesA) + 5, len(casesA) + len(casesB) // 3, len(cases) - 1]
    c.samples = [{"case": cases[i][:400], "impl": out_i[i][:400], "model": out_m[i][:400]} for i in pick if i < len(cases)]

    # ---- judge the implementation's outputs with the property predicate
    bad = []
    jl = []
    for k, (cs, o) in enumerate(zip(cases, out_i)):
        if k in crash_idx or o.startswith("<"):
            continue
        w = cs.split()
        op = w[0].rstrip("~").rstrip("+")
        if op in ("rt", "srt", "crt", "zrt", "zsv", "save", "ssave", "cmp", "zow0", "zow1", "zow2", "cpo"):
            if cs in expect and o != expect[cs]:
                bad.append((k, "round trip / serialization differs from the value (python oracle)"))
        elif op in ("load", "sload", "load2"):
            if cs in expect and o != expect[cs]:
                bad.append((k, "a valid archive did not load to the value it was saved from (python oracle)"))
                continue
            if op == "load2":
                w = [w[0], w[1], w[3]]
            if o in ERRS:
                continue
            if not o.startswith("ok"):
                bad.append((k, "load ended in something else than a value or an archive_error"))
            elif op in ("load", "load2"):
                ow = o.split()
                ptr = ow[-1]
                if not ptr.startswith("@"):
                    bad.append((k, "malformed harness output"))
                else:
                    jl.append((k, f"J {w[1]} {w[2]} {ptr[1:]} {' '.join(ow[1:-1])}"))
        elif op == "ops":
            ot = o.split()
            rew = [i for i, x in enumerate(ot) if x in ("z", "m")]
            sw = w[2:]
            if o.startswith("exception"):
                bad.append((k, "exception other than archive_error"))
            elif len(rew) == 1 and "err" not in ot and len(sw) % 2 == 1 and sw[:len(sw) // 2] == sw[len(sw) // 2 + 1:] \
                    and ot[:rew[0]] != ot[rew[0] + 1:-1]:
                bad.append((k, "after reset()/mode(load_from_archive) the same reads returned something else"))
            else:
                n = 0 if w[1] == "-" else len(w[1]) // 2
                try:
                    if int(o.split("@")[-1]) > n:
                        bad.append((k, "ptr_ beyond the end of the archive"))
                except ValueError:
                    bad.append((k, "malformed harness output"))
    if jl:
        rcj, jout, jerr = c.run_lines(model, [l for _, l in jl], timeout=3000)
        for (k, l), o in zip(jl, jout + ["<none>"] * (len(jl) - len(jout))):
            if o != "1":
                bad.append((k, "Spec.loadOutputOk false on the implementation's result (cursor outside, ill-formed value, or consumed bytes are not the value's serialization)"))
    c.extra_cov["judged_impl_outputs"] = len(jl) + sum(1 for cs in cases if cs.split(" ", 1)[0].rstrip("~").rstrip("+") in ("rt", "srt", "crt", "zrt", "zsv", "save", "ssave", "cmp", "zow0", "zow1", "zow2", "cpo", "ops"))

    for k, err in crashes:
        summ = [l.strip() for l in err.splitlines() if "SUMMARY" in l or "runtime error" in l or "ERROR: AddressSanitizer" in l]
        c.violation("sanitizer abort / crash of the real code: " + (summ[-1][:300] if summ else "no sanitizer summary"), {
            "case": cases[k], "model_output": out_m[k], "sanitizer": summ, "stderr": err[-3500:],
            "replay_cmd": "bin/check C19 --replay <this file>"})
    for k, why in sorted(bad)[:20]:
        c.violation(why, {"case": cases[k][:5000], "impl_output": out_i[k][:3000], "model_output": out_m[k][:3000],
                          "replay_cmd": "bin/check C19 --replay <this file>"})
    if diffs and not bad and not crashes:
        k, cs, a, b = min(diffs, key=lambda d: len(d[1]))
        c.broke("correspondence (model and code disagree, property predicate holds on all explored outputs)",
                f"{len(diffs)} differing cases; shortest: {cs[:1500]}\n impl={a[:1500]}\n model={b[:1500]}")
    elif diffs:
        c.log(f"note: {len(diffs)} model/code differences besides the failing inputs; first: {diffs[0][1][:300]} impl={diffs[0][2][:200]} model={diffs[0][3][:200]}")
    c.finish()


if __name__ == "__main__":
    main()
