#!/usr/bin/env python3
"""C02 — no request, however malformed, crashes the service or disturbs other requests.
See DESIGN.md section 5 (C02) and design.d/C02.md.  Usage: checks/c02.py [--tier quick|thorough] [--replay file]"""
import os, sys, json, random
HERE = os.path.dirname(os.path.abspath(__file__))
sys.path.insert(0, os.path.join(HERE, "..", "lib"))
sys.path.insert(0, os.path.join(HERE, "..", "gen"))
from vcheck import *
from c01run import *

P = "Cppcms.C02.Props."
OBLIGATIONS = [
    (P + "protocol_callbacks_use_nothrow_overloads", "every booster::aio socket operation that can fail with a system error in http_api.cpp / scgi_api.cpp / fastcgi_api.cpp / cgi_acceptor.h (table regenerated) outside constructors uses the overload taking error_code&, and endpoint lookups / byte counts are tested before use (D17, seeded C02-7); the accept path's setsockopt calls are listed as the one exception"),
    (P + "handler_exactly_once", "exit discipline regenerated from the source: after h(...) / starting the next async operation every protocol callback returns"),
    (P + "no_crash_scgi", "SCGI: for all byte streams and segmentations no out-of-range index, no negative/huge resize, no strlen past the buffer"),
    (P + "no_crash_fcgi", "FastCGI: likewise (cache never read into when full, front() only on non-empty vectors, unknown-role body large enough, negative CONTENT_LENGTH never reaches resize); model recursion budgets suffice"),
    (P + "no_crash_http", "HTTP: likewise; header_.resize(size()-2) and bracket_counter_-- never wrap (parser invariant), with or without the 16 KiB cap firing"),
    (P + "record_sizes_exact", "FastCGI record reader: rec_size = content_length + padding_length computed in the declared type of the variable (regenerated, both paths) never wraps for any header the wire can carry; narrowing the type breaks this and no_crash_fcgi"),
    (P + "forwarder_buffer_bounded", "cgi_forwarder (forwarding.rules): the relay buffer sized from CONTENT_LENGTH by the regenerated expression is 1..8192 bytes for every positive CONTENT_LENGTH, however absurd"),
    (P + "forwarder_relay_safe", "cgi_forwarder relay loop: no resize beyond 8 KiB, no front() of an empty vector, for any read lengths"),
    (P + "pool_no_overflow", "string_pool page bookkeeping (page size, allocate_space conditions, which block clear() keeps: regenerated from private/string_map.h): for every sequence of allocations and clear()s no allocation is handed bytes outside its malloc block (D18 is the false case)"),
    (P + "cgi_layer_no_crash", "protocol independent layer (cgi_api.cpp / http_context.cpp / http_request.cpp callbacks regenerated as CStmt programs, interpreted with fall-through semantics): no callback goes on after handing the request on, none ends without handing it on, never two operations pending; the machine stops early only for multipart (C12)"),
    (P + "request_actions_ok", "every request's action list (early main, end-of-content, error page, completion handler, on_error, dispatch) has one of three shapes: application / error page / dropped"),
    (P + "app_at_most_once", "main() on the ready request at most once, exactly when the completion handler was called without error; handler called exactly once on every path; early main() at most once"),
    (P + "on_error_at_most_once", "filter on_error at most once, only after the early main(), only for a failed request, never together with on_end_of_content or a dispatch"),
    (P + "error_is_answered_or_closed", "a failed request is dropped or answered by exactly one error page with status 400..599 and eof, before the handler is told about the error; the application never sees it"),
    (P + "connection_closes_after_error", "all three front-ends, all byte streams and segmentations: only the last outcome of a connection can be an error status, raw 400 or a dropped request; nothing is decoded from the connection afterwards"),
    (P + "actions_refine_outcome", "the Outcome the front-end models use (runRequest) is the summary of the action-level machine, reader state included"),
    (P + "counters_are_actions", "the four application-side counters the correspondence compares (early main, main, on_error, on_end_of_content), read off the model's Outcome, are the numbers of the corresponding actions"),
    (P + "readers_progress", "the content readers of the three front-ends deliver 1..want bytes on success (hypothesis of the action-level theorems)"),
    (P + "parser_invariant", "the parser invariant is kept by every non-returning step of the generated transition"),
]
OBLIGATIONS_FILE = os.path.join(HERE, "c02_obligations.json")
if os.path.exists(OBLIGATIONS_FILE):
    OBLIGATIONS = [tuple(x) for x in json.load(open(OBLIGATIONS_FILE))]


def gen_cases(c, scale):
    rng = c.rng
    cases = load_corpus(ROOT, "C02")
    for i in range(220 * scale):
        r = gen_absreq(rng)
        enc, q, ck = encode_all(r, rng)
        base = cgi_pairs(r, q, ck, rng)
        for api, bad in (("scgi", malformed_scgi(rng, base, r.body)), ("fastcgi", malformed_fcgi(rng, base, r.body)),
                         ("http", malformed_http(rng, r, enc["http"]))):
            for segs in segmentations(rng, bad, 1)[:2]:
                cases.append(Case(api, "rst" if rng.random() < 0.15 else "hc", segs, tag="mutated"))
        # peer half-close / reset in the middle of a well-formed request
        api = rng.choice(APIS)
        d = enc[api]
        if len(d) > 1:
            k = rng.randrange(1, len(d))
            cases.append(Case(api, rng.choice(["hc", "rst"]), cut(d[:k], random_cuts(rng, k, rng.choice([0, 1, 2]))), tag="truncated"))
    # FastCGI records whose content + padding reaches or exceeds 65536 (content 65500..65535, padding 1..255): well-formed
    # (whole, truncated inside the record / inside the padding, followed by a second request on a kept connection) and with
    # a wrong declared padding; the record reader's size arithmetic must not wrap
    for i in range(5 * scale):
        r, q, ck, d, (cc, pp) = fcgi_fullsize(rng, keep=(i % 2 == 0))
        cases.append(Case("fastcgi", "hc", segmentations(rng, d, 1)[-1], tag="fullsize-record"))
        cases.append(Case("fastcgi", "hc", [d], tag="fullsize-record"))
        k = rng.choice([len(d) - 9, len(d) - 8 - pp // 2 - 8, len(d) - 20000, 70000])
        if 0 < k < len(d):
            cases.append(Case("fastcgi", rng.choice(["hc", "rst"]), cut(d[:k], random_cuts(rng, k, 2)), tag="fullsize-record-truncated"))
        if i % 2 == 0:
            r2 = gen_absreq(rng); r2.keep = False
            enc2, _, _ = encode_all(r2, rng)
            cases.append(Case("fastcgi", "hc", segmentations(rng, d + enc2["fastcgi"], 1)[-1], tag="fullsize-record-keepalive"))
        # a lone STDIN-like record with maximal lengths and nothing behind it / garbage behind it
        lone = fcgi_begin(1, 1, 0, 0) + fcgi_rec(FCGI_PARAMS, 1, fcgi_pairs([(b"CONTENT_LENGTH", b"65535"), (b"SCRIPT_NAME", b"/s")])) + fcgi_rec(FCGI_PARAMS, 1, b"")
        lone += fcgi_rec(FCGI_STDIN, 1, b"x" * 65535, pad=0, plen=rng.choice([1, 36, 255])) + rand_bytes(rng, rng.choice([0, 7, 300]), bytes(range(256)))
        cases.append(Case("fastcgi", "hc", segmentations(rng, lone, 1)[-1], tag="fullsize-record-lie"))
    # a complete HTTP request with a large header section, then a reset of the connection 0..400 us after the server took the
    # last byte (getpeername fails with ENOTCONN while the headers are still being parsed: D17, seeded C02-7); repeated with a
    # sweep of delays, header sizes 2..15 KiB and one or two segments.  An exception out of service::run() is hard evidence.
    for i in range(60 * min(scale, 4)):
        r = gen_absreq(rng, bighdr=True)
        r.body = b""; r.post = None; r.ctype = None; r.keep = False
        enc, q, ck = encode_all(r, rng)
        d = enc["http"]
        delay = [0, 0, 5, 10, 20, 35, 50, 75, 100, 150, 200, 300, 400][i % 13]
        segs = [d] if i % 3 else [d[:len(d) // 2], d[len(d) // 2:]]
        cases.append(Case("http", f"rst:{delay}", segs, tag="reset-after-send"))
    # kept-alive connections: first request with one 1025..2040 byte variable, then ordinary / mutated requests
    for i in range(10 * scale):
        api = rng.choice(["http", "fastcgi"])
        parts = []
        for j in range(rng.choice([2, 3])):
            r = gen_absreq(rng, bigvalue=(j == 0))
            if j > 0:
                r.headers += [(b"X-Fill-%d" % t, rand_bytes(rng, rng.choice([200, 300, 600]), TOKEN_CHARS)) for t in range(rng.choice([3, 6, 9]))]
            r.keep = True; r.http11 = True
            enc, q, ck = encode_all(r, rng)
            parts.append(enc[api])
        d = b"".join(parts)
        if rng.random() < 0.3:
            d = mutate_bytes(rng, d)
        cases.append(Case(api, "hc", segmentations(rng, d, 1)[-1], tag="keepalive-largefirst"))
    # truncation at every offset of one short request per front-end
    r = gen_absreq(rng); r.headers = r.headers[:2]; r.path = r.path[:5]; r.body = r.body[:12] if r.post is None else r.body
    enc, q, ck = encode_all(r, rng)
    for api in APIS:
        d = enc[api]
        if len(d) <= 500:
            for k in range(0, len(d)):
                cases.append(Case(api, "hc", [d[:k]], tag="truncated-every-offset"))
    # random bytes (smaller stream), some with a plausible first byte
    for i in range(120 * scale):
        api = rng.choice(APIS)
        n = rng.choice([1, 2, 8, 16, 17, 40, 200, 2000])
        b = bytes(rng.randrange(256) for _ in range(n))
        if rng.random() < 0.5:
            b = {"scgi": b"7:", "fastcgi": b"\x01\x01\x00\x01\x00\x08\x00\x00", "http": b"GET /"}[api] + b
        cases.append(Case(api, "hc", segmentations(rng, b, 1)[-1], tag="random"))
    return cases


def main():
    c = Check("C02")
    c.rule = ("cases = (front-end, byte stream, segmentation, close mode): corpus of past witnesses; grammar mutations of valid requests "
              "(length fields +-1/+-2^31/negative/huge, wrong record type/id/version, role != responder, GET_VALUES, padding lies, missing "
              "terminators, 16 KiB caps, duplicate/odd headers, bad cookies/forms/URIs, keep-alive + junk), truncation at every offset with "
              "peer half-close or reset, random bytes; after every case a well-formed probe on a fresh connection; the decoder model is run "
              "on the read sizes the server performed and compared with the answer; non-trivial = the decoder specification classifies the "
              "stream as an error or as more than one request; distinct = distinct (front-end, bytes, close mode)")
    c.trusted += [
        "translator translate/c01.py (constants, guards, parser transition, exit discipline) -> C01/Gen.lean",
        "hand-written control flow of the front-end models (checked interpreters: out-of-range index / negative resize / front() of an empty vector / strlen overrun = outcome crash), tied by correspondence against the ASan+UBSan build",
        "memory safety of the compiled code itself is observed by ASan/UBSan on the explored inputs, not proved",
        "harness/c02.cpp (= c01.cpp: real services, application counters, probe), externals as for C01",
    ]
    c.assumptions += ["0 < service.input_buffer_size", "requests on other connections are represented by the probe issued after each case (sequential, not concurrent)"]
    scale = 40 if c.tier == "thorough" else 1

    c.translate("c01.py")
    proved = c.prove(["Cppcms.C02.Props"], OBLIGATIONS, exe="c02_model")
    # the C02 theorems live on the C01 models: audit those sources too
    c01dir = os.path.join(LEAN, "Cppcms", "C01")
    for f in sorted(os.listdir(c01dir)):
        if f.endswith(".lean"):
            src = strip_lean_comments(open(os.path.join(c01dir, f)).read())
            for ln, line in enumerate(src.splitlines(), 1):
                m = FORBIDDEN_RE.search(line)
                if m:
                    c.broke("audit", f"forbidden construct {m.group(0).strip()!r} at {f}:{ln}")
    if c.tier == "thorough" and proved:
        c.leanchecker(["Cppcms.C02.Props"])
    model = c.model_exe()
    ok_impl = c.impl_build()
    hbin = c.harness("c02") if ok_impl else None

    if c.replay_path:
        rp = json.load(open(c.replay_path))
        w = rp.get("case", "").split()
        cases = [Case(w[1], w[2], [bytes.fromhex(x) for x in w[3:]], tag="replay")] if len(w) >= 3 else []
    else:
        cases = gen_cases(c, scale)

    fwd_replay = [x for x in cases if x.api == "fwd"]
    cases = [x for x in cases if x.api != "fwd"]
    if hbin and os.path.exists(model) and (cases or fwd_replay):
        hp, crashes = run_impl(c, hbin, cases) if cases else (None, [])
        done = run_model(c, model, cases, hp)
        c.evaluations += len(done)
        c.traces_validated += len(done)
        def judge(cases_done):
            """-> list of (case, why) for which the property predicate is false"""
            jl = [c02_judge_line(x) for x in cases_done]
            rc, jout, jerr = c.run_lines(model, jl, timeout=3000) if jl else (0, [], "")
            if len(jout) != len(jl):
                c.broke("judge", f"model driver answered {len(jout)} of {len(jl)} judge lines: {jerr[-800:]}")
            res = []
            for x, o in zip(cases_done, jout):
                if o != "1":
                    why = "property predicate Spec.c02ok false"
                    if x.d.get("exc", "-") != "-":
                        why += ": exception left service::run(): " + bytes.fromhex(x.d["exc"]).decode("latin1")
                    elif "crash" in x.mflags:
                        why += ": the decoder model reaches an undefined operation: " + x.model
                    elif x.d.get("probe") != "ok":
                        why += ": probe on a fresh connection not answered correctly"
                    elif "T" in x.d.get("flags", ""):
                        why += ": connection neither answered nor closed after the peer's half-close"
                    res.append((x, why))
            return res
        bad = judge(done)
        badset = set(id(x) for x, _ in bad)
        diffs = []
        jl = done
        for x in done:
            if id(x) not in badset and x.mode == "hc" and "multipart" not in x.mflags and x.impl != x.model:
                diffs.append(x)
            if x.model and (" ; " in x.model.split(" | ")[0] or not x.model.startswith("app ")):
                c.nontrivial.add((x.api, x.data(), x.mode))
        c.extra_cov["judged_connections"] = len(jl)
        dist = {}
        for x in done:
            k = x.api + ":" + x.tag.split(":")[0]
            dist[k] = dist.get(k, 0) + 1
        c.extra_cov["case_distribution"] = dist
        kinds = {}
        for x in done:
            m = (x.model or "").split(" | ")[0]
            k = "closed-without-answer" if not m else " ; ".join(o.split()[0] + (" " + o.split()[1] if o.split()[0] in ("status", "mgmt") else "") for o in m.split(" ; "))
            kinds[k] = kinds.get(k, 0) + 1
        c.extra_cov["outcome_distribution"] = dict(sorted(kinds.items(), key=lambda kv: -kv[1])[:25])
        pick = [done[i] for i in (0, len(done) // 3, len(done) // 2, len(done) - 1)] if done else []
        c.samples = [{"case": x.line()[:300], "reads": x.d.get("reads"), "impl": x.impl[:300], "model": x.model[:300]} for x in pick]
        # ---- the service with forwarding.rules (cgi_forwarder): safety of forwarded requests, faithful relay
        fwd = [(x, "absurd") for x in fwd_replay] + (gen_fwd_cases(c.rng, 25 * scale) if not c.replay_path else [])
        fcases = [x for x, _ in fwd]
        kinds = {id(x): k for x, k in fwd}

        def fwd_judge(cases_done):
            res, jl, jx = [], [], []
            for x in cases_done:
                if not x.d or "calls" not in x.d:
                    continue
                kind = kinds.get(id(x), getattr(x, "_kind", "absurd"))
                jl.append(fwd_judge_line(x, kind)); jx.append((x, "property predicate Spec.fwdOk false (forwarded request): " +
                          ("exception left service::run(): " + bytes.fromhex(x.d["exc"]).decode("latin1") if x.d.get("exc", "-") != "-" else
                           "probe / close / answer: flags=" + x.d.get("flags", "?") + " probe=" + x.d.get("probe", "?") + " impl=" + (x.impl or "")[:80])))
                if kind == "wf" and x.absreq is not None:
                    l = view_judge_line(x)
                    if l is None:
                        res.append((x, "well-formed forwarded request was not relayed to the backend / its answer not relayed back"))
                    else:
                        jl.append(l); jx.append((x, "forwarded request: the backend application did not observe the request the peer sent (Spec.viewOk false)"))
            rc, jout, jerr = c.run_lines(model, jl, timeout=3000) if jl else (0, [], "")
            if len(jout) != len(jl):
                c.broke("judge", f"model driver answered {len(jout)} of {len(jl)} judge lines: {jerr[-800:]}")
            for (x, why), o in zip(jx, jout):
                if o != "1":
                    res.append((x, why))
            return res
        if fcases:
            fcr = run_fwd(c, hbin, fcases)
            c.evaluations += len(fcases)
            c.extra_cov["forwarded_cases"] = {k: sum(1 for _, kk in fwd if kk == k) for k in ("wf", "dead", "absurd", "truncated")}
            fbad = fwd_judge(fcases)
            for x, err in fcr:
                fbad.append((x, "sanitizer abort / crash of the real service (forwarded request): " + " ".join(l.strip() for l in err.splitlines() if "ERROR" in l or "runtime error" in l)[:300], err))
            # soft failures of forwarded cases are re-played like the others
            hard = [it for it in fbad if len(it) > 2 or "exception left" in it[1]]
            soft = [it for it in fbad if it not in hard]
            for it in soft[:20]:
                x = it[0]
                again = False
                for _ in range(3):
                    y = clone_case(x); kinds[id(y)] = kinds.get(id(x), "absurd")
                    cr = run_fwd(c, hbin, [y])
                    if cr or fwd_judge([y]):
                        again = True; break
                if again:
                    hard.append((x, it[1] + " (reproduced on re-play)"))
            bad += hard
        for x, err in crashes:
            bad.append((x, crash_reason(err), err))
        if not c.replay_path:
            bad = confirm_soft(c, hbin, model, bad, judge)
        for item in pick_diverse(bad, 20):
            x, why = item[0], item[1]
            c.violation(why, dict(x.replay(), stderr=item[2]) if len(item) > 2 else x.replay())
        if diffs and not bad and not crashes:
            x = diffs[0]
            c.broke("correspondence (model vs real service)", f"{len(diffs)} differing cases; first: {x.line()[:400]}\nimpl : {x.impl[:600]}\nmodel: {x.model[:600]}")
        if c.replay_path:
            for x in cases:
                print("case :", x.line()[:400]); print("obs  :", {k: v for k, v in (x.d or {}).items() if k != "reply"}); print("impl :", x.impl); print("model:", x.model)
    c.finish()


if __name__ == "__main__":
    main()
