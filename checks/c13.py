#!/usr/bin/env python3
"""C13 — the built-in file server never serves anything outside its document roots.
See DESIGN.md section 5 (C13) and design.d/C13.md.
Usage: checks/c13.py [--tier quick|thorough] [--replay file]"""
import os, sys, json, socket, stat, shutil, itertools
sys.path.insert(0, os.path.join(os.path.dirname(os.path.abspath(__file__)), "..", "lib"))
from vcheck import *

P = "Cppcms.C13.Props."
OBLIGATIONS = [
    (P + "file_server_property", "HEADLINE: for every HTTP request target, roots that are realpath answers and a POSIX file system: reply = 404 | redirect to path+'/' | listing (enabled, confined directory, non-dot escaped rows) | content of a confined REGULAR file (composition of the theorems below)"),
    (P + "normalize_never_climbs", "for EVERY byte string p: normalize p is absolute and has no empty, '.' or '..' component (Spec.canonical)"),
    (P + "normalize_fixes_canonical", "a canonical path is left unchanged by normalize (so the model is not trivially safe); corollary normalize_idempotent"),
    (P + "normalize_resolves_dots_and_slashes", "for a request without a '..' piece: components of normalize p = the pieces of p minus the empty and '.' ones, in order"),
    (P + "normalize_idempotent", "normalize (normalize p) = normalize p for every byte string"),
    (P + "normalize_bytes_from_input", "every byte of normalize p is a byte of p or '/' (so a NUL-free request stays NUL-free)"),
    (P + "is_file_prefix_iff_component_prefix", "for canonical p, f: is_file_prefix p f <-> components of p are a list prefix of the components of f ('/al' does not match '/alX')"),
    (P + "alias_choice_component_wise", "the alias loop picks the first alias whose (canonical) url is a component-wise prefix of the normalised request, else the document root; the remainder is canonical"),
    (P + "constructor_establishes_roots", "an accepted configuration stores only realpath answers as roots (RootsCanonical and NUL-freeness are established by the constructor)"),
    (P + "constructor_refuses_unresolvable_alias", "an alias whose target realpath cannot resolve makes the constructor throw: no instance, nothing served, never an alias with an empty root"),
    (P + "served_inside_root_symlinks", "check_symlink on: whatever main opens (file or directory) is a realpath answer for root//rest of the chosen root and has that root as component-wise prefix"),
    (P + "served_lexical_no_symlink_check", "check_symlink off: whatever main opens is root ++ rest (as a std::string) with rest canonical (no '..'), root the chosen root"),
    (P + "served_lexical_cstring", "check_symlink off and NUL-free PATH_INFO/index/roots: the C string the kernel gets is that same root ++ rest"),
    (P + "http_request_confined", "for EVERY request target: the two confinement theorems composed with the HTTP glue (urldecode, NUL cut); no assumption on the request left"),
    (P + "nul_truncation_needs_hypothesis", "model-level witness: with a NUL inside file_name, check_symlink off and listing on, main lists root/.. (why served_lexical_cstring needs NUL-freeness; unreachable: PATH_INFO is a C string)"),
    (P + "path_info_nul_free", "PATH_INFO derived from any HTTP request target is NUL-free"),
    (P + "only_regular_files_streamed", "serve path c: stat(path) has the S_IFREG bit and c is what reading path returned"),
    (P + "only_regular_files_streamed_posix", "under POSIX file types (stat follows links) and 'a socket cannot be opened for reading': a streamed file is S_IFREG"),
    (P + "listing_only_when_enabled", "a listing is produced only if file_server.listing is on"),
    (P + "listing_skips_dotfiles_and_escapes", "every row of a listing is an entry of the directory read, does not start with '.', and its text un-escapes to name(+'/') with no < > \" ' and only well-formed &-references; the title is the escaped request path"),
    (P + "listing_href_attribute_safe", "every row's href (urlencode(name)+'/'? over the byte classes extracted from urlencode_impl) has none of ' \" < > &, so the anchor <a href='..'>text</a> parses back as exactly (href, text) and satisfies Spec.rowOk"),
    (P + "listing_rows_exact", "names shown = readdir entries, in order, filtered by: not starting with '.', stat ok with S_IFDIR or S_IFREG bit"),
    (P + "defaults_are_safe", "constructor defaults extracted from the source: check_symlink on, listing off, index.html"),
    (P + "redirect_target", "a redirect goes to file_name ++ '/' only, for a directory, when an index exists or listing is on"),
]

IDX = b"index.html"


# --------------------------------------------------------------------------- sandbox
def mk(path, content=None):
    os.makedirs(os.path.dirname(path), exist_ok=True)
    with open(path, "wb") as f:
        f.write(content)


def build_sandbox(scratch):
    """fixed tree; every file carries a unique marker; OUTSIDE:* files must never be served with
    symlink checking on"""
    T = os.path.join(os.path.realpath(scratch), "tree").encode()
    shutil.rmtree(T, ignore_errors=True)
    j = lambda *a: os.path.join(T, *a)
    mk(j(b"secret.txt"), b"OUTSIDE:secret")
    mk(j(b"outdir", b"o1.txt"), b"OUTSIDE:o1")
    mk(j(b"outdir", b"index.html"), b"OUTSIDE:oidx")
    mk(j(b"outdir", b"deep", b"o2.txt"), b"OUTSIDE:o2")
    mk(j(b"top.txt"), b"OUTSIDE:top-unlinked")          # no symlink anywhere points at these three
    mk(j(b"unlinked", b"u.txt"), b"OUTSIDE:unlinked-u")
    mk(j(b"al1x", b"leak.txt"), b"OUTSIDE:al1x-leak")   # sibling whose name has an alias target's name as string prefix
    mk(j(b"rootX", b"rx.txt"), b"OUTSIDE:rx")
    mk(j(b"rootX", b"index.html"), b"OUTSIDE:rxidx")
    R = j(b"root")
    r = lambda *a: os.path.join(R, *a)
    mk(r(b"index.html"), b"IN:root-index")
    mk(r(b"a.txt"), b"IN:a")
    mk(r(b".hidden"), b"IN:hidden")
    mk(r(b".hdir", b"h.txt"), b"IN:hdir-h")
    mk(r(b"sub", b"b.txt"), b"IN:sub-b")
    mk(r(b"sub", b"inner", b"c.txt"), b"IN:sub-inner-c")
    mk(r(b"sub", b".dot"), b"IN:sub-dot")
    mk(r(b"sub2", b"index.html"), b"IN:sub2-index")
    mk(r(b"sub2", b"z.txt"), b"IN:sub2-z")
    mk(r(b"idxdir", b"index.html", b"q.txt"), b"IN:idxdir-q")
    mk(r(b"al", b"x.txt"), b"IN:shadowed-al-x")
    mk(r(b"al", b"deep", b"d.txt"), b"IN:al-deep-d")
    mk(r(b"alX", b"y.txt"), b"IN:alX-y")
    mk(r(b"ac", b"w.txt"), b"IN:ac-w")
    mk(r(b"..."), b"IN:threedots")
    mk(r(b"..x", b"t.txt"), b"IN:dotdotx-t")
    os.makedirs(r(b"empty"))
    for nm, c in ((b"we<ird>&'\"n.txt", b"IN:weird"), (b"sp ace.txt", b"IN:space"), (b"\xff\xfe.bin", b"IN:nonutf8"),
                  (b"uni\xc3\xa9.txt", b"IN:utf8"), (b"a+b%41.txt", b"IN:plus"), (b"<b>dir", None), (b"amp&lt;.txt", b"IN:amp"),
                  (b"q?x.txt", b"IN:qmark"), (b"tab\tnl.txt", b"IN:tab")):
        if c is None:
            mk(r(nm, b"in<.txt"), b"IN:bdir")
        else:
            mk(r(nm), c)
    # directories whose index file is a symbolic link: to a file outside every root, and to a file inside
    os.makedirs(r(b"pub")); os.makedirs(r(b"pubin")); os.makedirs(r(b"sub", b"pub2"))
    mk(r(b"pub", b"other.txt"), b"IN:pub-other")
    os.symlink(b"../../secret.txt", r(b"pub", b"index.html"))
    os.symlink(b"../a.txt", r(b"pubin", b"index.html"))
    os.symlink(b"../../../outdir/o1.txt", r(b"sub", b"pub2", b"index.html"))
    # index.html -> a DIRECTORY outside / inside (an out-parameter overwritten by a rejected resolution must not be listed)
    os.makedirs(r(b"pubd")); os.makedirs(r(b"pubdin"))
    mk(r(b"pubd", b"own.txt"), b"IN:pubd-own")
    mk(r(b"pubdin", b"own.txt"), b"IN:pubdin-own")
    os.symlink(b"../../outdir", r(b"pubd", b"index.html"))
    os.symlink(b"../sub", r(b"pubdin", b"index.html"))
    # links to a character device: never "the contents of a regular file" (only /dev/null: no endless stream)
    os.symlink(b"/dev/null", r(b"ln_devnull"))
    os.makedirs(r(b"devidx"))
    os.symlink(b"/dev/null", r(b"devidx", b"index.html"))
    # entry names drawn from everything that matters inside markup, an attribute value or a URL
    for i, nm in enumerate((b"it's here.txt", b"x' onmouseover='alert(1)", b'q"uote.txt', b"a&b.txt", b"a&amp;b.txt", b"l<t.txt", b"g>t.txt",
                            b"sp ace.txt", b"pc%41.txt", b"pc%27.txt", b"q?m.txt", b"h#sh.txt", b"uni\xc3\xa9.txt", b"\xff\xfe.bin", b"!*().txt",
                            b"'", b"'>", b"semi;colon=eq.txt", b"plus+.txt", b"back\\slash.txt", b"nl\nname.txt", b"~tilde-_..txt")):
        mk(r(b"names", nm), b"IN:names-%d" % i)
    os.makedirs(r(b"names", b"d'ir"))
    os.makedirs(r(b"names", b"<i>dir"))
    os.symlink(b"sub", r(b"ln_in"))
    os.symlink(b"../outdir", r(b"ln_out"))
    os.symlink(b"../secret.txt", r(b"ln_file_out"))
    os.symlink(b"a.txt", r(b"ln_file_in"))
    os.symlink(r(b"sub2"), r(b"ln_abs_in"))
    os.symlink(b"../rootX", r(b"ln_rootX"))
    os.symlink(b"../al1", r(b"ln_al1"))
    os.symlink(b"nowhere", r(b"ln_dangling"))
    os.symlink(b"ln_loop", r(b"ln_loop"))
    os.symlink(b"..", r(b"sub", b"ln_up"))
    os.symlink(b"../../outdir", r(b"sub", b"ln_upup"))   # climbs out, but only into outdir: the tree top stays unreachable
    os.mkfifo(r(b"fifo"))
    os.makedirs(r(b"sockdir"))
    cwd = os.getcwd()
    for d, nm in ((R, b"sock"), (r(b"sockdir"), b"index.html")):
        os.chdir(d)
        s = socket.socket(socket.AF_UNIX, socket.SOCK_STREAM)
        s.bind(nm)
        s.close()
    os.chdir(cwd)
    A1 = j(b"al1")
    mk(os.path.join(A1, b"t1.txt"), b"AL1:t1")
    mk(os.path.join(A1, b"sub", b"u.txt"), b"AL1:sub-u")
    mk(os.path.join(A1, b"deep", b"v.txt"), b"AL1:deep-v")
    mk(os.path.join(A1, b".dot1"), b"AL1:dot")
    mk(os.path.join(A1, b"quo'te.txt"), b"AL1:quote")
    os.makedirs(os.path.join(A1, b"pub"))
    os.symlink(b"../../top.txt", os.path.join(A1, b"pub", b"index.html"))
    os.symlink(b"../root", os.path.join(A1, b"ln_root"))
    os.symlink(b"../secret.txt", os.path.join(A1, b"ln_secret"))
    A2 = j(b"al2")
    mk(os.path.join(A2, b"t2.txt"), b"AL2:t2")
    mk(os.path.join(A2, b"index.html"), b"AL2:index")
    mk(os.path.join(A2, b"d.txt"), b"AL2:d")
    return {"T": T, "root": R, "al1": A1, "al2": A2}


def alias_sets(sb):
    a1, a2 = sb["al1"], sb["al2"]
    return [
        [],
        [(b"/al", a1)],
        [(b"/al", a1), (b"/other/x", a2)],
        [(b"/al/deep", a2), (b"/al", a1)],
        [(b"/al", a1), (b"/al/deep", a2)],
        [(b"/al/", a1)],                      # non-canonical url (config "/al//"): matches, then always 404
        [(b"/alX", a2), (b"/al", a1)],
        [(b"/sub", a1)],                      # alias shadowing a real directory of the document root
        [(b"/media", sb["T"] + b"/missing")],             # target unresolvable at start-up: the constructor must refuse
        [(b"/al", a1), (b"/media", sb["T"] + b"/missing/deeper")],
    ]


def cfg_line(sym, lst, asy, root, aliases, index=IDX, rp=None):
    """rp: libc realpath answers (recorded by the harness) for the configured paths, for the model's constructor"""
    al = ",".join(hexs(u) + ":" + hexs(t) for u, t in aliases) if aliases else "-"
    tab = ""
    if rp is not None:
        tab = "".join(f" R:{hexs(p)}={hexs(rp[p]) if rp[p] is not None else '!'}" for p in dict.fromkeys([root] + [t for _, t in aliases]))
    return f"cfg {int(sym)} {int(lst)} {int(asy)} {hexs(root)} {al} {hexs(index)}{tab}"


# --------------------------------------------------------------------------- generators
NAMES = [b"a.txt", b"sub", b"sub2", b"inner", b"b.txt", b"c.txt", b"index.html", b".hidden", b".hdir", b"h.txt", b".dot",
         b"al", b"alX", b"ac", b"x.txt", b"y.txt", b"w.txt", b"deep", b"d.txt", b"ln_in", b"ln_out", b"ln_file_out", b"ln_file_in",
         b"ln_abs_in", b"ln_rootX", b"ln_al1", b"ln_dangling", b"ln_loop", b"ln_up", b"ln_upup", b"o1.txt", b"o2.txt",
         b"secret.txt", b"outdir", b"rootX", b"rx.txt", b"root", b"al1", b"al2", b"top.txt", b"unlinked", b"u.txt", b"al1x", b"leak.txt", b"pub", b"pubin", b"pub2", b"pubd", b"pubdin", b"ln_devnull", b"devidx", b"own.txt", b"media", b"names", b"it's here.txt", b"d'ir", b"other.txt", b"t1.txt", b"t2.txt", b"u.txt", b"v.txt",
         b"other", b"x", b"ln_root", b"ln_secret", b"fifo", b"sock", b"sockdir", b"empty", b"idxdir", b"q.txt", b"...", b"..x",
         b"t.txt", b"z.txt", b"we<ird>&'\"n.txt", b"sp ace.txt", b"\xff\xfe.bin", b"uni\xc3\xa9.txt", b"a+b%41.txt", b"<b>dir",
         b"in<.txt", b"amp&lt;.txt", b"q?x.txt", b"tab\tnl.txt", b"nosuch"]
SPECIAL = [b".", b"..", b"", b"..", b".", b"", b"...", b"al.", b"al..", b"alX", b"a", b"al\x00", b"..\x00", b".\x00x", b"\x00",
           b"\xff", b"\xc0\xaf", b"..\xc0\xaf", b"%", b"%2e%2e", b"..;", b". .", b".. ", b" ..", b"..\\", b"\\..", b"~"]
RAW_OK = set(b"ABCDEFGHIJKLMNOPQRSTUVWXYZabcdefghijklmnopqrstuvwxyz0123456789-_.~/")


def walk_path(rng, sb, aliases):
    """a path that exists (possibly through symlinks), as url segments"""
    start = [(b"", sb["root"])] + [(u, t) for u, t in aliases]
    pre, real = rng.choice(start)
    segs = [s for s in pre.split(b"/") if s]
    if aliases and rng.random() < 0.15:
        # an alias url again after the first one (a second match must not be applied to the remainder)
        segs += [s for s in rng.choice(aliases)[0].split(b"/") if s]
    cur = real
    for _ in range(rng.randrange(0, 5)):
        try:
            ents = sorted(os.listdir(cur))
        except OSError:
            break
        if not ents:
            break
        e = rng.choice(ents)
        segs.append(e)
        cur = os.path.join(cur, e)
    return segs


def gen_segments(rng, sb, aliases):
    r = rng.random()
    if r < 0.55:
        segs = walk_path(rng, sb, aliases)
    elif r < 0.8:
        segs = [rng.choice(NAMES) for _ in range(rng.randrange(0, 5))]
    else:
        segs = [rng.choice(NAMES + SPECIAL) for _ in range(rng.randrange(0, 7))]
    # mutations: climb, dots, empties, near-alias, trailing slash
    for _ in range(rng.choice((0, 0, 1, 1, 2, 3))):
        k = rng.randrange(0, len(segs) + 1)
        m = rng.random()
        if m < 0.35:
            segs[k:k] = [b".."] * rng.choice((1, 1, 2, 3, 6))
        elif m < 0.5:
            segs[k:k] = [rng.choice((b".", b""))]
        elif m < 0.75:
            segs[k:k] = [rng.choice(SPECIAL)]
        elif m < 0.9:
            segs[k:k] = [rng.choice(NAMES)]
        elif segs:
            k = min(k, len(segs) - 1)
            segs[k] = segs[k] + rng.choice((b"X", b".", b"..", b"\x00", b"\x00.."))
    if rng.random() < 0.3:
        segs.append(b"")
    return segs


def encode_target(rng, segs, flavour):
    """url-encode segments into a request target.  flavour 0: minimal encoding; 1: random extra
    encoding incl. separators; 2: everything percent-encoded"""
    out = bytearray(b"/")
    for i, s in enumerate(segs):
        if i:
            sep = b"/"
            if flavour and rng.random() < 0.25:
                sep = rng.choice((b"%2f", b"%2F", b"//", b"/./", b"/%2e/"))
            out += sep
        for ch in s:
            enc = ch not in RAW_OK or ch == 0x2f
            if ch >= 0x80 and flavour == 0 and rng.random() < 0.5:
                enc = False
            if flavour == 1 and rng.random() < 0.2:
                enc = True
            if flavour == 2:
                enc = True
            if enc:
                out += b"%%%02x" % ch if rng.random() < 0.5 else b"%%%02X" % ch
            else:
                out.append(ch)
    if rng.random() < 0.05:
        out += b"?" + rng.choice((b"x=1", b"/../..", b""))
    return bytes(out)


MALFORMED = [b"/%", b"/%4", b"/%zz/a.txt", b"/a.txt%", b"/%2", b"/sub%2", b"/a%2etxt", b"/+", b"/sp+ace.txt", b"/sp%20ace.txt",
             b"/%2e%2e/%2e%2e/secret.txt", b"/..%2fsecret.txt", b"/..%2f..%2fsecret.txt", b"/%2e%2e%2fsecret.txt", b"/sub/..%2f..%2fsecret.txt",
             b"/al../secret.txt", b"/al/../../secret.txt", b"/al/..%00/", b"/..%00/", b"/..%00", b"/sub/..%00/", b"/%00", b"/a.txt%00.html",
             b"/ln_out/o1.txt", b"/ln_out/", b"/ln_out", b"/ln_file_out", b"/ln_rootX/rx.txt", b"/ln_rootX/", b"/ln_rootX", b"/sub/ln_upup/o1.txt", b"/sub/ln_upup/../top.txt",
             b"/sub/ln_upup/", b"/sub/ln_up/a.txt", b"/ln_al1/t1.txt", b"/al/ln_root/a.txt", b"/al/ln_secret", b"/al/t1.txt", b"/al", b"/al/", b"/alX/y.txt",
             b"/alX", b"/alX/", b"/al/deep/v.txt", b"/al/deep/d.txt", b"/al/deep", b"/al/deep/", b"/other/x/t2.txt", b"/other/x", b"/other/x/",
             b"/other", b"/sub/t1.txt", b"/sub/b.txt", b"/sub", b"/sub/", b"/", b"//", b"/.", b"/..", b"/../", b"/./", b"/index.html", b"/sub2", b"/sub2/",
             b"/idxdir", b"/idxdir/", b"/sockdir", b"/sockdir/", b"/sock", b"/sock/", b"/fifo", b"/fifo/", b"/empty", b"/empty/", b"/.hidden", b"/.hdir/",
             b"/.hdir/h.txt", b"/a/b/../c", b"/a/c/../w.txt", b"/a/../ac/w.txt", b"/sub/inner/../b.txt", b"/sub/inner/../../a.txt", b"/a.txt/", b"/a.txt/.",
             b"/a.txt/..", b"/a.txt/../a.txt", b"/ln_dangling", b"/ln_loop", b"/ln_loop/", b"/%3cb%3edir/", b"/%3cb%3edir", b"/<b>dir/", b"/.../", b"/...",
             b"/..x/", b"/..x/t.txt", b"/%ff%fe.bin", b"/\xff\xfe.bin", b"/a.txt?/../../secret.txt", b"/?", b"/sub?x", b"/we%3Cird%3E%26%27%22n.txt",
             b"/q%3fx.txt", b"/tab%09nl.txt", b"/ln_abs_in/", b"/ln_abs_in/z.txt", b"/ln_in/b.txt", b"/ln_in", b"/ln_file_in", b"/root/a.txt", b"/../root/a.txt",
             b"/../rootX/rx.txt", b"/..../", b"/sub/.../", b"/pub/", b"/pub", b"/pub/index.html", b"/pubin/", b"/pubin", b"/sub/pub2/", b"/sub/pub2", b"/al/pub/", b"/al/pub",
             b"/ln_in/pub2/", b"/pubd/", b"/pubd", b"/pubdin/", b"/pubdin", b"/ln_devnull", b"/ln_devnull/", b"/devidx/", b"/devidx", b"/devidx/index.html", b"/names/", b"/names", b"/names/d%27ir/", b"/names/it%27s%20here.txt", b"/names/%3ci%3edir/", b"/al/deep/al/t1.txt", b"/al/al/t1.txt", b"/al/deep/al/deep/v.txt", b"/al/deep/al/", b"/alX/al/t1.txt", b"/other/x/al/t1.txt",
             b"/../top.txt", b"/../unlinked/u.txt", b"/../unlinked/", b"/al/x/leak.txt", b"/al/../al1x/leak.txt",
             b"/%2e%2e/top.txt", b"/sub/../../top.txt", b"/al/%2e%2e/%2e%2e/top.txt", b"/" + b"a/" * 3000, b"/" + b"../" * 2000 + b"secret.txt", b"/" + b"sub/ln_up/" * 400 + b"a.txt",
             b"/" + b"x" * 300, b"/sub/" + b"y" * 5000,
             # near the HTTP front end's 16 KiB header window (beyond it the connection is closed without a reply)
             b"/sub/" + b"../sub/" * 2100 + b"b.txt", b"/" + b"sub/ln_up/" * 1500 + b"a.txt", b"/" + b"%2e%2e%2f" * 1700 + b"top.txt",
             b"/al/" + b"./" * 7000 + b"t1.txt"]


def py_urldecode(t):
    """input generation only (the model has its own definition, tied by the end-to-end stream)"""
    t = t.split(b"?")[0]
    out = bytearray()
    i = 0
    hexd = b"0123456789abcdefABCDEF"
    while i < len(t):
        c = t[i]
        if c == 0x2b:
            out.append(0x20)
        elif c == 0x25:
            if i + 2 < len(t) + 0 and len(t) - i >= 3 and t[i + 1] in hexd and t[i + 2] in hexd:
                out.append(int(t[i + 1:i + 3], 16)); i += 2
        else:
            out.append(c)
        i += 1
    return bytes(out)


ENUM_SEGS = [b"sub", b"..", b".", b"", b"ln_out", b"al", b"alX", b"a.txt", b"index.html", b"ln_up", b"deep", b"..%00", b"pub", b"pubd"]


def enum_targets(depth):
    """every path of up to `depth` segments over ENUM_SEGS, with and without trailing slash"""
    out = []
    for d in range(1, depth + 1):
        for tup in itertools.product(ENUM_SEGS, repeat=d):
            t = b"/" + b"/".join(tup)
            out.append(t)
            if tup[-1] != b"":
                out.append(t + b"/")
    return out


def gen_targets(rng, sb, aliases, n, first=()):
    res = list(first)
    while len(res) < n:
        segs = gen_segments(rng, sb, aliases)
        t = encode_target(rng, segs, rng.choice((0, 0, 1, 1, 2)))
        if len(t) < 7000:
            res.append(t)
    return list(dict.fromkeys(res))


def canon_segments_strings(rng, n):
    """canonical and near-canonical path strings for the is_file_prefix stream"""
    comps = [b"a", b"al", b"alX", b"al.", b"b", b"root", b"rootX", b"x", b"..x", b"...", b"\xff", b"a\x00b", b"deep"]
    out = []
    for _ in range(n):
        k = rng.randrange(0, 4)
        p = [rng.choice(comps) for _ in range(k)]
        m = rng.random()
        if m < 0.5:
            f = p + [rng.choice(comps) for _ in range(rng.randrange(0, 3))]
        elif m < 0.7 and p:
            f = p[:-1] + [p[-1] + rng.choice((b"X", b".", b"a", b"\x00"))] + [rng.choice(comps) for _ in range(rng.randrange(0, 2))]
        elif m < 0.8 and p:
            f = p[:-1] + [p[-1][:-1]] if len(p[-1]) > 1 else p[:-1]
        else:
            f = [rng.choice(comps) for _ in range(rng.randrange(0, 4))]
        ps = b"/" + b"/".join(p)
        fs = b"/" + b"/".join(f)
        if rng.random() < 0.1:
            ps += b"/"
        if rng.random() < 0.1:
            fs += b"/"
        if rng.random() < 0.05:
            ps = ps[1:]
        out.append((ps, fs))
    return out


# --------------------------------------------------------------------------- judge helpers
def reachable_files(roots):
    """real paths of regular files reachable from the roots when symlinks are followed freely
    (what check_symlink=false permits); directories likewise"""
    files, dirs, seen = set(), set(), set()
    stack = [os.path.realpath(r) for r in roots]
    while stack:
        d = stack.pop()
        if d in seen:
            continue
        seen.add(d)
        dirs.add(d)
        try:
            ents = os.listdir(d)
        except OSError:
            continue
        for e in ents:
            p = os.path.realpath(os.path.join(d, e))
            try:
                st = os.stat(p)
            except OSError:
                continue
            if stat.S_ISDIR(st.st_mode):
                stack.append(p)
            elif stat.S_ISREG(st.st_mode):
                files.add(p)
    return files, dirs


def all_files(T):
    m = {}
    for dp, dn, fn in os.walk(T):
        for f in fn:
            p = os.path.join(dp, f)
            if os.path.islink(p) or not os.path.isfile(p):
                continue
            m[open(p, "rb").read()] = p
    return m


def under(root, p):
    return p == root or p.startswith(root.rstrip(b"/") + b"/")


def main():
    c = Check("C13")
    thorough = c.tier == "thorough"
    c.rule = ("streams: norm = file_server::normalize_path on generated segment strings (names, '.', '..', '', dot-files, near-alias, NUL, "
              "non-UTF-8, long); prefix = is_file_prefix on (near-)canonical path pairs; cidr = check_in_document_root called directly on a "
              "file_server instance (file names incl. NUL) per configuration; req = GET over loopback HTTP against a cppcms::service with "
              "file_server.enable over the sandbox tree, per configuration (check_symlink x listing x sync/async/async-handler x 8 alias sets): corpus, "
              "fixed traversal list, every path of <= 2 (thorough: 3) segments over 12 key segments, random walks of the real tree with mutations. The model "
              "gets the sandbox as a table of realpath/stat/readdir/read answers recorded from libc by the harness. non-trivial = model "
              "outcome is not 404/none (a file, listing, redirect or accepted path) or, for norm/prefix, output differs from input / is 1; "
              "distinct = distinct (configuration, case) lines")
    c.trusted += [
        "translator translate/c13.py (characters, strings, lengths, comparison operators, mode masks, defaults of internal_file_server.cpp; escape table of util.cpp -> Gen.lean; whitespace-free templates pin the control-flow shape)",
        "hand-written control flow of Model.lean (normalize loop, alias scan, decision tree of main, list_dir loop, HTTP target -> PATH_INFO glue), tied by the four correspondence streams",
        "externals as the parameter Fs: realpath/canonicalize_file_name, stat, opendir/readdir_r, ifstream open+read; kernel path resolution",
        "correspondence harness harness/c13.cpp (compiles src/internal_file_server.cpp from the working tree into the harness with -fno-access-control; ASan+UBSan)",
        "python side of the check: sandbox construction, reachability sets used by the outside-marker judge",
    ]
    c.assumptions += [
        "FsLaws: every realpath answer is canonical (absolute, no empty/'.'/'..' component, no trailing slash) — POSIX realpath",
        "document root and alias targets are realpath answers (the constructor canonicalises them); alias urls are canonical for the alias-choice theorem",
        "PATH_INFO is a C string (true of all three front ends: the CGI environment holds C strings)",
        "no file-system change between realpath/stat and open (TOCTOU is out of reach)",
        "only_regular_files_streamed_posix: stat reports one of the POSIX types and never S_IFLNK; opening a socket for reading fails",
    ]
    gen = os.path.join(LEAN, "Cppcms", "C13", "Gen.lean")
    ref = os.path.join(LEAN, "Cppcms", "C13", "Gen.reference")
    if not c.translate("c13.py"):
        # the source no longer has the shape the extractor understands (already recorded as a broken tie):
        # go on against the reference model (generated from the tree this check was developed on), not
        # against whatever an earlier run left in Gen.lean
        shutil.copyfile(ref, gen)
        c.log("translator failed: Gen.lean reset to Gen.reference for the correspondence/search stages")
    elif open(gen).read() != open(ref).read():
        c.log("note: regenerated Gen.lean differs from Gen.reference (the source's constants/operators changed)")
    proved = c.prove(["Cppcms.C13.Props"], OBLIGATIONS, exe="c13_model")
    if thorough and proved:
        c.leanchecker(["Cppcms.C13.Props"])
    model = c.model_exe()
    ok_impl = c.impl_build()
    hbin = c.harness("c13", extra=["-fno-access-control"]) if ok_impl else None
    if not (hbin and os.path.exists(model)):
        c.finish()

    sb = build_sandbox(c.scratch)
    rng = c.rng
    T = sb["T"]
    markers = all_files(T)
    ASETS = alias_sets(sb)
    cfg_paths = list(dict.fromkeys([sb["root"]] + [t for a in ASETS for _, t in a]))
    rc_, rp_out, err_ = c.run_lines(hbin, ["rp " + hexs(p) for p in cfg_paths])
    if rc_ != 0 or len(rp_out) != len(cfg_paths):
        c.broke("harness rp stage", err_[-500:])
        c.finish()
    RP = {p: (None if o == "!" else unhex(o)) for p, o in zip(cfg_paths, rp_out)}
    # absolute paths of files no root contains, requested below an alias url (an alias registered with an empty
    # root would resolve them from the file-system root)
    ABS_TARGETS = [u + p for u in (b"/media", b"/al", b"") for p in
                   (T + b"/top.txt", T + b"/unlinked/u.txt", T + b"/unlinked/", T + b"/secret.txt", b"/etc/passwd", b"/etc/", T + b"/root/a.txt")]
    viol = []      # (what, replay dict) of the per-configuration streams, emitted at the end
    unit_viol = []  # same for the norm / prefix streams

    def jrun(lines):
        if not lines:
            return []
        rc, out, err = c.run_lines(model, lines)
        if rc != 0 or len(out) != len(lines):
            c.broke("judge driver", f"rc={rc} {err[-500:]}")
            return ["?"] * len(lines)
        return out

    replay = json.load(open(c.replay_path)) if c.replay_path else None

    # ------------------------------------------------------------ stream norm
    if replay is None or replay.get("stream") == "norm":
        if replay:
            cases = [replay["case"]]
        else:
            inputs = [b"", b"/", b"/a/b/../c", b"/var/www/../../../xx", b"../test/./", b"/a/b/c/../..", b"a", b"//", b"/..", b"/../..", b"/a/..b/..", b"/a/./..", b"/.a/../.", b"/a/.\x00/..", b"\x00", b"/\x00/..", b"/a/b/../../../../c/", b"/a/../..b", b"/x/.../..", b"/./.", b"/.//."]
            inputs += [py_urldecode(t) for t in MALFORMED]
            n = 40000 if thorough else 6000
            for _ in range(n):
                segs = [rng.choice(NAMES + SPECIAL * 3) if rng.random() < 0.8 else bytes(rng.choice(b"./a\x00\xff") for _ in range(rng.randrange(0, 4)))
                        for _ in range(rng.randrange(0, 8))]
                s = (b"/" if rng.random() < 0.85 else b"") + rng.choice((b"/", b"/", b"/", b"//", b"/./")).join(segs)
                inputs.append(s)
            # exhaustive short strings over the alphabet the code distinguishes
            al = [b"/", b".", b"a", b"\x00"]
            for L in range(0, 8 if thorough else 7):
                for tup in itertools.product(al, repeat=L):
                    inputs.append(b"".join(tup))
            cases = ["norm " + hexs(s) for s in dict.fromkeys(inputs)]
        out_i, out_m, diffs, crashed = c.correspond("norm", cases, hbin, model,
                                                    nontrivial=lambda cs, o: ("norm", cs) if o != cs.split()[1] else None)
        if crashed:
            c.violation("sanitizer abort / crash in normalize_path", {"stream": "norm", "case": crashed["case"], "stderr": crashed["stderr"]})
        j = jrun([f"J norm {o}" if re.fullmatch(r"[0-9a-f]+|-", o) else "J bad" for o in out_i])
        for k, v in enumerate(j):
            if v != "1" and k < len(out_i):
                unit_viol.append(("normalize_path output is not canonical (has an empty/'.'/'..' component or is not absolute)",
                                  {"stream": "norm", "case": cases[k], "impl_output": out_i[k], "model_output": out_m[k] if k < len(out_m) else None}))
        if diffs and not c.violations and not unit_viol:
            c.broke("correspondence stream norm", f"{len(diffs)} differing cases; first: {diffs[0][1]} impl={diffs[0][2]} model={diffs[0][3]}")
        c.samples.append({"case": cases[min(2, len(cases) - 1)], "impl": out_i[min(2, len(out_i) - 1)] if out_i else None})
        if replay:
            print("case :", cases[0]); print("impl :", out_i[:1]); print("model:", out_m[:1])

    # ------------------------------------------------------------ stream prefix
    if replay is None or replay.get("stream") == "prefix":
        if replay:
            cases = [replay["case"]]
        else:
            pairs = [(b"/al", b"/alX"), (b"/al", b"/al"), (b"/al", b"/al/x"), (b"/", b"/al"), (b"/", b"/"), (b"/al/", b"/al/x"), (b"", b"/x"), (b"/alX", b"/al"),
                     (b"/a/b", b"/a/bc"), (b"/a/b", b"/a/b/c"), (b"/a", b"/"), (b"/a\x00", b"/a\x00/b"), (b"/a\x00b", b"/a\x00c")]
            pairs += canon_segments_strings(rng, 20000 if thorough else 4000)
            cases = list(dict.fromkeys(f"prefix {hexs(p)} {hexs(f)}" for p, f in pairs))
        out_i, out_m, diffs, crashed = c.correspond("prefix", cases, hbin, model, nontrivial=lambda cs, o: ("prefix", cs) if o == "1" else None)
        if crashed:
            c.violation("sanitizer abort / crash in is_file_prefix", {"stream": "prefix", "case": crashed["case"], "stderr": crashed["stderr"]})
        j = jrun([f"J prefix {cs.split()[1]} {cs.split()[2]} {o}" for cs, o in zip(cases, out_i)])
        for k, v in enumerate(j):
            if v != "1":
                unit_viol.append(("is_file_prefix disagrees with component-wise prefix on canonical paths",
                                  {"stream": "prefix", "case": cases[k], "impl_output": out_i[k]}))
        if diffs and not c.violations and not unit_viol:
            c.broke("correspondence stream prefix", f"{len(diffs)} differing cases; first: {diffs[0][1]} impl={diffs[0][2]} model={diffs[0][3]}")
        if replay:
            print("case :", cases[0]); print("impl :", out_i[:1]); print("model:", out_m[:1])

    # ------------------------------------------------------------ per-configuration streams
    all_cfgs = [(s, l, a, k) for s in (1, 0) for l in (1, 0) for a in (0, 1, 2) for k in range(len(ASETS))]
    if replay and replay.get("stream") in ("cidr", "req"):
        cfgs = [tuple(replay["cfg"])]
    elif replay:
        cfgs = []
    elif thorough:
        cfgs = all_cfgs
    else:
        # every (sym, listing) pair with alias sets 1 and 3 (sync and async alternate), plus seed-chosen others
        cfgs = [(s, l, (i + 2 * j) % 3, k) for i, (s, l) in enumerate(((1, 1), (1, 0), (0, 1), (0, 0))) for j, k in enumerate((1, 3))]
        cfgs += [(1, 1, 0, 8), (0, 1, 2, 9)]       # alias target missing at start-up: the constructor must refuse
        for s_ in (1, 0):
            rest = [x for x in all_cfgs if x not in cfgs and x[0] == s_]
            cfgs += rng.sample(rest, 3)
    nreq = 500 if thorough else 320
    ncidr = 300 if thorough else 200
    dist = {"404": 0, "file": 0, "list": 0, "redirect": 0, "closed": 0, "cidr-ok": 0, "cidr-none": 0}
    sample_done = False
    for (sym, lst, asy, k) in cfgs:
        aliases = ASETS[k]
        index = IDX if (k != 2 or not lst) else b"z.txt"
        cl = cfg_line(sym, lst, asy, sb["root"], aliases, index, rp=RP)
        expect_refused = any(RP[t] is None for _, t in aliases)
        roots = [sb["root"]] + [t for _, t in aliases]
        if replay:
            targets = [unhex(replay["case"].split()[1])] if replay["stream"] == "req" else []
            fnames = [unhex(replay["case"].split()[1])] if replay["stream"] == "cidr" else []
        else:
            corpus = []
            cdir = os.path.join(ROOT, "gen", "corpus", "C13")
            if os.path.isdir(cdir):
                for fn in sorted(os.listdir(cdir)):
                    for line in open(os.path.join(cdir, fn)):
                        line = line.strip()
                        if line and not line.startswith("#"):
                            corpus.append(unhex(line))
            enum = enum_targets(3 if thorough else 2)
            targets = gen_targets(rng, sb, aliases, nreq + len(MALFORMED) + len(corpus) + len(enum), first=corpus + ABS_TARGETS + MALFORMED + enum)
            fnames = list(dict.fromkeys([py_urldecode(t) for t in rng.sample(targets, min(len(targets), ncidr // 2))] +
                                        [b"/".join(gen_segments(rng, sb, aliases)) if rng.random() < 0.3 else b"/" + b"/".join(gen_segments(rng, sb, aliases))
                                         for _ in range(ncidr // 2)] +
                                        [b"/..\x00", b"/..\x00/", b"/sub/..\x00/x", b"/a.txt\x00/../..", b"", b"a.txt", b"\x00", b"/al\x00/t1.txt"]))
        # stage A: libc answers for every path the file server may consult
        qa = [cl] + ["fs " + hexs(f) for f in fnames] + ["fst " + hexs(t) for t in targets]
        rc, tabs, err = c.run_lines(hbin, qa)
        if tabs[:1] in (["ok"], ["refused"]) and tabs[0] != ("refused" if expect_refused else "ok"):
            c.log(f"configuration sym={sym} list={lst} async={asy} aliases#{k}: constructor answered {tabs[0]!r}, expected "
                  f"{'refused' if expect_refused else 'ok'} (alias target unresolvable: {expect_refused})")
        if rc != 0 or len(tabs) != len(qa) or tabs[0] not in ("ok", "refused"):
            c.violation("harness died / service did not start while recording the file-system answers",
                        {"stream": "req", "cfg": [sym, lst, asy, k], "case": qa[len(tabs)] if len(tabs) < len(qa) else qa[0], "stderr": err,
                         "first_output": tabs[:1]}, concrete=(rc != 0 and len(tabs) > 0))
            continue
        cases = [cl] + [f"cidr {hexs(f)} {tab}" for f, tab in zip(fnames, tabs[1:1 + len(fnames)])] + \
                [f"req {hexs(t)} {tab}" for t, tab in zip(targets, tabs[1 + len(fnames):])]
        canon = lambda o: o
        rc_i, out_raw, err_i = c.run_lines(hbin, cases)
        rc_m, out_mr, err_m = c.run_lines(model, cases)
        out_i = [canon(o) for o in out_raw]
        out_m = [canon(o) for o in out_mr]
        c.evaluations += len(cases) - 1
        c.traces_validated += min(len(out_i), len(out_m)) - 1
        diffs = [(i, cases[i], out_i[i] if i < len(out_i) else "<no output: harness died>", out_m[i] if i < len(out_m) else "<no output: model died>")
                 for i in range(len(cases)) if (out_i[i] if i < len(out_i) else None) != (out_m[i] if i < len(out_m) else None)]
        c.log(f"correspond[cfg sym={sym} list={lst} async={asy} aliases#{k}]: {len(cases)-1} cases, {len(diffs)} diffs, impl rc={rc_i}, model rc={rc_m}")
        if rc_m != 0:
            c.broke("model driver crashed", err_m)
        cfgkey = [sym, lst, asy, k]
        if rc_i != 0:
            bad = cases[len(out_raw)] if len(out_raw) < len(cases) else None
            c.violation("sanitizer abort / crash / exception out of the service", {"stream": "req" if bad and bad.startswith("req") else "cidr",
                        "cfg": cfgkey, "case": " ".join(bad.split()[:2]) if bad else None, "stderr": err_i})
        # ---- judge the implementation's outputs
        jl, jmeta = [], []
        for i, (cs, o) in enumerate(zip(cases, out_raw)):
            w = cs.split()
            short = " ".join(w[:2])
            if w[0] == "cidr":
                fname = unhex(w[1])
                dist["cidr-ok" if o.startswith("ok") else "cidr-none"] += 1
                if i < len(out_m) and out_m[i].startswith("ok "):
                    c.nontrivial.add((tuple(cfgkey), short))
                if o.startswith("ok "):
                    real = o.split()[1]
                    if sym:
                        jl.append(f"J inside {','.join(hexs(r) for r in roots)} {real}")
                        jmeta.append((i, "check_in_document_root accepted a path outside every configured root (symlink check on)"))
                    elif 0 not in fname:
                        jl.append(f"J lexical {','.join(hexs(r) for r in roots)} {real}")
                        jmeta.append((i, "check_in_document_root (symlink check off) returned a path that is not root ++ rest with rest free of '..'"))
            elif w[0] == "req":
                kind = o.split()[0] if o else "?"
                if kind in dist:
                    dist[kind] += 1
                if expect_refused and kind != "closed":
                    viol.append(("request answered although the constructor must refuse this configuration (an alias target cannot be resolved): "
                                 "the alias is live with a bogus root", {"stream": "req", "cfg": cfgkey, "case": short, "impl_output": o[:400]}))
                if i < len(out_m) and out_m[i].split()[:1] not in (["404"], ["MISS"], ["closed"], []):
                    c.nontrivial.add((tuple(cfgkey), short))
                if kind == "file":
                    body = unhex(o.split()[1]) if len(o.split()) > 1 else b""
                    src = markers.get(body)
                    what = None
                    if src is None:
                        what = ("200 reply whose body is not the content of any regular file of the sandbox "
                                "(every regular file there has a unique marker: a device, a foreign file or an empty/garbled stream was served)")
                    elif sym and not any(under(os.path.realpath(r), src) for r in roots):
                        what = "file outside every configured root served with symlink checking on"
                    elif not sym and src not in reach_cache(roots)[0]:
                        what = "file not reachable from any configured root served (symlink checking off)"
                    if what:
                        viol.append((what, {"stream": "req", "cfg": cfgkey, "case": short, "impl_output": o[:400], "model_output": out_m[i] if i < len(out_m) else None,
                                            "served_file": src.decode("latin1") if src else None}))
                elif kind == "list":
                    if not lst:
                        viol.append(("directory listing produced although file_server.listing is off", {"stream": "req", "cfg": cfgkey, "case": short, "impl_output": o[:400]}))
                    toks = o.split()
                    rows = toks[3:]
                    # the directories the table knows about: names a row may show
                    dtab = {}
                    for tok in w[2:]:
                        if tok.startswith("D:") and not tok.endswith("=!"):
                            dk, dv = tok[2:].split("=")
                            dtab[unhex(dk)] = [] if dv == "." else [unhex(x) for x in dv.split(",")]
                    dn = ",".join(dict.fromkeys(hexs(n) for ns in dtab.values() for n in ns)) or "-"
                    pinfo = py_urldecode(unhex(w[1])).split(b"\x00")[0]
                    jl.append(f"J escaped {hexs(pinfo)} {toks[1]}")
                    jmeta.append((i, "listing title is not the HTML-escaped request path"))
                    rownames = set()
                    for rraw in rows:
                        if rraw == "badrow":
                            viol.append(("listing row does not parse (unescaped markup?)", {"stream": "req", "cfg": cfgkey, "case": short, "impl_output": o[:600]}))
                            continue
                        jl.append(f"J row {dn} {rraw}")
                        jmeta.append((i, "listing row is not one well-formed anchor: attribute value not safe inside href='...' (a byte ends the attribute early / opens markup), "
                                         "or text not the HTML-escaped name of a non-dot entry of the directory"))
                        m_ = re.fullmatch(rb"<a href='([^']*)'>(.*)</a>", unhex(rraw), re.S)
                        if m_:
                            rownames.add(html_unescape(m_.group(2)).rstrip(b"/"))
                    # which recorded directory can this be a listing of?  none of the candidates may lie outside
                    cands = [d for d, ns in dtab.items() if rownames <= set(ns)]
                    if sym:
                        okd = [d for d in cands if any(under(os.path.realpath(r), os.path.realpath(d)) for r in roots)]
                    else:
                        okd = [d for d in cands if os.path.realpath(d) in reach_cache(roots)[1]]
                    if cands and not okd:
                        viol.append(("listing of a directory outside every configured root" + (" (symlink check on)" if sym else " and not reachable from one"),
                                     {"stream": "req", "cfg": cfgkey, "case": short, "impl_output": o[:600], "directory": [d.decode("latin1") for d in cands]}))
                elif kind == "redirect":
                    pinfo = py_urldecode(unhex(w[1])).split(b"\x00")[0]
                    loc = unhex(o.split()[1]) if len(o.split()) > 1 else b""
                    if b"\r" not in pinfo and b"\n" not in pinfo and loc != pinfo + b"/":
                        viol.append(("redirect to something other than the request path plus '/'",
                                     {"stream": "req", "cfg": cfgkey, "case": short, "impl_output": o[:400]}))
                elif kind == "closed" and expect_refused:
                    pass
                elif kind != "404":
                    viol.append((f"unexpected reply kind {kind!r} (status other than 200/302/404, garbled or no reply)",
                                 {"stream": "req", "cfg": cfgkey, "case": short, "impl_output": o[:400]}))
                if not sample_done and kind in ("file", "list"):
                    c.samples.append({"cfg": cfgkey, "case": short, "impl": o[:300], "model": out_mr[i][:300] if i < len(out_mr) else None})
                    sample_done = kind == "list"
        jout = jrun(jl)
        for (i, what), v in zip(jmeta, jout):
            if v != "1":
                viol.append((what, {"stream": cases[i].split()[0], "cfg": cfgkey, "case": " ".join(cases[i].split()[:2]), "impl_output": out_raw[i][:600],
                                    "model_output": out_m[i][:600] if i < len(out_m) else None}))
        if diffs and not viol and rc_i == 0:
            i, cs, a, b = diffs[0]
            c.broke(f"correspondence stream cfg sym={sym} list={lst} async={asy} aliases#{k}",
                    f"{len(diffs)} differing cases; first: {' '.join(cs.split()[:2])} impl={a[:300]} model={b[:300]}")
            # keep the differing case replayable
            c.violation("model and implementation disagree (no property predicate failed on the implementation's output)",
                        {"stream": cs.split()[0], "cfg": cfgkey, "case": " ".join(cs.split()[:2]), "impl_output": a[:600], "model_output": b[:600]}, concrete=False)
        if replay:
            for i in range(1, len(cases)):
                print("case :", " ".join(cases[i].split()[:2])); print("impl :", out_raw[i] if i < len(out_raw) else None)
                print("model:", out_mr[i] if i < len(out_mr) else None)
    # most telling first: end-to-end replies that leak something, then the unit-level predicates
    def prio(w):
        w = w[0]
        if "served" in w or "listing of a directory outside" in w or "200 reply" in w:
            return 0
        return 1 if "must refuse" in w else 2 if "listing" in w else 3
    allv = sorted(viol, key=prio) + unit_viol
    counts = {}
    for what, rp in allv:
        counts[what] = counts.get(what, 0) + 1
    for what, n in counts.items():
        c.log(f"judge: {n} x {what}")
    seen_what = {}
    for what, rp in allv:
        if seen_what.get(what, 0) < 4:       # a few witnesses per kind of failure
            seen_what[what] = seen_what.get(what, 0) + 1
            c.violation(what, rp)
    c.extra_cov["outcome_distribution"] = dist
    c.extra_cov["configurations_run"] = len(cfgs)
    c.finish()


_reach = {}


def reach_cache(roots):
    key = tuple(roots)
    if key not in _reach:
        _reach[key] = reachable_files(roots)
    return _reach[key]


def html_unescape(b):
    for a, c in ((b"&lt;", b"<"), (b"&gt;", b">"), (b"&quot;", b'"'), (b"&#39;", b"'"), (b"&amp;", b"&")):
        b = b.replace(a, c)
    return b


if __name__ == "__main__":
    main()
