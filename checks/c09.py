#!/usr/bin/env python3
"""C09 — concurrent use of mem_cache is race-free and linearizable.
See DESIGN.md section 5 (C09) and design.d/C09.md.
Usage: checks/c09.py [--tier quick|thorough] [--replay file]"""
import os, sys, json, glob
sys.path.insert(0, os.path.join(os.path.dirname(os.path.abspath(__file__)), "..", "lib"))
from vcheck import *

P = "Cppcms.C09.Props."
TABLE_OBLIGATIONS = [
    (P + "discipline_ok", "generated access table: writes under the exclusive lock (lru/container.lru: shared lock + lru_mutex), reads under at least the shared lock"),
    (P + "race_free", "generated access table: two conflicting accesses are never made under guard sets two threads can hold at once"),
    (P + "lock_order", "generated skeletons: access_lock requested only with nothing held, lru_mutex only while holding access_lock, nothing held at the end"),
    (P + "no_nested_locking", "no virtual method calls another locking method while holding a guard"),
    (P + "hooks_at_linearization_points", "the hook calls in the source sit at the model's linearisation points"),
    (P + "process_variant_same", "mem_cache<process_settings> has the same lock table"),
    (P + "refs_exclusive", "refs is accessed only by add_ref/del_ref, always under the exclusive lock; no cache operation touches it"),
    (P + "hash_map_lookup_read_only", "private/hash_map.h: the bodies of hash_map::find/end (through basic_map::find, find_in_range, get) write nothing but local variables (the access table classifies hash_map calls from their bodies)"),
]
MODEL_OBLIGATIONS = [
    (P + "linearizable", "every schedule of every thread programs: the hook order is a linearization (Spec.LinearizedBy) and the final state equals the sequential run, LRU order included"),
    (P + "history_linearizable", "corollary: the observable history of every run is linearizable (Herlihy-Wing) w.r.t. the sequential cache of C07"),
    (P + "judge_is_predicate", "the executable judge used on recorded histories = Spec.LinearizedBy"),
    (P + "history_well_formed", "operation ids of a run's history are unique"),
    (P + "no_undefined_result", "no operation returns through a dangling iterator / without result"),
    (P + "refs_counts_handles", "in every reachable configuration refs = initial + add_refs - del_refs that took effect"),
    (P + "del_ref_true_iff_last", "a completed del_ref returned true iff at its linearization point handles taken = handles dropped (this one included): the object is destroyed only by the last handle"),
    (P + "deadlock_free", "reachable, not everything finished => some thread can move"),
    (P + "step_decreases_measure", "every effective step decreases a natural-number measure"),
    (P + "every_op_completes", "from every reachable configuration: some schedule completes every operation; and every maximal run has completed all of them"),
]
FETCH_OBLIGATIONS = [
    (P + "fetch_hit_is_latest_store", "a completed fetch that hit returned value/triggers/deadline/generation of one store of that key, not followed in the linearization by any invalidating operation (no torn value, no value of another key)"),
    (P + "no_value_after_trigger_rise", "a hit never returns a value stored (completed) before a rise of one of its triggers began, if that rise completed before the fetch began"),
]
OBLIGATIONS = TABLE_OBLIGATIONS + MODEL_OBLIGATIONS + FETCH_OBLIGATIONS

KEYS = ["6b30", "6b31", "6b32", "6b33", "6b34", "6b35"]          # k0..k5
TRIGS = ["7430", "7431", "7432"]                                   # t0..t2


def gen_value(rng, tid, idx, big):
    tag = ("T%dI%d." % (tid, idx)).encode()
    n = rng.choice((0, 1, 3, 17)) if not big else rng.choice((200, 4096, 20000))
    return (tag + bytes([65 + (tid * 7 + idx) % 26]) * n).hex()


def gen_case(rng, nthreads, nops, limit, straddle, nkeys, bigvals, epilogue=True):
    """returns list of harness input lines (without case/run) : ('T', tid, op)"""
    keys = KEYS[:nkeys]
    lines = []
    for t in range(nthreads):
        for i in range(nops):
            r = rng.random()
            now = rng.choice((998, 999, 1000, 1001, 1002)) if straddle else 1000
            k = rng.choice(keys)
            if r < 0.42:
                op = f"fetch {now} {k}"
            elif r < 0.74:
                tr = sorted(set(rng.choice(TRIGS + keys[:2]) for _ in range(rng.choice((0, 1, 1, 2, 3)))))
                dl = rng.choice((999, 1000, 1001)) if straddle else rng.choice((5000, 5000, 5000, 1000, 999))
                g = "-" if rng.random() < 0.85 else str(rng.randrange(1 << 40))
                op = f"store {now} {k} {gen_value(rng, t, i, bigvals and rng.random() < 0.3)} {','.join(tr) if tr else '-'} {dl} {g}"
            elif r < 0.84:
                op = f"rise {rng.choice(TRIGS + keys[:2])}"
            elif r < 0.91:
                op = f"remove {k}"
            elif r < 0.94:
                op = "clear"
            else:
                op = "stats"
            lines.append(f"T {t} {op}")
    if epilogue:
        lines += ["X " + o for o in epilogue_ops(limit, nkeys)]
    return lines


def string_hash(b):
    """cppcms::impl::string_hash (private/hash_map.h), transcribed: used only to *find* colliding keys; that the
    keys really share a bucket chain does not matter for soundness of the judge"""
    v = 0
    for c in b:
        v = ((v << 4) + c) & 0xFFFFFFFF
        high = v & 0xF0000000
        if high:
            v = (v ^ (high >> 24)) ^ high
    return v


def colliding_keys(rng, n):
    """n distinct short keys with identical string_hash (hence one bucket chain for every table size)"""
    while True:
        c1, c2 = rng.randrange(97, 110), rng.randrange(113, 123)
        fam = [bytes([c1 + j, c2 - 16 * j]) for j in range(4) if 33 <= c2 - 16 * j < 127]
        if rng.random() < 0.5:
            fam = [rng.choice(b"xyz").to_bytes(1, "big") + k for k in fam]      # three-byte keys, same hash too
        fam = [k for k in fam if string_hash(k) == string_hash(fam[0])]
        if len(fam) >= n:
            return [k.hex() for k in fam[:n]]


def gen_collision_case(rng, nthreads, nops, limit, mixed):
    """keys of one hash bucket, stored by the prologue, then (almost) fetch-only load from all threads: every
    lookup walks the same chain under the shared lock"""
    keys = colliding_keys(rng, rng.choice((2, 2, 3, 4)))
    if rng.random() < 0.3:
        keys = ["6171", "6261"]           # "aq" / "ba"
    lines = []
    for j, k in enumerate(keys):
        lines.append(f"I store 1000 {k} {('P%d.' % j).encode().hex()} - 5000 -")
    for t in range(nthreads):
        for i in range(nops):
            r = rng.random()
            if mixed and r < 0.03:
                lines.append(f"T {t} store 1000 {rng.choice(keys)} {gen_value(rng, t, i, False)} - 5000 -")
            elif r < 0.04:
                lines.append(f"T {t} stats")
            else:
                lines.append(f"T {t} fetch 1000 {rng.choice(keys)}")
    lines += ["X stats"] + [f"X fetch 1000 {k}" for k in keys]
    return lines


def gen_handle_case(rng, nthreads, ngroups, nkeys):
    """what concurrent requests do with the cache handle (cache_interface copies it per request): every thread
    repeatedly copies a handle (add_ref), uses the cache, drops the handle (del_ref) — while main owns one.
    Some groups are empty (copy; drop) so that add_ref/del_ref of different threads meet head-on."""
    keys = KEYS[:nkeys]
    lines = []
    for t in range(nthreads):
        i = 0
        for _ in range(ngroups):
            lines.append(f"T {t} addref")
            for _ in range(rng.choice((0, 0, 1, 1, 2))):
                k = rng.choice(keys)
                if rng.random() < 0.6:
                    lines.append(f"T {t} fetch 1000 {k}")
                else:
                    lines.append(f"T {t} store 1000 {k} {gen_value(rng, t, i, False)} {rng.choice(('-', '7430'))} 5000 -")
                i += 1
            lines.append(f"T {t} delref")
    lines += ["X stats"] + [f"X fetch 1000 {k}" for k in keys]
    return lines


def is_handle(r):
    return r["op"] in ("addref", "delref")


def handle_verdict(recs, nthreads):
    """the reference count object, judged by counting: main owns a handle throughout, so no del_ref of a thread may
    report `last`, and main's final del_ref (tid = nthreads, last record) must"""
    for r in recs:
        if r["op"] == "delref" and r["result"] != "raw":
            want = "dropped 1" if r["tid"] == nthreads else "dropped 0"
            if r["result"] != want:
                return f"del_ref of thread {r['tid']} (operation {r['idx']}) returned {r['result']!r}, expected {want!r}: " + \
                       ("the cache would be destroyed while handles exist" if want == "dropped 0" else "reference count != number of live handles")
    return None


def epilogue_ops(limit, nkeys):
    """single-threaded tail run by thread 0 after everything else is irrelevant to concurrency; it makes the final
    state observable: fetch every key (values, triggers), stats; with a limit, stores of fresh keys evict in LRU order,
    so the LRU order left behind by the concurrent phase becomes visible too"""
    ops = ["stats"]
    for k in KEYS[:nkeys]:
        ops.append(f"fetch 1000 {k}")
    if limit:
        for j in range(limit):
            ops.append(f"store 1000 7a{j:02x} 66 - 5000 -")
            ops.append("stats")
    return ops


def build_cases(c):
    rng = c.rng
    cases = []      # dict(name, nthreads, limit, spin, flags, lines, judge)

    def add(name, nthreads, nops, limit, straddle, nkeys, spin, big=False, yield_=False):
        lines = gen_case(rng, nthreads, nops, limit, straddle, nkeys, big)
        cases.append({"name": name, "nthreads": nthreads, "limit": limit, "spin": spin, "flags": 1 | (2 if yield_ else 0),
                      "lines": lines, "nops": len(lines)})

    thorough = c.tier == "thorough"
    nsmall, nmed, nbig = (3000, 700, 120) if thorough else (120, 36, 6)
    for i in range(80 if thorough else 14):
        nt = rng.choice((2, 3, 4, 4, 6, 8))
        lines = gen_collision_case(rng, nt, rng.choice((40, 150, 400, 800)), rng.choice((0, 0, 20)), rng.random() < 0.25)
        cases.append({"name": f"collide{i}", "nthreads": nt, "limit": 0, "spin": 0, "flags": 1, "lines": lines, "nops": len(lines)})
        cases[-1]["limit"] = rng.choice((0, 0, 20))
    for i in range(60 if thorough else 12):
        nt = rng.choice((4, 4, 6, 8))
        small = i % 4 == 0
        lines = gen_handle_case(rng, nt, rng.choice((3, 5)) if small else rng.choice((60, 200, 500)), rng.choice((1, 2, 3)))
        cases.append({"name": f"handles{i}", "nthreads": nt, "limit": rng.choice((0, 0, 3)), "spin": 0,
                      "flags": 1 | (4 if i % 6 == 5 else 0), "lines": lines, "nops": len(lines)})
    for i in range(nsmall):
        add(f"small{i}", rng.choice((2, 2, 3, 4)), rng.randrange(2, 8), rng.choice((0, 0, 1, 2, 3)), rng.random() < 0.3,
            rng.choice((1, 2, 3)), rng.choice((0, 50, 400)), yield_=rng.random() < 0.3)
    for i in range(nmed):
        add(f"med{i}", rng.choice((2, 3, 4, 6, 8)), rng.randrange(12, 36), rng.choice((0, 0, 2, 3, 5)), rng.random() < 0.3,
            rng.choice((2, 3, 4, 6)), rng.choice((0, 100, 1000)), big=rng.random() < 0.3, yield_=rng.random() < 0.3)
    for i in range(nbig):
        add(f"big{i}", rng.choice((4, 6, 8)), rng.randrange(300, 900), rng.choice((0, 4, 16)), rng.random() < 0.25,
            rng.choice((3, 6)), rng.choice((0, 30, 300)), big=rng.random() < 0.5)
    return cases


def harness_input(cs, flags=None):
    f = cs["flags"] if flags is None else ((cs["flags"] & ~3) | flags)
    return [f"case {cs['nthreads']} {cs['limit']} {cs['spin']} {f}"] + cs["lines"] + ["run"]


def split_output(lines):
    """harness stdout -> list of per-case line lists (only complete ones, terminated by `end`)"""
    res, cur = [], []
    for l in lines:
        if l == "end":
            res.append(cur)
            cur = []
        else:
            cur.append(l)
    return res, cur


def parse_records(out):
    recs, errs, final = [], [], None
    for l in out:
        if l.startswith("R "):
            head, op = l.split(" ; ", 1)
            w = head.split()
            recs.append({"tid": int(w[1]), "idx": int(w[2]), "inv": int(w[3]), "res": int(w[4]),
                         "lin": None if w[5] == "-" else int(w[5]), "result": " ".join(w[6:]), "op": op, "line": l})
        elif l.startswith("E "):
            errs.append(l)
        elif l.startswith("F "):
            final = l
    return recs, errs, final


def py_realtime(recs):
    """stamps: inv < lin < res for every op; and no op later in lin order responded before an earlier one was invoked"""
    for r in recs:
        if r["lin"] is None or not (r["inv"] < r["lin"] < r["res"]):
            return f"hook stamp outside the call: {r['line']}"
    order = sorted(recs, key=lambda r: r["lin"])
    minres = None
    for r in reversed(order):
        if minres is not None and minres < r["inv"]:
            return f"real-time order violated at {r['line']}"
        minres = r["res"] if minres is None else min(minres, r["res"])
    return None


def overlap_stats(recs):
    """measured concurrency of a recorded history"""
    ev = sorted(recs, key=lambda r: r["inv"])
    overl = 0
    hit_vs_mut = 0
    active = []
    for r in ev:
        active = [a for a in active if a["res"] > r["inv"]]
        for a in active:
            if a["tid"] != r["tid"]:
                overl += 1
                kinds = {a["op"].split()[0], r["op"].split()[0]}
                if "fetch" in kinds and kinds & {"store", "rise", "remove", "clear"}:
                    hit_vs_mut += 1
        active.append(r)
    order = sorted([r for r in recs if r["lin"] is not None], key=lambda r: r["lin"])
    switches = sum(1 for a, b in zip(order, order[1:]) if a["tid"] != b["tid"])
    return overl, hit_vs_mut, switches


def judge_lines(cs, recs, fast, search=None):
    # hook-order judge: cache operations only (add_ref/del_ref carry no hook; Props.refs_exclusive: no cache
    # operation touches refs); search: the whole history, main's handle = initial refs 1
    ls = [f"new thread {cs['limit']} 1"]
    recs = [r for r in recs if r["result"] != "raw" and (search or not is_handle(r))]
    for r in recs:
        ls.append(f"R {r['tid']} {r['idx']} {r['inv']} {r['res']} {'-' if r['lin'] is None else r['lin']} {r['result']} ; {r['op']}")
    ls.append(f"endsearch {search}" if search else ("endfast" if fast else "end"))
    return ls


SEARCH_MAX_OPS = 80       # histories up to this size are also given to the hook-independent search
SEARCH_BUDGET = 300000


def run_cases(c, hbin, model, cases, label, env=None, flags=None, judge=True, timeout=1500):
    """run all cases through the harness in one process (restarting after a crash), judge every history"""
    idx = 0
    histories = []
    while idx < len(cases):
        inp = []
        for cs in cases[idx:]:
            inp += harness_input(cs, flags)
        rc, out, err = c.run_lines(hbin, inp, timeout=timeout, env=env)
        done, partial = split_output(out)
        for k, o in enumerate(done):
            histories.append((cases[idx + k], o))
        c.evaluations += sum(cs["nops"] for cs in cases[idx:idx + len(done)])
        if rc != 0 or len(done) < len(cases) - idx:
            bad = cases[idx + len(done)] if idx + len(done) < len(cases) else cases[-1]
            tsan = "ThreadSanitizer" in err
            hang = rc == 77 or any(l.startswith("HANG case") for l in partial) or rc == 124
            c.violation(("operations never completed (watchdog): hang of the real code, every_op_completes violated" if hang else
                         "ThreadSanitizer report" if tsan else "sanitizer abort / crash of the real code") + f" in stream {label}",
                        {"case": bad["name"], "case_lines": harness_input(bad, flags), "stderr": err[-6000:], "rc": rc,
                         "partial_output": partial[-20:]})
            idx += len(done) + 1
            if len(c.violations) > 5:
                break
        else:
            break
    c.log(f"harness[{label}]: {len(histories)}/{len(cases)} cases ran")
    if not judge:
        return histories
    # judge
    jl, where = [], []
    for cs, o in histories:
        recs, errs, final = parse_records(o)
        fast = len(recs) > 260
        ls = judge_lines(cs, recs, fast)
        pos = len(jl) + len(ls) - 1
        jl += ls
        spos = None
        if len(recs) <= SEARCH_MAX_OPS and all(r["res"] for r in recs) and not any(r["result"] == "raw" for r in recs):
            ls2 = judge_lines(cs, recs, False, SEARCH_BUDGET)
            spos = len(jl) + len(ls2) - 1
            jl += ls2
        where.append((cs, recs, errs, pos, fast, spos))
    rc, jout, jerr = c.run_lines(model, jl, timeout=timeout)
    if rc != 0 or len(jout) != len(jl):
        c.broke(f"model driver on stream {label}", f"rc={rc} {len(jout)}/{len(jl)} lines {jerr[-1500:]}")
        return histories
    for cs, recs, errs, pos, fast, spos in where:
        verdict = jout[pos]
        sverdict = jout[spos] if spos is not None else None
        sc = c.extra_cov.setdefault("hook_independent_search", {"histories": 0, "linearization_found": 0, "none_exists": 0, "budget_exhausted": 0})
        if sverdict is not None:
            sc["histories"] += 1
            sc["linearization_found" if sverdict == "1" else ("budget_exhausted" if sverdict.startswith("?") else "none_exists")] += 1
        c.traces_validated += 1
        pr = py_realtime([r for r in recs if not is_handle(r)])
        hv = handle_verdict(recs, cs["nthreads"])
        hc = c.extra_cov.setdefault("handle_operations", {"add_ref": 0, "del_ref": 0, "overlapping_handle_op_pairs": 0})
        hops = sorted([r for r in recs if is_handle(r) and r["res"]], key=lambda r: r["inv"])
        hc["add_ref"] += sum(1 for r in hops if r["op"] == "addref")
        hc["del_ref"] += sum(1 for r in hops if r["op"] == "delref")
        act = []
        for r in hops:
            act = [a for a in act if a["res"] > r["inv"]]
            hc["overlapping_handle_op_pairs"] += sum(1 for a in act if a["tid"] != r["tid"])
            act.append(r)
        ov, hm, sw = overlap_stats(recs)
        tot = c.extra_cov.setdefault("concurrency_measured", {"overlapping_pairs": 0, "fetch_overlapping_mutator_pairs": 0,
                                                              "thread_switches_in_linearization": 0, "histories": 0, "operations": 0})
        tot["overlapping_pairs"] += ov
        tot["fetch_overlapping_mutator_pairs"] += hm
        tot["thread_switches_in_linearization"] += sw
        tot["histories"] += 1
        tot["operations"] += len(recs)
        if hm > 0:
            c.nontrivial.add(cs["name"])
        bad = None
        if errs:
            bad = "harness anomaly: " + errs[0]
        elif hv:
            bad = hv
        elif verdict != "1":
            bad = "recorded history is not linearized by the hook order: " + verdict + \
                  {None: "", "1": " [some other order linearizes it: the effect did not happen where the hook says]"}.get(
                      sverdict, " [hook-independent search: " + str(sverdict) + "]")
        elif sverdict is not None and sverdict.startswith("0"):
            bad = "hook-independent search contradicts the hook-order judge: " + sverdict
        elif pr:
            bad = pr
        if bad:
            c.violation(bad + f" (stream {label})",
                        {"case": cs["name"], "case_lines": harness_input(cs), "history": [r["line"] for r in recs],
                         "judge_verdict": verdict, "search_verdict": sverdict, "replay_cmd": "bin/check C09 --replay <this file>"})
        if len(c.samples) < 4 and hm > 0 and len(recs) < 40:
            c.samples.append({"case": cs["name"], "threads": cs["nthreads"], "limit": cs["limit"],
                              "history_in_hook_order": [r["line"] for r in sorted(recs, key=lambda r: r["lin"] or 0)][:40],
                              "verdict": verdict})
    return histories


DIAG = """import Cppcms.C09.Model
open Cppcms Cppcms.C09
def bad : List (Method × Access) := allMethods.flatMap fun m => ((Gen.accesses m).filter fun a => !a.ok).map fun a => (m, a)
def racy : List (Method × Access × Method × Access) := allMethods.flatMap fun m1 => allMethods.flatMap fun m2 =>
  (Gen.accesses m1).flatMap fun a1 => ((Gen.accesses m2).filter fun a2 =>
    a1.field == a2.field && (a1.write || a2.write) && !mutuallyExcluded a1.held a2.held).map fun a2 => (m1, a1, m2, a2)
#eval IO.println s!"discipline_ok: {if bad.isEmpty then "holds" else "FALSE"} {repr bad}"
#eval IO.println s!"race_free: {if racy.isEmpty then "holds" else "FALSE"} {repr (racy.take 4)}"
#eval IO.println s!"hooks_at_linearization_points: {if Gen.hooks == linPoints then "holds" else "FALSE"} {repr Gen.hooks}"
#eval IO.println s!"no_nested_locking: {if Gen.nested.all (fun x => x.2.2.isEmpty) then "holds" else "FALSE"}"
#eval IO.println s!"hash_map_lookup_read_only: {if Gen.hashMapCalls.all (fun x => !(x.1 == "find" || x.1 == "end" || x.1 == "begin" || x.1 == "size") || !x.2) then "holds" else "FALSE"} {repr Gen.hashMapCalls}"
#eval IO.println s!"refs_exclusive: {if allMethods.all (fun m => (Gen.accesses m).all fun a => a.field != .refs || exclusiveOk a.held) then "holds" else "FALSE"} {repr ((Gen.accesses .addRef) ++ (Gen.accesses .delRef))}"
#eval IO.println s!"process_variant_same: {Gen.processVariantSame}"
#eval IO.println s!"prog: {repr (allMethods.map fun m => (m, Gen.prog m))}"
"""


def table_diagnostics(c):
    """which rule of the generated table is false now (readable detail for the replay file)"""
    probe = os.path.join(c.scratch, "table_diag.lean")
    open(probe, "w").write(DIAG)
    c.lake_build(["Cppcms.C09.Model"], what="model (for table diagnostics)")
    rc, out = sh(["lake", "env", "lean", probe], cwd=LEAN, timeout=600)
    lines = [re.sub(r"\s+", " ", l)[:1500] for l in out.splitlines() if l.strip()]
    c.extra_cov["table_diagnostics"] = lines
    for l in lines:
        if "FALSE" in l:
            c.log("table: " + l[:400])
    return lines


def corpus_cases():
    res = []
    for f in sorted(glob.glob(os.path.join(ROOT, "gen", "corpus", "C09", "*.case"))):
        ls = [l.rstrip("\n") for l in open(f) if l.strip() and not l.startswith("#")]
        hd = ls[0].split()
        res.append({"name": "corpus:" + os.path.basename(f), "nthreads": int(hd[1]), "limit": int(hd[2]), "spin": int(hd[3]),
                    "flags": int(hd[4]), "lines": [l for l in ls[1:] if l.startswith(("T ", "X ", "I "))],
                    "nops": sum(1 for l in ls if l.startswith(("T ", "X ", "I ")))})
    return res


def main():
    c = Check("C09")
    c.rule = ("case = one fresh thread_cache_factory(limit) cache + 2..8 thread programs over 1..6 keys x 3 triggers (stores with "
              "unique values, fetch, rise, remove, clear, stats; fixed virtual now=1000 or per-operation now 998..1002 with "
              "deadlines 999..1001), run concurrently on the ASan build (thorough: also TSan); recorded: invoke/response stamps, "
              "results, hook stamps; judged by Spec.LinearizedBy with order = hook order.  non-trivial = distinct cases whose "
              "recorded history contains a fetch overlapping in real time with a mutator of another thread")
    c.trusted += [
        "translator translate/c09.py (clang-14 AST of mem_cache<thread_settings> and of the hash_map/basic_map/intrusive_list instantiations -> guard skeleton, access table with hash_map calls classified from their bodies, hook placement)",
        "atomicity of the segments between lock operations (justified by race_free over the generated table; observed by TSan on explored schedules only)",
        "booster::shared_mutex / booster::mutex = pthread_rwlock / pthread_mutex behave as a readers-writer lock and a mutex (not verified; TSan observes them)",
        "sequential behaviour of each segment = C07's model (tied by C07's correspondence check and by this check's replay in hook order)",
        "harness harness/c09.cpp, hook commit in /repo (guarded by CPPCMS_VERIF_HOOKS)",
    ]
    c.assumptions += ["segments between lock operations are atomic (data-race freedom of the compiled accesses is not proved: PARTIAL, TSan on explored schedules)",
                      "pthread primitives implement shared_mutex/mutex semantics",
                      "finite thread programs (every_op_completes); lock acquisition is not assumed fair"]

    c.translate("c09.py", BUILD)
    # two modules, proved separately: when the guard structure of the source changes, the table theorems say
    # which rule became false even though the model proofs (which start from the skeleton's shape) no longer build
    p1 = c.prove(["Cppcms.C09.TableProps"], TABLE_OBLIGATIONS, exe="c09_model")
    ob1 = c.obligations
    p2 = c.prove(["Cppcms.C09.Props"], MODEL_OBLIGATIONS)
    ob2 = c.obligations
    # the two corollaries that go through C07's theorems (the only part importing Cppcms.C07.Props)
    p3 = c.prove(["Cppcms.C09.FetchProps"], FETCH_OBLIGATIONS)
    c.obligations = ob1 + ob2 + c.obligations
    proved = len(c.discharged) == len(c.obligations) and not c.broken
    if not proved:
        diag = table_diagnostics(c)
        if c.broken:
            c.broken[0]["detail"] = "TABLE DIAGNOSTICS: " + " | ".join(diag)[:3000] + "\n" + c.broken[0]["detail"]
    if c.tier == "thorough" and proved:
        c.leanchecker(["Cppcms.C09.TableProps", "Cppcms.C09.Props", "Cppcms.C09.FetchProps"])
    model = c.model_exe()
    ok_impl = c.impl_build()
    hbin = c.harness("c09") if ok_impl else None

    if c.replay_path:
        rp = json.load(open(c.replay_path))
        if hbin and os.path.exists(model) and "case_lines" in rp:
            hd = rp["case_lines"][0].split()
            cs = {"name": rp.get("case", "replay"), "nthreads": int(hd[1]), "limit": int(hd[2]), "spin": int(hd[3]), "flags": int(hd[4]),
                  "lines": [l for l in rp["case_lines"] if l.startswith(("T ", "X ", "I "))], "nops": sum(1 for l in rp["case_lines"] if l.startswith(("T ", "X ", "I ")))}
            if "history" in rp:
                recs, errs, _ = parse_records(rp["history"])
                rc, jout, _ = c.run_lines(model, judge_lines(cs, recs, False))
                print("stored history, judged again:", jout[-1] if jout else None)
                for l in rp["history"]:
                    print("  ", l)
            hs = run_cases(c, hbin, model, [dict(cs, name=f"{cs['name']}#{i}") for i in range(50)], "replay")
            print(f"re-ran the case 50 times: {len(c.violations)} failing runs")
        c.finish()

    if hbin and os.path.exists(model):
        cases = corpus_cases() + build_cases(c)
        run_cases(c, hbin, model, cases, "asan")
        dist = {}
        for cs in cases:
            for l in cs["lines"]:
                k = l.split()[2] if l.startswith("T ") else l.split()[1]
                if k in ("addref", "delref"):
                    continue
                if l.startswith("T ") and cs["name"].startswith("collide"):
                    c.extra_cov.setdefault("collision_stream_ops", 0)
                    c.extra_cov["collision_stream_ops"] += 1
                dist[k] = dist.get(k, 0) + 1
        c.extra_cov["op_distribution"] = dist
        c.extra_cov["cases"] = {"total": len(cases), "threads": sorted({cs["nthreads"] for cs in cases}),
                                "limits": sorted({cs["limit"] for cs in cases})}
        if c.tier == "thorough" or c.broken:
            # ThreadSanitizer: the same harness; a report is a concrete violation
            if c.impl_build(tsan=True):
                tbin = c.harness("c09", tsan=True)
                if tbin:
                    env = {"TSAN_OPTIONS": "halt_on_error=1:exitcode=66:second_deadlock_stack=1", "C09_WATCHDOG": "180"}
                    nt, nb = (900, 30) if c.tier == "thorough" else (150, 6)
                    coll = [cs for cs in cases if cs["name"].startswith(("collide", "corpus", "handles"))]
                    rest = [cs for cs in cases if not cs["name"].startswith(("collide", "corpus", "handles"))]
                    sub = coll + [cs for cs in rest if cs["nops"] <= 400][:nt] + [cs for cs in rest if cs["nops"] > 400][:nb]
                    # (a) nothing of the harness synchronises the threads: hook not registered, no stamps
                    run_cases(c, tbin, model, sub, "tsan-pure", env=env, flags=0, judge=False)
                    # (b) with stamps and hook: linearizability under TSan's scheduling
                    run_cases(c, tbin, model, sub, "tsan-stamps", env=env)
                    c.extra_cov["tsan_cases"] = len(sub) * 2
    c.finish()


if __name__ == "__main__":
    main()
