#!/usr/bin/env python3
"""C05 — client-side sessions are accepted only if issued by this server and unexpired.
See DESIGN.md section 5 (C05) and design.d/C05.md.  Usage: checks/c05.py [--tier quick|thorough] [--replay file]

Correspondence = the real session_cookies / hmac_cipher / aes_cipher / aes_factory / session_pool::init
(harness/c05.cpp, virtual clock and deterministic entropy interposed at link time) against the Lean model
(lean/Cppcms/C05/Driver.lean) whose Mac/Cbc parameters are instantiated with oracle answers recorded from
the real library's primitives (crypto::hmac, crypto::cbc).  Stage A issues cookies, stage B replays them
mutated (every bit flip, every truncation, extensions, block swaps, splices, cross-key / cross-algorithm
transplants, tail-bit and junk-character variants, random strings, expiry edges).
The judge evaluates Spec.judgeLoad on the implementation's answers against the set of issued cookies.
"""
import os, sys, json, base64, hmac as pyhmac, hashlib
sys.path.insert(0, os.path.join(os.path.dirname(os.path.abspath(__file__)), "..", "lib"))
from vcheck import *

P = "Cppcms.C05.Props."
OBLIGATIONS = [
    (P + "equal_all_bytes", "hmac_cipher::equal(a,b,n) never reads out of bounds and is true iff ALL n bytes agree"),
    (P + "hmac_roundtrip", "hmac back-end: decrypt (encrypt p) = p for every payload"),
    (P + "hmac_load_sound", "hmac back-end: decrypt c = ok p => c = p ++ Mac k p (tag over exactly the message part, whole tag)"),
    (P + "hmac_rejects_cleanly", "hmac back-end: decrypt never has undefined behaviour for ANY cipher text"),
    (P + "aes_no_underflow", "aes back-end: after the three size checks block+4 <= real_size, so real_size - block - 4 does not wrap"),
    (P + "aes_roundtrip", "aes back-end: decrypt (encrypt p) = p for every payload < 4 GiB, whatever the IVs of either object"),
    (P + "aes_load_sound", "aes back-end: decrypt c = ok p => c = body ++ Mac k body over the ENTIRE CBC text (>= 2 whole blocks), p = framed payload of CBC-decrypt(body)"),
    (P + "aes_rejects_cleanly", "aes back-end: decrypt never has undefined behaviour for ANY cipher text (all reads in bounds)"),
    (P + "cookie_roundtrip", "session_cookies: load (save t d) = (d,t), cookie not cleared, for now <= t, any back-end that round-trips"),
    (P + "cookie_load_sound", "session_cookies: load = ok (d,t) => now <= t, cookie = 'C' ++ b64(cipher), decrypt cipher = ok plain, decodeBody plain = (d,t)"),
    (P + "rejects_cleanly", "session_cookies: for EVERY cookie string: no UB; a rejection clears the cookie (unless there is none); success does not"),
    (P + "save_load_roundtrip_hmac", "session layer over hmac back-end round-trips for every payload and expiry"),
    (P + "save_load_roundtrip_aes", "session layer over aes back-end round-trips for every payload < 4 GiB and expiry, any IV state"),
    (P + "load_sound_hmac", "end to end (hmac): accept => now <= t and b64dec(cookie.tail) = body ++ Mac k body, body = time(t) ++ d"),
    (P + "load_sound_aes", "end to end (aes): accept => now <= t and b64dec(cookie.tail) = body ++ Mac k body, AesValid body (time(t) ++ d)"),
    (P + "authenticity_hmac", "under Unforgeable (ideal MAC, hypothesis): accept => (d,t) was saved earlier with this key"),
    (P + "authenticity_aes", "under Unforgeable: accept => (d,t) was saved earlier with this key material (any IVs)"),
    (P + "wrong_key_or_algo", "under Unforgeable: a cookie whose cipher text was not MAC'ed under this key/algorithm is rejected and cleared"),
    (P + "rejects_cleanly_hmac", "end to end (hmac): for EVERY cookie string: no UB, rejection clears, success does not"),
    (P + "rejects_cleanly_aes", "end to end (aes): for EVERY cookie string and IV state: no UB, rejection clears, success does not"),
    (P + "aes_factory_keys", "aes_factory(algo,key): split exactly at the CBC key size (disjoint segments) or both keys derived by HMAC over two DIFFERENT labels; other lengths refused"),
    (P + "judge_generic", "the run-time judge Spec.judgeLoad holds of the model's answer for EVERY cookie and clock, for any encryptor meeting (N)(S)(I), under Unforgeable"),
    (P + "judge_holds_hmac", "judge_generic instantiated: hmac back-end, issued = cipher texts of any list of earlier saves"),
    (P + "judge_holds_aes", "judge_generic instantiated: aes back-end, issued = cipher texts of any earlier saves under any IVs, loading object in any IV state"),
    (P + "confidentiality_partial", "bookkeeping for confidentiality (PARTIAL; a.k.a. iv_fresh_per_object): IVs come from the entropy source at load(), once per object; block 0 of the CBC plaintext is a dummy; decrypt does not depend on the IV"),
    (P + "encrypt_iv_independent_of_prior_decrypt", "bookkeeping (PARTIAL confidentiality): after ANY sequence of decryptions of client-supplied cipher texts, encrypt yields the same cipher text and encryption IV as without them; the IV slot each of cbc::encrypt/decrypt uses is generated from aes.cpp"),
    (P + "config_refusals", "session_pool::init refuses cbc without hmac, no method, mixed styles; every accepted signature-only configuration has a key of >= 16 bytes"),
]

ALPH = b"ABCDEFGHIJKLMNOPQRSTUVWXYZabcdefghijklmnopqrstuvwxyz0123456789-_"
DIGESTS = {"md5": 16, "sha1": 20, "sha224": 28, "sha256": 32, "sha384": 48, "sha512": 64}
CBC = {"aes": 128, "AES": 128, "aes128": 128, "aes-128": 128, "AES128": 128, "AES-128": 128, "aes192": 192, "aes-192": 192,
       "AES192": 192, "AES-192": 192, "aes256": 256, "aes-256": 256, "AES256": 256, "AES-256": 256}
I64MAX = (1 << 63) - 1
I64MIN = -(1 << 63)


def b64e(b):
    return base64.urlsafe_b64encode(b).rstrip(b"=")


def b64d(s):
    return base64.urlsafe_b64decode(s + b"=" * (-len(s) % 4))


class Cfg:
    """one encryptor configuration; `create(id)` is the harness/model line, `kid` names the key material"""

    def __init__(self, kind, **kw):
        self.kind = kind
        self.__dict__.update(kw)

    def create(self, oid):
        if self.kind == "hmac":
            return f"hmac {oid} {self.algo} {hexs(self.key)}"
        if self.kind == "aes":
            return f"aes {oid} {self.cbc} {hexs(self.key)}"
        if self.kind == "aes2":
            return f"aes2 {oid} {self.cbc} {hexs(self.ckey)} {self.mac} {hexs(self.mkey)}"
        return f"pool {oid} {self.enc or '-'} {self.mac or '-'} {self.cbc or '-'} {hexs(self.key)} {hexs(self.mkey)} {hexs(self.ckey)}"

    def effective(self):
        """(kind, ...) of the key material actually used — independent re-implementation of the configuration logic,
        used only to decide which issued cookies count as 'made with the same key material' in the judge"""
        k = self.kind
        if k == "hmac":
            return ("hmac", self.algo.lower(), self.key)
        if k == "aes2":
            return ("aes", CBC[self.cbc], self.ckey, self.mac.lower(), self.mkey)
        if k == "aes":
            cks = CBC[self.cbc] // 8
            key = self.key
            if len(key) == cks + 20:
                return ("aes", CBC[self.cbc], key[:cks], "sha1", key[cks:])
            h = hashlib.sha256 if len(key) * 8 <= 256 else hashlib.sha512
            k1 = pyhmac.new(key, b"0", h).digest()
            k2 = pyhmac.new(key, b"\x01", h).digest()
            return ("aes", CBC[self.cbc], k1[:cks], "sha1", k2[:20])
        # pool
        if self.enc:
            if self.enc == "hmac":
                return Cfg("hmac", algo="sha1", key=self.key).effective()
            if self.enc.startswith("hmac-"):
                return Cfg("hmac", algo=self.enc[5:], key=self.key).effective()
            return Cfg("aes", cbc=self.enc, key=self.key).effective()
        if not self.cbc:
            return Cfg("hmac", algo=self.mac, key=self.mkey).effective()
        return Cfg("aes2", cbc=self.cbc, ckey=self.ckey, mac=self.mac, mkey=self.mkey).effective()

    @property
    def kid(self):
        e = self.effective()
        return ":".join(x.hex() if isinstance(x, bytes) else str(x) for x in e) or "-"

    @property
    def is_aes(self):
        return self.effective()[0] == "aes"

    @property
    def dsize(self):
        e = self.effective()
        return DIGESTS[e[1]] if e[0] == "hmac" else DIGESTS[e[3]]


def rbytes(rng, n):
    return bytes(rng.randrange(256) for _ in range(n))


def make_configs(c):
    rng = c.rng
    cfgs = []
    for algo in DIGESTS:
        cfgs.append(Cfg("hmac", algo=algo, key=rbytes(rng, rng.choice((16, 20, 32, 64, 65, 130)))))
    cfgs.append(Cfg("hmac", algo="SHA1", key=rbytes(rng, 16)))
    for cbc in ("aes", "aes192", "aes-256", "AES128"):
        cks = CBC[cbc] // 8
        cfgs.append(Cfg("aes", cbc=cbc, key=rbytes(rng, cks + 20)))                       # split key
        cfgs.append(Cfg("aes", cbc=cbc, key=rbytes(rng, rng.choice((cks, 32, 33, 64)) if cks <= 32 else cks)))  # derived
    for cbc, mac in (("aes", "sha256"), ("aes192", "md5"), ("aes256", "sha512"), ("aes128", "sha384"), ("aes", "sha224"), ("aes", "sha1")):
        cfgs.append(Cfg("aes2", cbc=cbc, ckey=rbytes(rng, CBC[cbc] // 8), mac=mac, mkey=rbytes(rng, rng.choice((1, 16, 20, 64, 100)))))
    cfgs.append(Cfg("pool", enc="hmac", mac="", cbc="", key=rbytes(rng, 16), mkey=b"", ckey=b""))
    cfgs.append(Cfg("pool", enc="hmac-sha256", mac="", cbc="", key=rbytes(rng, 32), mkey=b"", ckey=b""))
    cfgs.append(Cfg("pool", enc="aes256", mac="", cbc="", key=rbytes(rng, 32), mkey=b"", ckey=b""))
    cfgs.append(Cfg("pool", enc="", mac="sha1", cbc="", key=b"", mkey=rbytes(rng, 20), ckey=b""))
    cfgs.append(Cfg("pool", enc="", mac="sha256", cbc="aes", key=b"", mkey=rbytes(rng, 32), ckey=rbytes(rng, 16)))
    return cfgs


def refusal_cases(c):
    """configurations that must be refused (and a few odd accepted ones)"""
    rng = c.rng
    k16, k15, k32 = rbytes(rng, 16), rbytes(rng, 15), rbytes(rng, 32)
    out = []
    n = [0]

    def add(line):
        n[0] += 1
        out.append(line.replace("ID", f"r{n[0]}"))
    for ln in (0, 1, 8, 15, 16, 17):
        for algo in ("sha1", "md5", "sha512"):
            add(f"hmac ID {algo} {hexs(rbytes(rng, ln))}")
    add(f"hmac ID whirlpool {hexs(k16)}")
    add(f"hmac ID Sha256 {hexs(k16)}")
    for cbc in ("aes", "aes192", "aes256", "AES-256", "des", "aes512", "Aes"):
        for ln in (0, 1, 15, 16, 23, 24, 25, 31, 32, 33, 35, 36, 37, 43, 44, 45, 51, 52, 53, 64, 100):
            add(f"aes ID {cbc} {hexs(rbytes(rng, ln))}")
    for cbc, ck in (("aes", k16), ("aes", k15), ("aes", k32), ("aes256", k32), ("aes192", k16), ("rc4", k16)):
        for mac, mk in (("sha1", k16), ("sha1", b""), ("sha1", b"x"), ("md4", k16), ("SHA512", k32)):
            add(f"aes2 ID {cbc} {hexs(ck)} {mac} {hexs(mk)}")
    for enc in ("-", "hmac", "hmac-md5", "hmac-foo", "aes", "aes-192", "blowfish", "hmacsha1", "aesx"):
        for mac in ("-", "sha1", "bogus"):
            for cbc in ("-", "aes", "des"):
                for key in (k15, k16, k32):
                    add(f"pool ID {enc} {mac} {cbc} {hexs(key)} {hexs(key)} {hexs(key)}")
    return out


def gen_stage_a(c, cfgs, scale):
    """issue cookies; returns lines and, per line, a descriptor"""
    rng = c.rng
    lines, desc = [], []

    def add(line, d=None):
        lines.append(line)
        desc.append(d)
    add(f"seed {c.seed}")
    for line in refusal_cases(c):
        add(line, {"op": "create"})
    for ci, cfg in enumerate(cfgs):
        oid = f"o{ci}"
        add(cfg.create(oid), {"op": "create", "cfg": ci})
        now = rng.choice((0, 1000, 1700000000, 1 << 33))
        sizes = list(range(0, 37)) + [rng.randrange(37, 64) for _ in range(2)] + [rng.randrange(64, 1500) for _ in range(2 * scale)]
        if ci % 6 == 0:
            sizes.append(rng.choice((4000, 65535, 65536)) if c.tier == "thorough" or ci % 12 == 0 else 3000)
        for k, sz in enumerate(sizes):
            if cfg.is_aes and k % 4 == 3:
                oid = f"o{ci}_{k}"          # bound the IV chain per object (two oracle rounds per encrypt)
                add(cfg.create(oid), {"op": "create", "cfg": ci})
            data = rbytes(rng, sz) if rng.random() < 0.8 else bytes([rng.choice((0, 255, 65))]) * sz
            dt = rng.choice((0, 1, 5, 3600, 1 << 31, 1 << 40, -1, -1000))
            t = now + dt
            if rng.random() < 0.03:
                t = rng.choice((I64MAX, I64MIN, -1, 0))
            add(f"save {oid} {now} {t} {hexs(data)}", {"op": "save", "cfg": ci, "now": now, "t": t, "data": data})
        # raw encryptor round trips (not for pool objects), also chained on one object
        if cfg.kind != "pool":
            for _ in range(3):
                p = rbytes(rng, rng.choice((0, 1, 11, 12, 13, 27, 28, 29, 100)))
                add(f"enc {oid} {hexs(p)}", {"op": "enc", "cfg": ci, "plain": p})
        add(f"saveon {oid} {now} {now + 5} 6162", {"op": "saveon", "cfg": ci})
        if cfg.is_aes:
            # the same payload and expiry saved twice by one object and once by a fresh one: an encrypting back-end
            # must not reveal that the payloads are equal (all three cookies, and their first cipher blocks, differ)
            same = rbytes(rng, rng.choice((0, 5, 40)))
            for k, o2 in enumerate((f"q{ci}a", f"q{ci}a", f"q{ci}b")):
                if k != 1:
                    add(cfg.create(o2), {"op": "create", "cfg": ci})
                add(f"save {o2} {now} {now + 60} {hexs(same)}", {"op": "save", "cfg": ci, "now": now, "t": now + 60, "data": same, "same": ci})
    return lines, desc


def mutate_cookie(rng, cookie, cfg, others, tier, short):
    """all mutations of one valid cookie (bytes).  Returns list of (tag, cookie bytes)."""
    out = []
    body = cookie[1:]
    cipher = b64d(body)
    ds = cfg.dsize
    if short:
        for i in range(len(cookie) * 8):                       # every single-bit flip of the cookie string
            m = bytearray(cookie); m[i // 8] ^= 1 << (i % 8)
            out.append(("bitflip", bytes(m)))
        for i in range(len(cipher) * 8):                       # every single-bit flip of the cipher text
            m = bytearray(cipher); m[i // 8] ^= 1 << (i % 8)
            out.append(("cipherflip", b"C" + b64e(bytes(m))))
        for i in range(len(cookie)):                           # every truncation
            out.append(("trunc", cookie[:i]))
        for i in range(1, len(cipher)):                        # every truncation of the cipher text (front and back)
            out.append(("ctrunc", b"C" + b64e(cipher[:i])))
            out.append(("cfront", b"C" + b64e(cipher[i:])))
    else:
        for _ in range(40):
            i = rng.randrange(len(cookie) * 8)
            m = bytearray(cookie); m[i // 8] ^= 1 << (i % 8)
            out.append(("bitflip", bytes(m)))
        for _ in range(20):
            out.append(("trunc", cookie[:rng.randrange(len(cookie))]))
    for n in (1, 2, 3, 4, 5, 16, 22):                          # extensions
        out.append(("extend", cookie + bytes(rng.choice(ALPH) for _ in range(n))))
        out.append(("cextend", b"C" + b64e(cipher + rbytes(rng, n))))
        out.append(("cprepend", b"C" + b64e(rbytes(rng, n) + cipher)))
    out.append(("extend0", cookie + b"\x00"))
    out.append(("extendA", cookie + b"A"))
    out.append(("extendAAAA", cookie + b"AAAA"))
    # tail-bit variants: the last character's unused low bits do not reach the cipher text
    r = len(body) % 4
    if r in (2, 3):
        idx = ALPH.index(bytes([body[-1]]))
        free = 4 if r == 2 else 2
        for v in range(1 << free):
            alt = (idx & ~((1 << free) - 1)) | v
            out.append(("tailbits", cookie[:-1] + bytes([ALPH[alt]])))
    # characters outside the alphabet decode like 'A'
    for pos in [i for i, ch in enumerate(cookie) if ch == 65 and i > 0][:6]:
        for junk in (b"!", b"=", b"\x00", b"\xff", b" ", b"+", b"/"):
            out.append(("junkA", cookie[:pos] + junk + cookie[pos + 1:]))
    out.append(("lower", b"c" + body))
    out.append(("notag", body))
    out.append(("doubletag", b"C" + cookie))
    # blocks
    blk = 16
    msg = cipher[:len(cipher) - ds]
    tag = cipher[len(cipher) - ds:]
    nb = len(msg) // blk
    for i in range(nb):
        for j in range(i + 1, nb):
            if short or rng.random() < 0.1:
                bl = [msg[k * blk:(k + 1) * blk] for k in range(nb)]
                bl[i], bl[j] = bl[j], bl[i]
                out.append(("blockswap", b"C" + b64e(b"".join(bl) + msg[nb * blk:] + tag)))
    for i in range(nb + 1):                                    # drop / duplicate a block, keep the tag
        out.append(("blockdrop", b"C" + b64e(msg[:i * blk] + msg[(i + 1) * blk:] + tag)))
        out.append(("blockdup", b"C" + b64e(msg[:i * blk] + msg[i * blk:(i + 1) * blk] + msg[i * blk:] + tag)))
    out.append(("tagonly", b"C" + b64e(tag)))
    out.append(("msgonly", b"C" + b64e(msg)))
    out.append(("tagzero", b"C" + b64e(msg + bytes(len(tag)))))
    out.append(("tagprefix", b"C" + b64e(msg + tag[:len(tag) // 2] + bytes(len(tag) - len(tag) // 2))))
    out.append(("tagshort", b"C" + b64e(msg + tag[:-1])))
    # coordinated changes inside the tag: catch comparisons that add up / xor together / sort the differences
    nt = len(tag)
    pairs = [(i, j) for i in range(min(8, nt)) for j in range(i + 1, min(8, nt))]
    pairs += [tuple(sorted(rng.sample(range(nt), 2))) for _ in range(24 if short else 8)]
    for i, j in pairs:
        for b in ((0, 7) if i < 8 and j < 8 else (rng.randrange(8),)):
            t2 = bytearray(tag); t2[i] ^= 1 << b; t2[j] ^= 1 << b
            out.append(("tagpair", b"C" + b64e(msg + bytes(t2))))
        if tag[i] != tag[j]:
            t2 = bytearray(tag); t2[i], t2[j] = t2[j], t2[i]
            out.append(("tagswap", b"C" + b64e(msg + bytes(t2))))
        t2 = bytearray(tag); t2[i] = (t2[i] + 1) & 255; t2[j] = (t2[j] - 1) & 255
        out.append(("tagaddsub", b"C" + b64e(msg + bytes(t2))))
    if tag[1:] + tag[:1] != tag:
        out.append(("tagrot", b"C" + b64e(msg + tag[1:] + tag[:1])))
    if tag[::-1] != tag:
        out.append(("tagrev", b"C" + b64e(msg + tag[::-1])))
    for x in (0xff, 0x80, 0x01):
        out.append(("tagxorall", b"C" + b64e(msg + bytes(v ^ x for v in tag))))
    if len(msg) >= 2:
        # the same coordinated changes between a body byte and a tag byte / two body bytes
        for _ in range(6):
            i, j = rng.randrange(len(msg)), rng.randrange(nt)
            b = rng.randrange(8)
            m2 = bytearray(msg); t2 = bytearray(tag); m2[i] ^= 1 << b; t2[j] ^= 1 << b
            out.append(("bodytagpair", b"C" + b64e(bytes(m2) + bytes(t2))))
            i2 = rng.randrange(len(msg))
            if i2 != i:
                m2 = bytearray(msg); m2[i] ^= 1 << b; m2[i2] ^= 1 << b
                out.append(("bodypair", b"C" + b64e(bytes(m2) + tag)))
    out.append(("oneblock", b"C" + b64e(msg[:blk] + tag)))
    # splices with other valid cookies (same and different key material)
    for oc in others:
        ocipher = b64d(oc[1:])
        for cut in sorted({0, 8, 16, 24, 32, len(cipher) - ds, len(cipher) // 2}):
            if 0 <= cut <= len(cipher):
                out.append(("splice", b"C" + b64e(cipher[:cut] + ocipher[cut:])))
                out.append(("splice", b"C" + b64e(ocipher[:cut] + cipher[cut:])))
        k = rng.randrange(1, len(cookie))
        out.append(("splicetxt", cookie[:k] + oc[k:]))
    return out


def random_cookies(rng, n):
    out = []
    for _ in range(n):
        ln = rng.choice((0, 1, 2, 3, 4, 5, 17, 23, 44, 45, 46, 47, 65, 87, 88, 89, 130, rng.randrange(0, 400)))
        fl = rng.random()
        if fl < 0.5:
            s = b"C" + bytes(rng.choice(ALPH) for _ in range(ln))
        elif fl < 0.7:
            s = bytes(rng.randrange(256) for _ in range(ln))
        elif fl < 0.85:
            s = b"C" + bytes(rng.randrange(256) for _ in range(ln))
        else:
            s = b"C" + b64e(bytes(ln))                           # all-zero cipher text
        out.append(("random", s))
    return out


def gen_stage_b(c, cfgs, issued, scale):
    """issued: list of dicts {cfg, cookie, now, t, data}.  Returns lines, desc."""
    rng = c.rng
    lines, desc = [], []

    def add(line, d=None):
        lines.append(line)
        desc.append(d)
    add(f"seed {c.seed + 1}")
    by_cfg = {}
    for it in issued:
        by_cfg.setdefault(it["cfg"], []).append(it)
    nobj = [0]

    def fresh(ci):
        nobj[0] += 1
        oid = f"b{nobj[0]}"
        add(cfgs[ci].create(oid), {"op": "create", "cfg": ci})
        return oid
    allc = [it for it in issued]
    for ci, cfg in enumerate(cfgs):
        its = by_cfg.get(ci, [])
        if not its:
            continue
        its_sorted = sorted(its, key=lambda it: len(it["cookie"]))
        # fully enumerated mutations for the shortest cookies of this configuration, sampled for a longer one
        chosen = [(its_sorted[0], True)]
        if c.tier == "thorough" and len(its_sorted) > 3:
            chosen.append((its_sorted[3], True))
        mid = its_sorted[min(len(its_sorted) - 1, 10)]
        chosen.append((mid, False))
        for it, short in chosen:
            if short and c.tier != "thorough" and ci % 3 != c.seed % 3 and len(cfgs) > 6:
                short = False          # quick tier: exhaustive flips for a third of the configurations per seed
            others = [o["cookie"] for o in rng.sample(its, min(2, len(its))) if o is not it]
            others += [o["cookie"] for o in rng.sample(allc, min(3, len(allc))) if o["cfg"] != ci]
            muts = mutate_cookie(rng, it["cookie"], cfg, others, c.tier, short)
            oid = fresh(ci)
            cnt = 0
            for tag, ck in muts:
                now = it["now"] if it["t"] >= it["now"] else it["t"] - 1
                add(f"load {oid} {now} {hexs(ck)}", {"op": "load", "cfg": ci, "now": now, "cookie": ck, "mut": tag})
                cnt += 1
                if cfg.is_aes and cnt % 40 == 0:
                    oid = fresh(ci)         # bound the IV chain per object (oracle rounds)
        # the valid cookies themselves at expiry edges, several loads on one object (IV chaining)
        oid = fresh(ci)
        for it in its[:6 * scale]:
            for now in {it["t"], it["t"] - 1, it["t"] + 1, it["now"], I64MIN, I64MAX}:
                if I64MIN <= now <= I64MAX:
                    add(f"load {oid} {now} {hexs(it['cookie'])}", {"op": "load", "cfg": ci, "now": now, "cookie": it["cookie"], "mut": "valid"})
        # transplants: every other configuration's shortest cookie presented to this one
        oid = fresh(ci)
        for cj, other in enumerate(cfgs):
            if cj == ci or cj not in by_cfg:
                continue
            it = by_cfg[cj][0]
            add(f"load {oid} {it['now']} {hexs(it['cookie'])}", {"op": "load", "cfg": ci, "now": it["now"], "cookie": it["cookie"], "mut": "transplant"})
        if ci in (0, 7):
            # every cookie string of length 0..1, every 'C'+byte, (thorough: every string of length 2)
            tiny = [b""] + [bytes([a]) for a in range(256)] + [b"C" + bytes([a]) for a in range(256)]
            if c.tier == "thorough":
                tiny += [bytes([a, b]) for a in range(256) for b in range(256)]
            for ck in tiny:
                add(f"load {oid} 1000 {hexs(ck)}", {"op": "load", "cfg": ci, "now": 1000, "cookie": ck, "mut": "tiny"})
        for tag, ck in random_cookies(rng, 25 * scale):
            add(f"load {oid} 1000 {hexs(ck)}", {"op": "load", "cfg": ci, "now": 1000, "cookie": ck, "mut": tag})
    return lines, desc


def le(n, k):
    return (n % (1 << (8 * k))).to_bytes(k, "little")


def gen_keyed(c, hbin, cfgs, scale):
    """Cookies built WITH the key (valid MAC over bodies the server never produced): they reach the checks behind the
    MAC (short plaintext, size checks, inner-length bound, expiry) that no mutation of an issued cookie reaches.
    Acceptance of these is not a forgery (the judge for issued cookies is not applied); the expected outcome is computed
    here independently of the model.  Returns lines, desc (desc['expect'] = expected harness answer)."""
    rng = c.rng
    plan = []      # (ci, kind, body or frame, now, expect)
    now = 5000
    for ci, cfg in enumerate(cfgs):
        e = cfg.effective()
        if e[0] == "hmac":
            for ln in list(range(0, 10)) + [20]:
                body = rbytes(rng, ln)
                plan.append((ci, "hmac", body, now))
            for t in (now - 1, now, now + 1, I64MAX, I64MIN, -1):
                plan.append((ci, "hmac", le(t, 8) + rbytes(rng, rng.randrange(0, 5)), now))
        else:
            for ln in (0, 15, 16, 17, 31, 33, 48 + 7):
                plan.append((ci, "aesraw", rbytes(rng, ln), now))
            for nblocks in (2, 3, 4):
                room = nblocks * 16 - 20
                for ilen in sorted({0, 1, 7, 8, 9, room - 1, room, room + 1, room + 16, 0xffffffff, 0x80000000, nblocks * 16, nblocks * 16 - 16}):
                    if ilen < 0:
                        continue
                    t = rng.choice((now, now + 100, now - 1))
                    content = (le(t, 8) + rbytes(rng, room))[:room]
                    frame = rbytes(rng, 16) + le(ilen, 4) + content
                    plan.append((ci, "aesframe", frame, now))
    # ask the real primitives for CBC texts and tags
    q1, idx1 = [], []
    for k, (ci, kind, data, now_) in enumerate(plan):
        if kind == "aesframe":
            e = cfgs[ci].effective()
            q1.append(f"cbcenc aes{e[1]} {hexs(e[2])} {hexs(rbytes(rng, 16))} {hexs(data)}")
            idx1.append(k)
    rc, a1, err = c.run_lines(hbin, q1)
    bodies = {}
    for k, a in zip(idx1, a1):
        bodies[k] = unhex(a)
    q2 = []
    for k, (ci, kind, data, now_) in enumerate(plan):
        e = cfgs[ci].effective()
        body = bodies.get(k, data)
        q2.append(f"mac {e[1]} {hexs(e[2])} {hexs(body)}" if e[0] == "hmac" else f"mac {e[3]} {hexs(e[4])} {hexs(body)}")
    rc, a2, err = c.run_lines(hbin, q2)
    lines, desc = [], []
    oid = {}
    for k, ((ci, kind, data, now_), tag) in enumerate(zip(plan, a2)):
        if ci not in oid or (cfgs[ci].is_aes and k % 8 == 0):
            oid[ci] = f"k{ci}_{k}"
            lines.append(cfgs[ci].create(oid[ci])); desc.append({"op": "create", "cfg": ci})
        body = bodies.get(k, data)
        cookie = b"C" + b64e(body + unhex(tag))
        # expected outcome, from the wire format alone
        if kind == "hmac":
            plain = data
        elif kind == "aesraw":
            plain = None
        else:
            ilen = int.from_bytes(data[16:20], "little")
            plain = data[20:20 + ilen] if ilen <= len(data) - 20 else None
        if plain is None or len(plain) < 8:
            exp = "fail cleared=1"
        else:
            t = int.from_bytes(plain[:8], "little", signed=True)
            exp = "fail cleared=1" if t < now_ else f"ok {t} {hexs(plain[8:])} cleared=0"
        lines.append(f"load {oid[ci]} {now_} {hexs(cookie)}")
        desc.append({"op": "load", "cfg": ci, "now": now_, "cookie": cookie, "mut": "keyed-" + kind, "expect": exp})
    return lines, desc


def gen_load_then_save(c, cfgs, issued, ciphers):
    """What a request does: load the presented (genuine) cookie, then save — on ONE encryptor object.  Two requests that
    present the same cookie X and save the same payload must be issued different cookies; payloads with a common prefix
    must not give cipher texts with a common prefix.  Also through the raw encryptor API (decrypt then encrypt)."""
    rng = c.rng
    lines, desc = [], []

    def add(line, d=None):
        lines.append(line); desc.append(d)
    for ci, cfg in enumerate(cfgs):
        if not cfg.is_aes:
            continue
        its = [it for it in issued if it["cfg"] == ci and it["t"] >= it["now"] and "same" not in it]
        if not its:
            continue
        x = its[min(len(its) - 1, 5)]
        now = x["now"]
        pay = rbytes(rng, 40)
        pay2 = pay[:24] + rbytes(rng, 16)          # common prefix: frame blocks 1 and 2 equal
        grp = f"ls{ci}"
        # request 1 and 2 on object A (load X, save P, load X, save P), request 3 on a fresh object B, then a prefix-sharing payload
        oa, ob = f"s{ci}a", f"s{ci}b"
        add(cfg.create(oa), {"op": "create", "cfg": ci})
        for k in range(2):
            add(f"load {oa} {now} {hexs(x['cookie'])}", {"op": "load", "cfg": ci, "now": now, "cookie": x["cookie"], "mut": "valid", "expect_ok": (x["t"], x["data"])})
            add(f"save {oa} {now} {now + 60} {hexs(pay)}", {"op": "save", "cfg": ci, "now": now, "t": now + 60, "data": pay, "grp": grp, "ctx": len(lines)})
        add(cfg.create(ob), {"op": "create", "cfg": ci})
        add(f"load {ob} {now} {hexs(x['cookie'])}", {"op": "load", "cfg": ci, "now": now, "cookie": x["cookie"], "mut": "valid", "expect_ok": (x["t"], x["data"])})
        add(f"save {ob} {now} {now + 60} {hexs(pay)}", {"op": "save", "cfg": ci, "now": now, "t": now + 60, "data": pay, "grp": grp, "ctx": len(lines)})
        add(f"load {ob} {now} {hexs(x['cookie'])}", {"op": "load", "cfg": ci, "now": now, "cookie": x["cookie"], "mut": "valid", "expect_ok": (x["t"], x["data"])})
        add(f"save {ob} {now} {now + 60} {hexs(pay2)}", {"op": "save", "cfg": ci, "now": now, "t": now + 60, "data": pay2, "grp": grp, "ctx": len(lines)})
        # raw encryptor API: decrypt a genuine cipher text, then encrypt
        cts = [z for z in ciphers if z["cfg"] == ci]
        if cts and cfg.kind != "pool":
            ct = cts[0]["cipher"]
            p = rbytes(rng, 30)
            for o2 in (f"s{ci}c", f"s{ci}d"):
                add(cfg.create(o2), {"op": "create", "cfg": ci})
                add(f"dec {o2} {hexs(ct)}", {"op": "dec", "cfg": ci, "cipher": ct, "plain": cts[0]["plain"]})
                add(f"enc {o2} {hexs(p)}", {"op": "enc", "cfg": ci, "plain": p, "grp": grp + "raw", "ctx": len(lines)})
                add(f"dec {o2} {hexs(ct)}", {"op": "dec", "cfg": ci, "cipher": ct, "plain": cts[0]["plain"]})
                add(f"enc {o2} {hexs(p)}", {"op": "enc", "cfg": ci, "plain": p, "grp": grp + "raw", "ctx": len(lines)})
    return lines, desc


def common_prefix(a, b):
    n = 0
    while n < len(a) and n < len(b) and a[n] == b[n]:
        n += 1
    return n


def gen_stage_b_raw(c, cfgs, ciphers, scale):
    """raw encryptor::decrypt on mutated cipher texts (through the encryptor objects, no cookie layer)"""
    rng = c.rng
    lines, desc = [], []
    n = [0]
    for ci, cfg in enumerate(cfgs):
        its = [x for x in ciphers if x["cfg"] == ci]
        if not its or cfg.kind == "pool":
            continue
        n[0] += 1
        oid = f"d{n[0]}"
        lines.append(cfg.create(oid)); desc.append({"op": "create", "cfg": ci})
        for it in its:
            ct = it["cipher"]
            muts = [ct, ct[:-1], ct + b"\x00", ct[1:], b"", bytes(len(ct)), b"\xff" * len(ct), ct[:cfg.dsize], ct[:cfg.dsize + 16], ct[:cfg.dsize + 32]]
            for i in rng.sample(range(len(ct) * 8), min(len(ct) * 8, 24 * scale)):
                m = bytearray(ct); m[i // 8] ^= 1 << (i % 8)
                muts.append(bytes(m))
            for ln in (cfg.dsize - 1, cfg.dsize, cfg.dsize + 1, cfg.dsize + 15, cfg.dsize + 16, cfg.dsize + 17, cfg.dsize + 31, cfg.dsize + 32, cfg.dsize + 33, cfg.dsize + 48):
                muts.append(rbytes(rng, ln))
            for m in muts:
                lines.append(f"dec {oid} {hexs(m)}"); desc.append({"op": "dec", "cfg": ci, "cipher": m, "plain": it["plain"] if m == ct else None})
    return lines, desc


# ------------------------------------------------------------------------------------------------ running

def split_out(o):
    """harness output -> (result, entropy or None)"""
    if " R " in o:
        a, b = o.rsplit(" R ", 1)
        return a, b
    return o, None


def run_model(c, hbin, model, lines, impl_raw, max_rounds=60):
    """oracle fixpoint: returns (model outputs, set of line indices that posed oracle queries, rounds, oracle size)"""
    mlines = []
    for l, o in zip(lines, impl_raw):
        _, ent = split_out(o)
        mlines.append(l + (f" R {ent}" if ent else ""))
    groups = {}
    for i, l in enumerate(lines):
        w = l.split()
        groups.setdefault(w[1] if len(w) > 1 else "_", []).append(i)
    final = [None] * len(lines)
    pending = list(groups.keys())
    oracle = {}
    asked = set()
    rounds = 0
    while pending and rounds < max_rounds:
        rounds += 1
        idx = sorted(i for g in pending for i in groups[g])
        # only the oracle entries this round's objects could need are all of them (cheap enough): send all
        olines = [f"O {q} {a}" for q, a in oracle.items()]
        rc, out, err = c.run_lines(model, olines + [mlines[i] for i in idx])
        if rc != 0 or len(out) != len(olines) + len(idx):
            c.broke("model driver crashed", err[-2000:] + f" (got {len(out)} of {len(olines) + len(idx)} lines)")
            break
        out = out[len(olines):]
        needs = []
        still = set()
        for i, o in zip(idx, out):
            final[i] = o
            if o.startswith("need "):
                asked.add(i)
                for q in o[5:].split(";"):
                    if q not in oracle:
                        needs.append(q)
                w = lines[i].split()
                still.add(w[1] if len(w) > 1 else "_")
            elif o == "blocked":
                w = lines[i].split()
                still.add(w[1] if len(w) > 1 else "_")
        needs = list(dict.fromkeys(needs))
        if needs:
            rc, ansl, err = c.run_lines(hbin, needs)
            if rc != 0 or len(ansl) != len(needs):
                c.broke("harness primitive ops crashed", err[-2000:])
                break
            for q, a in zip(needs, ansl):
                oracle[q] = a
        elif still:
            # blocked without progress
            break
        pending = [g for g in pending if g in still]
    return final, asked, rounds, len(oracle)


def canon_impl(o):
    return split_out(o)[0]


def main():
    c = Check("C05")
    c.rule = ("cases = protocol lines against encryptor / session_cookies objects: configurations (accepted and refused), "
              "save/encrypt of payloads 0..64 KiB with expiries around now and at the int64 edges, then load/decrypt of every "
              "single-bit flip (cookie text and cipher text), every truncation, extensions, block swaps/drops/duplications, splices, "
              "cross-key and cross-algorithm transplants, base64 tail-bit and junk-character variants, random strings, expiry edges; "
              "non-trivial = the model posed at least one oracle query for the line (a MAC was computed, i.e. the input passed the "
              "length/shape checks) or the line is an encrypt/save/refused configuration; distinct = distinct case lines")
    c.trusted += [
        "translator translate/c05.py + translate/cexpr.py (size checks, size formulas, offsets, constants, comparison operators, refusal conditions -> Gen.lean)",
        "hand-written control flow of Model.lean (order of checks, buffer layout, IV chaining), tied by the correspondence run",
        "HYPOTHESIS Unforgeable (ideal MAC at the presented cipher text) in authenticity_hmac / authenticity_aes / wrong_key_or_algo",
        "HYPOTHESES MacAlg.Lawful (tag has digest_size bytes), CbcAlg.Lawful (length preserving; dec∘enc recovers all but the first block; block = 16)",
        "C15 base64url model and its theorem b64_decode_encode (imported)",
        "externals: OpenSSL AES/SHA-2, bundled MD5/SHA-1, HMAC construction (C16), urandom; little-endian host, sizeof(time_t)=8, sizeof(size_t)=8",
        "oracle plumbing of Driver.lean (candidate query lists; dual evaluation guard) and checks/c05.py; harness/c05.cpp link-time interposition of time() and urandom_device",
        "judge: Spec.judgeLoad over the cookies issued in the run; 'same key material' computed by an independent re-implementation of the key configuration in checks/c05.py",
    ]
    c.assumptions += [
        "std::string lengths < 2^64 (SizeOk); digest size < 2^32",
        "payload < 2^32 - 64 bytes for the aes round trip (uint32 length field; above that aes_cipher::encrypt overflows its buffer: outside the property's 0..64 KiB)",
        "time_t values within int64",
        "confidentiality clause is PARTIAL: only IV/dummy-block bookkeeping is proved (confidentiality_partial, encrypt_iv_independent_of_prior_decrypt); equal / prefix-sharing payloads are additionally judged on the implementation (distinct cookies, no shared cipher prefix)",
    ]
    scale = 4 if c.tier == "thorough" else 1

    c.translate("c05.py")
    proved = c.prove(["Cppcms.C05.Props"], OBLIGATIONS, exe="c05_model")
    if c.tier == "thorough" and proved:
        c.leanchecker(["Cppcms.C05.Props"])
    model = c.model_exe()
    ok_impl = c.impl_build()
    hbin = c.harness("c05") if ok_impl else None
    if not (hbin and os.path.exists(model)):
        c.finish()

    if c.replay_path:
        rp = json.load(open(c.replay_path))
        lines = rp.get("lines") or []
        if lines:
            rc, raw, err = c.run_lines(hbin, lines)
            mo, _, _, _ = run_model(c, hbin, model, lines, raw + [""] * (len(lines) - len(raw)))
            for i, l in enumerate(lines):
                print("case :", l[:300]); print("impl :", (raw[i] if i < len(raw) else None)); print("model:", mo[i])
            if rp.get("judge"):
                rc, jo, _ = c.run_lines(model, rp["judge"])
                for l, o in zip(rp["judge"], jo):
                    print("judge:", l[:300], "->", o)
            if err.strip():
                print("stderr:", err[-3000:])
        c.finish()

    cfgs = make_configs(c)
    bad = []          # (what, replay dict)
    diffs_total = []
    stage_lines = {}

    def run_stage(name, lines, desc):
        rc, raw, err = c.run_lines(hbin, lines)
        crashed = None
        if rc != 0 or len(raw) != len(lines):
            k = len(raw)
            crashed = {"rc": rc, "stderr": err, "line": lines[k] if k < len(lines) else None, "index": k}
            # context needed to reproduce: creation line of the object + the failing line
            oidk = lines[k].split()[1] if k < len(lines) and len(lines[k].split()) > 1 else None
            ctx = [l for l in lines[:k] if l.split()[0] in ("hmac", "aes", "aes2", "pool") and l.split()[1] == oidk][-1:] + ([lines[k]] if k < len(lines) else [])
            c.violation(f"sanitizer abort / crash / uncaught exception of the real code in stage {name}",
                        {"lines": ctx[-40:], "stderr": err[-3000:], "replay_cmd": "bin/check C05 --replay <this file>"})
        impl = [canon_impl(o) for o in raw] + ["<no output: harness died>"] * (len(lines) - len(raw))
        rawp = raw + [""] * (len(lines) - len(raw))
        mo, asked, rounds, nor = run_model(c, hbin, model, lines, rawp)
        nd = 0
        for i, (a, b) in enumerate(zip(impl, mo)):
            if a.startswith("exception "):
                c.violation(f"exception escaped the real code in stage {name}", {"lines": [l for l in lines[:i] if l.split()[0] in ("hmac", "aes", "aes2", "pool", "seed") and l.split()[1] == lines[i].split()[1]] + [lines[i]], "impl": a})
            if a != b:
                nd += 1
                diffs_total.append((name, i, lines[i], a, b))
        c.evaluations += len(lines)
        c.traces_validated += len(lines)
        for i, l in enumerate(lines):
            d = desc[i]
            if (i in asked) or (d and d["op"] in ("enc", "save", "saveon")) or (d and d["op"] == "create" and mo[i] and mo[i].startswith("refused")):
                c.nontrivial.add(l)
        c.log(f"correspond[{name}]: {len(lines)} cases, {nd} diffs, oracle rounds {rounds}, oracle answers {nor}, impl rc={rc}")
        c.extra_cov.setdefault("stages", {})[name] = {"cases": len(lines), "diffs": nd, "oracle_rounds": rounds, "oracle_answers": nor}
        stage_lines[name] = lines
        return impl, mo

    # ---------------- stage A: issue
    la, da = gen_stage_a(c, cfgs, scale)
    # corpus first
    cdir = os.path.join(ROOT, "gen", "corpus", "C05")
    corpus_lines, corpus_expect = [], []
    if os.path.isdir(cdir):
        for f in sorted(os.listdir(cdir)):
            if f.endswith(".lines"):
                for l in open(os.path.join(cdir, f)):
                    l = l.strip()
                    if not l or l.startswith("#"):
                        continue
                    case, _, exp = l.partition(" ## ")
                    corpus_lines.append(case.strip())
                    corpus_expect.append(exp.strip() or None)
    if corpus_lines:
        ic, mc = run_stage("corpus", corpus_lines, [{"op": "corpus"}] * len(corpus_lines))
        for k, (l, e, o) in enumerate(zip(corpus_lines, corpus_expect, ic)):
            if e is not None and o != e:
                oid = l.split()[1] if len(l.split()) > 1 else None
                ctx = [x for x in corpus_lines[:k] if x.split()[0] in ("hmac", "aes", "aes2", "pool") and x.split()[1] == oid][-1:] + [l]
                bad.append((f"corpus witness: the real code answers {o[:80]!r}, recorded answer is {e[:80]!r}", {"lines": ctx, "impl": o, "expected": e}))
    ia, ma = run_stage("issue", la, da)
    issued, ciphers = [], []
    jlines = []
    for l, d, o in zip(la, da, ia):
        if not d:
            continue
        if d["op"] == "save":
            if not o.startswith("ok "):
                c.violation("save did not produce a cookie", {"lines": [cfgs[d["cfg"]].create(l.split()[1]), l], "impl": o})
                continue
            ck = unhex(o[3:])
            it = dict(d, cookie=ck)
            issued.append(it)
            if ck[:1] != b"C":
                c.violation("saved cookie does not start with 'C'", {"lines": [cfgs[d["cfg"]].create(l.split()[1]), l], "impl": o})
                continue
            jlines.append(f"JI {cfgs[d['cfg']].kid} {hexs(b64d(ck[1:]))} {d['t']} {hexs(d['data'])}")
        elif d["op"] == "enc" and o.startswith("ok "):
            ciphers.append({"cfg": d["cfg"], "cipher": unhex(o[3:]), "plain": d["plain"]})
    groups = {}
    for it in issued:
        if "same" in it:
            groups.setdefault(it["same"], []).append(it)
    neq = 0
    for ci, its in groups.items():
        neq += 1
        cks = [it["cookie"] for it in its]
        firsts = [b64d(ck[1:])[:16] for ck in cks]
        if len(set(cks)) != len(cks) or len(set(firsts)) != len(firsts):
            bad.append(("an encrypting back-end produced equal cookies (or equal first cipher blocks) for equal payloads: it reveals whether two payloads are equal",
                        {"lines": [cfgs[ci].create(f"q{ci}a"), f"save q{ci}a {its[0]['now']} {its[0]['t']} {hexs(its[0]['data'])}", f"save q{ci}a {its[0]['now']} {its[0]['t']} {hexs(its[0]['data'])}",
                                   cfgs[ci].create(f"q{ci}b"), f"save q{ci}b {its[0]['now']} {its[0]['t']} {hexs(its[0]['data'])}"],
                         "cookies": [hexs(x) for x in cks]}))
    c.extra_cov["equal_payload_distinct_cookie_groups"] = neq
    # ---------------- stage B: present mutated cookies / cipher texts
    lb, db = gen_stage_b(c, cfgs, issued, scale)
    ib, mb = run_stage("load-mutations", lb, db)
    lr, dr = gen_stage_b_raw(c, cfgs, ciphers, scale)
    ir, mr = run_stage("decrypt-mutations", lr, dr)
    # ---------------- load then save on one object (what a request does)
    ll, dl = gen_load_then_save(c, cfgs, issued, ciphers)
    il, ml = run_stage("load-then-save", ll, dl)
    grp = {}
    for k, (l, d, o) in enumerate(zip(ll, dl, il)):
        if not d:
            continue
        if d["op"] == "load" and "expect_ok" in d:
            t, data = d["expect_ok"]
            if o != f"ok {t} {hexs(data)} cleared=0":
                bad.append(("a genuine unexpired cookie was not loaded back", {"lines": [x for x in ll[:k] if x.split()[1] == l.split()[1]] + [l], "impl": o}))
        if d["op"] == "dec" and d.get("plain") is not None and o != "ok " + hexs(d["plain"]):
            bad.append(("encryptor round trip failed", {"lines": [x for x in ll[:k] if x.split()[1] == l.split()[1]] + [l], "impl": o}))
        if "grp" in d and o.startswith("ok "):
            v = unhex(o[3:])
            ct = b64d(v[1:]) if d["op"] == "save" else v
            grp.setdefault(d["grp"], []).append((k, ct, d))
    nls = 0
    for g, items in grp.items():
        for a in range(len(items)):
            for b in range(a + 1, len(items)):
                nls += 1
                (ka, ca, da_), (kb, cb, db_) = items[a], items[b]
                cp = common_prefix(ca, cb)
                same_payload = (da_.get("data", da_.get("plain")) == db_.get("data", db_.get("plain")))
                if ca == cb or cp >= 16:
                    oids = {ll[ka].split()[1], ll[kb].split()[1]}
                    ctx = [x for x in ll[:max(ka, kb) + 1] if len(x.split()) > 1 and x.split()[1] in oids]
                    bad.append(("an encrypting back-end that has loaded (decrypted) the presented cookie issues " +
                                ("byte-identical cookies for equal payloads" if ca == cb else f"cipher texts sharing a {cp}-byte prefix" + (" for equal payloads" if same_payload else " for payloads with a common prefix")) +
                                ": it reveals whether (prefixes of) two payloads are equal — the IV of the encryption depends on the client-supplied cookie",
                                {"lines": ctx, "impl": [il[ka][:200], il[kb][:200]], "common_cipher_prefix_bytes": cp}))
    c.extra_cov["load_then_save_cookie_pairs_compared"] = nls
    lk, dk = gen_keyed(c, hbin, cfgs, scale)
    ik, mk_ = run_stage("keyed-malformed", lk, dk)
    nk = 0
    for l, d, o in zip(lk, dk, ik):
        if d and d["op"] == "load":
            nk += 1
            if o != d["expect"]:
                bad.append(("cookie with a valid MAC over a malformed / short / expired body: implementation answer differs from the wire format's meaning "
                            "(expected " + d["expect"][:80] + ")",
                            {"lines": [cfgs[d["cfg"]].create(l.split()[1]), l], "impl": o, "expected": d["expect"], "mutation": d["mut"]}))
    c.extra_cov["keyed_malformed_loads"] = nk
    # configuration refusals judged directly on the implementation's answers (independent of the model)
    for l, d, o in zip(la, da, ia):
        if not d or d["op"] != "create":
            continue
        w = l.split()
        must_refuse = None
        if w[0] == "hmac" and len(unhex(w[3])) < 16:
            must_refuse = "hmac key shorter than 16 bytes"
        if w[0] == "pool":
            enc, mac, cbc = w[2], w[3], w[4]
            if enc == "-" and mac == "-" and cbc != "-":
                must_refuse = "cipher without MAC"
            if enc == "-" and mac == "-" and cbc == "-":
                must_refuse = "client-side sessions without any method"
            if (enc == "hmac" or enc.startswith("hmac-")) and len(unhex(w[5])) < 16 and mac == "-" and cbc == "-":
                must_refuse = "hmac key shorter than 16 bytes"
            if enc == "-" and cbc == "-" and mac != "-" and len(unhex(w[6])) < 16:
                must_refuse = "hmac key shorter than 16 bytes"
        if must_refuse and not o.startswith("refused"):
            bad.append(("configuration that must be refused was accepted: " + must_refuse, {"lines": [l], "impl": o}))

    # ---------------- judge on the implementation's answers
    jcase = []
    mutstat = {}
    for l, d, o in zip(lb, db, ib):
        if not d or d["op"] != "load":
            continue
        w = o.split()
        acc = None
        if w and w[0] == "ok" and len(w) == 4:
            acc = ("1", w[1], w[2], w[3])
        elif w and w[0] == "fail" and len(w) == 2:
            acc = ("0", "0", "-", w[1])
        st = mutstat.setdefault(d["mut"], [0, 0])
        st[0] += 1
        if acc is None:
            bad.append(("unparsable implementation answer", {"lines": [cfgs[d["cfg"]].create(l.split()[1]), l], "impl": o}))
            continue
        if acc[0] == "1":
            st[1] += 1
        jlines.append(f"J {cfgs[d['cfg']].kid} {d['now']} {hexs(d['cookie'])} {acc[0]} {acc[1]} {acc[2]} {'1' if acc[3] == 'cleared=1' else '0'}")
        jcase.append((l, d, o))
    rc, jout, jerr = c.run_lines(model, jlines)
    jres = [o for l, o in zip(jlines, jout) if l.startswith("J ")]
    if rc != 0 or len(jres) != len(jcase):
        c.broke("judge run", jerr[-2000:])
    nji = sum(1 for l in jlines if l.startswith("JI "))
    for (l, d, o), v in zip(jcase, jres):
        if v != "1":
            oid = l.split()[1]
            kid = cfgs[d["cfg"]].kid
            bad.append(("property predicate (Spec.judgeLoad) false on the implementation's answer: " +
                        ("a cookie that is not an issued, unexpired one for this key material was accepted / returned wrong data"
                         if o.startswith("ok") else "an issued unexpired cookie was rejected, or a rejected cookie was not cleared"),
                        {"lines": [cfgs[d["cfg"]].create(oid), l], "impl": o, "mutation": d["mut"],
                         "judge": [j for j in jlines if j.startswith("JI " + kid + " ")][:50] + [j for j in jlines if j.startswith("J ") and j.split()[3] == hexs(d["cookie"]) and j.split()[1] == kid][:1],
                         "replay_cmd": "bin/check C05 --replay <this file>"}))
    # raw round trips
    for l, d, o in zip(la, da, ia):
        if d and d["op"] == "saveon" and not o.startswith("fail onServer"):
            bad.append(("save with on_server=true was not refused", {"lines": [cfgs[d["cfg"]].create(l.split()[1]), l], "impl": o}))
    for l, d, o in zip(lr, dr, ir):
        if d and d["op"] == "dec" and d.get("plain") is not None and o != "ok " + hexs(d["plain"]):
            bad.append(("encryptor round trip failed", {"lines": [cfgs[d["cfg"]].create(l.split()[1]), l], "impl": o}))
    c.extra_cov["judged_impl_loads"] = len(jcase)
    c.extra_cov["issued_cookies"] = nji
    c.extra_cov["mutation_classes(total,accepted_by_impl)"] = mutstat
    c.extra_cov["configurations"] = len(cfgs)

    for what, rp in bad[:20]:
        c.violation(what, rp)
    if diffs_total and not bad and not c.violations:
        name, i, l, a, b = diffs_total[0]
        lines = stage_lines[name]
        oid = l.split()[1] if len(l.split()) > 1 else None
        ctx = [x for x in lines[:i] if len(x.split()) > 1 and x.split()[1] == oid and x.split()[0] in ("hmac", "aes", "aes2", "pool")][-1:] + [l]
        c.broke(f"correspondence stream {name}", f"{len(diffs_total)} differing cases; first: {l[:400]} impl={a[:300]} model={b[:300] if b else b}")
        c.violations.append({"property": "C05", "what": "model and implementation disagree (no property-predicate failure found)", "lines": ctx,
                             "impl": a, "model": b, "concrete_failing_input": False, "seed": c.seed, "tier": c.tier})
    pick = [0, len(la) // 2, len(la) - 1]
    c.samples = [{"case": la[i][:200], "impl": ia[i][:200], "model": (ma[i] or "")[:200]} for i in pick if i < len(la)]
    c.samples += [{"case": lb[i][:200], "impl": ib[i][:200], "model": (mb[i] or "")[:200]} for i in (1, len(lb) // 3, len(lb) // 2, len(lb) - 1) if i < len(lb)]
    c.finish()


if __name__ == "__main__":
    main()
