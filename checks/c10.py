#!/usr/bin/env python3
"""C10 — networked cache with local L1 never serves data another node replaced.
See DESIGN.md section 5 (C10) and design.d/C10.md.  Usage: checks/c10.py [--tier quick|thorough] [--replay file]"""
import os, sys, json, re, struct
ROOT_ = os.path.join(os.path.dirname(os.path.abspath(__file__)), "..")
sys.path.insert(0, os.path.join(ROOT_, "lib"))
from vcheck import *

P = "Cppcms.C10.Props."
OBLIGATIONS = [
    (P + "consistent_sharding", "key -> server index is a function of (number of servers, key) only, lies below the number of servers, and a fetch/store of k by any client (any L1 configuration) touches no other server"),
    (P + "frame_roundtrip", "byte image of a frame (header words little endian + payload), followed by anything, parses back to the same header and payload"),
    (P + "recv_frame_any_segmentation", "from ANY segmentation of a byte stream starting with a well-formed frame, header read + exactly `size` payload bytes (stream_socket::read = read_some until full) yield that frame and leave exactly the following bytes on the connection"),
    (P + "transmit_segmentation_independent", "messenger::transmit with arbitrary segmenters of request and reply (any piece sizes, payloads of any size < 2^32) = the unsegmented transmit of the model: same server step, same reply"),
    (P + "session_wire_exact", "session opcodes: for a 32-byte sid, a value that fits and an int64 deadline, tcp_storage::save/remove make the server's storage execute exactly save(sid,deadline,value)/remove(sid); load returns exactly the storage's answer (a negative deadline is reported absent)"),
    (P + "session_save_load_roundtrip", "a session saved over the wire is loaded back over the wire with the same deadline and value at every clock value up to its deadline (session_memory_storage incl. short_gc), and is absent after a remove over the wire"),
    (P + "wire_roundtrip_store_partial", "WFwire k v ts d: the frame tcp_cache::store builds is well formed and session::store performs exactly that store: same key, value, deadline, same set of trigger names (excluded: empty key, empty / NUL-containing names, >= 2^31 bytes)"),
    (P + "wire_roundtrip_data_partial", "the server holds k -> (v,trigs,deadline,g), sizes fit, names NUL-free: tcp_cache::fetch returns v, deadline, g unchanged and the same set of trigger names"),
    (P + "step_eq_astep", "under the size bounds one cluster operation over the real codec (headers, uint32 fields, frame validation, strlen loops) EQUALS the operation over the message-level transport used in the coherence proofs"),
    (P + "gen_unique", "on one server two entries that ever (after any two prefixes of the history) carried the same generation are the same entry; histories of < 2^64 operations"),
    (P + "generation_survives_clear", "clear (nl_clear) and every operation but a performed store leave the generation counter alone — generated from mem_cache::nl_clear/clear/store and proved of the model; gen_unique is stated for histories containing clears"),
    (P + "l1_inv", "every L1 entry (k,v,deadline,g) was after some prefix of the history the responsible server's entry for k with generation g"),
    (P + "coherent_fetch", "a fetch on any node (with or without L1, any limits, any number of clients/servers) returning (v,deadline,g) implies: a direct fetch on the responsible server at that moment returns the same v, deadline, g; no WFwire hypothesis"),
    (P + "coherent_fetch_ideal_partial", "histories whose stores are WFwire: every hit satisfies Spec.answerOk against the ideal shared cache = value and deadline of the latest store of the key by ANY node, not invalidated since by ANY node's rise/clear, not expired; with NUL-free keys also the trigger clause (a fetch asking for triggers gets a superset of the entry's trigger set)"),
    (P + "live_entry_found_on_every_node", "no server has a limit, stores WFwire: if the ideal shared cache holds k live, a fetch of k by any node (any L1 content/limit) hits with that value and deadline (no spurious miss)"),
    (P + "answerOk_of_every_fetch_partial", "the whole judge predicate Spec.answerOk (mayEvict=false, hit and miss clauses, trigger clause) holds of every fetch answer of the model: unlimited servers, WFwire stores, NUL-free keys"),
    (P + "trigger_nul_counterexample", "finding tcp-trigger-nul: trigger a\\0b is split into a and b; after rise(a\\0b) by another node both nodes are still served the value the ideal cache no longer holds"),
    (P + "trigger_empty_counterexample", "finding tcp-trigger-empty: a store with an empty trigger name is dropped by the server; the previous value stays and is served to every node"),
    (P + "key_nul_counterexample", "finding tcp-key-nul: for the key k\\0x a fetch asking for the trigger set receives {k,x}; the predicate's trigger clause is false, its value clause true"),
    (P + "coherentIdealFull_false", "the full-strength 'no older value' statement (no WFwire hypothesis) is false of the model"),
    (P + "wireRoundtripStoreFull_false", "the full-strength store round trip (all contents) is false of the model"),
]

TRUSTED = [
    "translator translate/c10.py + translate/cexpr.py: opcodes, header layout (LP64 rules; cross-checked against offsetof/sizeof of the compiled struct in every run), store frame validation, load_triggers rejection test, uptodate test, tcp_connector::hash, L1 maintenance flags; statement-order shape checks of the codec and of cache_over_ip::fetch",
    "C07 model of mem_cache (servers and L1s are thread_cache_factory objects), tied by C07's own check",
    "hand-written control flow of Wire.lean / Model.lean (cache_over_ip::fetch paths, strlen loops, broadcast), tied by the correspondence runs",
    "correspondence harness harness/c10.cpp: in-process tcp_cache_service instances on kernel-chosen loopback ports, clients driven from one thread (history order = line order), time() interposed; ASan+UBSan build",
    "kernel TCP on loopback delivers the bytes written, in order (no loss/reordering/failure paths are modelled)",
    "x86-64 little-endian host, 64-bit time_t (checked by the harness's layout line)",
]

KEYCH = bytes(range(1, 256))


def hx(b):
    return b.hex() if b else "-"


def trig_word(ts):
    if not ts:
        return "-"
    return ",".join(("e" if t == b"" else t.hex()) for t in ts)


# ------------------------------------------------------------------------------------------ generators
def rand_name(rng, lo=1, hi=6, nul=False):
    n = rng.randrange(lo, hi + 1)
    al = (b"abcxyz\x01\x7f\x80\xff" if rng.random() < 0.8 else KEYCH)
    b = bytes(rng.choice(al) for _ in range(n))
    if nul and n:
        i = rng.randrange(n + 1)
        b = b[:i] + b"\x00" + b[i:]
    return b


def rand_val(rng, big=False):
    r = rng.random()
    if r < 0.1:
        return "-"
    if r < 0.3:
        return bytes(rng.choice(b"\x00\x00ab\xff") for _ in range(rng.randrange(1, 9))).hex()
    if r < 0.9 or not big:
        return bytes(rng.randrange(256) for _ in range(rng.randrange(1, rng.choice((4, 40, 300))))).hex()
    return "r%02xx%d" % (rng.randrange(256), rng.choice((5000, 70000, 200000)))


def gen_history(rng, nops, hostile=False, big=False):
    nsrv = rng.choice((1, 1, 2, 2, 2, 3))
    srvl = [rng.choice((0, 0, 0, 0, 20, 3, 1)) for _ in range(nsrv)]
    if rng.random() < 0.6:
        srvl = [0] * nsrv
    ncl = rng.choice((2, 2, 3, 3, 1, 4))
    l1 = [rng.choice(("n", "0", "0", "5", "2", "1")) for _ in range(ncl)]
    lines = ["cfg %s %s" % (",".join(map(str, srvl)), ",".join(l1))]
    nkeys = rng.choice((1, 2, 3, 5, 8))
    if not hostile and rng.random() < 0.35:
        # "hot" histories: one or two keys shared by clients that all have an L1, no eviction:
        # revalidation / refresh / purge paths dominate
        nkeys = rng.choice((1, 2))
        srvl = [0] * nsrv
        ncl = rng.choice((2, 3))
        l1 = [rng.choice(("0", "5")) for _ in range(ncl)]
        lines = ["cfg %s %s" % (",".join(map(str, srvl)), ",".join(l1))]
    keys = [rand_name(rng) for _ in range(nkeys)]
    trigs = [rand_name(rng) for _ in range(rng.choice((1, 2, 4, 8)))] + keys[:2]
    if hostile:
        keys += [rand_name(rng, nul=True) for _ in range(2)] + [b""]
        trigs += [rand_name(rng, nul=True) for _ in range(2)] + [b"", b"\x00"]
    longlist = [b"T%d" % i + rand_name(rng) for i in range(rng.choice((20, 45, 90)))]
    now = 1000
    last = {}
    for _ in range(nops):
        c = rng.randrange(ncl)
        now += rng.choice((0, 0, 0, 0, 1, 1, 3, 10, -2))
        r = rng.random()
        k = rng.choice(keys)
        if r < 0.30:
            if rng.random() < 0.06:
                ts = rng.sample(longlist, rng.randrange(10, len(longlist)))
            else:
                ts = [rng.choice(trigs) for _ in range(rng.choice((0, 0, 1, 1, 2, 3, 5)))]
            d = now + rng.choice((-5, 0, 1, 5, 50, 1000, 100000))
            v = rand_val(rng, big)
            if k in last and rng.random() < 0.15:
                v, d = last[k]          # identical value and deadline, (usually) another trigger set
            last[k] = (v, d)
            lines.append("store %d %d %s %s %s %d" % (c, now, hx(k), v, trig_word(ts), d))
        elif r < 0.78:
            lines.append("fetch %d %d %s %d" % (c, now, hx(k), rng.choice((0, 1, 1))))
        elif r < 0.90:
            t = rng.choice(trigs + keys)
            lines.append("rise %d %s" % (c, "e" if t == b"" else t.hex()))
        elif r < 0.93:
            lines.append("clear %d" % c)
        elif r < 0.98:
            lines.append("stats %d" % c)
        else:
            lines.append("remove %d %s" % (c, hx(k)))
    return lines


SIZES = (0, 1, 15, 16, 127, 128, 255, 256, 257, 1023, 1024, 4095, 4096, 4097, 65535, 65536, 65537, 100000, 1 << 20)
HUGE = ((3 << 20) + 5,)
DEADLINES = (2**31 - 1, 2**31, 2**32 - 1, 2**32, 2**32 + 5, 2**62, 2**63 - 1, 0, -1, -2**31, -2**63)


def boundary_history(rng, big, huge=False):
    """lengths and counts around powers of two (length fields, loop counters), extreme deadlines"""
    nsrv = rng.choice((1, 2))
    lines = ["cfg %s 0,n,5" % ",".join(["0"] * nsrv)]
    now = 1000
    sizes = [x for x in SIZES if big or x <= 4097]
    for _ in range(rng.randrange(4, 12)):
        kl = rng.choice((1, 2, 31, 32, 255, 256, 257, 1000) + ((65536, 70001) if big else ()))
        k = bytes(rng.choice(b"kK\x01\xff") for _ in range(kl))
        vl = rng.choice(sizes + (list(HUGE) * 3 if huge else []))
        v = "r%02xx%d" % (rng.randrange(256), vl) if vl > 64 else hx(bytes(rng.randrange(256) for _ in range(vl)))
        nt = rng.choice((0, 1, 2, 7, 8, 15, 16, 17, 127, 128, 129, 255, 256, 257) + ((600,) if big else ()))
        tl = rng.choice((1, 2, 8, 255, 256, 257) if nt < 20 else (1, 2, 5))
        ts = [b"%d_" % i + bytes(rng.choice(b"tT\x02\xfe") for _ in range(tl)) for i in range(nt)]
        d = rng.choice(DEADLINES + (now + 100,) * 6)
        c = rng.randrange(3)
        lines.append("store %d %d %s %s %s %d" % (c, now, hx(k), v, trig_word(ts), d))
        for c2 in (0, 1, 2, 0):
            lines.append("fetch %d %d %s %d" % (c2, now, hx(k), rng.choice((0, 1, 1))))
        if ts and rng.random() < 0.7:
            lines.append("rise %d %s" % (rng.randrange(3), rng.choice((ts[0], ts[-1], ts[len(ts) // 2])).hex()))
            for c2 in (0, 1, 2):
                lines.append("fetch %d %d %s 1" % (c2, now, hx(k)))
        now += rng.choice((0, 1, 50))
    return lines


def churn_history(rng, n):
    """client 0 (L1) holds k; another node performs n stores on the same server (k itself or other keys) before
    replacing / invalidating k; client 0 must see the change (generation comparisons must be exact)"""
    lines = ["cfg 0 0,n,0"]
    k, o = b"hot", b"other"
    lines += ["store 1 1000 %s 01 - 900000" % k.hex(), "fetch 0 1000 %s 1" % k.hex(), "fetch 2 1000 %s 1" % k.hex()]
    mode = rng.randrange(3)
    for i in range(n):
        if mode == 0:
            lines.append("store 1 1000 %s %s - 900000" % (k.hex(), hx(b"v%d" % i)))
        else:
            lines.append("store 1 1000 %s %s - 900000" % (o.hex(), hx(b"o%d" % (i % 7))))
    if mode == 1:
        lines.append("store 1 1000 %s ffee - 900000" % k.hex())
    elif mode == 2:
        lines.append("rise 1 %s" % k.hex())
        lines.append("store 1 1000 %s ffee - 900000" % k.hex())
    lines += ["fetch 0 1000 %s 1" % k.hex(), "fetch 2 1000 %s 0" % k.hex(), "fetch 0 1000 %s 0" % k.hex(), "stats 0"]
    return lines


def string_hash(b):
    """cppcms::impl::string_hash (private/hash_map.h), the hash of mem_cache's primary and trigger maps"""
    v = 0
    for c in b:
        v = ((v << 4) + c) & 0xFFFFFFFF
        high = v & 0xF0000000
        if high:
            v = (v ^ (high >> 24)) ^ high
    return v


def collide_family(rng, exact=True):
    """binary keys of one length that agree up to (and including) their first NUL byte and fall into the same bucket
    of the hash map: equal string_hash (same bucket for every table size), or (exact=False) hashes that differ by a
    multiple of 64 (same bucket in the small tables 2,4,..,64 of a young cache)"""
    prefix = bytes(rng.choice(b"kq\x01\xfe\x7f") for _ in range(rng.choice((1, 1, 2, 3)))) + b"\x00"
    nsuf = rng.choice((2, 2, 3))
    groups = {}
    for _ in range(6000):
        suf = bytes(rng.randrange(256) if rng.random() < 0.7 else rng.choice((0, 1, 16)) for _ in range(nsuf))
        h = string_hash(prefix + suf)
        groups.setdefault(h if exact else h % 64, set()).add(prefix + suf)
    if nsuf == 2 and exact:   # the 2-byte suffixes (a,b),(a-1,b+16) collide by construction
        a, b = rng.randrange(1, 200), rng.randrange(0, 200)
        fam = [prefix + bytes((a - i, b + 16 * i)) for i in range(0, min(a, (255 - b) // 16) + 1)][:4]
        if len(fam) >= 2 and len({string_hash(x) for x in fam}) == 1:
            return fam
    best = max(groups.values(), key=len)
    fam = sorted(best)[:rng.choice((2, 3, 4))]
    return fam if len(fam) >= 2 else None


def collide_history(rng):
    """stores / fetches / rises over a family of colliding binary keys (NUL inside), across clients with and without L1.
    Fetches do not ask for the trigger set (a key containing NUL comes back split: recorded finding tcp-key-nul);
    the judge checks value, deadline and invalidation against the ideal shared cache keyed by the full byte string."""
    fam = None
    while not fam:
        fam = collide_family(rng, exact=rng.random() < 0.7)
    extra = [rand_name(rng) for _ in range(2)]
    keys = fam + extra
    nsrv = rng.choice((1, 1, 2))
    ncl = rng.choice((2, 3))
    l1 = [rng.choice(("n", "0", "5")) for _ in range(ncl)]
    lines = ["cfg %s %s" % (",".join(["0"] * nsrv), ",".join(l1))]
    now = 1000
    # the scripted core: store k1, look at k2, store k2, look at k1, raise k2, look at k1
    k1, k2 = fam[0], fam[1]
    c = lambda: rng.randrange(ncl)
    lines += ["store %d %d %s %s - 5000" % (c(), now, k1.hex(), b"one".hex()), "fetch %d %d %s 0" % (c(), now, k2.hex()),
              "fetch %d %d %s 0" % (c(), now, k1.hex()),
              "store %d %d %s %s - 5000" % (c(), now, k2.hex(), b"two".hex()), "fetch %d %d %s 0" % (c(), now, k1.hex()),
              "fetch %d %d %s 0" % (c(), now, k2.hex()), "rise %d %s" % (c(), k2.hex()), "fetch %d %d %s 0" % (c(), now, k1.hex()),
              "fetch %d %d %s 0" % (c(), now, k2.hex())]
    trigs = [rand_name(rng) for _ in range(3)]
    for _ in range(rng.randrange(10, 60)):
        now += rng.choice((0, 0, 1))
        r = rng.random()
        k = rng.choice(keys)
        if r < 0.3:
            ts = [rng.choice(trigs) for _ in range(rng.choice((0, 0, 1, 2)))]
            lines.append("store %d %d %s %s %s %d" % (c(), now, hx(k), rand_val(rng), trig_word(ts), now + 5000))
        elif r < 0.8:
            lines.append("fetch %d %d %s 0" % (c(), now, hx(k)))
        elif r < 0.95:
            t = rng.choice(fam + trigs)
            lines.append("rise %d %s" % (c(), t.hex()))
        else:
            lines.append("stats %d" % c())
    return lines


def restore_history(rng):
    """a key is stored again with byte-identical value and identical deadline but another trigger set (disjoint, superset,
    subset, empty, permuted/duplicated); then a trigger that is only in one of the two sets is raised by another node and
    every node fetches (with and without the trigger set): the entry must carry the triggers of the LATEST store"""
    nsrv = rng.choice((1, 2))
    ncl = rng.choice((2, 3))
    l1 = [rng.choice(("n", "0", "5")) for _ in range(ncl)]
    lines = ["cfg %s %s" % (",".join(["0"] * nsrv), ",".join(l1))]
    now = 1000
    names = [b"users", b"comments", b"news", b"t\x01\xff", b"x"]
    for rnd in range(rng.randrange(2, 6)):
        k = rand_name(rng)
        v = rand_val(rng)
        d = now + rng.choice((500, 5000, 2**31 + 5))
        old = rng.sample(names, rng.randrange(0, 4))
        shape = rng.choice(("disjoint", "superset", "subset", "empty", "same", "permuted"))
        rest = [n for n in names if n not in old]
        if shape == "disjoint":
            new = rng.sample(rest, rng.randrange(1, len(rest) + 1)) if rest else []
        elif shape == "superset":
            new = old + rng.sample(rest, rng.randrange(1, len(rest) + 1)) if rest else old
        elif shape == "subset":
            new = old[:len(old) // 2]
        elif shape == "empty":
            new = []
        elif shape == "same":
            new = list(old)
        else:
            new = list(reversed(old)) + old[:1]
        c = lambda: rng.randrange(ncl)
        lines.append("store %d %d %s %s %s %d" % (c(), now, hx(k), v, trig_word(old), d))
        if rng.random() < 0.7:
            for c2 in range(ncl):
                lines.append("fetch %d %d %s %d" % (c2, now, hx(k), rng.randrange(2)))
        lines.append("store %d %d %s %s %s %d" % (c(), now, hx(k), v, trig_word(new), d))
        for c2 in range(ncl):
            lines.append("fetch %d %d %s 1" % (c2, now, hx(k)))
        only_new = [t for t in new if t not in old]
        only_old = [t for t in old if t not in new]
        for t in rng.sample(only_new + only_old + [rng.choice(names)], min(2, len(only_new + only_old) + 1)):
            lines.append("rise %d %s" % (c(), t.hex()))
            for c2 in range(ncl):
                lines.append("fetch %d %d %s %d" % (c2, now, hx(k), rng.randrange(2)))
        now += rng.choice((0, 1, 3))
    return lines


def drop_history(rng):
    """connection drops (every server front-end restarted over the same caches) between operations: the first call of a
    node after the drop — store, rise, clear or fetch — must take effect exactly once (transmit reconnects and re-sends)"""
    nsrv = rng.choice((1, 2))
    ncl = rng.choice((2, 3))
    l1 = [rng.choice(("n", "0", "5")) for _ in range(ncl)]
    lines = ["cfg %s %s" % (",".join(["0"] * nsrv), ",".join(l1))]
    keys = [rand_name(rng) for _ in range(2)]
    now = 1000
    for i in range(rng.randrange(2, 5)):
        k = rng.choice(keys)
        a = rng.randrange(ncl)
        lines.append("store %d %d %s %s %s 9000" % (a, now, hx(k), hx(b"v%d" % i), trig_word([b"t"] if rng.random() < 0.5 else [])))
        if rng.random() < 0.5:
            lines.append("fetch %d %d %s 1" % (rng.randrange(ncl), now, hx(k)))
        lines.append("drop")
        r = rng.random()
        if r < 0.5:
            lines.append("store %d %d %s %s - 9000" % (a, now, hx(k), hx(b"w%d" % i)))
        elif r < 0.7:
            lines.append("rise %d %s" % (a, (b"t" if rng.random() < 0.5 else k).hex()))
        elif r < 0.8:
            lines.append("clear %d" % a)
        else:
            lines.append("fetch %d %d %s 1" % (a, now, hx(k)))
        for c2 in range(ncl):
            lines.append("fetch %d %d %s %d" % (c2, now, hx(k), rng.randrange(2)))
        lines.append("stats %d" % rng.randrange(ncl))
    return lines


def trigset_history(rng):
    """many fetches WITH the trigger set over one connection (same node) for keys whose trigger sets differ (disjoint,
    nested, empty, hundreds of names): each answer must carry exactly that entry's set on a node without L1"""
    ncl = rng.choice((1, 2))
    l1 = ["n"] + [rng.choice(("n", "0"))] * (ncl - 1)
    lines = ["cfg %s %s" % (rng.choice(("0", "0,0")), ",".join(l1))]
    keys = [b"K%d" % i + rand_name(rng, 0, 3) for i in range(rng.randrange(2, 7))]
    now = 1000
    for i, k in enumerate(keys):
        n = rng.choice((0, 0, 1, 2, 5, 40, 300))
        ts = [b"t%d_%d" % (i, j) for j in range(n)] + ([keys[0]] if rng.random() < 0.2 else [])
        lines.append("store %d %d %s %s %s 9000" % (rng.randrange(ncl), now, k.hex(), rand_val(rng), trig_word(ts)))
    for _ in range(rng.randrange(10, 40)):
        r = rng.random()
        k = rng.choice(keys)
        if r < 0.8:
            lines.append("fetch %d %d %s 1" % (rng.randrange(ncl), now, k.hex()))
        elif r < 0.9:
            lines.append("store %d %d %s %s %s 9000" % (rng.randrange(ncl), now, k.hex(), rand_val(rng),
                                                       trig_word([b"n" + rand_name(rng) for _ in range(rng.randrange(0, 4))])))
        else:
            lines.append("fetch %d %d %s 0" % (rng.randrange(ncl), now, k.hex()))
    return lines


SCRIPT = "abcdefghijk"


def exhaustive_histories(depth, cfgs, stride=1, offset=0):
    """all op sequences of length `depth` over a small alphabet: 2 clients x {store k v1 / store k v2 [t] / fetch k / rise t / rise k / clear}"""
    import itertools
    al = []
    for c in (0, 1):
        al += ["store %d 1000 6b 31 - 2000" % c, "store %d 1000 6b 32 74 2000" % c, "fetch %d 1000 6b 1" % c,
               "rise %d 74" % c, "clear %d" % c]
    al += ["rise 1 6b", "fetch 0 3000 6b 0"]
    out = []
    n = 0
    for cfg in cfgs:
        for seq in itertools.product(al, repeat=depth):
            if n % stride == offset:
                out.append([cfg] + list(seq) + ["fetch 0 1000 6b 1", "fetch 1 1000 6b 1"])
            n += 1
    return out


# ------------------------------------------------------------------------------------------ frames (python side)
class Layout:
    def __init__(self, s):
        self.off, self.bit = {}, {}
        for w in s.split():
            if w.startswith("sizeof="):
                self.size = int(w[7:])
                continue
            name, pos = w.split("@")
            if "." in pos:
                o, b = pos.split(".")
                self.off[name] = int(o); self.bit[name] = int(b)
            else:
                self.off[name] = int(pos)

    def frame(self, payload=b"", **f):
        h = bytearray(self.size)
        for name, v in f.items():
            name = name.replace("__", ".")
            if name in ("filler",):
                struct.pack_into("<II", h, 8, v & 0xFFFFFFFF, v >> 32)
            elif name in self.bit:
                cur = struct.unpack_from("<I", h, self.off[name])[0]
                if v:
                    cur |= 1 << self.bit[name]
                struct.pack_into("<I", h, self.off[name], cur)
            elif name in ("fetch.current_gen", "data.generation"):
                struct.pack_into("<Q", h, self.off[name], v & (2**64 - 1))
            elif name in ("store.timeout", "data.timeout", "session_save.timeout", "session_data.timeout"):
                struct.pack_into("<q", h, self.off[name], v)
            else:
                struct.pack_into("<I", h, self.off[name], v & 0xFFFFFFFF)
        if "size" not in f:
            struct.pack_into("<I", h, self.off["size"], len(payload))
        return bytes(h) + payload


OPC = dict(fetch=0, rise=1, clear=2, store=3, stats=4, error=5, done=6, data=7, no_data=8, uptodate=9, out_stats=10,
           session_save=11, session_load=12, session_load_data=13, session_remove=14)
SESS_TIMEOUTS = (0, -1, 1, 2**31 - 1, 2**31, 2**32 + 7, 2**63 - 1, -2**63)


def trig_region(rng, hostile):
    names = [rand_name(rng) for _ in range(rng.choice((0, 1, 2, 3)))]
    reg = b"".join(n + b"\x00" for n in names)
    if hostile:
        r = rng.random()
        if r < 0.25 and reg:
            reg = reg[:-1]                      # last name without terminator
        elif r < 0.5:
            i = rng.randrange(len(names) + 1)
            reg = b"".join(n + b"\x00" for n in names[:i]) + b"\x00" + b"".join(n + b"\x00" for n in names[i:])   # empty name
        elif r < 0.6:
            reg = reg + reg                     # duplicates
    return reg


def gen_raw_history(rng, L, nops):
    nsrv = rng.choice((1, 2))
    lines = ["cfg %s n" % ",".join(["0"] * nsrv)]
    keys = [rand_name(rng) for _ in range(3)]
    sids = [bytes(rng.choice(b"0123456789abcdef") for _ in range(32)) for _ in range(3)]
    now = 1000
    for _ in range(nops):
        now += rng.choice((0, 0, 1, 5))
        srv = rng.randrange(nsrv)
        k = rng.choice(keys)
        r = rng.random()
        hostile = rng.random() < 0.4
        if rng.random() < 0.3:
            # session opcodes (network session storage behind the same server)
            sid = rng.choice(sids)
            q = rng.random()
            if q < 0.4:
                v = bytes(rng.randrange(256) for _ in range(rng.choice((0, 1, 5, 40, 300))))
                payload = sid + v if not hostile or rng.random() < 0.7 else sid[:rng.choice((0, 5, 31))]
                to = rng.choice((now + 50, now + 3, now, now - 1, now + 1000) + (SESS_TIMEOUTS if hostile else ()))
                fr = L.frame(payload, opcode=OPC["session_save"], session_save__timeout=to)
            elif q < 0.85:
                p = sid if not hostile or rng.random() < 0.7 else rng.choice((sid[:31], sid + b"x", b""))
                fr = L.frame(p, opcode=OPC["session_load"], session_save__timeout=rng.choice((0, 5)))
            else:
                p = sid if not hostile or rng.random() < 0.7 else rng.choice((sid[:31], sid + b"x", b""))
                fr = L.frame(p, opcode=OPC["session_remove"])
            lines.append("raw %d %d %s" % (srv, now, fr.hex()))
            continue
        if r < 0.35:
            v = bytes(rng.randrange(256) for _ in range(rng.choice((0, 1, 3, 20))))
            reg = trig_region(rng, hostile)
            kl, dl, tl = len(k), len(v), len(reg)
            payload = k + v + reg
            if hostile:
                q = rng.random()
                if q < 0.15:
                    kl, payload = 0, v + reg                                   # key_len == 0
                elif q < 0.3:
                    payload += b"\x00" * rng.randrange(1, 3)                    # sum != size
                elif q < 0.4 and dl:
                    dl -= 1                                                     # sum != size
            to = rng.choice((now + 50, now - 1, 0, -1, 2**63 - 1, -2**63, now + 1000))
            fr = L.frame(payload, opcode=OPC["store"], store__timeout=to, store__key_len=kl, store__data_len=dl, store__triggers_len=tl,
                         filler=rng.choice((0, 0, 2**64 - 1)))
        elif r < 0.75:
            fr = L.frame(k if rng.random() < 0.9 else b"", opcode=OPC["fetch"], fetch__key_len=rng.choice((len(k), 0, 77)),
                         fetch__transfer_triggers=rng.randrange(2), fetch__transfer_if_not_uptodate=rng.randrange(2),
                         fetch__current_gen=rng.choice((0, 1, 2, 3, 5, 2**63, 2**64 - 1)))
        elif r < 0.85:
            t = rng.choice(keys + [b"", b"zz"])
            fr = L.frame(t, opcode=OPC["rise"], rise__trigger_len=rng.choice((len(t), 0, 9)))
        elif r < 0.88:
            fr = L.frame(b"" if rng.random() < 0.7 else b"xyz", opcode=OPC["clear"])
        elif r < 0.94:
            fr = L.frame(b"", opcode=OPC["stats"])
        else:
            fr = L.frame(rng.choice((b"", b"0123456789abcdef0123456789abcdefXX")), opcode=rng.choice((5, 6, 7, 8, 9, 10, 11, 12, 13, 14, 15, 255, 2**32 - 1)))
        if rng.random() < 0.25:
            lines.append("rawseg %d %d %d %s" % (srv, now, rng.choice((1, 3, 7, 39, 40, 41, 64)), fr.hex()))
        else:
            lines.append("raw %d %d %s" % (srv, now, fr.hex()))
        if rng.random() < 0.15:
            lines.append("stats 0")
    return lines


def big_reply_lines(rng, L, sizes):
    """a real tcp_cache receives data replies of 0.3 .. several MiB from a throttled peer (pieces of 1..64 KiB with
    pauses): messenger::transmit must assemble exactly `size` bytes and leave the connection in step (the next,
    small exchange on the same connection is checked too)"""
    lines = []
    for sz in sizes:
        v = bytes((i * 131 + sz) & 255 for i in range(257)) * (sz // 257) + b"\x00" * (sz % 257)
        reg = b"big\x00t\x00"
        rep = L.frame(v + reg, opcode=OPC["data"], data__data_len=len(v), data__triggers_len=len(reg), data__generation=sz, data__timeout=7)
        lines.append("cws %d fetch %s 1 %s %s" % (rng.choice((1024, 4096, 16384, 65536)), b"bigkey".hex(), rng.choice(("-", "3")), rep.hex()))
        small = L.frame(b"xy", opcode=OPC["data"], data__data_len=2, data__triggers_len=0, data__generation=1, data__timeout=9)
        lines.append("cw fetch %s 0 - %s" % (b"after".hex(), small.hex()))
    return lines


def gen_cw_lines(rng, L, harvested, n):
    """requests of a real tcp_cache against scripted replies (harvested real server replies + crafted ones)"""
    lines = []
    ok = L.frame(b"", opcode=OPC["done"]).hex()
    for _ in range(n):
        if rng.random() < 0.15:
            sid = bytes(rng.choice(b"0123456789abcdef") for _ in range(32))
            q = rng.random()
            if q < 0.4:
                lines.append("cw ssave %s %d %s %s" % (sid.hex(), rng.choice((1500, 0, -1) + SESS_TIMEOUTS), rand_val(rng), ok))
            elif q < 0.5:
                lines.append("cw sremove %s %s" % (sid.hex(), L.frame(b"", opcode=rng.choice((0, 6, 5))).hex()))
            else:
                v = bytes(rng.randrange(256) for _ in range(rng.choice((0, 1, 9, 200))))
                if rng.random() < 0.7:
                    rep = L.frame(v, opcode=OPC["session_load_data"], session_data__timeout=rng.choice((1500, 0) + SESS_TIMEOUTS))
                else:
                    rep = L.frame(b"", opcode=rng.choice((8, 5, 6, 7)))
                lines.append("cw sload %s %s" % (sid.hex(), rep.hex()))
            continue
        if rng.random() < 0.3:
            sub = gen_cw_lines(rng, L, harvested, 1)
            while not sub[0].startswith("cw "):
                sub = gen_cw_lines(rng, L, harvested, 1)
            lines.append("cws %d %s" % (rng.choice((1, 2, 5, 39, 40, 41, 100, 1000)), sub[0][3:]))
            continue
        r = rng.random()
        k = rand_name(rng, 0, 5, nul=rng.random() < 0.2)
        if rng.random() < 0.5 and harvested:
            rep = bytes.fromhex(rng.choice(harvested))
        else:
            q = rng.random()
            if q < 0.6:
                v = bytes(rng.randrange(256) for _ in range(rng.choice((0, 1, 5, 60))))
                reg = trig_region(rng, rng.random() < 0.5)
                rep = L.frame(v + reg, opcode=OPC["data"], data__data_len=len(v), data__triggers_len=len(reg),
                              data__generation=rng.choice((0, 1, 7, 2**64 - 1)), data__timeout=rng.choice((0, 1500, -1, 2**63 - 1, -2**63)))
            else:
                rep = L.frame(b"", opcode=rng.choice((5, 6, 8, 9, 10, 4, 0)), out_stats__keys=rng.randrange(5), out_stats__triggers=rng.randrange(9))
        opc = struct.unpack_from("<I", rep, 0)[0]
        tl = struct.unpack_from("<I", rep, L.off["data.triggers_len"])[0]
        if r < 0.5:
            tags = rng.randrange(2)
            if opc == OPC["data"] and tl > 0:
                tags = 1     # a reply carrying trigger names to a client that passed tags=0 dereferences null (only a hostile server does that)
            g = rng.choice(("-", "-", "0", "1", "7", str(2**64 - 1)))
            lines.append("cw fetch %s %d %s %s" % (hx(k), tags, g, rep.hex()))
        elif r < 0.8:
            ts = [rand_name(rng, 0, 4, nul=rng.random() < 0.1) for _ in range(rng.choice((0, 1, 2, 4)))]
            d = rng.choice((0, 1500, -1, 2**63 - 1, -2**63))
            lines.append("cw store %s %s %s %d %s" % (hx(k), rand_val(rng), trig_word(ts), d, ok))
        elif r < 0.9:
            t = rand_name(rng, 0, 4, nul=rng.random() < 0.2)
            lines.append("cw rise %s %s" % ("e" if t == b"" else t.hex(), ok))
        elif r < 0.95:
            lines.append("cw clear %s" % ok)
        else:
            lines.append("cw stats %s" % rep.hex())
    return lines


# ------------------------------------------------------------------------------------------ running
def strip_tag(l):
    i = l.find(" # ")
    return (l, None) if i < 0 else (l[:i], l[i + 3:])


NONTRIVIAL_TAGS = {"nol1-found", "l1miss-found", "l1hit-uptodate", "l1hit-refresh", "l1hit-purge"}


class Runner:
    def __init__(self, c, hbin, model):
        self.c, self.hbin, self.model = c, hbin, model
        self.branch_count = {}

    def run(self, lines, judge=True, count=True, timeout=1800):
        """returns dict: out_i, out_m, diffs [(k, case, impl, model)], jbad [(k, verdict)], crashed"""
        c = self.c
        rc_i, out_i, err_i = self.run_impl(lines, timeout)
        rc_m, out_mt, err_m = c.run_lines(self.model, lines, timeout=timeout)
        out_m, tags = [], []
        for l in out_mt:
            a, t = strip_tag(l)
            out_m.append(a); tags.append(t)
        diffs = []
        for k in range(len(lines)):
            a = out_i[k] if k < len(out_i) else "<no output: harness died>"
            b = out_m[k] if k < len(out_m) else "<no output: model driver died>"
            if a != b:
                diffs.append((k, lines[k], a, b))
        crashed = None
        if rc_i != 0:
            crashed = {"rc": rc_i, "stderr": err_i, "case": lines[len(out_i)] if len(out_i) < len(lines) else None}
        if rc_m != 0 and count:
            c.broke("model driver crashed", err_m)
        jbad = []
        if judge and not crashed:
            jl = ["J %s ; %s" % (out_i[k], lines[k]) for k in range(min(len(lines), len(out_i)))]
            rc_j, jout, jerr = c.run_lines(self.model, jl, timeout=timeout)
            for k, v in enumerate(jout):
                if v != "1":
                    jbad.append((k, v))
            if len(jout) < len(jl):
                jbad.append((len(jout), "judge died"))
        if count:
            c.evaluations += len(lines)
            c.traces_validated += min(len(out_i), len(out_m), len(lines))
            cfg = ""
            for k in range(min(len(lines), len(tags))):
                if lines[k].startswith("cfg"):
                    cfg = lines[k]
                t = tags[k]
                if t:
                    self.branch_count[t] = self.branch_count.get(t, 0) + 1
                    if t in NONTRIVIAL_TAGS:
                        c.nontrivial.add(cfg + "|" + lines[k] + "|" + out_m[k])
                elif lines[k].startswith(("raw", "cw")) and k < len(out_m) and out_m[k] != "bad-op":
                    c.nontrivial.add(lines[k][:200])
        return {"out_i": out_i, "out_m": out_m, "diffs": diffs, "jbad": jbad, "crashed": crashed}

    def run_impl(self, lines, timeout):
        """The harness is restarted every few hundred client objects: booster::thread_specific_ptr keeps its
        pthread key (and the tcp_cache connections) until the *thread* exits, so one long-lived driver thread
        runs out of PTHREAD_KEYS_MAX after ~1000 cache_over_ip objects (histories are independent: `cfg` resets)."""
        chunks, cur, slots = [], [], 0
        for l in lines:
            if l.startswith("cfg"):
                n = len(l.split()[2].split(",")) if len(l.split()) == 3 else 1
                if cur and slots + n > 400:
                    chunks.append(cur); cur, slots = [], 0
                slots += n
            cur.append(l)
        if cur:
            chunks.append(cur)
        out, rc, err = [], 0, ""
        for ch in chunks:
            rc, o, err = self.c.run_lines(self.hbin, ch, timeout=timeout)
            out += o
            if rc != 0 or len(o) < len(ch):
                break
        return rc, out, err

    def fails(self, lines, judge=True):
        r = self.run(lines, judge=judge, count=False, timeout=300)
        if r["crashed"]:
            return "crash"
        if r["jbad"]:
            return "judge"
        if r["diffs"]:
            return "diff"
        return None

    def shrink(self, hist, kind, judge=True, budget=60):
        """delta debugging on the op lines of one history (first line = cfg is kept)"""
        head, ops = hist[:1], hist[1:]
        n = 2
        runs = 0
        while len(ops) >= 2 and runs < budget:
            chunk = max(1, len(ops) // n)
            reduced = False
            for i in range(0, len(ops), chunk):
                cand = ops[:i] + ops[i + chunk:]
                runs += 1
                if cand and self.fails(head + cand, judge) == kind:
                    ops, n, reduced = cand, max(n - 1, 2), True
                    break
                if runs >= budget:
                    break
            if not reduced:
                if chunk == 1:
                    break
                n = min(len(ops), n * 2)
        return head + ops


def split_histories(lines):
    hs, cur = [], []
    for l in lines:
        if l.startswith("cfg") and cur:
            hs.append(cur); cur = []
        cur.append(l)
    if cur:
        hs.append(cur)
    return hs


def load_corpus():
    d = os.path.join(ROOT, "gen", "corpus", "C10")
    res = []
    if not os.path.isdir(d):
        return res
    for f in sorted(os.listdir(d)):
        if not f.endswith(".hist"):
            continue
        finding, lines, expect = None, [], {}
        for raw in open(os.path.join(d, f)):
            raw = raw.rstrip("\n")
            if raw.startswith("#! finding "):
                finding = raw.split()[2]
            elif raw.startswith("#! impl "):
                expect.setdefault(len(lines) - 1, {})["impl"] = raw[8:]
            elif raw.startswith("#! judge "):
                expect.setdefault(len(lines) - 1, {})["judge"] = raw[9:]
            elif raw.startswith("#") or not raw.strip():
                continue
            else:
                lines.append(raw)
        res.append((f, finding, lines, expect))
    return res


def main():
    c = Check("C10")
    thorough = c.tier == "thorough"
    c.rule = ("case = one operation line of a cluster history (block starting with `cfg <server limits> <L1 per client>`): "
              "1-3 servers, 1-4 clients with/without L1 (limits 0,1,2,5), binary keys/values/trigger names (empty values, NULs in "
              "values, trigger lists of 10-90 names, keys used as triggers), clock steps forwards/backwards, exhaustive 2-client op "
              "sequences of depth 3-4 (3-5 in thorough), boundary sizes (2^4..2^16), generation churn (1..4096 / 65537 stores); answer + (keys,triggers) of every server and every L1 after every op compared "
              "with the model; every real fetch answer judged with Spec.answerOk against the ideal shared cache. Plus: hostile "
              "stream (NUL/empty names; correspondence only), raw frames -> real server vs srvHandle byte for byte, real tcp_cache "
              "against a scripted peer (request bytes + decode) vs reqX/cliDecodeFetch, compiled header layout vs generated layout, "
              "tcp_connector::hash for 1..8 servers. non-trivial = fetch lines taking a hit path (no-L1 found, L1 miss+found, L1 hit+"
              "uptodate, L1 hit+refresh, L1 hit+purge), raw/cw lines the model did not reject; distinct = distinct (cfg, line, answer)")
    c.trusted += TRUSTED
    c.assumptions += [
        "histories of fewer than 2^64 operations (generation counters do not wrap); server restarts (generation back to 0) are outside the quantifier",
        "sizes: key + value + NUL-terminated trigger names of one entry < 2^31 bytes; deadlines are int64 (64-bit time_t)",
        "WFwire for the 'no older value' clause: keys non-empty, trigger names non-empty and NUL-free (three known findings at the excluded points)",
        "servers and L1s are thread_cache_factory objects (no allocation failures); the server has no session storage configured",
        "TCP delivers frames intact and in order; connection failures / reconnect are not modelled",
    ]
    # a run against a private (mutated) tree must not leave its transcription in the shared lean/ directory
    gen_path = os.path.join(LEAN, "Cppcms", "C10", "Gen.lean")
    if os.path.abspath(REPO) != "/repo" and os.path.exists(gen_path):
        import atexit
        saved = open(gen_path).read()
        def restore_gen():
            if open(gen_path).read() != saved:
                open(gen_path, "w").write(saved)
        atexit.register(restore_gen)
    c.translate("c10.py")
    proved = c.prove(["Cppcms.C10.Props"], OBLIGATIONS, exe="c10_model")
    if thorough and proved:
        c.leanchecker(["Cppcms.C10.Props"])
    model = c.model_exe()
    ok_impl = c.impl_build()
    hbin = c.harness("c10") if ok_impl else None
    if not (hbin and os.path.exists(model)):
        c.finish()
    R = Runner(c, hbin, model)
    rng = c.rng

    if c.replay_path:
        rp = json.load(open(c.replay_path))
        h = rp.get("history", [])
        r = R.run(h, judge=True, count=False)
        jb = dict(r["jbad"])
        for i, l in enumerate(h):
            print("case :", l); print("impl :", r["out_i"][i] if i < len(r["out_i"]) else None)
            print("model:", r["out_m"][i] if i < len(r["out_m"]) else None); print("judge:", jb.get(i, "1"))
        if r["crashed"]:
            c.violation("replayed history crashes the real code", {"history": h, "stderr": r["crashed"]["stderr"]})
        elif r["jbad"] and rp.get("judged", True):
            c.violation("replayed history fails the coherence predicate: " + r["jbad"][0][1], {"history": h, "failing_line": r["jbad"][0][0]})
        elif r["diffs"]:
            c.broke("replayed history: model and implementation differ", str(r["diffs"][0]))
        c.finish()

    def reproducer(hists, hi, k, kind, judged, lines, budget=60):
        """a self-contained failing history: the history alone if it fails alone, else everything since the cluster
        was created (histories sharing a cluster via `reset` also share connections and generation counters), shrunk"""
        h = hists[hi]
        if R.fails(h, judged) == kind:
            return R.shrink(h, kind, judged, budget=budget)
        if lines:
            start = max([i for i in range(min(k, len(lines) - 1) + 1) if lines[i].startswith("cfg")] or [0])
            end = k
            while end + 1 < len(lines) and not lines[end + 1].startswith(("cfg", "reset")):
                end += 1
            epoch = lines[start:end + 1]
            if R.fails(epoch, judged) == kind:
                return R.shrink(epoch, kind, judged, budget=max(budget, 120))
            return epoch
        return h

    def report(name, hists, r, line_hist, judged, lines=None):
        """turn the result of one stream into violations / broken ties"""
        if r["crashed"]:
            k = len(r["out_i"])
            hi = line_hist[min(k, len(line_hist) - 1)]
            small = reproducer(hists, hi, k, "crash", judged, lines, budget=30)
            hang = bool(r["out_i"]) and r["out_i"][-1].startswith("hang:")
            c.violation(("the real code hangs: no answer within 20 s (stream %s)" if hang else
                         "sanitizer abort / crash of the real code (stream %s)") % name,
                        {"history": small, "stream": name, "stderr": r["crashed"]["stderr"], "judged": judged})
            return
        seen = set()
        for k, verdict in r["jbad"][:10]:
            hi = line_hist[k]
            if hi in seen:
                continue
            seen.add(hi)
            small = reproducer(hists, hi, k, "judge", True, lines)
            rr = R.run(small, judge=True, count=False)
            if rr["jbad"]:
                verdict = rr["jbad"][0][1]
            c.violation("coherence predicate (Spec.answerOk) false on an answer of the real clients: " + verdict,
                        {"history": small, "stream": name, "impl": rr["out_i"], "model": rr["out_m"], "judge": rr["jbad"],
                         "replay_cmd": "bin/check C10 --replay <this file>"})
        if r["diffs"] and not r["jbad"]:
            k, cs, a, b = r["diffs"][0]
            hi = line_hist[k]
            small = reproducer(hists, hi, k, "diff", judged, lines)
            rr = R.run(small, judge=False, count=False)
            c.broke("correspondence stream " + name,
                    "%d differing lines; first: %s impl=%s model=%s; shrunk history: %s; impl=%s model=%s" %
                    (len(r["diffs"]), cs, a[:300], b[:300], small, rr["out_i"], rr["out_m"]))

    def run_stream(name, hists, judged):
        lines, line_hist = [], []
        prev_cfg, since = None, 0
        for hi, h in enumerate(hists):
            # consecutive histories on the same configuration share one cluster (`reset` clears every cache directly;
            # generation counters keep running): a fresh cluster per history would cost ~4 TCP connections each
            if h and h[0] == prev_cfg and since < 500:
                lines += ["reset"] + h[1:]
                since += 1
            else:
                lines += h
                prev_cfg, since = (h[0] if h else None), 0
            line_hist += [hi] * len(h)
        r = R.run(lines, judge=judged)
        c.log("stream %s: %d histories, %d lines, %d diffs, %d judge failures%s" %
              (name, len(hists), len(lines), len(r["diffs"]), len(r["jbad"]), ", CRASH" if r["crashed"] else ""))
        if name in ("random", "corpus") or not c.samples:
            idx = [i for i in (1, 2, len(lines) // 3, len(lines) // 2, len(lines) - 1) if 0 <= i < len(lines)]
            c.samples += [{"stream": name, "case": lines[i][:300], "impl": (r["out_i"][i] if i < len(r["out_i"]) else None),
                           "model": (r["out_m"][i] if i < len(r["out_m"]) else None)} for i in idx][:4]
        report(name, hists, r, line_hist, judged, lines)
        return lines, r

    # ---- corpus: regression histories and the witnesses of the known findings
    for f, finding, lines, expect in load_corpus():
        r = R.run(lines, judge=True)
        jb = dict(r["jbad"])
        if finding is None:
            c.log("corpus %s: %d lines, %d diffs, %d judge failures" % (f, len(lines), len(r["diffs"]), len(r["jbad"])))
            report("corpus:" + f, [lines], r, [0] * len(lines), True)
            continue
        # a witness: reproduces exactly <=> the recorded implementation answers and judge verdicts, nothing else fails,
        # and the model (about which the _counterexample theorem speaks) answers like the implementation
        exact = not r["crashed"] and not r["diffs"]
        for k in range(len(lines)):
            e = expect.get(k, {})
            if "impl" in e and (k >= len(r["out_i"]) or r["out_i"][k] != e["impl"]):
                exact = False
            if jb.get(k, "1") != e.get("judge", "1"):
                exact = False
        if exact and c.is_known(finding):
            c.known_finding(finding, "id=%s witness=gen/corpus/C10/%s reproduces exactly (judge: %s)" %
                            (finding, f, "; ".join("line %d: %s" % (k, v) for k, v in r["jbad"])))
        elif r["crashed"]:
            c.violation("witness %s crashes the real code" % f, {"history": lines, "stderr": r["crashed"]["stderr"]})
        elif not r["jbad"] and not r["diffs"]:
            c.log("corpus %s: finding %s no longer reproduces (no judge failure, model agrees)" % (f, finding))
        else:
            unexpected = [(k, v) for k, v in r["jbad"] if expect.get(k, {}).get("judge") != v]
            if unexpected or not c.is_known(finding):
                c.violation("witness %s fails differently from the recorded finding %s" % (f, finding),
                            {"history": lines, "impl": r["out_i"], "model": r["out_m"], "judge": r["jbad"], "expected": expect})
            else:
                c.broke("witness " + f, "implementation/model answers differ from the recorded ones: diffs=%s impl=%s" % (r["diffs"][:3], r["out_i"]))

    # ---- layout, sharding
    meta = ["layout"]
    for n in range(1, 9):
        for _ in range(40 if thorough else 12):
            meta.append("hash %d %s" % (n, hx(rand_name(rng, 0, rng.choice((3, 12, 40)), nul=rng.random() < 0.2))))
    run_stream("meta", [meta], False)
    m = re.search(r'def layoutStr : String := "([^"]*)"', open(os.path.join(LEAN, "Cppcms", "C10", "Gen.lean")).read())
    L = Layout(m.group(1)) if m else None

    # ---- cluster histories (judged)
    cfgs = ["cfg 0 0,0", "cfg 0 0,n", "cfg 0,0 0,0", "cfg 1 1,0"]
    if thorough:
        hs = exhaustive_histories(3, cfgs) + exhaustive_histories(4, cfgs) + exhaustive_histories(5, cfgs[:1], stride=2, offset=rng.randrange(2))
    else:
        hs = exhaustive_histories(3, cfgs, stride=5, offset=rng.randrange(5)) + exhaustive_histories(4, cfgs[:2], stride=7, offset=rng.randrange(7))
    run_stream("exhaustive", hs, True)
    hs = [gen_history(rng, rng.randrange(30, 200), big=(i % 5 == 0)) for i in range(4000 if thorough else 160)]
    run_stream("random", hs, True)
    hs = [boundary_history(rng, big=thorough or i == 0, huge=thorough and i % 10 == 0) for i in range(60 if thorough else 6)]
    run_stream("boundary", hs, True)
    ns = [1, 2, 127, 128, 255, 256, 257, 511, 512, 513, 1024, 4096] + ([65535, 65536, 65537] if thorough else [])
    hs = [churn_history(rng, n) for n in ns for _ in range(3 if thorough else 1)]
    run_stream("churn", hs, True)
    hs = [restore_history(rng) for i in range(300 if thorough else 30)]
    run_stream("restore", hs, True)
    hs = [drop_history(rng) for i in range(60 if thorough else 6)]
    run_stream("drop", hs, True)
    hs = [trigset_history(rng) for i in range(300 if thorough else 25)]
    run_stream("trigsets", hs, True)
    # binary keys built to collide in mem_cache's hash map (same length, equal up to the first NUL, same bucket)
    hs = [collide_history(rng) for i in range(400 if thorough else 40)]
    run_stream("collide", hs, True)
    # ---- the excluded points (NUL / empty names): model must still follow the code; not judged
    hs = [gen_history(rng, rng.randrange(20, 120), hostile=True) for i in range(1200 if thorough else 30)]
    run_stream("hostile", hs, False)

    # ---- wire: raw frames to the real server; real client against a scripted peer
    if L:
        hs = [gen_raw_history(rng, L, rng.randrange(20, 80)) for i in range(1200 if thorough else 40)]
        lines, r = run_stream("raw", hs, True)
        harvested = sorted({o for l, o in zip(lines, r["out_i"]) if l.startswith("raw") and re.fullmatch(r"[0-9a-f]+", o or "")})
        cw = gen_cw_lines(rng, L, harvested, 25000 if thorough else 800)
        cw += big_reply_lines(rng, L, (300001, 1 << 20, (2 << 20) + 17, 5 << 20) if thorough else (300001, 1 << 20))
        run_stream("cw", [cw], True)
    else:
        c.broke("layout", "Gen.layoutStr not found")
    c.extra_cov["fetch_paths_and_ops"] = R.branch_count
    c.finish()


if __name__ == "__main__":
    main()
