#!/usr/bin/env python3
"""C15 — HTML escaping neutralises all markup; URL and base64 codecs are exact inverses.
See DESIGN.md section 5 (C15).  Usage: checks/c15.py [--tier quick|thorough] [--replay file]"""
import os, sys, json, itertools
sys.path.insert(0, os.path.join(os.path.dirname(os.path.abspath(__file__)), "..", "lib"))
from vcheck import *

P = "Cppcms.C15.Props."
OBLIGATIONS = [
    (P + "escape_no_markup", "for all s: escape s has no < > \" ' and every & starts one of the five references"),
    (P + "unescape_escape", "for all s: unescape (escape s) = s (unescape written independently)"),
    (P + "escapeSb_spec", "streambuf overload vs a sink with limited room: stored bytes = prefix of escape s, failure iff refused"),
    (P + "urlencode_alphabet", "for all s: urlencode s is (unreserved | %XX)*"),
    (P + "urldecode_urlencode", "for all s: urldecode (urlencode s) = s"),
    (P + "b64_alphabet", "for all s: base64url output uses only A-Za-z0-9-_ (no padding)"),
    (P + "encoded_size_exact", "for all s: encoded_size |s| = number of bytes the pointer encoder writes"),
    (P + "b64encodeStr_eq", "string overload (buffer of exactly encoded_size bytes) = pointer encoder output"),
    (P + "decode_writes_within", "for every (also malformed) input: decoded_size = m => raw decoder writes exactly m bytes"),
    (P + "decodeRaw_len1_writes_three", "documented excluded point: length 1 mod 4 is reported invalid, raw decoder writes 3"),
    (P + "b64_decode_encode", "for all s: decode (encode s) = s"),
    (P + "form_inserts_escaped", "every stream insertion of every render function in src/form.cpp is a literal, a number, escaped, or a developer identifier that is raw by design"),
    (P + "escape_eq_refEscape", "the model's escape equals the reference escaper used by the widget judge"),
]

WIDGETS = ("text", "textarea", "password", "hidden", "checkbox", "select", "radio", "multi", "submit")


def form_cases(rng, n):
    """rendered widgets fed with hostile user text; each text starts with a unique alphanumeric tag"""
    out = []
    evil = [b"<script>alert('x')</script>\"&", b"<", b">", b"&", b"\"", b"'", b"&amp;", b"</textarea><b>", b"\" onmouseover=\"x", b"' or '1"]
    for k in range(n):
        w = WIDGETS[k % len(WIDGETS)]
        texts = []
        for tag in (b"Mq7", b"Hq7", b"Eq7", b"Vq7"):
            body = rng.choice(evil) if rng.random() < 0.7 else bytes(rng.choice(b"<>&\"'ab ;#") for _ in range(rng.randrange(1, 12)))
            texts.append(tag + body)
        out.append(f"form {w} {rng.randrange(5)} {rng.randrange(2)} {rng.randrange(2)} " + " ".join(hexs(t) for t in texts))
    return out

SPECIAL = b"<>&\"'%+ -_.~=/\x00\xff\x7f;#ltgampquo39"


def rand_bytes(rng, n, flavour):
    if flavour == 0:
        return bytes(rng.randrange(256) for _ in range(n))
    if flavour == 1:   # heavy on special characters
        return bytes(rng.choice(SPECIAL) if rng.random() < 0.6 else rng.randrange(32, 127) for _ in range(n))
    if flavour == 2:   # urldecode-ish: % sequences, valid and broken
        out = bytearray()
        while len(out) < n:
            r = rng.random()
            if r < 0.3:
                out += b"%" + bytes(rng.choice(b"0123456789abcdefABCDEFgG%+ \xe9") for _ in range(rng.randrange(0, 3)))
            elif r < 0.4:
                out += b"+"
            else:
                out.append(rng.randrange(256))
        return bytes(out[:n])
    # base64-ish text with some junk
    al = b"ABCDEFGHIJKLMNOPQRSTUVWXYZabcdefghijklmnopqrstuvwxyz0123456789-_"
    return bytes(rng.choice(al) if rng.random() < 0.93 else rng.randrange(256) for _ in range(n))


def gen_cases(c, scale):
    rng = c.rng
    cases = []
    add = cases.append
    for cs in form_cases(rng, 400 * scale):
        add(cs)
    # template filters over objects that write in several pieces (short head + long body, around the
    # filter buffers' sizes 16/128/256, bytewise pieces, empty pieces)
    for _ in range(300 * scale):
        kind = rng.choice(("escape", "urlencode", "base64"))
        n = rng.randrange(1, 5)
        ps = []
        for j in range(n):
            ln = rng.choice((0, 1, 2, 15, 16, 17, 100, 127, 128, 129, 255, 256, 257, 300, rng.randrange(0, 700)))
            ps.append(rand_bytes(rng, ln, rng.randrange(3)))
        add("fltN " + kind + " " + " ".join(hexs(x) for x in ps))
    for head in (1, 5, 127):
        for body in (16, 128, 129, 512):
            for kind in ("escape", "urlencode", "base64"):
                add("fltN " + kind + " " + hexs(bytes((65 + i) % 90 + 33 for i in range(head))) + " " + hexs(rand_bytes(rng, body, 1)))
    # exhaustive: all strings of length 0..1, all of length 2 (thorough) or a sample (quick)
    short = [b""] + [bytes([a]) for a in range(256)]
    if c.tier == "thorough":
        short += [bytes([a, b]) for a in range(256) for b in range(256)]
    else:
        sp = list(SPECIAL)
        short += [bytes([a, b]) for a in sp for b in range(256)]
        short += [bytes([rng.randrange(256), rng.randrange(256)]) for _ in range(4000)]
    for s in short:
        h = hexs(s)
        for op in ("escape", "urlencode", "urldecode", "urlrt", "b64enc", "b64dec", "b64rt", "b64decraw", "b64encraw"):
            add(f"{op} {h}")
        if len(s) < 2 or rng.random() < 0.1:
            for op in ("escape_os", "escape_flt", "urlencode_os", "urlencode_sb", "urlencode_flt", "b64enc_os", "b64enc_flt"):
                add(f"{op} {h}")
    # base64 blocks: all 3-byte strings in thorough is 16M lines -> sample
    for _ in range(20000 * scale):
        s = bytes(rng.randrange(256) for _ in range(rng.choice((3, 3, 4, 5, 6))))
        add(f"b64enc {hexs(s)}"); add(f"b64rt {hexs(s)}")
    for _ in range(8000 * scale):
        s = rand_bytes(rng, rng.randrange(0, 9), 3)
        add(f"b64dec {hexs(s)}")
        if len(s) % 4 != 1:
            add(f"b64decraw {hexs(s)}")
    # size formulas: every length 0..1024 and values near the int/size_t edges are not meaningful
    # (int return type) -> 0..1024 plus a sample up to 2^30
    for n in range(0, 1025):
        add(f"encsize {n}"); add(f"decsize {n}")
    for _ in range(500):
        n = rng.randrange(1 << 30)
        add(f"encsize {n}"); add(f"decsize {n}")
    # random strings of growing length for every op
    for _ in range(1500 * scale):
        fl = rng.randrange(4)
        n = rng.choice((3, 5, 8, 13, 21, 64, 200, rng.randrange(0, 1500)))
        s = rand_bytes(rng, n, fl)
        h = hexs(s)
        op = rng.choice(("escape", "urlencode", "urldecode", "urlrt", "b64enc", "b64rt", "b64dec", "escape_os", "escape_flt",
                         "urlencode_os", "urlencode_sb", "urlencode_flt", "b64enc_os", "b64enc_flt", "b64encraw"))
        add(f"{op} {h}")
        if rng.random() < 0.4:
            e = len(s) * 6
            room = rng.choice((0, 1, 2, 3, 4, 5, rng.randrange(0, e + 2), e + 1))
            add(f"escapesb {h} {room}")
    for _ in range(4 * scale):
        s = rand_bytes(rng, rng.randrange(20000, 65536), rng.randrange(4))
        add(f"{rng.choice(('escape','urlrt','b64rt','urldecode'))} {hexs(s)}")
    return cases


def judge_lines(cases, out_i):
    """property predicate on the implementation's outputs.  Returns list of (case index, judge line | None, python verdict)"""
    res = []
    for k, (cs, o) in enumerate(zip(cases, out_i)):
        w = cs.split()
        op = w[0]
        if op == "form":
            if re.fullmatch(r"[0-9a-f]+", o):
                res.append((k, "J form " + o + " " + " ".join(w[5:9]), None))
            else:
                res.append((k, None, False))
            continue
        base = op.split("_")[0].replace("raw", "")
        if op == "fltN":
            whole = hexs(b"".join(unhex(x) for x in w[2:]))
            jb = {"escape": "escape", "urlencode": "urlencode", "base64": "b64enc"}[w[1]]
            if re.fullmatch(r"[0-9a-f]+|-", o):
                res.append((k, f"J {jb} {whole} {o}", None))
                if jb == "urlencode":
                    import urllib.parse as _u
                    res.append((k, None, _u.unquote_to_bytes(unhex(o)) == unhex(whole)))
                if jb == "b64enc":
                    import base64 as _b64
                    txt = unhex(o)
                    try:
                        ok = len(txt) % 4 != 1 and _b64.urlsafe_b64decode(txt + b"=" * (-len(txt) % 4)) == unhex(whole)
                    except Exception:
                        ok = False
                    res.append((k, None, ok))
            else:
                res.append((k, None, False))
            continue
        if base in ("escape", "urlencode", "b64enc") and op != "escapesb":
            o1 = o[:-2] if op == "urlencode_sb" and o.endswith(" 1") else o
            if re.fullmatch(r"[0-9a-f]+|-", o1):
                res.append((k, f"J {base} {w[1]} {o1}", None))
                if base == "b64enc":
                    # independent reference: Python's RFC 4648 section 5 decoder must invert every encoder path
                    import base64 as _b64
                    txt = unhex(o1)
                    try:
                        ok = len(txt) % 4 != 1 and _b64.urlsafe_b64decode(txt + b"=" * (-len(txt) % 4)) == unhex(w[1])
                    except Exception:
                        ok = False
                    if not ok:
                        res.append((k, None, False))
            else:
                res.append((k, None, False))
        elif op == "urlrt":
            res.append((k, None, o == w[1]))
        elif op == "b64rt":
            res.append((k, None, o == "ok " + w[1]))
    return res


def main():
    c = Check("C15")
    c.rule = ("cases = (op, byte string) lines: exhaustive strings of length 0..1 (0..2 in thorough) x 8 ops, "
              "special-byte pairs, random 3..6-byte base64 blocks, malformed decoder input, sizes 0..1024, random strings "
              "to 64 KiB, short-writing sinks; non-trivial = model output differs from the input bytes (something was "
              "escaped/encoded/decoded/rejected); distinct = distinct case lines")
    c.trusted += [
        "translator translate/c15.py + translate/cexpr.py (tables, byte-class conditions, bit expressions, size formulas of util.cpp/base64.cpp -> Gen.lean)",
        "hand-written control flow of Model.lean (loops, %XX look-ahead, block loops, sink protocol), tied by the correspondence run",
        "externals: sscanf(\"%x\") on two hex digits (modelled as 16*hi+lo), std::string/std::streambuf",
        "correspondence harness harness/c15.cpp (ASan+UBSan build of /repo's working tree)",
    ]
    c.assumptions += ["sscanf %x of two hex digits yields 16*hi+lo", "std::streambuf::sputn stores a prefix and returns its length"]
    scale = 6 if c.tier == "thorough" else 1

    c.translate("c15.py")
    proved = c.prove(["Cppcms.C15.Props"], OBLIGATIONS, exe="c15_model")
    if c.tier == "thorough" and proved:
        c.leanchecker(["Cppcms.C15.Props"])
    model = c.model_exe()
    ok_impl = c.impl_build()
    hbin = c.harness("c15") if ok_impl else None

    if c.replay_path:
        rp = json.load(open(c.replay_path))
        cases = [rp["case"]] if rp.get("case") else []
    else:
        cases = gen_cases(c, scale)

    form = [x for x in cases if x.startswith("form ")]
    cases = [x for x in cases if not x.startswith("form ")]
    if hbin and os.path.exists(model) and form:
        # widget rendering: no executable model of the HTML scaffolding; the rendered output of the real
        # widgets is judged with Spec.userTextEscaped (the static side is theorem form_inserts_escaped)
        rc, fo, ferr = c.run_lines(hbin, form)
        c.evaluations += len(form)
        jl = judge_lines(form, fo)
        rcj, jout, jerr = c.run_lines(model, [l for _, l, _ in jl if l])
        jbad = [k for k, l, v in jl if v is False] + [k for (k, l, v), o in zip([x for x in jl if x[1]], jout) if o != "1"]
        if rc != 0 or len(fo) < len(form):
            c.violation("sanitizer abort / crash while rendering a widget", {"case": form[len(fo)] if len(fo) < len(form) else None, "stderr": ferr})
        for k in sorted(jbad)[:10]:
            c.violation("user text reaches the rendered widget unescaped", {"case": form[k], "impl_output": fo[k] if k < len(fo) else None})
        for k in range(min(len(form), len(fo))):
            c.nontrivial.add(form[k])
        c.extra_cov["widgets_rendered_and_judged"] = len(jl)
        c.log(f"widgets: {len(form)} rendered, {len(jbad)} judge failures")
    if hbin and os.path.exists(model) and cases:
        cases = list(dict.fromkeys(cases))
        out_i, out_m, diffs, crashed = c.correspond(
            "codecs", cases, hbin, model,
            nontrivial=lambda cs, o: cs if (len(cs.split()) > 1 and o != cs.split()[1]) else None)
        c.samples = [{"case": cases[i], "impl": out_i[i] if i < len(out_i) else None, "model": out_m[i] if i < len(out_m) else None}
                     for i in ([0, 300, 2500, len(cases) // 2, len(cases) - 1] if len(cases) > 2500 else range(len(cases)))]
        dist = {}
        for cs in cases:
            dist[cs.split()[0]] = dist.get(cs.split()[0], 0) + 1
        c.extra_cov["op_distribution"] = dist
        # judge every implementation output with the property predicate
        jl = judge_lines(cases, out_i)
        lean_j = [(k, l) for k, l, v in jl if l]
        rc, jout, jerr = c.run_lines(model, [l for _, l in lean_j])
        bad = [k for k, l, v in jl if v is False]
        for (k, l), o in zip(lean_j, jout):
            if o != "1":
                bad.append(k)
        c.extra_cov["judged_impl_outputs"] = len(jl)
        if crashed:
            c.violation("sanitizer abort / crash of the real code", {"case": crashed["case"], "stderr": crashed["stderr"]})
        for k in sorted(bad)[:20]:
            c.violation("property predicate false on implementation output",
                        {"case": cases[k], "impl_output": out_i[k], "model_output": out_m[k] if k < len(out_m) else None,
                         "replay_cmd": f"checks/c15.py --replay <this file>"})
        if diffs and not bad and not crashed:
            # the tie is broken but the property predicate holds on everything explored
            k, cs, a, b = diffs[0]
            c.broke("correspondence stream codecs", f"{len(diffs)} differing cases; first: {cs} impl={a} model={b}")
        if c.replay_path:
            for i, cs in enumerate(cases):
                print("case :", cs); print("impl :", out_i[i] if i < len(out_i) else None); print("model:", out_m[i] if i < len(out_m) else None)
    c.finish()


if __name__ == "__main__":
    main()
