#!/usr/bin/env python3
"""C18 — a crash while saving a file-backed session never yields a corrupted session.
See DESIGN.md section 5 (C18) and design.d/C18.md.
Usage: checks/c18.py [--tier quick|thorough] [--replay file]"""
import os, sys, json, struct, zlib
sys.path.insert(0, os.path.join(os.path.dirname(os.path.abspath(__file__)), "..", "lib"))
from vcheck import *

P = "Cppcms.C18.Props."
OBLIGATIONS = [
    (P + "layout_tie", "the header layout / write order / open flags the model transcribes are those Gen.lean extracted from the source"),
    (P + "crc_table_tie", "fall-back CRC table of crc32.h = table of the model's bitwise CRC-32; crc32_calc init = crc32 of empty"),
    (P + "crc_fallback_eq", "the table-driven Crc32_ComputeBuf loop of crc32.h (no-zlib build) computes the model's CRC-32 for every input"),
    (P + "load_sound", "for every file content: a successful read returns exactly `size` bytes with the header's deadline (not past) and CRC"),
    (P + "no_crash_load_new", "complete save over ANY earlier content, then load before the deadline = the saved value"),
    (P + "no_crash_load_expired", "complete save, load after the deadline = no session"),
    (P + "torn_load_partial", "every crash state (write prefix x data byte prefix x sector subset, over any well-formed earlier file): load = new | old | TornNew | TornOld (genuine CRC-32 collision under an intact header)"),
    (P + "torn_load", "same under explicit hypothesis CollisionFree: load in {none, new, what the earlier file loaded as}"),
    (P + "torn_counterexample", "the full statement TornLoadFull is FALSE of the model of the code (known finding crc32-torn-mixture, witness 1)"),
    (P + "torn_counterexample_values", "witness 1 loads as (new deadline, new[0..20]++old[20..]), neither new nor old; it is a TornNew collision"),
    (P + "torn_counterexample_sector", "witness 2: pure 512-byte sector tear of a completed save of 600 bytes loads as a mixture"),
    (P + "torn_mixture_for_every_payload", "scope of the finding: EVERY payload >= 6 bytes and every tear position 1..|d|-5 has an adversarial earlier value whose torn mixture loads (CRC-32 affine; proved in general)"),
    (P + "crash_bytewise", "every byte of a crash state is the completed save's byte, the earlier file's byte, or a zero: torn values are byte-wise mixtures"),
    (P + "only_sid_named_files_touched", "save/crashed save/load/remove touch only their sid's file; gc only 32-hex names"),
    (P + "crash_wellformed", "crash states are again well-formed earlier states (theorems compose along histories)"),
    (P + "saveComplete_wellformed", "so are complete saves"),
    (P + "saveComplete_is_crash", "the complete save is a crash state (non-vacuity of Crash)"),
    (P + "old_is_crash", "the earlier file is a crash state"),
    (P + "history_load_partial", "any history of saves/crashed saves/loads/removes/gc/clock moves from an empty directory: a load returns a (deadline,data) pair one save of that sid was called with, not past — under Admissible (CollisionFree at each crashed save)"),
    (P + "collisionFree_single_fresh", "CollisionFree holds (non-vacuity) for a one-byte value over no file, all S/now/t"),
    (P + "collisionFree_single_over", "CollisionFree holds for a one-byte value over an earlier one-byte value, all S/now"),
    (P + "load_removes_bad_files", "load returning no session leaves no file under that sid"),
    (P + "load_keeps_good_files", "successful load changes nothing; load never touches another file"),
    (P + "gc_never_removes_live", "gc keeps, unchanged, every file a load would accept at that clock"),
    (P + "gc_removes_unreadable_and_expired", "after gc every 32-hex-named file has a readable deadline that is not past"),
    (P + "gc_touches_only_sid_names", "gc leaves other names alone and never creates/alters a file"),
    (P + "gc_then_load", "gc at any point: a later load = none or what it would have been without gc"),
    (P + "save_then_load", "directory level: save then load before the deadline returns the value"),
]

FINDING = "crc32-torn-mixture"
SIDS = ["0123456789abcdef0123456789abcdef", "ABCDEF0123456789abcdefABCDEF0123", "00000000000000000000000000000000",
        "ffffffffffffffffffffffffffffff01", "a1b2c3d4e5f60718293a4b5c6d7e8f90"]


def rb(rng, n):
    return bytes(rng.getrandbits(8) for _ in range(n))


def record(t, d):
    """bytes of a complete record, computed independently of both sides (python zlib)"""
    return struct.pack("<qII", t, zlib.crc32(d) & 0xffffffff, len(d) & 0xffffffff) + d


def hdr0(rng, t, crc):
    return struct.pack("<qII", t, crc, 0)


def split_ops(line):
    ops, cur = [], []
    for w in line.split():
        if w == ";":
            if cur:
                ops.append(cur)
            cur = []
        else:
            cur.append(w)
    if cur:
        ops.append(cur)
    return ops


def pick_len(rng, big):
    r = rng.random()
    if r < 0.12:
        return 0
    if r < 0.3:
        return rng.randrange(1, 8)
    if r < 0.55:
        return rng.randrange(8, 80)
    if r < 0.8:
        return rng.choice((495, 496, 497, 511, 512, 513, 1008, 1009)) + rng.randrange(0, 3)
    return rng.randrange(80, big)


def gen_old(rng, sid, now, big):
    """ops establishing an earlier file state; returns (ops, well_formed)"""
    r = rng.random()
    if r < 0.15:
        return [], True                                               # absent
    fut = now + rng.choice((0, 1, 5, 1000, 10 ** 9))
    past = now - rng.choice((1, 5, 1000))
    t0 = fut if rng.random() < 0.8 else past
    if r < 0.55:                                                      # a complete earlier save (by the real code)
        ops = []
        if rng.random() < 0.3:                                        # over an even longer one: trailing leftover
            ops.append(f"save {sid} {fut} {hexs(rb(rng, pick_len(rng, big) + 40))}")
        ops.append(f"save {sid} {t0} {hexs(rb(rng, pick_len(rng, big)))}")
        return ops, True
    if r < 0.7:                                                       # a well-formed record written by python
        return [f"put {sid} {hexs(record(t0, rb(rng, pick_len(rng, big))) + rb(rng, rng.choice((0, 0, 7, 600))))}"], True
    if r < 0.8:                                                       # header promises more than there is / bad crc
        d = rb(rng, pick_len(rng, big) + 1)
        rec = bytearray(record(t0, d))
        if rng.random() < 0.5:
            rec = rec[:len(rec) - rng.randrange(1, len(d) + 1)]
        else:
            # flip one bit of the crc, the low size byte or the data (a high size bit would only buy a giant allocation)
            pos = rng.choice([q for q in range(8, len(rec)) if not 13 <= q <= 15])
            rec[pos] ^= 1 << rng.randrange(8)
        return [f"put {sid} {hexs(bytes(rec))}"], len(rec) >= 16
    if r < 0.84:                                                      # header says size 0 but the crc field is not that of ""
        g = hdr0(rng, t0, rng.getrandbits(32) | 1) + rb(rng, rng.choice((0, 0, 5, 600)))
        return [f"put {sid} {hexs(g)}"], True
    if r < 0.9:                                                       # garbage with a plausible header (size kept small)
        g = struct.pack("<qII", t0, rng.getrandbits(32), rng.choice((0, 1, 5, 40, 600, 70000))) + rb(rng, rng.randrange(0, 700))
        return [f"put {sid} {hexs(g)}"], True
    n = rng.choice((0, 1, 7, 8, 9, 15, 16, 17))                       # short files (outside WellFormedOld unless 0 / >= 16)
    g = (struct.pack("<q", t0) + rb(rng, 16))[:n] if rng.random() < 0.6 else rb(rng, n)
    if len(g) >= 16:                                                  # keep size field small
        g = g[:12] + struct.pack("<I", rng.choice((0, 1, 3)))
    return [f"put {sid} {hexs(g)}"], (n == 0 or n >= 16)


def crash_case(rng, big, S=None, d=None, k=None, j=None, mask=None, oldops=None, wf=True, now=None, kill=None):
    sid = rng.choice(SIDS)
    if now is None:
        now = rng.choice((1000, 1000, 1000, 1, 1700000000, 0, -5))
    if oldops is None:
        oldops, wf = gen_old(rng, sid, now, big)
    else:
        oldops = [o.replace("SID", sid) for o in oldops]
    if d is None:
        d = rb(rng, pick_len(rng, big))
    t = now + rng.choice((0, 1, 5, 1000, 10 ** 9, 2 ** 62)) if rng.random() < 0.85 else now - rng.choice((1, 5, 1000))
    if S is None:
        S = rng.choice((512, 512, 512, 512, 16, 64, 4096))
    if k is None:
        k = rng.choice((0, 1, 1, 1, 1, 2, 2, 3))
    if j is None:
        j = 0
        if k == 1:
            j = rng.choice((0, len(d), rng.randrange(0, len(d) + 1), max(0, S - 16), max(0, S - 16 + 1), max(0, 2 * S - 16)))
        elif k == 0 and rng.random() < 0.1:
            j = rng.randrange(1, 17)                                  # partial header: outside the quantifier (tie only)
    nsec = (16 + len(d) + 700) // S + 2
    if mask is None:
        r = rng.random()
        if r < 0.3:
            mask = "all"
        elif r < 0.38:
            mask = "-"
        else:
            idx = [i for i in range(min(nsec, 12)) if rng.random() < 0.5]
            mask = ",".join(map(str, idx)) if idx else "-"
    ops = []
    if rng.random() < 0.15:
        ops.append("flock 1")
    ops.append(f"now {now}")
    ops += oldops
    ops.append(f"probe {sid}")
    ip = len(ops) - 1
    if kill is None:
        kill = rng.random() < 0.2
    ops.append(f"{'ksave' if kill else 'csave'} {sid} {t} {hexs(d)} {k} {j} {S} {mask}")
    ops.append("ls")
    if rng.random() < 0.25:
        ops.append("gc")
    ops.append(f"load {sid}")
    il = len(ops) - 1
    ops.append("ls")
    judge = wf and S >= 16 and now > 0 and not (k == 0 and j > 0)
    full = (k >= 2 or (k == 1 and j >= len(d))) and mask == "all"
    meta = {"kind": "crash", "judge": judge, "probe": ip, "load": il, "t": t, "d": hexs(d), "now": now, "complete": full and S >= 1,
            "torn": not full and not (k == 0 and j == 0)}
    return " ; ".join(ops), meta


def adv_case(rng):
    """the construction of Props.torn_mixture_for_every_payload on a random payload: model and code must agree on it
    (tie only: these are further instances of the known finding, so no judge is applied to them)"""
    n = rng.choice((6, 7, 40, 300, 600, 1300))
    d = rb(rng, n)
    j = rng.randrange(1, n - 4)
    delta = bytearray(n)
    delta[0] = 1
    delta[j:j + 5] = bytes([1, 0x96, 0x30, 0x07, 0x77])
    o = bytes(a ^ b for a, b in zip(d, delta))
    sid = rng.choice(SIDS)
    line = f"now 1000 ; save {sid} 2000 {hexs(o)} ; probe {sid} ; csave {sid} 3000 {hexs(d)} 1 {j} 512 all ; ls ; load {sid} ; ls"
    return line, {"kind": "adv", "expect": f"ok 3000 {hexs(d[:j] + o[j:])}"}


def crc_case(rng):
    """direct tie of the CRC: crc32_calc (zlib here) vs the model's bitwise CRC-32 (and its table-driven twin)"""
    ops = []
    for _ in range(8):
        n = rng.choice((0, 1, 2, 3, 4, 5, 8, 9, 63, 64, 65, 255, 256, 1000, rng.randrange(0, 3000)))
        r = rng.random()
        d = rb(rng, n) if r < 0.7 else (bytes(n) if r < 0.85 else bytes([rng.choice((0, 255, 1, 0x80))]) * n)
        ops.append(f"crc {hexs(d)}")
    return " ; ".join(ops), {"kind": "crc"}


def hdr0_case(rng):
    """files whose header says size 0: the genuinely saved empty session (crc field 0) must load; any other crc field is a damaged
    or foreign file and must be refused and removed — with or without bytes behind the header"""
    now = rng.choice((1000, 1000, 1700000000))
    sid = rng.choice(SIDS)
    t = now + rng.choice((0, 1, 77, 10 ** 6, 2 ** 40))
    r = rng.random()
    if r < 0.2:
        f = hdr0(rng, t, 0)                                            # what save(sid, t, "") writes
    elif r < 0.5:
        f = hdr0(rng, t, rng.choice((1, 0xdeadbeef, 0xffffffff, 0x80000000, rng.getrandbits(32) | 1)))
    elif r < 0.7:                                                      # a saved record whose size field got zeroed
        rec = bytearray(record(t, rb(rng, rng.randrange(1, 60))))
        rec[12:16] = b"\0\0\0\0"
        f = bytes(rec)
    elif r < 0.85:
        f = hdr0(rng, t, rng.getrandbits(32) | 1) + rb(rng, rng.randrange(1, 40))
    else:
        f = hdr0(rng, t, 0) + rb(rng, rng.randrange(1, 40))            # empty session with leftover tail of a longer earlier value
    ops = [f"now {now}", f"put {sid} {hexs(f)}", f"probe {sid}", "ls"]
    if rng.random() < 0.4:
        ops.append("gc")
    ops += [f"load {sid}", "ls"]
    return " ; ".join(ops), {"kind": "hdr0"}


def tail_tear_cases(rng):
    """values just above 64 KiB over an earlier value of equal or greater length, torn behind data offset 65536 (byte prefix of the
    data write, or a lost 512-byte sector there): a checksum that does not cover the tail would let a mixture through"""
    out = []
    for n, oldn in ((65537 + rng.randrange(1100, 2500), None), (70001, 70001 + rng.randrange(1, 3000))):
        oldn = oldn or n
        d = rb(rng, n)
        old = [f"save SID 1500 {hexs(rb(rng, oldn))}"]
        for j in (65536, rng.randrange(65537, n), n - 1):
            out.append(crash_case(rng, 0, S=512, d=d, k=1, j=j, mask="all", oldops=old, wf=True, now=1000, kill=False))
        nsec = (16 + max(n, oldn) + 511) // 512
        first_tail = (16 + 65536 + 511) // 512                          # first sector lying entirely behind data offset 65536
        lost = rng.randrange(first_tail, (16 + n) // 512)
        keep = ",".join(str(i) for i in range(nsec) if i != lost)
        out.append(crash_case(rng, 0, S=512, d=d, k=2, j=0, mask=keep, oldops=old, wf=True, now=1000, kill=False))
    return out


def gen_name(rng):
    r = rng.random()
    hexd = "0123456789abcdefABCDEF"
    if r < 0.55:
        return "".join(rng.choice(hexd) for _ in range(32))
    if r < 0.65:
        return "".join(rng.choice(hexd) for _ in range(rng.choice((31, 33, 16, 40, 1))))
    if r < 0.8:
        s = ["".join(rng.choice(hexd)) for _ in range(32)]
        s[rng.randrange(32)] = rng.choice("gGzZxX")
        return "".join(s)
    return "".join(rng.choice("abcxyz019") for _ in range(rng.randrange(1, 12)))


def gen_content(rng, now):
    r = rng.random()
    tf = now + rng.choice((0, 1, 7, 10 ** 6))
    tp = now - rng.choice((1, 7, 10 ** 6))
    if r < 0.2:
        return record(tf, rb(rng, rng.randrange(0, 50)))
    if r < 0.35:
        return record(tp, rb(rng, rng.randrange(0, 50)))
    if r < 0.45:                                                      # future stamp, bad crc: gc keeps, load removes
        x = bytearray(record(tf, rb(rng, rng.randrange(1, 50))))
        x[-1] ^= 0x40
        return bytes(x)
    if r < 0.6:
        return (struct.pack("<q", rng.choice((tf, tp))) + rb(rng, 12))[:rng.choice((0, 1, 7, 8, 9, 12, 15))]
    if r < 0.7:
        return struct.pack("<q", rng.choice((-1, -2 ** 63, 2 ** 63 - 1, 0, now))) + struct.pack("<II", 0, 0)
    if r < 0.76:
        return b""
    if r < 0.84:                                                      # size field 0, crc field arbitrary (0 = a real empty session)
        return hdr0(rng, rng.choice((tf, tp)), rng.choice((0, 1, 0xdeadbeef, rng.getrandbits(32)))) + rb(rng, rng.choice((0, 0, 9)))
    g = bytearray(rb(rng, rng.randrange(8, 60)))
    if len(g) >= 16:
        g[12:16] = struct.pack("<I", rng.choice((0, 2, 30, 100000)))
    return bytes(g)


def gc_case(rng):
    now = rng.choice((1000, 1000, 5, 1700000000, 0, -3))
    names = []
    ops = [f"now {now}"]
    ents = []
    for _ in range(rng.randrange(1, 7)):
        n = gen_name(rng)
        if n.lower() in [x.lower() for x in names] or n.lower().startswith("fffffffffffffffffffffffffffffff0"):
            continue
        names.append(n)
        c = gen_content(rng, now)
        ents.append((n, hexs(c)))
        ops.append(f"put {n} {hexs(c)}")
    ip = len(ops)
    for n in names:
        ops.append(f"probe {n}")
    if rng.random() < 0.3:
        now2 = now + rng.choice((-10, 3, 10, 10 ** 7))
        ops.append(f"now {now2}")
        ig = None
    else:
        now2 = now
        ig = True
    ops.append("gc")
    ops.append("ls")
    meta = {"kind": "gc", "now": now2, "ents": ents, "probe0": ip, "judge_live": bool(ig)}
    return " ; ".join(ops), meta


def seq_case(rng, big):
    sids = rng.sample(SIDS, 2)
    now = 1000
    ops = [f"now {now}"]
    if rng.random() < 0.2:
        ops.insert(0, "flock 1")
    for _ in range(rng.randrange(4, 14)):
        sid = rng.choice(sids)
        r = rng.random()
        if r < 0.25:
            ops.append(f"save {sid} {now + rng.choice((-3, 0, 2, 50, 5000))} {hexs(rb(rng, pick_len(rng, big)))}")
        elif r < 0.5:
            d = rb(rng, pick_len(rng, big))
            k = rng.choice((0, 1, 1, 1, 2))
            j = rng.randrange(0, len(d) + 1) if k == 1 else 0
            S = rng.choice((512, 512, 64))
            idx = [i for i in range(8) if rng.random() < 0.5]
            mask = rng.choice(("all", ",".join(map(str, idx)) if idx else "-"))
            ops.append(f"{rng.choice(('csave', 'csave', 'ksave'))} {sid} {now + rng.choice((-3, 0, 2, 50, 5000))} {hexs(d)} {k} {j} {S} {mask}")
        elif r < 0.7:
            ops.append(f"load {sid}")
            ops.append("ls")
        elif r < 0.78:
            ops.append(f"remove {sid}")
            ops.append("ls")
        elif r < 0.88:
            ops.append("gc")
        else:
            now += rng.choice((1, 3, 40, 6000))
            ops.append(f"now {now}")
    ops.append("ls")
    return " ; ".join(ops), {"kind": "seq"}


def gen_cases(c, scale):
    rng = c.rng
    big = 1700
    cases = []
    # corpus first (minimised past failures + the finding witnesses as stored scripts)
    cdir = os.path.join(ROOT, "gen", "corpus", "C18")
    if os.path.isdir(cdir):
        for fn in sorted(os.listdir(cdir)):
            for line in open(os.path.join(cdir, fn)):
                line = line.strip()
                if line and not line.startswith("#"):
                    cases.append((line, {"kind": "corpus", "file": fn}))
    # small exhaustive space: S=16, 40-byte new value (4 sectors with the header), every crash point x every sector subset,
    # over five earlier states
    small_olds = [([], True),
                  ([f"save SID 1500 {hexs(rb(rng, 40))}"], True),
                  ([f"save SID 1500 {hexs(rb(rng, 25))}"], True),
                  ([f"save SID 1500 {hexs(rb(rng, 61))}"], True),
                  ([f"put SID {hexs(rb(rng, 16)[:8] + struct.pack('<II', 7, 5) + rb(rng, 30))}"], True)]
    d40 = rb(rng, 40)
    subsets = range(16) if c.tier == "thorough" else [0, 1, 2, 5, 6, 8, 11, 14, 15]
    for oldops, wf in small_olds:
        for (k, js) in ((0, [0]), (1, range(0, 41) if c.tier == "thorough" else [0, 1, 15, 16, 17, 31, 32, 39, 40]), (2, [0])):
            for j in js:
                for sub in subsets:
                    idx = [i for i in range(4) if sub >> i & 1]
                    mask = ",".join(map(str, idx)) if idx else "-"
                    cases.append(crash_case(rng, big, S=16, d=d40, k=k, j=j, mask=mask, oldops=oldops, wf=wf, now=1000))
    # the real sector size: 3 sectors, all 8 subsets, crash points at the sector edges
    d3 = rb(rng, 1100)
    for sub in range(8):
        idx = [i for i in range(3) if sub >> i & 1]
        mask = ",".join(map(str, idx)) if idx else "-"
        for (k, j) in ((1, 0), (1, 495), (1, 496), (1, 497), (1, 1008), (1, 1100), (2, 0)):
            for oldops in ([], [f"save SID 1500 {hexs(rb(rng, 1100))}"], [f"save SID 1500 {hexs(rb(rng, 300))}"], [f"save SID 1500 {hexs(rb(rng, 1600))}"]):
                cases.append(crash_case(rng, big, S=512, d=d3, k=k, j=j, mask=mask, oldops=oldops, wf=True, now=1000))
    for _ in range(1500 * scale):
        cases.append(crash_case(rng, big))
    for _ in range(4 * scale):
        cases.append(crash_case(rng, 70000))
    for n in (65535, 65536, 70001):                    # payloads that do not fit 16 bits: complete save, and a torn one
        cases.append(crash_case(rng, big, S=512, d=rb(rng, n), k=2, j=0, mask="all", oldops=[], wf=True, now=1000))
        cases.append(crash_case(rng, big, S=512, d=rb(rng, n), k=1, j=n - 3, mask="all", oldops=[f"save SID 1500 {hexs(rb(rng, 100))}"], wf=True, now=1000))
    for _ in range(12 * scale):
        cases.append(adv_case(rng))
    cases += tail_tear_cases(rng)
    for _ in range(150 * scale):
        cases.append(hdr0_case(rng))
    for _ in range(60 * scale):
        cases.append(crc_case(rng))
    for _ in range(800 * scale):
        cases.append(gc_case(rng))
    for _ in range(400 * scale):
        cases.append(seq_case(rng, 700))
    return cases


def judge(c, model, cases, metas, out_i):
    """property predicates on the implementation's outputs; returns list of (case index, what)"""
    bad = []
    jl = []          # (case index, lean judge line)
    njudged = 0
    for k, (line, meta, o) in enumerate(zip(cases, metas, out_i)):
        ops = split_ops(line)
        outs = o.split(" | ")
        if len(outs) != len(ops):
            if o != "bad-op" and not o.startswith("<harness died"):
                bad.append((k, f"implementation answered {len(outs)} ops of {len(ops)}: {o[:200]}"))
            continue
        now = 0
        saved = {}
        tainted = set()
        content = {}          # name -> hex of the file as last seen (put / ls); unknown after a save until the next ls
        # the history predicate needs the theorem's hypotheses (clock > 0, atomic header, well-formed earlier file, S >= 16)
        hist = meta.get("kind") in ("seq", "gc") or (meta.get("kind") == "crash" and meta["judge"])
        for n, (op, a) in enumerate(zip(ops, outs)):
            if a.startswith("exception"):
                bad.append((k, f"exception out of the storage in op {n} ({op[0]}): {a[:200]}"))
            if op[0] == "crc":
                if a != str(zlib.crc32(unhex(op[1])) & 0xffffffff):
                    bad.append((k, f"crc32_calc differs from zlib.crc32 (python) on {op[1][:80]}: {a}"))
            elif op[0] == "now":
                now = int(op[1])
            elif op[0] == "ls":
                content = dict(e.split(":") for e in a.split(",")) if a not in ("-", "") and ":" in a else {}
            elif op[0] == "put":
                tainted.add(op[1])
                content[op[1]] = op[2]
            elif op[0] == "probe":
                if a.startswith("ok ") and op[1] in content:
                    _, t, h = a.split()
                    jl.append((k, f"J sound {now} {content[op[1]]} {t} {h}"))
            elif op[0] in ("save", "csave", "ksave"):
                saved.setdefault(op[1], set()).add((int(op[2]), op[3]))
                content.pop(op[1], None)
            elif op[0] == "remove":
                content.pop(op[1], None)
                if n + 1 < len(ops) and ops[n + 1][0] == "ls":
                    names = [e.split(":")[0] for e in outs[n + 1].split(",")] if outs[n + 1] != "-" else []
                    if op[1] in names:
                        bad.append((k, "remove left the file"))
            elif op[0] == "load":
                njudged += 1
                if a.startswith("ok "):
                    _, t, h = a.split()
                    if op[1] in content:
                        jl.append((k, f"J sound {now} {content[op[1]]} {t} {h}"))
                    if int(t) < now:
                        bad.append((k, f"load returned a session past its deadline ({t} < now {now})"))
                    if hist and op[1] not in tainted and (int(t), h) not in saved.get(op[1], set()):
                        bad.append((k, f"load returned a value that no save of this history wrote: {a[:120]}"))
                    if n + 1 < len(ops) and ops[n + 1][0] == "ls" and n > 0 and ops[n - 1][0] == "ls" and outs[n - 1] != outs[n + 1]:
                        bad.append((k, "successful load changed the directory"))
                elif a == "none":
                    if n + 1 < len(ops) and ops[n + 1][0] == "ls":
                        names = [e.split(":")[0] for e in outs[n + 1].split(",")] if outs[n + 1] != "-" else []
                        if op[1] in names:
                            bad.append((k, "load reported no session but left the file"))
        if meta.get("kind") == "crash" and meta["judge"]:
            oldload, res = outs[meta["probe"]], outs[meta["load"]]
            jl.append((k, f"J crash {meta['t']} {meta['d']} {oldload} {res}"))
            if meta["complete"]:
                want = f"ok {meta['t']} {meta['d']}" if meta["now"] <= meta["t"] else "none"
                if res != want:
                    bad.append((k, f"complete save then load: got {res[:100]}, want {want[:100]}"))
        if meta.get("kind") == "gc":
            lsn = {}
            if outs[-1] != "-":
                for e in outs[-1].split(","):
                    nm, h = e.split(":")
                    lsn[nm] = h
            for q, (nm, h) in enumerate(meta["ents"]):
                live = outs[meta["probe0"] + q].startswith("ok ") and meta["judge_live"]
                kept = nm in lsn
                if kept and lsn[nm] != h:
                    bad.append((k, f"gc altered the content of {nm}"))
                jl.append((k, f"J gc {meta['now']} {nm} {h} {int(live)} {int(kept)}"))
            for nm in lsn:
                if nm not in dict(meta["ents"]):
                    bad.append((k, f"gc created {nm}"))
    if jl:
        rc, jout, jerr = c.run_lines(model, [l for _, l in jl])
        for (k, l), v in zip(jl, jout):
            if v != "1":
                bad.append((k, f"judge predicate false ({v}): {l[:160]}"))
        if len(jout) != len(jl):
            c.broke("judge run", f"model driver answered {len(jout)} of {len(jl)} judge lines: {jerr[-500:]}")
    c.extra_cov["judged_impl_outputs"] = c.extra_cov.get("judged_impl_outputs", 0) + len(jl) + njudged
    return bad


def nontrivial_key(meta, line, mout):
    if meta.get("kind") == "crash":
        return line if meta["torn"] else None
    if meta.get("kind") == "gc":
        ents = len(meta["ents"])
        left = 0 if mout.endswith("| -") else len(mout.split(" | ")[-1].split(","))
        return line if left < ents else None
    if meta.get("kind") == "seq":
        return line if "csave" in line or "ksave" in line else None
    return line


def finding_witnesses(c, model, hbin):
    """replay the Lean witnesses of the known finding on the real storage; returns list of indices that reproduced"""
    rc, wl, err = c.run_lines(model, ["witness 1", "witness 2", "witness-expect 1", "witness-expect 2"])
    if rc != 0 or len(wl) != 4 or "bad-op" in wl:
        c.broke("witness extraction from the model driver", err or str(wl)[:300])
        return
    # the committed corpus copies must be the theorem's witnesses
    cpath = os.path.join(ROOT, "gen", "corpus", "C18", "00-crc32-torn-mixture.txt")
    if os.path.exists(cpath):
        stored = [l.strip() for l in open(cpath) if l.strip() and not l.startswith("#")]
        if stored != wl[:2]:
            c.broke("corpus witness drift", "gen/corpus/C18/00-crc32-torn-mixture.txt differs from Witness.lean (as printed by the driver)")
    out_i, out_m, diffs, crashed = c.correspond("finding-witnesses", wl[:2], hbin, model, timeout=120)
    reproduced = []
    for n in (0, 1):
        if n >= len(out_i):
            break
        ops = split_ops(wl[n])
        outs = out_i[n].split(" | ")
        if len(outs) != len(ops):
            c.broke("witness replay", f"witness {n+1}: implementation output malformed: {out_i[n][:200]}")
            continue
        il = [q for q, op in enumerate(ops) if op[0] == "load"][0]
        ip = [q for q, op in enumerate(ops) if op[0] == "probe"][0]
        ic = [q for q, op in enumerate(ops) if op[0] == "csave"][0]
        jline = f"J crash {ops[ic][2]} {ops[ic][3]} {outs[ip]} {outs[il]}"
        rc, jo, _ = c.run_lines(model, [jline])
        verdict = jo[0] if jo else "?"
        c.log(f"witness {n+1}: impl load = {outs[il][:60]}… judge allowed={verdict} expected-recorded={'yes' if outs[il] == wl[2+n] else 'no'}")
        if verdict == "1":
            c.log(f"witness {n+1}: the implementation no longer returns a torn value for this witness (finding does not reproduce)")
        elif verdict == "0" and outs[il] == wl[2 + n]:
            reproduced.append(n + 1)        # exactly the recorded torn value (a model/impl diff elsewhere is the main stream's business)
        else:
            c.violation("finding witness fails differently from what is recorded",
                        {"case": wl[n], "impl_output": out_i[n], "model_output": out_m[n] if n < len(out_m) else None})
    if reproduced:
        if c.is_known(FINDING):
            c.known_finding(FINDING, f"id={FINDING} witnesses {reproduced} reproduce on the real session_file_storage: a torn file "
                                     "(new header, new bytes before the tear, old bytes after it) passes the CRC-32 test and load returns the mixture")
        else:
            c.violation("torn mixture passes the CRC test and the finding is not listed in known_findings.txt",
                        {"case": wl[reproduced[0] - 1], "impl_output": out_i[reproduced[0] - 1]})
    c.extra_cov["finding_witnesses_reproduced"] = reproduced


def main():
    c = Check("C18")
    # read_from_file allocates `size` bytes before it knows the file is that long; a code change that makes headers garbage would
    # otherwise cost a multi-GiB zero-fill per load.  Generators on the clean tree never exceed 100 000.
    os.environ.setdefault("ASAN_OPTIONS", "detect_leaks=0:abort_on_error=0:allocator_may_return_null=1:max_allocation_size_mb=512")
    c.rule = ("cases = scripts over a fresh directory run on the real session_file_storage (write()/time() interposed at link time) "
              "and on the Lean model: crash scripts [earlier state (absent | real save shorter/equal/longer/with leftover | python-built "
              "record | truncated/bit-flipped record | garbage | short file); probe; csave at crash point (k writes, j bytes) with sector "
              "size S and sector subset; ls; (gc); load; ls] — exhaustive crash points x sector subsets for a 40-byte value at S=16 over 5 "
              "earlier states, 3-sector value at S=512 with all 8 subsets, random beyond; gc scripts (1..6 files, well/ill-formed names, "
              "live/expired/short/bad-crc/garbage contents, clock moves); random histories (save/csave/load/remove/gc/clock). "
              "non-trivial = crash scripts whose crash point is a genuinely torn state (not nothing-written, not complete+all sectors), "
              "gc scripts where gc removed something, histories containing a crashed save; distinct = distinct script lines")
    c.trusted += [
        "translator translate/c18.py (header layout, read sequence, comparisons, write order, size cast, open flags, gc name length, CRC table -> Gen.lean; shape checks on write_all/read_all/load/save/remove/gc)",
        "hand-written control flow of Model.lean (readFromFile, saveWrites, load/gc over a name->content map), tied by the correspondence run",
        "the crash model itself (Model.crashState: write-call prefix, data byte prefix, sector subsets with zero-filled holes, header sector atomic) — a modelling assumption about disks/file systems, not verified",
        "externals: zlib crc32 (modelled as the standard reflected CRC-32, compared on every case), libc isxdigit/open/read/write/lseek/unlink/readdir_r, kernel file semantics (sequential writes from offset 0 without truncation)",
        "correspondence harness harness/c18.cpp (ASan+UBSan build of the working tree; crash states materialised by failing the interposed write() and re-mixing sectors)",
    ]
    c.assumptions += [
        "torn_load_partial/torn_load: 16 <= S (header inside one sector), 0 < now, earlier file empty or >= 16 bytes (WellFormedOld), deadline fits int64, payload < 2^31 bytes",
        "torn_load additionally: CollisionFree (no crash state of this save is a CRC-32 collision) — false for adversarial pairs, see torn_counterexample / known finding",
        "short reads/writes are outside the quantifier (write_all/read_all do not advance the buffer; not exercised)",
        "fcntl locking across processes and per-sid mutexes are not modelled (single-threaded harness; force_flock path is exercised)",
    ]
    scale = 6 if c.tier == "thorough" else 1

    c.translate("c18.py")
    proved = c.prove(["Cppcms.C18.Props"], OBLIGATIONS, exe="c18_model")
    if c.tier == "thorough" and proved:
        c.leanchecker(["Cppcms.C18.Props"])
    model = c.model_exe()
    ok_impl = c.impl_build()
    hbin = c.harness("c18") if ok_impl else None

    if c.replay_path:
        rp = json.load(open(c.replay_path))
        pairs = [(rp["case"], rp.get("meta", {"kind": "corpus"}))] if "case" in rp else []
    else:
        pairs = gen_cases(c, scale)

    if hbin and os.path.exists(model) and pairs:
        seen = set()
        upairs = []
        for l, m in pairs:
            if l not in seen:
                seen.add(l)
                upairs.append((l, m))
        cases = [l for l, _ in upairs]
        metas = [m for _, m in upairs]
        if not c.replay_path:
            finding_witnesses(c, model, hbin)
        idx = {l: i for i, l in enumerate(cases)}
        out_i, out_m, diffs, crashed = c.correspond(
            "scripts", cases, hbin, model, timeout=(1500 if c.tier == "thorough" else 400),
            nontrivial=lambda cs, o: nontrivial_key(metas[idx[cs]], cs, o))
        # the harness died (sanitizer abort): keep going behind the fatal case so that the judge sees the other cases too
        restarts = 0
        while crashed and crashed["rc"] != 124 and len(out_i) < len(cases) and restarts < 25:
            restarts += 1
            out_i.append("<harness died: " + (crashed["stderr"].strip().splitlines() or ["?"])[-1][:150] + ">")
            rc_r, o_r, e_r = c.run_lines(hbin, cases[len(out_i):], timeout=400)
            out_i += o_r
            if rc_r == 0:
                break
            crashed = dict(crashed, stderr=crashed["stderr"] if restarts > 1 else crashed["stderr"])
            if rc_r == 124:
                break
        pick = [0, len(cases) // 3, len(cases) // 2, len(cases) - 1] if len(cases) > 4 else range(len(cases))
        c.samples = [{"case": cases[i][:600], "impl": (out_i[i] if i < len(out_i) else None or "")[:600],
                      "model": (out_m[i] if i < len(out_m) else None or "")[:600]} for i in pick]
        dist = {}
        for m in metas:
            dist[m.get("kind")] = dist.get(m.get("kind"), 0) + 1
        c.extra_cov["script_kinds"] = dist
        c.extra_cov["crash_scripts_judged"] = sum(1 for m in metas if m.get("kind") == "crash" and m["judge"])
        c.extra_cov["crash_scripts_torn"] = sum(1 for m in metas if m.get("kind") == "crash" and m["torn"])
        bad = judge(c, model, cases, metas, out_i)
        # the python copy of the general construction must be the collision the Lean theorem constructs (model side)
        nadv = 0
        for k, m in enumerate(metas):
            if m.get("kind") == "adv" and k < len(out_m):
                nadv += 1
                if m["expect"] not in out_m[k].split(" | "):
                    c.broke("adversarial construction", f"model does not load the constructed mixture: {cases[k][:300]} -> {out_m[k][:300]}")
                    break
        c.extra_cov["adversarial_constructions_tied"] = nadv
        wit = set()
        if os.path.exists(model):
            rc, wl, _ = c.run_lines(model, ["witness 1", "witness 2"])
            wit = set(wl)
        for k, what in bad[:20]:
            if cases[k] in wit:
                continue          # the finding witnesses are handled (exactly) by finding_witnesses()
            c.violation("property predicate false on implementation output: " + what,
                        {"case": cases[k], "meta": metas[k], "impl_output": out_i[k][:4000],
                         "model_output": out_m[k][:4000] if k < len(out_m) else None,
                         "replay_cmd": "bin/check C18 --replay <this file>"})
        if crashed:
            c.violation("timeout of the real code (400 s)" if crashed["rc"] == 124 else "sanitizer abort / crash of the real code",
                        {"case": crashed["case"], "stderr": crashed["stderr"]})
        if diffs and not c.violations:
            k, cs, a, b = diffs[0]
            c.broke("correspondence stream scripts", f"{len(diffs)} differing cases; first: {cs[:1500]}\n impl ={a[:1500]}\n model={b[:1500]}")
        if (c.broken and not c.violations) and not c.replay_path:
            # a proof / the tie broke: widen the search for a concrete failing input (judge only needs the implementation)
            c.log("search: proof or tie broken, running a wider judged sample on the implementation")
            more = []
            for _ in range(6000):
                more.append(crash_case(c.rng, 1700))
            for _ in range(1500):
                more.append(gc_case(c.rng))
            for _ in range(1000):
                more.append(seq_case(c.rng, 700))
            mc = [l for l, _ in more]
            mm = [m for _, m in more]
            rc2, o2, e2 = c.run_lines(hbin, mc, timeout=400)
            c.evaluations += len(o2)
            bad2 = judge(c, model, mc[:len(o2)], mm[:len(o2)], o2)
            if rc2 != 0 and len(o2) < len(mc):
                c.violation("sanitizer abort / crash of the real code", {"case": mc[len(o2)], "stderr": e2})
            for k, what in bad2[:20]:
                c.violation("property predicate false on implementation output: " + what,
                            {"case": mc[k], "meta": mm[k], "impl_output": o2[k][:4000], "replay_cmd": "bin/check C18 --replay <this file>"})
        if c.replay_path:
            for i, cs in enumerate(cases):
                print("case :", cs[:3000]); print("impl :", out_i[i][:3000] if i < len(out_i) else None)
                print("model:", out_m[i][:3000] if i < len(out_m) else None)
                print("judge:", [w for k, w in bad if k == i] or "ok")
    c.finish()


if __name__ == "__main__":
    main()
