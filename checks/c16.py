#!/usr/bin/env python3
"""C16 — digests, HMAC and CBC compute the standard functions for all inputs, chunkings, reuse.
See DESIGN.md section 5 (C16) and design.d/C16.md.  Usage: checks/c16.py [--tier quick|thorough] [--replay file]"""
import os, sys, json, hashlib, hmac as pyhmac, itertools
from concurrent.futures import ThreadPoolExecutor
sys.path.insert(0, os.path.join(os.path.dirname(os.path.abspath(__file__)), "..", "lib"))
from vcheck import *

P = "Cppcms.C16.Props."
OBLIGATIONS = [
    (P + "md5_compress_eq_rfc1321", "translated md5_process (64 SET lines, T1..T64, F/G/H/I, ROTATE_LEFT) = compression function transcribed from RFC 1321 3.4, for every chaining value and block"),
    (P + "sha1_compress_eq_fips180", "translated sha1::process_block (schedule, f/k arms, rotates) = compression function transcribed from FIPS 180-4 6.1.2"),
    (P + "md5_stream_eq_spec", "for every stale buffer content and every list of append calls of any length: readout = RFC 1321 MD5 of the concatenation"),
    (P + "md5_session_eq_spec", "one md5 object used for any number of messages, any chunkings: every read-out is the MD5 of its message (reuse after readout)"),
    (P + "md5_append_int_truncation", "md5_append(int nbytes) ignores a count of 2^31 (why md5_digets::append must chunk; D14 regression guard together with the unbounded theorems)"),
    (P + "sha1_stream_eq_spec", "for every stale block content and every chunking: readout = FIPS 180-4 SHA-1 of the concatenation (length taken mod 2^64)"),
    (P + "sha1_session_eq_spec", "one sha1 object used for any number of messages: every read-out is the SHA-1 of its message"),
    (P + "sha1_len_bytes_eq_be64", "the eight length bytes appended by get_digest are the 64-bit big-endian bit count (D6 regression guard)"),
    (P + "hmac_eq_rfc2104", "hmac over any lawful streaming digest, any key (shorter/equal/longer than the block), any chunking, any number of messages per object = RFC 2104"),
    (P + "hmac_md5_eq_rfc2104", "instance: hmac over the bundled MD5 state machine = RFC 2104 over RFC 1321"),
    (P + "hmac_sha1_eq_rfc2104", "instance: hmac over the bundled SHA-1 state machine = RFC 2104 over FIPS 180-4"),
    (P + "cbc_multi_call_eq_single_call", "cbc object (translated IV bookkeeping: which member array set_iv fills and encrypt/decrypt hand to AES_cbc_encrypt) over the external's contract: any split into whole-block calls = one call, outputs and final IV state, encrypt and decrypt, from any state"),
    (P + "cbc_interleaved_calls", "any interleaving of encrypt and decrypt calls after set_iv: each direction is one continuous CBC stream from that IV"),
    (P + "cbc_dec_enc", "over any block permutation: receiver's decrypt calls (any cut) of the sender's encrypt calls (any cut) return the plaintext"),
    (P + "cbc_first_block_trick", "a receiver whose IV differs (set_nonce_iv) loses only the first block"),
    (P + "key_file_strict", "key::read_from_file by file content: empty file refused; trailing blanks/tabs/CR/LF dropped (longest prefix not ending in white space), rest through set_hex: accepted iff even-length hex"),
    (P + "length_field_exact_domain", "for messages < 2^61 bytes the 64-bit length field (spec and translated sha1 bit count / length bytes) holds the true bit length: the domain where FIPS 180-4 defines SHA-1"),
    (P + "key_hex_strict", "set_hex s = ok k  <->  even length, only hex digits, k = value of the digit pairs; otherwise the matching error"),
]

ALGOS = {"md5": 64, "sha1": 64, "sha224": 64, "sha256": 64, "sha384": 128, "sha512": 128}
DS = {"md5": 16, "sha1": 20, "sha224": 28, "sha256": 32, "sha384": 48, "sha512": 64}
BUNDLED = ("md5", "sha1")
CHUNK_SIZES = (0, 1, 2, 3, 7, 8, 55, 56, 57, 63, 64, 65, 119, 120, 127, 128, 129, 191, 192, 193)


def rbytes(rng, n):
    return rng.getrandbits(8 * n).to_bytes(n, "little") if n else b""


def chunking(rng, m, style=None):
    """one random way of feeding m"""
    style = rng.randrange(4) if style is None else style
    if style == 0:
        return [m]
    out, i = [], 0
    while i < len(m):
        if style == 1:
            k = rng.choice(CHUNK_SIZES)
        elif style == 2:
            k = rng.randrange(0, 300)
        else:
            k = rng.choice((1, 1, 2, 64, 64, 128, rng.randrange(1, 70)))
        out.append(m[i:i + k])
        i += k
    if rng.random() < 0.2:
        out.insert(rng.randrange(len(out) + 1), b"")
    return out


def grp(chunks):
    return " ".join(hexs(c) for c in chunks)


def session_line(op, algo, msgs_chunks, key=None):
    head = f"{op} {algo}" + (f" {hexs(key)}" if key is not None else "")
    body = " / ".join(grp(cs) for cs in msgs_chunks)
    return (head + " " + body).rstrip() if body.strip() else head


def boundary_lengths(block, top=4096):
    s = set(range(0, 2 * block + 3))
    for k in range(0, top // block + 1):
        for d in (-9, -8, -2, -1, 0, 1, 2):
            if 0 <= k * block + d <= top + 2:
                s.add(k * block + d)
    return sorted(s)


def gen_hash_cases(c, scale):
    """lines for the digest / hmac objects, all algorithms"""
    rng = c.rng
    L = []
    for algo, B in ALGOS.items():
        lens = boundary_lengths(B)
        if c.tier == "quick" and algo not in BUNDLED:
            lens = [n for n in lens if n <= 2 * B + 2 or rng.random() < 0.35]
        for n in lens:
            m = rbytes(rng, n)
            L.append(session_line("dg", algo, [[m]]))
            if n > 1:
                L.append(session_line(rng.choice(("dg", "dg2")), algo, [chunking(rng, m, 1 + rng.randrange(3))]))
        # all ways of cutting short messages (empty appends included through the generator below)
        for n in range(1, 8):
            m = rbytes(rng, n)
            for cuts in itertools.product((0, 1), repeat=n - 1):
                cs, cur = [], m[:1]
                for i, cut in enumerate(cuts, 1):
                    if cut:
                        cs.append(cur); cur = b""
                    cur += m[i:i + 1]
                cs.append(cur)
                if algo in BUNDLED or len(cs) in (1, n):
                    L.append(session_line("dg", algo, [cs]))
        # every 2-cut around the block boundaries, a sample (thorough: all) of the 3-cuts
        for n in sorted({B - 1, B, B + 1, B + 2, 2 * B - 1, 2 * B, 2 * B + 1, B - 8, B - 9, 2 * B - 8}):
            m = rbytes(rng, n)
            if algo in BUNDLED or c.tier == "thorough":
                for i in range(n + 1):
                    L.append(session_line("dg", algo, [[m[:i], m[i:]]]))
            pairs = [(i, j) for i in range(n + 1) for j in range(i, n + 1)]
            if not (c.tier == "thorough" and algo in BUNDLED and n <= B + 2):
                pairs = rng.sample(pairs, min(len(pairs), 40 * scale if algo in BUNDLED else 6))
            for i, j in pairs:
                L.append(session_line("dg", algo, [[m[:i], m[i:j], m[j:]]]))
        # object reuse: 1..4 messages per object, lengths biased to the boundaries
        for _ in range((120 if algo in BUNDLED else 25) * scale):
            k = rng.randrange(1, 5)
            msgs = []
            for _ in range(k):
                n = rng.choice((0, 1, B - 9, B - 8, B - 1, B, B + 1, 2 * B, rng.randrange(0, 3 * B), rng.randrange(0, 1500)))
                msgs.append(chunking(rng, rbytes(rng, n)))
            L.append(session_line(rng.choice(("dg", "dg2")), algo, msgs))
        # zero appends before a readout, and empty appends only
        L.append(session_line("dg", algo, [[], [b""], [], [b"", b""]]))
        # long messages, every run (a length byte above the second only shows from 8 KiB = 2^16 bits, the next from 2 MiB)
        for n in (8191, 8192, 8193, 16384, 65535, 65536, 65537, 131077):
            L.append(session_line("dg", algo, [[rbytes(rng, n)]]))
        for n in (8192, 65536 + B):
            L.append(session_line("dg2", algo, [chunking(rng, rbytes(rng, n), 2), chunking(rng, rbytes(rng, 8200), 3)]))
            L.append(session_line("hmac", algo, [chunking(rng, rbytes(rng, n), rng.choice((0, 2)))], rbytes(rng, rng.choice((B - 1, B + 1)))))
        if c.tier == "thorough" or algo == "sha1":
            L.append(session_line("dg", algo, [[rbytes(rng, 2097152 + 3)]]))      # 2^24 bits: third length byte
        # longer messages
        for _ in range((3 if algo in BUNDLED else 1) * scale):
            n = rng.choice((5000, 8191, 8192, 65536 + rng.randrange(-70, 70), rng.randrange(4097, 40000)))
            L.append(session_line("dg", algo, [chunking(rng, rbytes(rng, n), rng.choice((0, 2, 3)))]))
        # hmac: keys of 0..3 block sizes x messages x chunkings x reuse
        ds = DS[algo]
        # incl. keys longer than the digest but not longer than the block: used as they are, never hashed
        klens = sorted({0, 1, ds - 1, ds, ds + 1, (ds + B) // 2, B // 2, B - 1, B, B + 1, 2 * B - 1, 2 * B, 2 * B + 1, 3 * B})
        for kl in klens:
            key = rbytes(rng, kl)
            for n in (0, 1, B - 9, B - 8, B - 1, B, B + 1, rng.randrange(0, 4 * B)):
                L.append(session_line("hmac", algo, [chunking(rng, rbytes(rng, n))], key))
        for _ in range((150 if algo in BUNDLED else 30) * scale):
            key = rbytes(rng, rng.choice((rng.randrange(0, 3 * B + 1), B, B + 1, rng.randrange(0, 40))))
            k = rng.randrange(1, 5)
            msgs = [chunking(rng, rbytes(rng, rng.choice((0, B - 9, B, rng.randrange(0, 300), rng.randrange(0, 3000))))) for _ in range(k)]
            L.append(session_line(rng.choice(("hmac", "hmac2")), algo, msgs, key))
    return L


HEXISH = b"0123456789abcdefABCDEFgG/:@`[{ \n\r\t\x00\xff\x80-_xX"


def gen_key_cases(c, scale):
    rng = c.rng
    L = ["key -"]
    L += [f"key {bytes([a]).hex()}" for a in range(256)]
    if c.tier == "thorough":
        L += [f"key {bytes([a, b]).hex()}" for a in range(256) for b in range(256)]
    else:
        edge = sorted(set(HEXISH) | {0x2f, 0x30, 0x39, 0x3a, 0x40, 0x41, 0x46, 0x47, 0x60, 0x61, 0x66, 0x67})
        L += [f"key {bytes([a, b]).hex()}" for a in edge for b in range(256)]
        L += [f"key {bytes([b, a]).hex()}" for a in edge for b in range(256)]
    for _ in range(1500 * scale):
        n = rng.choice((2, 3, 4, 15, 16, 17, 32, 33, 64, rng.randrange(0, 200)))
        r = rng.random()
        if r < 0.5:
            s = bytes(rng.choice(b"0123456789abcdefABCDEF") for _ in range(n))
        elif r < 0.8:
            s = bytearray(rng.choice(b"0123456789abcdefABCDEF") for _ in range(n))
            if n:
                s[rng.randrange(n)] = rng.choice(HEXISH)
            s = bytes(s)
        else:
            s = bytes(rng.choice(HEXISH) for _ in range(n))
        L.append(f"key {hexs(s)}")
        if rng.random() < 0.3:
            tail = bytes(rng.choice(b" \n\r\t") for _ in range(rng.randrange(0, 4)))
            mid = bytes(rng.choice(b" \n") for _ in range(rng.randrange(0, 2))) if rng.random() < 0.1 else b""
            L.append(f"keyfile {hexs(s[:n // 2] + mid + s[n // 2:] + tail)}")
    L += ["keyfile -", "keyfile 0a", "keyfile 200a0d09", "keyfile 30300a", "keyfile 0a3030", "keyfile 303020"]
    # white space of each kind (and the neighbouring bytes 0x08, 0x0b, 0x0c, 0x1f, 0x21) before, inside and after valid hex
    for wsb in (0x20, 0x0a, 0x0d, 0x09, 0x08, 0x0b, 0x0c, 0x1f, 0x21, 0x00, 0xa0):
        for hexpart in (b"", b"00", b"0a1B", b"abc", b"0123456789abcdefABCDEF00"):
            for k in (1, 2, 3):
                ws = bytes([wsb]) * k
                L.append(f"keyfile {hexs(hexpart + ws)}")
                L.append(f"keyfile {hexs(ws + hexpart)}")
                if len(hexpart) >= 2:
                    L.append(f"keyfile {hexs(hexpart[:2] + ws + hexpart[2:])}")
                    L.append(f"keyfile {hexs(ws + hexpart + ws)}")
    for _ in range(100 * scale):
        ws = lambda: bytes(rng.choice(b" \n\r\t") for _ in range(rng.randrange(0, 4)))
        h = bytes(rng.choice(b"0123456789abcdefABCDEF") for _ in range(rng.choice((0, 2, 4, 5, 16, 32, 64))))
        L.append(f"keyfile {hexs(rng.choice((b'', ws())) + h + ws())}")
    return L


def gen_cbc_queries(c, scale):
    """`cbcq` lines: resolved by the harness' oracle mode into concrete `cbc` lines with the AES table"""
    rng = c.rng
    Q, meta = [], []
    for _ in range(250 * scale):
        bits = rng.choice((128, 192, 256))
        key, iv = rbytes(rng, bits // 8), rbytes(rng, 16)
        ops, plan, plain, sync = [], [], b"", True   # sync: iv_dec_ equals the IV the pending ciphertext was chained from
        for _ in range(rng.randrange(1, 6)):
            r = rng.random()
            if r < 0.6:
                p = rbytes(rng, 16 * rng.choice((0, 1, 1, 2, 3, 4, 8, rng.randrange(0, 20))))
                if rng.random() < 0.15 and len(p) >= 32:
                    p = p[:16] * (len(p) // 16)      # repeated blocks
                ops += ["e", hexs(p)]; plan.append(("e", p)); plain += p
            elif r < 0.9:
                ops += ["D"]; plan.append(("D" if sync else "Dtail", plain))
                sync = sync or len(plain) > 0
                plain = b""
            else:
                x = rbytes(rng, 16 * rng.randrange(0, 4))
                ops += ["X", hexs(x)]; plan.append(("X", x))
                sync = sync and len(x) == 0      # decrypting foreign blocks moves iv_dec_ away
        if plain or rng.random() < 0.5:
            ops += ["D"]; plan.append(("D" if sync else "Dtail", plain))
        Q.append(f"cbcq {bits} {key.hex()} {iv.hex()} " + " ".join(ops))
        meta.append(plan)
    return Q, meta


CBC_NAMES = {128: ("aes", "AES", "aes128", "aes-128", "AES-128"), 192: ("aes192", "aes-192", "AES192", "AES-192"), 256: ("aes256", "aes-256", "AES256", "AES-256")}


def cookie_len(n, ds):
    return (n + 4 + 15) // 16 * 16 + 16 + ds


def gen_cookie_cases(c, scale):
    """aes_cipher / aes_factory (src/aes_encryptor.cpp, proved in C05): encrypt -> decrypt identity through the real
    objects and through an independent libcrypto-only decoder; payload lengths 0..80 (every block boundary), all key sizes.
    Returns (lines, expected outputs)."""
    rng = c.rng
    L, E = [], []
    for bits in (128, 192, 256):
        for n in range(0, 81):
            mac = rng.choice(("sha1", "sha1", "md5", "sha256", "sha384", "sha512", "sha224"))
            name = rng.choice(CBC_NAMES[bits])
            ck, mk = rbytes(rng, bits // 8), rbytes(rng, rng.choice((0, 1, 16, 20, 32, 64, 65, 130)))
            L.append(f"aesrt {name} {ck.hex()} {mac} {hexs(mk)} {hexs(rbytes(rng, n))}")
            E.append(f"ok {cookie_len(n, DS[mac])}")
        for n in (100, 255, 256, 1000, 4092, 4093, 65536):
            ck = rbytes(rng, bits // 8)
            L.append(f"aesrt {CBC_NAMES[bits][0]} {ck.hex()} sha1 {rbytes(rng, 20).hex()} {hexs(rbytes(rng, n))}")
            E.append(f"ok {cookie_len(n, 20)}")
        for kl in (0, 15, bits // 8 - 1, bits // 8 + 1, 64):     # wrong cbc key size: refused at first use
            if kl != bits // 8:
                L.append(f"aesrt {CBC_NAMES[bits][0]} {hexs(rbytes(rng, kl))} sha1 0102 616263")
                E.append("refused")
        cks = bits // 8
        for kl in sorted({0, 1, cks - 1, cks, cks + 1, cks + 19, cks + 20, cks + 21, 32, 33, 52, 64, 65, 128}):
            for n in (0, 11, 12, 13, rng.randrange(0, 81)):
                name = rng.choice(CBC_NAMES[bits])
                L.append(f"aesfac {name} {hexs(rbytes(rng, kl))} {hexs(rbytes(rng, n))}")
                E.append(f"ok {cookie_len(n, 20)}" if kl >= cks else "refused")
    return L, E


def gen_cbc_misuse(c):
    """the malformed stream for cbc: wrong key / IV sizes, missing key / IV"""
    rng = c.rng
    L = []
    for bits in (128, 192, 256):
        for kl in (None, 0, 1, 15, 16, 17, 23, 24, 25, 31, 32, 33, 64):
            for il in (None, 0, 1, 15, 16, 17, 32):
                k = "none" if kl is None else hexs(rbytes(rng, kl))
                v = "none" if il is None else hexs(rbytes(rng, il))
                L.append(f"cbcuse {bits} {k} {v}")
    return L


def py_ref(line):
    """python hashlib/hmac answer for a dg/hmac line (third reference next to libcrypto called from C++)"""
    w = line.split()
    op, algo = w[0], w[1]
    rest = w[2:]
    key = None
    if op.startswith("hmac"):
        key = unhex(rest[0]); rest = rest[1:]
    groups, cur = [], []
    for x in rest:
        if x == "/":
            groups.append(cur); cur = []
        else:
            cur.append(unhex(x))
    groups.append(cur)
    msgs = [b"".join(g) for g in groups]
    if key is None:
        return msgs, None, " ".join(hashlib.new(algo, m).hexdigest() for m in msgs)
    return msgs, key, " ".join(pyhmac.new(key, m, algo).hexdigest() for m in msgs)


def main():
    c = Check("C16")
    c.rule = ("cases = protocol lines: (dg|hmac) x {md5,sha1,sha224,sha256,sha384,sha512} x message lengths 0..2B+2 and every "
              "block boundary -9..+2 up to 4 KiB x one-shot / random chunkings / all cuts of 1..7-byte messages / all 2-cuts and "
              "sampled 3-cuts around B and 2B x keys of 0..3 blocks x 1..4 messages per object; key text: all 1-byte strings, "
              "edge-byte pairs, random valid/invalid hex, key files; cbc: random call sequences for aes-128/192/256, wrong/missing key and IV sizes; "
              "long messages 8191..131077 and 2 MiB on every run; cookie layer: aes_cipher / aes_factory round trips for payloads 0..80 x all key sizes through the real objects and an independent libcrypto decoder. "
              "non-trivial = a digest/hmac line whose message crosses at least one block boundary or is fed in >= 2 appends or "
              "reuses the object, a key line that is rejected or yields >= 1 byte, a cbc line with >= 2 calls; distinct = distinct lines")
    c.trusted += [
        "translator translate/c16.py + translate/cexpr.py (tables, constants, every arithmetic expression/condition of md5.cpp, sha1.h, hmac::init, key::set_hex -> Gen.lean; statement order checked by regex skeletons)",
        "hand-written control flow of Model.lean (statement order, loops, memcpy into the fixed buffers, size_t->int at md5_digets::append), tied by the correspondence run",
        "Spec.lean: my transcription of RFC 1321, FIPS 180-4, RFC 2104, SP 800-38A (tested against RFC vectors in Props, against libcrypto and python hashlib in every run)",
        "externals: OpenSSL SHA-2 and AES (abstract H / E in the theorems; differential against libcrypto called directly and python hashlib)",
        "correspondence harness harness/c16.cpp (ASan+UBSan build of the working tree)",
    ]
    c.assumptions += [
        "little-endian host (md5_process reads X[k] through a word pointer; the translated big-endian branch is the model)",
        "SHA-2 / AES block function are OpenSSL's: the theorems hold for any lawful streaming digest / any block permutation",
        "cbc: whole 16-byte blocks only (the property's quantifier); OpenSSL's handling of a trailing partial block is not modelled",
        "AES_cbc_encrypt behaves as documented (CbcExt.Standard: SP 800-38A chaining, ivec left holding the last cipher block); checked differentially against raw AES block calls",
        "SHA-1 is the standard's function for messages < 2^61 bytes (length_field_exact_domain); beyond that code and spec agree on the length taken mod 2^64",
    ]
    scale = 5 if c.tier == "thorough" else 1

    c.translate("c16.py")
    proved = c.prove(["Cppcms.C16.Props"], OBLIGATIONS, exe="c16_model")
    if c.tier == "thorough" and proved:
        c.leanchecker(["Cppcms.C16.Props"])
    model = c.model_exe()
    ok_impl = c.impl_build()
    hbin = c.harness("c16") if ok_impl else None
    if not (hbin and os.path.exists(model)):
        c.finish()

    corpus_dir = os.path.join(ROOT, "gen", "corpus", "C16")
    corpus = []
    if os.path.isdir(corpus_dir):
        for f in sorted(os.listdir(corpus_dir)):
            if f.endswith(".txt"):
                corpus += [l.strip() for l in open(os.path.join(corpus_dir, f)) if l.strip() and not l.startswith("#")]

    if c.replay_path:
        rp = json.load(open(c.replay_path))
        cases = [rp["case"]] if "case" in rp else []
        cbc_meta = {}
        cookie_lines, cookie_expect = [], []
    else:
        hash_cases = gen_hash_cases(c, scale)
        key_cases = gen_key_cases(c, scale)
        q, meta = gen_cbc_queries(c, scale)
        rc, resolved, err = c.run_lines(hbin, q, args=["oracle"])
        if rc != 0 or len(resolved) != len(q):
            c.broke("cbc oracle (raw AES answers from libcrypto)", err)
            resolved, meta = [], []
        cbc_meta = {l: p for l, p in zip(resolved, meta)}
        cookie_lines, cookie_expect = gen_cookie_cases(c, scale)
        cases = corpus + hash_cases + key_cases + resolved + gen_cbc_misuse(c) + cookie_lines
    cases = list(dict.fromkeys(cases))

    big = [l for l in cases if l.startswith("big ")]
    ext = [l for l in cases if l.split()[0] in ("dg", "dg2", "hmac", "hmac2") and l.split()[1] not in BUNDLED]
    cookie = [l for l in cases if l.split()[0] in ("aesrt", "aesfac")]
    cookie_exp = dict(zip(cookie_lines, cookie_expect))
    skip = set(big) | set(ext) | set(cookie)
    main_cases = [l for l in cases if l not in skip]

    def nontriv(cs, o):
        w = cs.split()
        if w[0] in ("dg", "dg2", "hmac", "hmac2"):
            body = w[2:] if w[0].startswith("dg") else w[3:]
            total = sum(len(x) // 2 for x in body if x not in ("/", "-"))
            return cs if (total >= 64 or len(body) >= 2) else None
        if w[0] in ("key", "keyfile"):
            return cs if o != "ok -" else None
        if w[0] == "cbcuse":
            return cs if o != "ok" else None
        if w[0] == "cbc":
            return cs if len(w) >= 9 else None
        return None

    # ---- all runs of the real code / the model / libcrypto in parallel
    ref_cases = [l for l in main_cases if l.split()[0] not in ("key", "keyfile", "cbcuse")] + ext
    with ThreadPoolExecutor(max_workers=8) as ex:
        f_i = ex.submit(c.run_lines, hbin, main_cases)
        f_m = ex.submit(c.run_lines, model, main_cases)
        f_r = ex.submit(c.run_lines, hbin, ref_cases, ["ref"])
        f_e = ex.submit(c.run_lines, hbin, ext)
        f_c = ex.submit(c.run_lines, hbin, cookie)
        f_b = [ex.submit(c.run_lines, hbin, [l]) for l in big]          # one process per long message
        f_br = [ex.submit(c.run_lines, hbin, [l], ["ref"]) for l in big]
        rc_i, out_i, err_i = f_i.result()
        rc_m, out_m, err_m = f_m.result()
        rc_r, out_r, err_r = f_r.result()
        rc_e, out_e, err_e = f_e.result()
        rc_c, out_c, err_c = f_c.result()
        big_runs = ([f.result() for f in f_b], [f.result() for f in f_br])
    # ---- stream 1: implementation vs Lean model (bundled digests, hmac over them, key, cbc)
    diffs = []
    for k, l in enumerate(main_cases):
        a = out_i[k] if k < len(out_i) else "<no output: harness died>"
        b = out_m[k] if k < len(out_m) else "<no output: model driver died>"
        if a != b:
            diffs.append((k, l, a, b))
    c.evaluations += len(main_cases)
    c.traces_validated += min(len(out_i), len(out_m), len(main_cases))
    for k in range(min(len(main_cases), len(out_m))):
        key = nontriv(main_cases[k], out_m[k])
        if key is not None:
            c.nontrivial.add(key)
    crashed = None
    if rc_i != 0:
        crashed = {"rc": rc_i, "stderr": err_i, "case": main_cases[len(out_i)] if len(out_i) < len(main_cases) else None}
    if rc_m != 0:
        c.broke("model driver crashed on stream model", err_m)
    c.log(f"correspond[model]: {len(main_cases)} cases, {len(diffs)} diffs, impl rc={rc_i}, model rc={rc_m}")
    # ---- libcrypto called directly on the same lines (all algorithms)
    if rc_r != 0 or len(out_r) != len(ref_cases):
        c.broke("reference run (libcrypto)", err_r)
    # ---- stream 2: OpenSSL-backed digests: implementation vs libcrypto vs python
    ext_crash = None
    if rc_e != 0:
        ext_crash = {"case": ext[len(out_e)] if len(out_e) < len(ext) else None, "stderr": err_e}
    c.evaluations += len(ext)
    c.traces_validated += len(out_e)
    for l in ext:
        k = nontriv(l, "")
        if k:
            c.nontrivial.add(k)

    # ---- stream 4: cookie layer (aes_cipher / aes_factory): round trips, independent decoder, expected length
    cookie_bad = []
    if rc_c != 0:
        ext_crash = ext_crash or {"case": cookie[len(out_c)] if len(out_c) < len(cookie) else None, "stderr": err_c}
    c.evaluations += len(cookie)
    c.traces_validated += len(out_c)
    for k, l in enumerate(cookie):
        o = out_c[k] if k < len(out_c) else None
        if o is None:
            continue
        want = cookie_exp.get(l)
        if (want is not None and o != want) or (want is None and not (o.startswith("ok ") or o == "refused")):
            cookie_bad.append((l, f"aes_cipher/aes_factory round trip: got '{o}' expected '{want}'"))
        elif o.startswith("ok "):
            c.nontrivial.add(l)

    impl_of = {l: (out_i[k] if k < len(out_i) else None) for k, l in enumerate(main_cases)}
    impl_of.update({l: (out_c[k] if k < len(out_c) else None) for k, l in enumerate(cookie)})
    impl_of.update({l: (out_e[k] if k < len(out_e) else None) for k, l in enumerate(ext)})
    model_of = {l: (out_m[k] if k < len(out_m) else None) for k, l in enumerate(main_cases)}
    ref_of = {l: (out_r[k] if k < len(out_r) else None) for k, l in enumerate(ref_cases)}

    bad = []          # (case, reason)
    jlines, jcases = [], []
    for l in main_cases + ext:
        o = impl_of.get(l)
        if o is None:
            continue
        w = l.split()
        if w[0] in ("dg", "dg2", "hmac", "hmac2"):
            msgs, key, py = py_ref(l)
            if o != py:
                bad.append((l, f"differs from python hashlib/hmac: impl={o} python={py}"))
            if ref_of.get(l) is not None and o != ref_of[l]:
                bad.append((l, f"differs from libcrypto: impl={o} libcrypto={ref_of[l]}"))
            if w[1] in BUNDLED:
                ds = o.split()
                if len(ds) != len(msgs):
                    bad.append((l, "wrong number of read-outs"))
                    continue
                for m, d in zip(msgs, ds):
                    if len(m) <= 300000:
                        jl = f"J {w[1]} {hexs(m)} {d}" if key is None else f"J hmac {w[1]} {hexs(key)} {hexs(m)} {d}"
                        jlines.append(jl); jcases.append(l)
        elif w[0] == "key":
            jlines.append(f"J key {w[1]} {o}"); jcases.append(l)
        elif w[0] == "keyfile":
            jlines.append(f"J keyfile {w[1]} {o}"); jcases.append(l)
        elif w[0] == "cbcuse":
            # property side: a cbc object works iff it was given a key of bits/8 bytes and a 16-byte IV
            good = w[2] != "none" and w[3] != "none" and len(w[2]) == int(w[1]) // 4 and len(w[3]) == 32
            if (o == "ok") != good or not (o == "ok" or o.startswith("err-")):
                bad.append((l, f"cbc accepted/rejected the wrong key or IV size: {o}"))
        elif w[0] == "cbc":
            if ref_of.get(l) is not None and o != ref_of[l]:
                bad.append((l, f"differs from CBC over raw libcrypto AES: impl={o} ref={ref_of[l]}"))
            plan = cbc_meta.get(l)
            if plan:
                outs = o.split()
                if len(outs) != len(plan):
                    bad.append((l, "wrong number of outputs"))
                else:
                    for (kind, data), got in zip(plan, outs):
                        if kind == "D" and got != hexs(data):
                            bad.append((l, f"decrypt(encrypt(x)) != x: expected {hexs(data)} got {got}"))
                        # decrypting from a different IV: only the first block may differ (what aes_encryptor relies on)
                        if kind == "Dtail" and (len(got) != len(hexs(data)) or got[32:] != hexs(data)[32:]):
                            bad.append((l, f"decrypt with a different IV damaged more than the first block: expected ..{hexs(data)[32:]} got {got}"))
    bad += cookie_bad
    rc, jout, jerr = c.run_lines(model, jlines)
    if rc != 0 or len(jout) != len(jlines):
        c.broke("judge run", jerr)
    for jl, jc, jo in zip(jlines, jcases, jout):
        if jo != "1":
            bad.append((jc, f"property predicate (Spec) false on implementation output: {jl[:200]} -> {jo}"))
    c.extra_cov["judged_impl_outputs"] = len(jlines) + len(ext)

    # ---- stream 3: long messages (implementation vs libcrypto only)
    big_res = []
    if big:
        c.evaluations += len(big)
        for k, l in enumerate(big):
            (rc_b, out_b, err_b), (rc_br, out_br, err_br) = big_runs[0][k], big_runs[1][k]
            a = out_b[0] if out_b else "<died>"
            b = out_br[0] if out_br else "<died>"
            if rc_b != 0:
                crashed = crashed or {"case": l, "stderr": err_b}
            big_res.append((l, a, b))
            if a != b:
                bad.append((l, f"differs from libcrypto: impl={a} libcrypto={b}"))
            else:
                c.nontrivial.add(l)

    dist = {}
    for cs in cases:
        w = cs.split()
        k = w[0] + (":" + w[1] if w[0] in ("dg", "dg2", "hmac", "hmac2", "cbc", "big") else "")
        if w[0] in ("aesrt", "aesfac"):
            k = w[0] + ":" + str(128 if not any(x in w[1] for x in ("192", "256")) else (192 if "192" in w[1] else 256))
        dist[k] = dist.get(k, 0) + 1
    c.extra_cov["op_distribution"] = dist
    pick = [0, len(main_cases) // 3, len(main_cases) // 2, len(main_cases) - 1] if len(main_cases) > 4 else range(len(main_cases))
    c.samples = [{"case": main_cases[i][:300], "impl": (out_i[i] if i < len(out_i) else None), "model": (out_m[i] if i < len(out_m) else None)} for i in pick]
    c.samples += [{"case": l, "impl": a, "libcrypto": b} for l, a, b in big_res[:2]]

    if crashed or ext_crash:
        cr = crashed or ext_crash
        c.violation("sanitizer abort / crash of the real code", {"case": cr["case"], "stderr": cr["stderr"]})
    seen = set()
    for l, why in bad:
        if l in seen:
            continue
        seen.add(l)
        c.violation(why[:300], {"case": l if len(l) < 20000 else l[:20000] + "...", "impl_output": impl_of.get(l), "model_output": model_of.get(l),
                                "libcrypto_output": ref_of.get(l), "replay_cmd": "bin/check C16 --replay <this file>"})
        if len(seen) >= 20:
            break
    if diffs and not bad and not crashed:
        k, cs, a, b = diffs[0]
        c.broke("correspondence stream model", f"{len(diffs)} differing cases; first: {cs[:400]} impl={a} model={b}")
    if c.replay_path:
        for l in cases:
            print("case     :", l[:400])
            print("impl     :", impl_of.get(l) if not l.startswith("big ") else [x for x in big_res if x[0] == l])
            print("model    :", model_of.get(l))
            print("libcrypto:", ref_of.get(l))
    c.finish()


if __name__ == "__main__":
    main()
