#!/usr/bin/env python3
"""C04 — XSS filter output contains only white-listed markup and is stable.
See DESIGN.md section 5 (C04) and design.d/C04.md.
Usage: checks/c04.py [--tier quick|thorough] [--replay file]"""
import os, sys, json, re
sys.path.insert(0, os.path.join(os.path.dirname(os.path.abspath(__file__)), "..", "lib"))
from vcheck import *

P = "Cppcms.C04.Props."
OBLIGATIONS = [
    (P + "filter_validates", "FilterValidates: for all rule sets with RulesOk (and HtmlCaseOk in HTML mode), both methods, all byte strings x: "
                             "validate r (filter r m x) = true  [clause 1, XHTML and HTML, remove and escape, arbitrary attribute predicates]"),
    (P + "filter_output_whitelisted", "for the same r, m, x: every markup candidate the independent lenient tokenizer finds in filter r m x is Allowed by r"),
    (P + "valid_is_fixed_point", "for all rules, methods, x: validate r x = true -> filter r m x = x"),
    (P + "validateAndFilter_none_iff", "validate_and_filter_if_invalid returns true (output untouched) iff validate does"),
    (P + "whitelist_only", "for all rules (arbitrary attribute predicates), y: validate r y = true -> every markup candidate the "
                           "independent lenient tokenizer finds in y is Allowed by r"),
    (P + "filter_idempotent", "filter r m' (filter r m x) = filter r m x"),
    (P + "filter_validates_xhtml", "XHTML instance: only RulesOk needed"),
    (P + "mkRules_hypotheses", "every rule set built by the add_* calls (mkRules) satisfies RulesOk and, in HTML mode, HtmlCaseOk"),
    (P + "filter_validates_mkRules", "hence validate (filter x) = true for every rule set the add_* calls can build, any verdicts of the external validators"),
    (P + "validate_implies_encoding_ok", "clause 4: validateE (declared encoding e) r x = true -> e.valid x = true"),
    (P + "filter_validates_encoded", "clause 1 with a declared ASCII-compatible encoding, for every validator e with EncOk e r"),
    (P + "single_byte_encOk", "EncOk holds for every single-byte charset validator (per-byte test accepting the escape bytes; replacement NUL or accepted byte)"),
    (P + "ascii_sync_encOk", "EncOk for every validator synchronised at ASCII bytes (AsciiSync; UTF-8 validators are of this kind) whose pre-filter yields valid text"),
    (P + "uri_validator_scheme_whitelist", "model of uri_parser/uri_validator_functor (scheme expression an arbitrary predicate): an accepted text with a scheme has "
                                           "an allowed scheme and the validator is not the relative one; absolute_uri accepts only texts with a scheme"),
    (P + "filter_validates_utf8", "clause 1 under encoding(\"UTF-8\") for the real validator/pre-filter as modelled and proved exact by C14 (utf8Enc): only RulesOk, HtmlCaseOk (HTML) and the replacement-char precondition ReplOk"),
    (P + "validate_implies_utf8_wellformed", "clause 4 for UTF-8: accepted text is a concatenation of RFC 3629 encodings of HTML-safe code points (C14 WellFormed)"),
    (P + "uri_accepted_bytes_safe", "every byte of a text accepted by the URI validator model is printable ASCII other than \" < > \\ [ ] ^ ` { | } (no space/control/non-ASCII), every & starts &amp; or &apos;"),
    (P + "uri_browser_scheme_allowed", "the scheme a WHATWG URL parser sees in the reference-decoded accepted value (if any) is one the scheme expression matched; never for the relative validator"),
    (P + "htmlCaseOk_needed_counterexample", "the HtmlCaseOk hypothesis cannot be dropped for the abstract Rules type (concrete witness, by decide)"),
    (P + "exRules_ok", "non-vacuity: a concrete rule set satisfying RulesOk (examples in Props.lean evaluate validate/filter on it)"),
]


def hx(b):
    return b.hex()


# ------------------------------------------------------------------ rule sets
TAG_POOL = [b"a", b"b", b"i", b"p", b"br", b"hr", b"img", b"input", b"ul", b"li", b"div", b"span", b"h1", b"_x", b"B", b"P", b"Img"]
PROP_POOL = [b"href", b"src", b"title", b"size", b"checked", b"disabled", b"width", b"Class", b"id", b"HREF", b"alt"]
ENT_POOL = [b"nbsp", b"copy", b"or", b"Amp", b"x1", b"apos", b"", b"a;b", b"LT", b"a b", b"a<b", b"x'y", b"#x"]
REGEXES = [b".*", b"[a-z]+", b"(http|https|ftp)://.*", b"[0-9]+(px|em|%)?", b"[a-zA-Z0-9 _.-]*", b"[^<>\"']*", b"(left|right|center)",
           b"^[a-z]+$", b"a|ab", b"[a-z]+?", b"(left|right)$", b"\\d+", b"a.c", b"[a-z]*$|x", b"(?:ab)+?c?"]
DECOR = [b"\n", b"\r", b"\r\n", b" ", b"\x00", b"\n\n", b"\t"]
SCHEMES = [b"(http|https|ftp|mailto|news|nntp)", b"(http|https)", b"[a-z]+"]
ENCODINGS = [b"UTF-8", b"utf8", b"ISO-8859-1", b"iso-8859-8", b"ISO-8859-6", b"windows-1255", b"cp1251", b"US-ASCII", b"koi8-r", b"latin1", b"windows-1252",
             b"windows-1258", b"cp1258", b"Windows-1253", b"iso8859-7", b"ISO-8859-11", b"windows-1250", b"cp1257", b"ISO-8859-3", b"WINDOWS-1256", b"ISO_8859-15"]
UTF8_BOUNDARY = [b"\xf4\x8f\xbf\xbf", b"\xf4\x90\x80\x80", b"\xf4\xbf\xbf\xbf", b"\xed\x9f\xbf", b"\xed\xa0\x80", b"\xed\xbf\xbf", b"\xee\x80\x80", b"\xe0\x9f\xbf", b"\xe0\xa0\x80",
                 b"\xc1\xbf", b"\xc2\x80", b"\xc0\x80", b"\xdf\xbf", b"\xf0\x8f\xbf\xbf", b"\xf0\x90\x80\x80", b"\xf5\x80\x80\x80", b"\xf7\xbf\xbf\xbf", b"\xf8\x88\x80\x80\x80",
                 b"\xf4\x8f\xbf", b"\xf4\x8f", b"\xf4", b"\xe2\x82", b"\xe2", b"\xc2", b"\xf0\x90\x80", b"\x80", b"\xbf", b"\xef\xbf\xbd", b"\xef\xbf\xbf", b"\xc2\xa0", b"\xe2\x82\xac\x80",
                 b"\xf4\x90\xbf\xbf", b"\xf3\xbf\xbf\xbf", b"\xf1\x80\x80\x80"]
ENC_BYTES = [b"\xc3\xa9", b"\xd7\xa9\xd7\x9c", b"\xe2\x82\xac", b"\xf0\x9f\x98\x80", b"\xff", b"\xc3", b"\xa9", b"\xe2\x82", b"\xc0\xaf", b"\xed\xa0\x80", b"\xf4\x90\x80\x80",
             b"\x04", b"\x7f", b"\x80", b"\x9f", b"\xa0", b"\xa1", b"\xbf", b"\xd2", b"\xe9", b"\x00", b"\x0b", b"\x1f", b"\xef\xbf\xbe", b"\xfe"]


class RuleSet:
    def __init__(self, rng, simple=False):
        self.xhtml = rng.random() < 0.5
        self.comments = rng.random() < 0.5
        self.numeric = rng.random() < 0.5
        self.entities = [e for e in ENT_POOL if rng.random() < 0.25]
        self.enc = rng.choice(ENCODINGS) if rng.random() < 0.3 else b""
        self.repl = rng.choice((0, 0, 63, 32, 60, 38)) if self.enc else 0   # NUL = remove; otherwise a character that is valid in the encoding (precondition of the API)
        self.tags = []
        ntags = rng.randrange(1, 4) if simple else rng.randrange(0, 9)
        pool = TAG_POOL[:6] if simple else TAG_POOL
        for _ in range(ntags):
            self.tags.append((rng.choice(pool), rng.choice((1, 1, 2, 2, 3, 3, 3, 0))))
        self.preds = {}
        self.props = []
        names = [t for t, _ in self.tags] or [b"a"]
        for _ in range(rng.randrange(0, 3 if simple else 8)):
            t = rng.choice(names)
            if rng.random() < 0.1:
                t = rng.choice(TAG_POOL)
            p = rng.choice(PROP_POOL)
            k = rng.random()
            if k < 0.2:
                spec = "b"
            elif k < 0.35:
                spec = "i"
            else:
                pid = len(self.preds) + 1
                kk = rng.random()
                if kk < 0.5:
                    self.preds[pid] = ("re", rng.choice(REGEXES))
                elif kk < 0.75:
                    self.preds[pid] = ("uri", rng.choice(SCHEMES))
                elif kk < 0.9:
                    self.preds[pid] = ("absuri", rng.choice(SCHEMES))
                else:
                    self.preds[pid] = ("reluri", b"")
                spec = "o%d" % pid
            self.props.append((t, p, spec))

    def fields(self):
        fl = "%d%d%d" % (self.xhtml, self.comments, self.numeric)
        if self.enc:
            fl += ":%s:%d" % (hx(self.enc), self.repl)
        es = ",".join(hx(e) for e in self.entities) or "-"
        ts = ",".join("%s:%d" % (hx(t), k) for t, k in self.tags) or "-"
        ps = ",".join("%s:%s:%s" % (hx(t), hx(p), s) for t, p, s in self.props) or "-"
        pr = ",".join("%d:%s:%s" % (i, ty, hx(a)) for i, (ty, a) in sorted(self.preds.items())) or "-"
        return " ".join((fl, es, ts, ps, pr))

    # ---------------------------------------------------------- input grammar
    def tag_names(self, rng):
        return [t for t, _ in self.tags] or [b"a"]

    def kind_of(self, name):
        k = 0
        for t, kk in self.tags:
            if (t == name) if self.xhtml else (t.lower() == name.lower()):
                k = kk
        return k

    def props_of(self, name):
        res = []
        for t, p, s in self.props:
            if (t == name) if self.xhtml else (t.lower() == name.lower()):
                res.append((p, s))
        return res


WORDS = [b"hello", b"world", b"x", b"to be", b"or not", b" ", b"\n", b"a;b", b"-", b"'", b"\"", b"=", b"/", b"\xc3\xa9", b"\t", b"!", b"?", b"#", b";"]
NOISE_WORDS = [b"1 < 2", b"a > b", b"AT&T", b"--", b"\x00", b"\xff", b"\x0c", b"<", b">", b"&", b"<<", b"&&", b"<a", b"a>"]
BIG_CODEPOINTS = [2 ** 31 - 1, 2 ** 31, 2 ** 31 + 65, 2 ** 32 - 1, 2 ** 32, 2 ** 32 + 9, 2 ** 32 + 60, 2 ** 32 + 65, 2 ** 32 + 0x263A, 2 ** 32 + 0x10FFFF, 2 ** 32 + 0x110000,
                  2 ** 33 + 65, 2 ** 40 + 38, 2 ** 48 + 65, 0x1000000000000041, 2 ** 63 - 1, 2 ** 63, 2 ** 63 + 65, 2 ** 64 - 1, 2 ** 64, 2 ** 64 + 65, 2 ** 64 + 2 ** 32 + 65,
                  0xFFFFFFFF0000263A, 10 ** 19, 10 ** 19 + 65, 10 ** 20 - 1, 16 ** 19 + 65]
CODEPOINTS = [0, 8, 9, 0xA, 0xB, 0xD, 0x1F, 0x20, 0x41, 0x7E, 0x7F, 0x9F, 0xA0, 0xD7FF, 0xD800, 0xDBFF, 0xDC00, 0xDFFF, 0xFFFD, 0xFFFE, 0xFFFF,
              0x10000, 0x10FFFF, 0x110000, 2 ** 31, 2 ** 63 - 1, 2 ** 63, 2 ** 64 + 65, 10 ** 30]
GOOD_CODEPOINTS = [9, 0xA, 0xD, 0x20, 0x41, 0x7E, 0xA0, 0xD7FF, 0xDC00, 0xFFFD, 0x10000, 0x10FFFF]
URIS = [b"http://example.com/", b"https://a.b/c?d=e&amp;f=g#h", b"javascript:alert(1)", b"/rel/path", b"x.html", b"ftp://h/", b"mailto:a@b.c",
        b"http://a/?x=a&y=b", b"data:text/html,x", b"//host/p", b"#frag", b"http://[::1]/", b"HTTP://X/", b"http://a/I&apos;m", b"http://a b/", b"", b"%41", b"%4", b"a:b"]
GOOD_URIS = [b"http://example.com/", b"https://a.b/c?d=e&amp;f=g#h", b"/rel/path", b"x.html", b"http://a/I&apos;m", b"#frag", b"http://h/%41"]
GOOD_RE = {b".*": [b"abc", b"", b"x y", b"a&b", b"?x=1&y=2", b"&lt;&amp;", b"a<b", b"a>b"], b"[a-z]+": [b"abc", b"x"], b"(http|https|ftp)://.*": [b"http://x/", b"ftp://y"], b"[0-9]+(px|em|%)?": [b"12px", b"50%", b"7"],
           b"[a-zA-Z0-9 _.-]*": [b"Hello World", b"a_b-c.d", b""], b"[^<>\"']*": [b"abc", b"x=y;", b"a&b;", b"&", b"&#x27;&apos;"], b"(left|right|center)": [b"left", b"center"],
           b"^[a-z]+$": [b"abc"], b"a|ab": [b"a", b"ab"], b"[a-z]+?": [b"abc", b"a"], b"(left|right)$": [b"left"], b"\\d+": [b"123"], b"a.c": [b"abc", b"a-c"],
           b"[a-z]*$|x": [b"abc", b"x", b""], b"(?:ab)+?c?": [b"ab", b"ababc"]}
BAD_VALUES = [b"", b"<", b">", b"&", b"&amp;", b"&lt;x&gt;", b"&quot;", b"&apos;", b"&#39;", b"&#x27;", b"&#X27;", b"&#x28;", b"&nbsp;", b"&amp", b"a&amp;&amp;b",
              b"\x00", b"\xff\xfe", b"a'b", b'a"b', b"x y", b"&#39", b"&", b"&;"]


class G:
    """input grammar for one rule set; `noise` in [0,1] scales every deviation from well-formedness"""
    def __init__(self, rs, rng, noise):
        self.rs, self.rng, self.noise = rs, rng, noise

    def p(self, x):
        return self.rng.random() < x * self.noise

    def value(self, spec):
        rs, rng = self.rs, self.rng
        if self.p(0.15):
            return rng.choice(BAD_VALUES)
        if spec == "i":
            if self.p(0.4):
                return rng.choice([b"-", b"", b"1.5", b"+1", b" 1", b"1 ", b"0x10", b"--1", b"1-"])
            return rng.choice([b"0", b"1", b"-1", b"42", b"12345678901234567890123"])
        if spec == "b":
            return rng.choice([b"checked", b"disabled", b"Checked", b"x", b""])
        if spec.startswith("o"):
            ty, arg = rs.preds[int(spec[1:])]
            if ty == "re":
                if self.p(0.4):
                    return rng.choice([b"abc", b"http://x/", b"12px", b"50%", b"left", b"Hello World", b"a_b-c.d", b"", b"ftp://y", b"12", b"abc1", b"RIGHT", b"center"])
                v = rng.choice(GOOD_RE[arg])
                rr = rng.random()
                if rr < 0.12:
                    v = v + rng.choice(DECOR)             # a string of the pattern language followed by LF / CR / space / NUL
                elif rr < 0.18:
                    v = rng.choice(DECOR) + v
                elif rr < 0.22 and len(v) > 1:
                    v = v[:1] + b"\n" + v[1:]
                return v
            if self.p(0.5):
                return rng.choice(URIS)
            if ty == "reluri":
                return rng.choice([b"/rel/path", b"x.html", b"#frag", b"a/b?c=d"])
            if ty == "absuri":
                return rng.choice([b"http://example.com/", b"https://a.b/c?d=e&amp;f=g#h", b"http://h/%41"])
            return rng.choice(GOOD_URIS)
        return rng.choice([b"x", b"y z"])

    def attr(self, tag):
        rs, rng = self.rs, self.rng
        props = rs.props_of(tag)
        if props and not self.p(0.2):
            pn, spec = rng.choice(props)
        else:
            pn, spec = rng.choice(PROP_POOL), rng.choice(("b", "i", "x"))
        if self.p(0.1):
            pn = pn.swapcase()
        elif self.p(0.04):
            pn = rng.choice([b"on click", b"_", b"1a", b"a_b", b"a-b", b"", b"a\x00", b"\xe9"])
        if spec == "b":
            if rs.xhtml and not self.p(0.3):
                q = rng.choice((b"'", b'"'))
                return pn + b"=" + q + pn + q
            if not self.p(0.3):
                return pn + b" "                      # boolean attributes need a following space
            return pn
        v = self.value(spec)
        form = rng.random() * self.noise
        if form < 0.8 or self.noise == 0:
            q = rng.choice((b"'", b'"'))
            if q in v and not self.p(0.5):
                q = b"'" if q == b'"' else b'"'
            return pn + b"=" + q + v + q
        form = rng.random()
        if form < 0.25:
            return pn + b"=" + v                       # unquoted
        if form < 0.45:
            return pn + b" = '" + v + b"'"             # spaces around =
        if form < 0.6:
            return pn + b"='" + v                      # unterminated quote
        if form < 0.75:
            return pn + b"='" + v + b'"'               # mixed quotes
        if form < 0.9:
            return pn
        return pn + b"=" + rng.choice((b"`", b"")) + v

    def tag_text(self, name, form):
        """form: 'open' | 'close' | 'self'"""
        rs, rng = self.rs, self.rng
        if self.p(0.08) or (not rs.xhtml and rng.random() < 0.15):
            name = name.swapcase()
        if form == "close":
            s = b"</" + name
            if rng.random() < 0.1:
                s += rng.choice((b" ", b"  ", b"\t", b"\n"))
            if self.p(0.1):
                s += rng.choice((b" x", b" a='b'", b"/", b"\x0c"))
            return s + b">"
        s = b"<" + name
        n = rng.choice((0, 0, 1, 1, 2, 3))
        attrs = [self.attr(name) for _ in range(n)]
        if n > 1 and not self.p(1):            # noise-free: no accidental duplicates
            seen, keep = set(), []
            for a in attrs:
                key = a.split(b"=")[0].strip()
                key = key if rs.xhtml else key.lower()
                if key not in seen:
                    seen.add(key)
                    keep.append(a)
            attrs = keep
        if n and self.p(0.15):
            attrs.append(rng.choice(attrs) if rng.random() < 0.5 else rng.choice(attrs).swapcase())   # duplicate
        for a in attrs:
            sep = b" "
            if self.p(0.06):
                sep = b""
            elif rng.random() < 0.1:
                sep = rng.choice((b"  ", b"\t", b"\n", b"\r\n"))
            elif self.p(0.06):
                sep = rng.choice((b"\x0c", b" / "))
            s += sep + a
        if form == "self":
            s += rng.choice((b"/", b" /", b" /"))
            if self.p(0.06):
                s += b" "
        else:
            if rng.random() < 0.2:
                s += b" "
            elif self.p(0.04):
                s += b"/"
        return s + b">"

    def entity(self):
        rs, rng = self.rs, self.rng
        if not self.p(0.6):
            names = [b"lt", b"gt", b"amp", b"quot"] + [e for e in rs.entities if e and b";" not in e]
            if rs.numeric and rng.random() < 0.4:
                cp = rng.choice(GOOD_CODEPOINTS)
                return rng.choice((b"&#%d;", b"&#x%x;", b"&#X%X;", b"&#x%X;", b"&#000%d;", b"&#x0000%x;")) % cp
            return b"&" + rng.choice(names) + b";"
        r = rng.random()
        if r < 0.3:
            return b"&" + rng.choice(ENT_POOL + [b"foo", b"AMP", b"a b", b"a<b", b"lt\x00"]) + b";"
        if r < 0.8:
            rr = rng.random()
            cp = rng.choice(CODEPOINTS) if rr < 0.5 else rng.choice(BIG_CODEPOINTS) if rr < 0.7 else rng.randrange(0x120000) if rr < 0.9 \
                else int("".join(rng.choice("0123456789") for _ in range(rng.randrange(1, 21))))
            f = rng.random()
            if f < 0.4:
                return b"&#%d;" % cp
            if f < 0.7:
                return b"&#x%x;" % cp
            if f < 0.85:
                return b"&#X%X;" % cp
            return rng.choice([b"&#0%d;" % cp, b"&#x0x%x;" % cp, b"&#-%d;" % cp, b"&#+%d;" % cp, b"&# %d;" % cp, b"&#%dx;" % cp, b"&#x%xg;" % cp])
        return rng.choice([b"&", b"&;", b"&#;", b"&#x;", b"&#X;", b"&amp", b"&lt", b"& amp;", b"&&amp;", b"&amp;;", b"&#", b"&#x", b"&#38", b"&_;"])

    def comment(self):
        rng = self.rng
        if not self.p(0.7):
            return b"<!--" + rng.choice([b" test ", b"", b" - ", b"x", b" a-b ", b"!", b" a - b - c "]) + b"-->"
        body = rng.choice([b" test ", b"", b" - ", b"x", b" a-b ", b" <b> ", b" > ", b" & ", b" -- ", b"-", b"[if gte IE 4]><script>alert(1)</script><![endif]", b" \x00 ", b"!", b">"])
        if rng.random() < 0.5:
            return b"<!--" + body + b"-->"
        return rng.choice([b"<!--" + body + b"--", b"<!--" + body + b"->", b"<!--" + body, b"<!-" + body + b"-->", b"<!--" + body + b"--->", b"<!--" + body + b"--!>",
                           b"<!-->", b"<!--->", b"<!---->", b"<!----->", b"<!--", b"<!-", b"<!", b"<!DOCTYPE html>", b"<?xml?>", b"<![CDATA[x]]>", b"< !-- x -->"])

    def text(self):
        rng = self.rng
        return b"".join(rng.choice(NOISE_WORDS) if self.p(0.25) else rng.choice(WORDS) for _ in range(rng.randrange(1, 4)))

    def tree(self, depth, out):
        """append a (mostly) well-nested fragment"""
        rs, rng = self.rs, self.rng
        for _ in range(rng.randrange(1, 4)):
            r = rng.random()
            if r < 0.25:
                out.append(self.text())
            elif r < 0.35:
                out.append(self.entity())
            elif r < 0.42:
                if rs.comments or self.p(1):
                    out.append(self.comment())
            else:
                names = [t for t, k in rs.tags if k] or [b"a"]
                name = rng.choice(TAG_POOL + [b"script", b"x"]) if self.p(0.12) else rng.choice(names)
                kind = rs.kind_of(name)
                if kind == 2 or (kind == 3 and rng.random() < 0.3) or self.p(0.1):
                    form = "self" if (rs.xhtml or rng.random() < 0.5) else "open"
                    out.append(self.tag_text(name, form))
                else:
                    out.append(self.tag_text(name, "open"))
                    if depth > 0:
                        self.tree(depth - 1, out)
                    if not rs.xhtml and kind == 3 and rng.random() < 0.2:
                        continue                                      # HTML: any_tag may stay open
                    if not self.p(0.3):
                        out.append(self.tag_text(name, "close"))
                    else:
                        m = rng.random()
                        if m < 0.35:
                            pass                                      # unclosed
                        elif m < 0.7:
                            out.append(self.tag_text(rng.choice(names), "close"))   # wrong close
                        else:
                            out.append(self.tag_text(name, "close"))
                            out.append(self.tag_text(name, "close"))                # extra close


def mutate(rng, s):
    s = bytearray(s)
    for _ in range(rng.choice((1, 1, 2, 3))):
        if not s:
            break
        k = rng.random()
        i = rng.randrange(len(s))
        if k < 0.3:
            del s[i]
        elif k < 0.6:
            s.insert(i, rng.choice(b"<>&;'\"/=!- \x00\xffaZ_#x09"))
        elif k < 0.8:
            s[i] = rng.choice(b"<>&;'\"/=!- \x00\xffaZ_#x09")
        elif k < 0.9:
            del s[i:]
        else:
            j = rng.randrange(i, min(len(s), i + 12) + 1)
            s[i:i] = s[i:j]
    return bytes(s)


def gen_input(rs, rng):
    noise = rng.choice((0.0, 0.0, 0.15, 0.15, 0.5, 1.0))
    g = G(rs, rng, noise)
    out = []
    g.tree(rng.choice((0, 1, 1, 2, 3)), out)
    if g.p(0.2):
        rng.shuffle(out)
    s = b"".join(out)
    if rng.random() < 0.5 * noise + 0.05:
        s = mutate(rng, s)
    if rs.enc and rng.random() < 0.7:
        b = bytearray(s)
        utf8 = is_utf8_name(rs.enc)
        for _ in range(rng.choice((1, 1, 1, 2, 4))):
            i = rng.randrange(len(b) + 1)
            b[i:i] = rng.choice(UTF8_BOUNDARY) if (utf8 and rng.random() < 0.6) else rng.choice(ENC_BYTES)
        s = bytes(b)
    return s


# windows-1254 / cp1254 are not registered in encoding.cpp's validators_set (windows_1254_valid exists but is unused): they take
# the iconv path, which the model does not cover
SINGLE_BYTE_NAMES = ([b"latin1"] + [b"ISO-8859-%d" % k for k in (1, 2, 3, 4, 5, 6, 7, 8, 9, 10, 11, 13, 14, 15, 16)] + [b"windows-125%d" % k for k in (0, 1, 2, 3, 5, 6, 7, 8)] +
                     [b"cp125%d" % k for k in (0, 1, 2, 3, 5, 6, 7, 8)] + [b"koi8-r", b"KOI8-U", b"US-ASCII", b"ascii"])


def is_utf8_name(enc):
    return bytes(c for c in enc.lower() if chr(c).isalnum()) == b"utf8"


def systematic_cases():
    """deterministic streams: (a) comment bodies with a markup byte at every position incl. first and last,
    (b) UTF-8 boundary sequences inside otherwise valid text"""
    cases = []
    tags = "%s:3,%s:1" % (hx(b"a"), hx(b"b"))
    bodies = [b"", b"x", b" x ", b"[if IE]", b" a - b "]
    for xh in (1, 0):
        for com in (1, 0):
            f = "%d%d1 - %s - -" % (xh, com, tags)
            for mk in (b"<", b">", b"&", b"<b>", b"&amp;", b"&lt;", b"-", b"--", b"->", b"!"):
                for body in bodies:
                    for pos in sorted(set((0, 1, len(body) // 2, max(0, len(body) - 1), len(body)))):
                        bd = body[:pos] + mk + body[pos:]
                        for pre, post in ((b"a", b"b"), (b"", b""), (b"<b>", b"</b>")):
                            cases.append("C %s %s" % (f, hexs(pre + b"<!--" + bd + b"-->" + post)))
    # (c) numeric character references: 1..20 digits, values around 2^31 / 2^32 / 2^32+legal / 2^63 / 2^64, hex and decimal, leading zeros
    for num in (1, 0):
        f = "10%d - %s - -" % (num, tags)
        vals = sorted(set(CODEPOINTS + BIG_CODEPOINTS + [10 ** k for k in range(0, 21)] + [10 ** k - 1 for k in range(1, 21)] + [16 ** k + 65 for k in range(1, 20)]))
        for v in vals:
            for fmt in (b"&#%d;", b"&#x%x;", b"&#X%X;", b"&#0%d;", b"&#x000%x;"):
                cases.append("C %s %s" % (f, hexs(b"a" + fmt % v + b"b")))
    # (d) every byte under every single-byte encoding name the library knows (primary names and aliases)
    for name in SINGLE_BYTE_NAMES:
        f = "100:%s:0 - %s - -" % (hx(name), tags)
        for b in range(256):
            cases.append("C %s %s" % (f, hexs(b"x" + bytes([b]) + b"y")))
    # (e) regex-typed attributes: strings of the pattern language decorated with LF / CR / CRLF / space / NUL (PCRE's `$` matches
    #     before a final LF; a full match must not), patterns with anchors of their own, alternations, lazy quantifiers
    for k, (pat, goods) in enumerate(sorted(GOOD_RE.items())):
        for xh in (1, 0):
            f = "%d00 - %s %s:%s:o1 1:re:%s" % (xh, tags, hx(b"b"), hx(b"class"), hx(pat))
            for g in goods:
                vals = [g] + [g + d for d in DECOR] + [d + g for d in DECOR] + ([g[:1] + b"\n" + g[1:]] if len(g) > 1 else [])
                for v in vals:
                    cases.append("C %s %s" % (f, hexs(b"<b class='" + v + b"'>x</b>")))
    for sch in (b"(http|https)", b"[a-z]+", b"http$|x", b"^https?$"):
        for kind in ("uri", "absuri"):
            f = "100 - %s %s:%s:o1 1:%s:%s" % (tags, hx(b"a"), hx(b"href"), kind, hx(sch))
            for v in (b"http://a/", b"https://a/", b"http\n://a/", b"ftp://a/", b"x://a/", b"http:", b"HTTP://a/"):
                cases.append("C %s %s" % (f, hexs(b'<a href="' + v + b'">x</a>')))
    for enc in (b"UTF-8", b"utf8"):
        for xh in (1, 0):
            f = "%d11:%s:0 - %s - -" % (xh, hx(enc), tags)
            for seq in UTF8_BOUNDARY:
                for pre, post in ((b"a", b"b"), (b"", b""), (b"<b>", b"</b>"), (b"<b>x</b>\xc3\xa9", b"&amp;"), (b"<x>", b"<"), (b"&", b";")):
                    cases.append("C %s %s" % (f, hexs(pre + seq + post)))
        cases.append("C 111:%s:63 - %s - - %s" % (hx(enc), tags, hexs(b"a\xf4\x90\x80\x80b\xffc")))
        # C0 / DEL / C1 edge characters, singly, first-in-text, and before another invalid byte (both replacement settings)
        edge = [bytes([b]) for b in list(range(0x20)) + [0x7F]] + [bytes([0xC2, b]) for b in range(0x80, 0xA0)] + [b"\xc2\xa0", b" ", b"~"]
        for repl in (0, 63):
            f = "111:%s:%d - %s - -" % (hx(enc), repl, tags)
            for e in edge:
                for pre, post in ((b"", b""), (b"", b"abc"), (b"ab", b"cd"), (b"<b>", b"</b>"), (b"a", b"\xff"), (b"\xc3\xa9", b"<")):
                    cases.append("C %s %s" % (f, hexs(pre + e + post)))
    return cases


def gen_cases(c, n_rules, per_rule):
    rng = c.rng
    cases = []
    for k in range(n_rules):
        rs = RuleSet(rng, simple=(k % 3 == 0))
        f = rs.fields()
        for _ in range(per_rule):
            x = gen_input(rs, rng)
            cases.append("C %s %s" % (f, hexs(x)))
    # short exhaustive-ish strings over the markup alphabet under one small rule set per mode
    alpha = [b"<", b">", b"&", b";", b"a", b"/", b"!", b"-", b" ", b"#", b"1", b"'", b"=", b"x"]
    for xh in (1, 0):
        f = "%d11 - %s %s 1:re:%s" % (xh, "%s:3,%s:1,%s:2" % (hx(b"a"), hx(b"b"), hx(b"x")), "%s:%s:o1,%s:%s:b" % (hx(b"a"), hx(b"a"), hx(b"a"), hx(b"x")), hx(b"[a-z]*"))
        lim = 4 if c.tier == "thorough" else 3
        def rec(prefix, d):
            cases.append("C %s %s" % (f, hexs(prefix)))
            if d:
                for a in alpha:
                    rec(prefix + a, d - 1)
        rec(b"", lim)
    return cases


URI_PARTS = [b"http", b"https", b"ftp", b"javascript", b"mailto", b"a", b"HTTP", b"x-y.z+1", b"", b"1a", b"h\x00"]
URI_CH = [b":", b"/", b"//", b"?", b"#", b"@", b"&amp;", b"&apos;", b"&", b"%41", b"%4", b"%", b"a", b"Z", b"0", b"1", b"2", b"25", b"255", b"127.0.0.1", b".", b"-", b"_", b"~", b"!", b"$", b"'", b"(", b")",
          b"*", b"+", b",", b";", b"=", b"[", b"]", b"[::1]", b" ", b"<", b">", b"\"", b"\\", b"^", b"|", b"{", b"\x00", b"\xc3\xa9", b"example.com", b"user:pw@", b":80", b"path/to", b"q=1", b"frag"]


def gen_uri_cases(c, n):
    rng = c.rng
    cases = []
    kinds = ("uri", "uri", "absuri", "reluri")
    for _ in range(n):
        r = rng.random()
        if r < 0.5:
            v = rng.choice(URI_PARTS) + rng.choice((b":", b":", b"", b"://")) + b"".join(rng.choice(URI_CH) for _ in range(rng.randrange(0, 6)))
        elif r < 0.8:
            v = b"".join(rng.choice(URI_CH) for _ in range(rng.randrange(0, 7)))
        else:
            v = rng.choice(URIS + GOOD_URIS)
            if rng.random() < 0.5:
                v = mutate(rng, v)
        k = rng.choice(kinds)
        sch = rng.choice(SCHEMES)
        cases.append("U %s %s %s" % (k, hx(sch), hexs(v)))
    # all strings of length <= 3 over a small URI alphabet
    alpha = [b"a", b":", b"/", b"?", b"#", b"@", b"1", b"&", b"%", b".", b" "]
    lim = 4 if c.tier == "thorough" else 3
    def rec(prefix, d):
        for k in kinds[1:]:
            cases.append("U %s %s %s" % (k, hx(b"[a-z]+"), hexs(prefix)))
        if d:
            for a in alpha:
                rec(prefix + a, d - 1)
    rec(b"", lim)
    return list(dict.fromkeys(cases))


def run_uri(c, hbin, model, cases):
    rc, out_i, err_i = c.run_lines(hbin, cases)
    n = min(len(out_i), len(cases))
    impl, tables = [], []
    for k in range(n):
        a, t = out_i[k].rsplit(" T=", 1) if " T=" in out_i[k] else (out_i[k], "-")
        impl.append(a)
        tables.append(t)
    rc_m, out_m, err_m = c.run_lines(model, [cases[k] + " " + tables[k] for k in range(n)])
    diffs = [(k, cases[k], impl[k], out_m[k] if k < len(out_m) else "<none>") for k in range(n)
             if k >= len(out_m) or impl[k] != out_m[k]]
    c.evaluations += len(cases)
    c.traces_validated += min(n, len(out_m))
    c.log(f"correspond[uri_parser]: {len(cases)} cases, {len(diffs)} diffs, impl rc={rc}, model rc={rc_m}")
    crashed = {"rc": rc, "stderr": err_i, "case": cases[len(out_i)] if len(out_i) < len(cases) else None} if rc != 0 else None
    accepted = sum(1 for a in impl if a == "1")
    # judge (documented contract of the validators): absolute_uri accepts nothing without "scheme:", relative_uri nothing with it,
    # and an accepted scheme is one the scheme regex matched
    bad = []
    for k in range(n):
        if impl[k] != "1":
            continue
        w = cases[k].split()
        v = unhex(w[3])
        mm = re.match(rb"[A-Za-z][A-Za-z0-9+.-]*:", v)
        sv = tables[k].endswith(":1")
        if w[1] == "absuri" and not (mm and sv):
            bad.append((k, "absolute_uri validator accepted a value without an allowed scheme"))
        if w[1] == "reluri" and mm:
            bad.append((k, "relative_uri validator accepted a value with a scheme"))
        if w[1] == "uri" and mm and not sv:
            bad.append((k, "uri validator accepted a scheme the scheme expression does not match"))
        # byte alphabet (uri_accepted_bytes_safe) and the scheme a browser would see in the decoded value (uri_browser_scheme_allowed)
        if not all(0x21 <= b <= 0x7E and b not in b'"<>\\[]^`{|}' for b in v):
            bad.append((k, "URI validator accepted a text with a byte outside the URI alphabet (space, control, quote, <, >, non-ASCII …)"))
        if re.search(rb"&(?!amp;|apos;)", v):
            bad.append((k, "URI validator accepted a raw & that is neither &amp; nor &apos;"))
        dec = v.replace(b"&amp;", b"&").replace(b"&apos;", b"'").strip(bytes(range(33))).replace(b"\t", b"").replace(b"\n", b"").replace(b"\r", b"")
        bm = re.match(rb"[A-Za-z][A-Za-z0-9+.-]*:", dec)
        if bm and not (mm and mm.group(0) == bm.group(0) and sv and w[1] != "reluri"):
            bad.append((k, "a browser would see the scheme %r in an accepted value, which the scheme expression did not approve" % bm.group(0)))
    return diffs, crashed, accepted, bad


# ---- iconv-handled (not ASCII-compatible for cppcms) encodings: judge only, no model ---------------------------------
def sjis_wf(b):
    """structural well-formedness of Shift_JIS (JIS X 0208 lead/trail byte tables; assignedness is not checked)"""
    i, n = 0, len(b)
    while i < n:
        c = b[i]
        if c < 0x80 or 0xA1 <= c <= 0xDF:
            i += 1
        elif 0x81 <= c <= 0x9F or 0xE0 <= c <= 0xFC:
            if i + 1 >= n or not (0x40 <= b[i + 1] <= 0x7E or 0x80 <= b[i + 1] <= 0xFC):
                return False
            i += 2
        else:
            return False
    return True


def eucjp_wf(b):
    """structural well-formedness of EUC-JP (code sets 0-3)"""
    i, n = 0, len(b)
    t = lambda k: k < n and 0xA1 <= b[k] <= 0xFE
    while i < n:
        c = b[i]
        if c < 0x80:
            i += 1
        elif c == 0x8E:
            if not (i + 1 < n and 0xA1 <= b[i + 1] <= 0xDF):
                return False
            i += 2
        elif c == 0x8F:
            if not (t(i + 1) and t(i + 2)):
                return False
            i += 3
        elif 0xA1 <= c <= 0xFE:
            if not t(i + 1):
                return False
            i += 2
        else:
            return False
    return True


MB = {b"Shift_JIS": (sjis_wf, [b"\x82\xa0", b"\x83\x41", b"\x93\xfa\x96\x7b", b"\xb1", b"\xe0\x40"], [b"\x82", b"\x93", b"\xe0", b"\xfc", b"\x81"]),
      b"EUC-JP": (eucjp_wf, [b"\xa4\xa2", b"\xc6\xfc\xcb\xdc", b"\x8e\xb1", b"\x8f\xb0\xa1"], [b"\xa4", b"\x8e", b"\x8f", b"\x8f\xb0", b"\xfe"])}


def run_multibyte(c, hbin):
    """real validate / filter under an iconv-handled encoding (booster::locale::conv path, not modelled): texts with complete
    characters and with truncated tails; judged with the independent structural tables above"""
    tags = "%s:3,%s:1" % (hx(b"a"), hx(b"b"))
    cases, meta = [], []
    for enc, (wf, good, lead) in MB.items():
        texts = []
        for g in good:
            texts += [g, b"a" + g + b"b", b"<b>" + g + b"</b>", g + b"<x>", b"&amp;" + g]
        for l in lead:                    # input ends inside a multibyte sequence
            texts += [l, b"abc" + l, good[0] + l, b"<b>x</b>" + l, b"<b>" + good[0] + b"</b>" + l, b"<x>" + l]
            texts += [l + b"<b>x</b>", b"a" + l + b"\x00"]
        for x in texts:
            for xh in (1, 0):
                cases.append("C %d00:%s:0 - %s - - %s" % (xh, hx(enc), tags, hexs(x)))
                meta.append((enc, wf, x))
    rc, out, err = c.run_lines(hbin, cases)
    c.evaluations += len(cases)
    bad = []
    for k in range(min(len(out), len(cases))):
        mm = FIELD_RE.match(out[k].split(" T=")[0])
        enc, wf, x = meta[k]
        if not mm:
            bad.append((k, "implementation answered: " + out[k][:120]))
            continue
        v, rm, esc, frm, fesc, vrm, vesc = mm.groups()
        if v == "1" and not wf(x):
            bad.append((k, "validate accepted text that is not well-formed %s (ends inside / breaks a multibyte sequence)" % enc.decode()))
        if vrm != "1" or vesc != "1":
            bad.append((k, "validate(filter(x)) is false under " + enc.decode()))
        for o in (frm, fesc):
            if not wf(unhex(o)):
                bad.append((k, "filter output is not well-formed " + enc.decode()))
    c.log(f"judge[iconv encodings]: {len(cases)} cases, {len(bad)} failures, impl rc={rc}")
    c.extra_cov["iconv_encoding_cases_judge_only"] = len(cases)
    if rc != 0 and len(out) < len(cases):
        c.violation("sanitizer abort / crash of the real code (iconv-handled encoding)", {"case": cases[len(out)], "stderr": err})
    for k, what in bad[:5]:
        c.violation("property predicate false on implementation output: " + what,
                    {"case": cases[k], "impl_output": out[k] if k < len(out) else None, "input_bytes": repr(meta[k][2])})


def corpus_cases():
    d = os.path.join(ROOT, "gen", "corpus", "C04")
    res = []
    if os.path.isdir(d):
        for fn in sorted(os.listdir(d)):
            for line in open(os.path.join(d, fn)):
                line = line.strip()
                if line and not line.startswith("#"):
                    res.append(line)
    return res


FIELD_RE = re.compile(r"^v=([01]) rm=(\S+) esc=(\S+) frm=(\S+) fesc=(\S+) vrm=([01]) vesc=([01])")


def run_all(c, hbin, model, cases, label):
    """harness -> oracle tables -> model; compare; judge.  returns dict of results"""
    rc, out_i, err_i = c.run_lines(hbin, cases)
    crashed = None
    if rc != 0:
        crashed = {"rc": rc, "stderr": err_i, "case": cases[len(out_i)] if len(out_i) < len(cases) else None}
    n = min(len(out_i), len(cases))
    impl, tables, encs = [], [], []
    for k in range(n):
        o = out_i[k]
        e = "-"
        if " E=" in o:
            o, e = o.rsplit(" E=", 1)
        if " T=" in o:
            a, t = o.rsplit(" T=", 1)
        else:
            a, t = o, "-"
        if ",X:" in e:
            a = "harness: encoding::valid and encoding::validate_or_filter disagree " + a
        impl.append(a)
        tables.append(t)
        encs.append(e)
    mlines = [cases[k] + " " + tables[k] + " " + encs[k] for k in range(n)]
    rc_m, out_m, err_m = c.run_lines(model, mlines)
    if rc_m != 0:
        c.broke(f"model driver crashed on stream {label}", err_m)
    diffs = []
    stats = []
    for k in range(n):
        m = out_m[k] if k < len(out_m) else "<no output: model driver died>"
        st = None
        if " st=" in m:
            m, st = m.rsplit(" st=", 1)
        stats.append(st)
        if m != impl[k]:
            diffs.append((k, cases[k], impl[k], m))
    c.evaluations += len(cases)
    c.traces_validated += min(n, len(out_m))
    c.log(f"correspond[{label}]: {len(cases)} cases, {len(diffs)} diffs, impl rc={rc}, model rc={rc_m}")

    # ---- judge on the implementation's outputs
    bad = []          # (k, what)
    jl = []           # (k, which, line)
    for k in range(n):
        mm = FIELD_RE.match(impl[k])
        if not mm:
            bad.append((k, "implementation answered: " + impl[k][:200]))
            continue
        v, rm, esc, frm, fesc, vrm, vesc = mm.groups()
        x = cases[k].split()[6]
        if vrm != "1":
            bad.append((k, "validate(filter(x, remove_invalid)) is false on the real library"))
        if vesc != "1":
            bad.append((k, "validate(filter(x, escape_invalid)) is false on the real library"))
        if v == "1" and not (frm == x and fesc == x and rm == "1:-" and esc == "1:-"):
            bad.append((k, "input validates but filter changed it / validate_and_filter_if_invalid disagreed"))
        if v == "0" and (rm.startswith("1") or esc.startswith("1")):
            bad.append((k, "validate false but validate_and_filter_if_invalid returned true"))
        if v == "0" and (rm != "0:" + frm or esc != "0:" + fesc):
            bad.append((k, "filter() and validate_and_filter_if_invalid() outputs differ"))
        base = cases[k].split()
        for which, o in (("remove", frm), ("escape", fesc)):
            if which == "escape" and fesc == frm:
                continue
            jl.append((k, which, "J " + " ".join(base[1:6]) + " " + o + " " + tables[k]))
    # declared encoding UTF-8: what validate accepts, and what the filter returns, must be well-formed UTF-8 by the
    # independent RFC 3629 predicate of Spec.lean (not by the library's own validator)
    wl = []
    for k in range(n):
        fl = cases[k].split()[1].split(":")
        if len(fl) != 3 or not is_utf8_name(unhex(fl[1] or "-")):
            continue
        mm = FIELD_RE.match(impl[k])
        if not mm:
            continue
        v, rm, esc, frm, fesc, vrm, vesc = mm.groups()
        if v == "1":
            wl.append((k, "validate accepted text that is not well-formed UTF-8 (RFC 3629)", cases[k].split()[6]))
        wl.append((k, "filter(x, remove_invalid) is not well-formed UTF-8 (RFC 3629)", frm))
        if fesc != frm:
            wl.append((k, "filter(x, escape_invalid) is not well-formed UTF-8 (RFC 3629)", fesc))
    # declared single-byte encoding: the same, against the independent code page tables of Spec.lean (op B); pages the
    # tables do not cover answer "unknown" and are counted
    bl = []
    for k in range(n):
        fl = cases[k].split()[1].split(":")
        if len(fl) != 3 or not fl[1] or is_utf8_name(unhex(fl[1])):
            continue
        mm = FIELD_RE.match(impl[k])
        if not mm:
            continue
        v, rm, esc, frm, fesc, vrm, vesc = mm.groups()
        if v == "1":
            bl.append((k, "validate accepted a byte that is unassigned / a control in the declared code page (independent table)", fl[1], cases[k].split()[6]))
        bl.append((k, "filter(x, remove_invalid) contains a byte that is unassigned / a control in the declared code page", fl[1], frm))
        if fesc != frm:
            bl.append((k, "filter(x, escape_invalid) contains a byte that is unassigned / a control in the declared code page", fl[1], fesc))
    if bl:
        rc_b, out_b, err_b = c.run_lines(model, ["B %s %s" % (nm, h) for _, _, nm, h in bl])
        unk = 0
        for (k, what, nm, h), o in zip(bl, out_b + ["<no output>"] * (len(bl) - len(out_b))):
            if o == "unknown":
                unk += 1
            elif o != "1":
                bad.append((k, what))
        c.extra_cov["single_byte_judged"] = c.extra_cov.get("single_byte_judged", 0) + len(bl) - unk
        c.extra_cov["single_byte_page_not_in_spec_tables"] = c.extra_cov.get("single_byte_page_not_in_spec_tables", 0) + unk
    if wl:
        rc_w, out_w, err_w = c.run_lines(model, ["W " + h for _, _, h in wl])
        for (k, what, h), o in zip(wl, out_w + ["<no output>"] * (len(wl) - len(out_w))):
            if o != "1":
                bad.append((k, what))
    # lean judge, with a second round for oracle verdicts the lenient tokenizer needs
    for rnd in range(3):
        if not jl:
            break
        rc_j, out_j, err_j = c.run_lines(model, [l for _, _, l in jl])
        retry = []
        for (k, which, line), o in zip(jl, out_j + ["<no output>"] * (len(jl) - len(out_j))):
            if o.startswith("1"):
                continue
            if o.startswith("miss ") and rnd < 2:
                retry.append((k, which, line, o[5:]))
            else:
                bad.append((k, f"lenientMarkup(filter(x,{which})) not within the white list: {o[:300]}"))
        if not retry:
            break
        q = ["O " + " ".join(line.split()[1:6]) + " " + miss for _, _, line, miss in retry]
        rc_o, out_o, err_o = c.run_lines(hbin, q)
        jl = []
        for (k, which, line, miss), o in zip(retry, out_o):
            w = line.split()
            extra = o[2:] if o.startswith("T=") else "-"
            tb = w[7] if w[7] != "-" else ""
            tb = ",".join(t for t in (tb, extra if extra != "-" else "") if t) or "-"
            jl.append((k, which, " ".join(w[:7]) + " " + tb))
    return {"impl": impl, "model": out_m, "diffs": diffs, "crashed": crashed, "bad": bad, "stats": stats, "tables": tables}


def shrink_case(c, hbin, model, case, rounds=40):
    """delta debugging on the input bytes: smallest input (same rule set) on which the judge still fails"""
    w = case.split()
    x = unhex(w[6])
    saved = (c.evaluations, c.traces_validated, list(c.log_lines))
    n = 2
    for _ in range(rounds):
        if len(x) <= 1:
            break
        size = max(1, len(x) // n)
        cands = []
        for i in range(0, len(x), size):
            y = x[:i] + x[i + size:]
            if y != x:
                cands.append(y)
        lines = [" ".join(w[:6] + [hexs(y)]) for y in cands]
        res = run_all(c, hbin, model, lines, "shrink")
        badk = sorted(set(k for k, _ in res["bad"]))
        if res["crashed"] or not badk:
            if size == 1:
                break
            n = min(len(x), n * 2)
            continue
        x = cands[badk[0]]
        n = max(2, n - 1)
    c.evaluations, c.traces_validated = saved[0], saved[1]
    return " ".join(w[:6] + [hexs(x)])


def main():
    c = Check("C04")
    c.rule = ("case = (rule set, input bytes): rule sets drawn over {xhtml,html} x comments x numeric entities x extra entities x tags of every kind "
              "(incl. case variants, re-registration) x attribute kinds {boolean, integer, regex, uri, absolute uri, relative uri}; inputs grammar-guided "
              "(nested / unterminated / mis-nested tags, quoting variants, duplicate attributes, entities incl. boundary code points, comments with --, "
              "IE conditionals, stray < > &, NUL/high bytes), 35% byte-mutated, plus all strings of length <= 3 (4 in thorough) over a 14-symbol markup "
              "alphabet under two rule sets; each case exercises validate, validate_and_filter_if_invalid and filter in both methods. "
              "non-trivial = at least one well-formed markup token (tag, entity, comment) reached the rules stage in the model; distinct = distinct case lines")
    c.trusted += [
        "translator translate/c04.py + translate/cexpr.py (byte classes, entity sets, code point ranges, escape table, tokenizer constants, tag-kind table of xss.cpp -> Gen.lean; shape checks of the loops)",
        "hand-written control flow of Model.lean (tokenizer, tag/attribute parser, nesting, rules, filter), tied by the correspondence run on the public API",
        "external attribute validators: the regex is an arbitrary predicate in the theorems; its verdicts are computed by the harness with libpcre directly (full match of \\A(?:pat)\\z), "
        "independently of booster::regex, which the real validate() keeps using (oracle table); "
        "the cppcms uri_parser/uri_validator_functor is modelled by hand in Uri.lean (scheme regex = parameter), tied by its own correspondence stream and by cross-checking every "
        "recorded verdict in the filter cases",
        "strtol on an all-digit string (modelled as exact natural number; saturation at LONG_MAX is indistinguishable: both > 0x10FFFF)",
        "std::map/std::set with the c_string comparators (modelled as last-assignment-wins lookup under byte equality / ASCII-case-insensitive equality)",
        "correspondence harness harness/c04.cpp (ASan+UBSan build of the working tree)",
        "UTF-8 composition: Cppcms.C14 model and theorems (validate_iff_wellformed, filter_yields_valid) are imported by LemUtf8/Props; their tie to utf_iterator.h / encoding.cpp is C14's check (C14's Gen.lean as last regenerated by it)",
        "lenient tokenizer of Spec.lean = this project's reading of 'what a browser may treat as markup' (specification, trusted as such)",
    ]
    c.assumptions += ["encoding::valid / encoding::validate_or_filter (property C14) are parameters of the model: single-byte charsets as a per-byte test "
                      "(mask recorded from the real validator, cross-checked against its verdicts on every case), UTF-8 by recorded verdicts; EncOk is proved for "
                      "single-byte charsets and assumed (judge-only) for UTF-8; non-ASCII-compatible encodings (iconv/ICU path) are not exercised",
                      "attribute validators are pure functions of the value bytes"]
    thorough = c.tier == "thorough"

    c.translate("c04.py")
    if os.path.exists(os.path.join(ROOT, "translate", "c14.py")):
        c.translate("c14.py")      # LemUtf8/Props import Cppcms.C14: re-derive its Gen.lean from the same tree
    proved = c.prove(["Cppcms.C04.Props"], OBLIGATIONS, exe="c04_model")
    if thorough and proved:
        c.leanchecker(["Cppcms.C04.Props"])
    model = c.model_exe()
    ok_impl = c.impl_build()
    hbin = c.harness("c04") if ok_impl else None

    if c.replay_path:
        rp = json.load(open(c.replay_path))
        cases = [rp["case"]] if "case" in rp else []
        corpus = []
    else:
        corpus = corpus_cases()
        cases = [l for l in corpus if l.startswith("C ")] + systematic_cases() + (gen_cases(c, 1500, 30) if thorough else gen_cases(c, 150, 20))

    if c.replay_path and hbin and os.path.exists(model) and cases and cases[0].startswith("U "):
        udiffs, ucrash, uacc, ubad = run_uri(c, hbin, model, cases)
        rc, out_i, _ = c.run_lines(hbin, cases)
        print("case :", cases[0]); print("value:", repr(unhex(cases[0].split()[3]))); print("impl :", out_i[0] if out_i else None)
        for k, what in ubad:
            c.violation("URI validator: " + what, {"case": cases[k], "value": repr(unhex(cases[k].split()[3]))})
        if udiffs:
            c.broke("correspondence stream uri_parser", str(udiffs[0]))
        cases = []
    if hbin and os.path.exists(model) and cases:
        cases = list(dict.fromkeys(cases))
        res = run_all(c, hbin, model, cases, "xss")
        impl, out_m = res["impl"], res["model"]
        for k, st in enumerate(res["stats"]):
            if st:
                f = st.split(":")
                if len(f) == 4 and int(f[1]) > 0:
                    c.nontrivial.add(cases[k])
        n = len(cases)
        c.samples = [{"case": cases[i], "impl": impl[i] if i < len(impl) else None, "model": out_m[i] if i < len(out_m) else None}
                     for i in sorted(set([0, min(n - 1, len(corpus)), n // 3, n // 2, n - 1]))]
        dist = {"valid_inputs": 0, "filtered_inputs": 0, "xhtml_cases": 0, "html_cases": 0, "escape_differs_from_remove": 0,
                "with_invalid_entries": 0, "oracle_verdicts_used": 0}
        for k in range(min(n, len(impl))):
            mm = FIELD_RE.match(impl[k])
            if not mm:
                continue
            dist["valid_inputs" if mm.group(1) == "1" else "filtered_inputs"] += 1
            dist["xhtml_cases" if cases[k].split()[1][0] == "1" else "html_cases"] += 1
        if ":" in cases[k].split()[1]:
            dist["with_declared_encoding"] = dist.get("with_declared_encoding", 0) + 1
            if mm.group(4) != mm.group(5):
                dist["escape_differs_from_remove"] += 1
            if res["tables"][k] != "-":
                dist["oracle_verdicts_used"] += res["tables"][k].count(",") + 1
            st = res["stats"][k]
            if st and int(st.split(":")[3]) > 0:
                dist["with_invalid_entries"] += 1
        c.extra_cov["distribution"] = dist
        c.extra_cov["judged_impl_outputs"] = 2 * min(n, len(impl))
        c.extra_cov["judge"] = ("declared encoding UTF-8: accepted input and both outputs well-formed by the independent RFC 3629 predicate Spec.utf8WellFormed; "
                                "on the real library's outputs: validate(filter(x)) = true (both methods); lenientMarkup(filter(x)) all Allowed "
                                "(Lean Spec); validate(x) => filter(x) = x and validate_and_filter_if_invalid returns true leaving output untouched; "
                                "the three entry points agree")
        if res["crashed"]:
            cr = res["crashed"]
            c.violation("sanitizer abort / crash of the real code", {"case": cr["case"], "stderr": cr["stderr"]})
        seen = set()
        if res["bad"] and not c.replay_path:
            # minimise the first failing case; report it first
            k0, what0 = res["bad"][0]
            small = shrink_case(c, hbin, model, cases[k0])
            r2 = run_all(c, hbin, model, [small], "minimised")
            if r2["bad"]:
                c.violation("property predicate false on implementation output: " + r2["bad"][0][1],
                            {"case": small, "impl_output": r2["impl"][0] if r2["impl"] else None,
                             "model_output": r2["model"][0] if r2["model"] else None,
                             "input_bytes": repr(unhex(small.split()[6])), "minimised_from": cases[k0],
                             "replay_cmd": "bin/check C04 --replay <this file>"})
        for k, what in res["bad"]:
            if k in seen:
                continue
            seen.add(k)
            if len(seen) > 20:
                break
            c.violation("property predicate false on implementation output: " + what,
                        {"case": cases[k], "impl_output": impl[k], "model_output": out_m[k] if k < len(out_m) else None,
                         "input_bytes": repr(unhex(cases[k].split()[6])), "replay_cmd": "bin/check C04 --replay <this file>"})
        if res["diffs"] and not res["bad"] and not res["crashed"]:
            k, cs, a, b = res["diffs"][0]
            # smallest differing case first
            k, cs, a, b = min(res["diffs"], key=lambda d: len(d[1]))
            c.broke("correspondence stream xss", f"{len(res['diffs'])} differing cases; smallest: {cs} input={unhex(cs.split()[6])!r} impl={a} model={b}")
        if not c.replay_path:
            run_multibyte(c, hbin)
        # the URI validator on its own: model of uri_parser vs. the real one
        if not c.replay_path:
            ucases = [l for l in corpus if l.startswith("U ")] + gen_uri_cases(c, 20000 if thorough else 3000)
            udiffs, ucrash, uacc, ubad = run_uri(c, hbin, model, ucases)
            for k, what in ubad[:10]:
                c.violation("URI validator: " + what, {"case": ucases[k], "value": repr(unhex(ucases[k].split()[3]))})
            c.extra_cov["uri_parser_cases"] = len(ucases)
            c.extra_cov["uri_parser_accepted"] = uacc
            for cs in ucases:
                pass
            if ucrash:
                c.violation("sanitizer abort / crash of the real URI validator", {"case": ucrash["case"], "stderr": ucrash["stderr"]})
            if udiffs:
                k, cs, a, b = min(udiffs, key=lambda d: len(d[1]))
                c.broke("correspondence stream uri_parser", f"{len(udiffs)} differing cases; smallest: {cs} value={unhex(cs.split()[3])!r} impl={a} model={b}")
        if c.replay_path:
            for i, cs in enumerate(cases):
                print("case :", cs)
                print("input:", repr(unhex(cs.split()[6])))
                print("impl :", impl[i] if i < len(impl) else None)
                print("model:", out_m[i] if i < len(out_m) else None)
                for key in ("frm", "fesc"):
                    mm = re.search(key + r"=(\S+)", impl[i] if i < len(impl) else "")
                    if mm:
                        print(f"impl {key}:", repr(unhex(mm.group(1))))
    c.finish()


if __name__ == "__main__":
    main()
