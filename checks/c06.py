#!/usr/bin/env python3
"""C06 — session state carries over between requests exactly, never after it ended.
See DESIGN.md section 5 (C06) and design.d/C06.md.
Usage: checks/c06.py [--tier quick|thorough] [--replay file]"""
import os, sys, json, glob, random
sys.path.insert(0, os.path.join(os.path.dirname(os.path.abspath(__file__)), "..", "lib"))
from vcheck import *

P = "Cppcms.C06.Props."
OBLIGATIONS = []          # filled from OBLIGATION_TEXT below
OBLIGATION_TEXT = os.path.join(ROOT, "checks", "c06_obligations.txt")


def load_obligations():
    res = []
    for line in open(OBLIGATION_TEXT):
        line = line.strip()
        if not line or line.startswith("#"):
            continue
        name, _, desc = line.partition(" ")
        res.append((("Cppcms.C06." + name) if name.startswith("Compose.") else (P + name), desc.strip()))
    return res


# ------------------------------------------------------------------ generator

KEYS = [b"k", b"a", b"b", b"key", b"user", b"zz"]
HEXD = "0123456789abcdef"


def hx(b):
    return b.hex() if b else "-"


def gen_value(rng, limit):
    r = rng.random()
    if r < 0.45:
        return hx(bytes(rng.choice(b"abcxyz019 %&=;+\x00\xff") for _ in range(rng.randrange(0, 6))))
    if r < 0.55:
        return "-"
    if r < 0.85:   # around the client_size_limit (the serialised size is 4 + |key| + |value| per entry)
        n = max(0, limit + rng.choice((-8, -6, -5, -4, -3, -2, -1, 0, 1, 2, 5, 40)))
        return "r%02xx%d" % (rng.choice(b"ABCz"), n)
    return "r%02xx%d" % (rng.randrange(256), rng.choice((49, 100, 300, 5000)))


def gen_ops(rng, cfg, fresh_bias):
    ops = []
    n = rng.choice((0, 0, 1, 1, 1, 2, 2, 3, 4))
    if fresh_bias and n == 0:
        n = 1
    for _ in range(n):
        r = rng.random()
        k = hx(rng.choice(KEYS))
        if r < 0.40:
            ops.append(f"set:{k}:{gen_value(rng, cfg['limit'])}")
        elif r < 0.47:
            ops.append(f"erase:{k}")
        elif r < 0.52:
            ops.append("clear")
        elif r < 0.62:
            ops.append(f"expose:{k}")
        elif r < 0.68:
            ops.append(f"hide:{k}")
        elif r < 0.76:
            ops.append("age:%d" % rng.choice((5, 10, 20, 30, 100, 101, 3600, 1, 0, -5)))
        elif r < 0.79:
            ops.append("defage")
        elif r < 0.87:
            ops.append("how:%d" % rng.randrange(3))
        elif r < 0.89:
            ops.append("defhow")
        elif r < 0.95:
            ops.append("srv:%d" % rng.randrange(2))
        else:
            ops.append("reset")
    return ops


def malformed_cookie(rng):
    h32 = "".join(rng.choice(HEXD) for _ in range(32))
    c = rng.randrange(14)
    if c == 0:
        s = b"I" + h32[:31].encode()                      # too short
    elif c == 1:
        s = b"I" + h32.encode() + b"0"                    # too long
    elif c == 2:
        s = b"i" + h32.encode()                           # wrong prefix
    elif c == 3:
        s = b"I" + h32.upper().encode()                   # upper-case hex (unless all digits)
        if s[1:].isdigit():
            s = b"I" + b"A" * 32
    elif c == 4:
        p = b"I../../etc/passwd"
        s = p + b"0" * (33 - len(p))                      # path-like, right length
    elif c == 5:
        s = b"I" + h32[:31].encode() + b"/"
    elif c == 6:
        s = b"I" + h32[:15].encode() + b"\x00" + h32[16:].encode()
    elif c == 7:
        s = b"I/" + h32[:30].encode() + b"."
    elif c == 8:
        s = b"C"
    elif c == 9:
        s = b"C" + bytes(rng.choice(b"ABCDEFGHIJKLMNOPQRSTUVWXYZabcdefghijklmnopqrstuvwxyz0123456789-_") for _ in range(rng.choice((1, 7, 27, 28, 40, 64))))
    elif c == 10:
        s = b"X" + h32.encode()
    elif c == 11:
        s = b"I" + h32[:31].encode() + b"g"
    elif c == 12:
        s = bytes(rng.randrange(1, 256) for _ in range(rng.choice((1, 5, 33, 100))))
        if s[:1] == b"C" or s[:1] == b"~":
            s = b"?" + s[1:]
    else:
        s = b"I" + b" " * 32
    return "raw:" + s.hex()


def never_issued_sid(rng):
    # well-formed, never issued: high nibbles f (the model's stream counts from 0; the real ones are 128 random bits)
    return "raw:" + (b"I" + ("ffff" + "".join(rng.choice(HEXD) for _ in range(28))).encode()).hex()


def gen_history(rng, tier, flavour=None):
    """returns (lines, judged) — judged False for histories with backward clock moves"""
    loc = rng.choice(("client", "server", "server", "both", "both"))
    kind = rng.choice(("memory", "memory", "memory", "files", "files", "files", "network", "network2", "network3"))
    how = rng.randrange(3)
    timeout = rng.choice((10, 20, 50, 100, 100, 3600))
    limit = rng.choice((20, 30, 60, 2048))
    cfg = {"loc": loc, "kind": kind, "how": how, "timeout": timeout, "limit": limit}
    lines = [f"new {loc} {kind} {how} {timeout} {limit}" + (" grp" if rng.random() < 0.12 else "")]
    multi = kind in ("network2", "network3")
    nb = rng.choice((3, 4, 6, 8)) if multi else rng.choice((1, 1, 2, 2, 3))     # several nodes: many identifiers, so that they spread
    attacker = rng.random() < 0.5
    backward = rng.random() < 0.12 and not multi        # several nodes: only visible records are listed, keep the clock monotone
    steal_ok = rng.random() < 0.3
    nreq = rng.randrange(1, 12 * min(nb, 3) + 1) if rng.random() < 0.5 else rng.randrange(1, 13)
    if multi:
        nreq = rng.randrange(nb, 5 * nb)
    now = rng.choice((1000, 1000, 1000, 1000, 1000, 1000, 1000, 1000, 2147483000, 4000000000))   # also across and beyond 2^31
    ages = [timeout, 5, 10, 20, 30, 100]
    started = set()
    for _ in range(nreq):
        T = rng.choice(ages)
        r = rng.random()
        if r < 0.15:
            d = 0
        elif r < 0.40:
            d = rng.choice((1, 2, 3))
        elif r < 0.65:      # around the 10 % renewal window
            d = max(0, T // 10 + rng.choice((-1, 0, 1)))
        elif r < 0.85:      # around the deadline
            d = max(0, T + rng.choice((-2, -1, 0, 1, 2)))
        elif r < 0.93:
            d = rng.randrange(0, 2 * T + 2)
        else:
            d = rng.choice((5000, 100000))
        if backward and rng.random() < 0.3:
            d = -rng.randrange(1, T + 5)
        now = max(now + d, 10)     # before 1970 is not a meaningful clock; the network storage treats negative deadlines as absent
        if attacker and rng.random() < 0.3:
            b = 9
            r = rng.random()
            if r < 0.30:
                spec = f"old:{rng.randrange(4)}"
            elif r < 0.55:
                spec = malformed_cookie(rng)
            elif r < 0.70:
                spec = never_issued_sid(rng)
            elif r < 0.78:
                spec = "none"
            elif r < 0.88 and steal_ok:
                spec = f"steal:{rng.randrange(nb)}"
            else:
                spec = "jar"
        else:
            b = rng.randrange(nb)
            spec = "jar"
        ops = gen_ops(rng, cfg, b not in started)
        started.add(b)
        if rng.random() < 0.08:
            # one object, two loads: set_cookie_adapter_and_reload with another browser's cookie, an unacceptable one, an old one or none
            r = rng.random()
            if r < 0.30:
                spec2 = f"steal:{rng.randrange(nb)}"
            elif r < 0.55:
                spec2 = malformed_cookie(rng)
            elif r < 0.65:
                spec2 = never_issued_sid(rng)
            elif r < 0.80:
                spec2 = "none"
            elif r < 0.92:
                spec2 = f"old:{rng.randrange(3)}"
            else:
                spec2 = "jar"
            lines.append(" ".join([f"req2 {b} {now} {spec}"] + ops + ["/", spec2] + gen_ops(rng, cfg, rng.random() < 0.5)))
        else:
            lines.append(" ".join([f"req {b} {now} {spec}"] + ops))
        if b != 9 and ops and rng.random() < 0.2:
            # an attacker (or stale browser state) replays the most recently issued cookie that no browser holds any more:
            # right after a clear / reset / size switch that is the identifier just given up
            now += rng.choice((0, 0, 1, 2))
            lines.append(f"req 9 {now} old:0" + (" set:61:62" if rng.random() < 0.2 else ""))
        if kind == "files" and loc != "client" and rng.random() < 0.06:
            lines.append(f"gc {now}")
        if kind.startswith("network") and loc != "client" and rng.random() < 0.15:
            lines.append("drop")      # the session server's front-end restarts: the next operation finds a dead connection
    return lines, not backward


def special_histories(tier):
    """hand-written histories: boundaries the random generator reaches rarely"""
    H = []
    # exact 10 % window: T=100, saved at 1000; 1009 no rewrite, 1010 rewrite
    for how in (1, 2):
        for loc in ("server", "client", "both"):
            H.append([f"new {loc} memory {how} 100 2048", "req 0 1000 jar set:6b:76", "req 0 1009 jar", "req 0 1010 jar", "req 0 1019 jar",
                      "req 0 1020 jar", "req 0 1120 jar", "req 0 1121 jar"])
    # periods that are not multiples of ten: the window ends between two seconds (T=25: no renewal at +2, renewal at +3)
    for T in (15, 25, 101):
        for loc in ("server", "client"):
            k = T // 10
            H.append([f"new {loc} memory 1 {T} 2048", "req 0 1000 jar set:6b:76", f"req 0 {1000 + k} jar", f"req 0 {1000 + T} jar",
                      f"req 1 2000 jar set:6b:76", f"req 1 {2000 + k} jar", f"req 1 {2000 + T + 1} jar",
                      f"req 2 3000 jar set:6b:76", f"req 2 {3000 + k + 1} jar", f"req 2 {3000 + T + 1} jar", f"req 2 {3000 + k + 1 + T + 1} jar"])
    # fixed: never rewritten when unchanged, deadline kept when changed, alive at the deadline, dead one later
    for loc in ("server", "client", "both"):
        for kind in ("memory", "files", "network"):
            H.append([f"new {loc} {kind} 0 50 2048", "req 0 1000 jar set:6b:76 expose:6b", "req 0 1030 jar", "req 0 1040 jar set:61:62",
                      "req 0 1050 jar", "req 0 1051 jar", "req 0 1052 jar set:6b:77"])
    # key / value limits of the packed header
    H.append(["new server memory 1 100 2048", "req 0 1000 jar set:" + "61" * 1023 + ":76", "req 0 1001 jar",
              "req 0 1002 jar set:" + "61" * 1024 + ":76", "req 0 1003 jar"])
    H.append(["new both files 1 100 2048", "req 0 1000 jar set:6b:r41x2097151", "req 0 1001 jar", "req 0 1002 jar set:6b:r41x2097152", "req 0 1003 jar"])
    # client-only location cannot keep a session on the server
    H.append(["new client memory 1 100 2048", "req 0 1000 jar set:6b:76 srv:1", "req 0 1001 jar set:6b:76", "req 0 1002 jar srv:1", "req 0 1003 jar"])
    # internal keys holding non-numbers
    H.append(["new server files 2 100 2048", "req 0 1000 jar set:5f74:616263", "req 0 1001 jar", "req 0 1002 jar set:6b:76",
              "req 1 1003 jar set:5f68:2d", "req 1 1004 jar", "req 2 1005 jar set:5f73:32 set:5f74:203530", "req 2 1006 jar"])
    # reset after a huge payload moved the session to the server; move back removes the server copy
    H.append(["new both files 1 100 30", "req 0 1000 jar set:6b:76", "req 0 1001 jar set:6b:r41x40", "req 0 1002 jar reset", "req 9 1003 old:0",
              "req 9 1003 old:1", "req 0 1004 jar set:6b:76", "req 9 1005 old:0", "req 0 1006 jar clear", "req 9 1007 old:0", "req 9 1007 old:1"])
    # location=both: the old server-side identifier must be unusable after clear / reset / moving back to the cookie,
    # whether the session is on the server because of on_server(true) or because of its size; and clear of a session
    # that lives in the cookie must not disturb anything (seeded C06-3: session_dual::clear dispatching on the wrong tag)
    for kind in ("memory", "files", "network"):
        for how in (0, 1, 2):
            H.append([f"new both {kind} {how} 100 30", "req 0 1000 jar set:6b:76 srv:1", "req 0 1001 jar", "req 0 1002 jar clear",
                      "req 9 1003 old:0", "req 9 1004 old:0 set:61:62", "req 0 1005 jar"])
            H.append([f"new both {kind} {how} 100 30", "req 0 1000 jar set:6b:r41x40", "req 0 1001 jar clear", "req 9 1002 old:0", "req 0 1003 jar"])
            H.append([f"new both {kind} {how} 100 30", "req 0 1000 jar set:6b:r41x40 expose:6b", "req 0 1001 jar reset", "req 9 1002 old:0",
                      "req 0 1003 jar", "req 0 1004 jar srv:1 reset", "req 9 1005 old:0", "req 9 1005 old:1", "req 0 1006 jar"])
            H.append([f"new both {kind} {how} 100 30", "req 0 1000 jar set:6b:r41x40", "req 0 1001 jar set:6b:76", "req 9 1002 old:0",
                      "req 0 1003 jar", "req 0 1004 jar set:6b:r42x50", "req 0 1005 jar erase:6b set:61:62", "req 9 1006 old:0", "req 9 1006 old:1"])
            H.append([f"new both {kind} {how} 100 30", "req 0 1000 jar set:6b:76", "req 1 1000 jar set:6b:r41x40", "req 0 1001 jar clear",
                      "req 9 1002 old:0", "req 1 1003 jar", "req 0 1004 jar", "req 1 1005 jar clear", "req 9 1006 old:0", "req 9 1006 old:1"])
            H.append([f"new both {kind} {how} 100 30", "req 0 1000 jar set:6b:76 srv:1", "req 0 1001 jar srv:0", "req 9 1002 old:0", "req 0 1003 jar"])
    for kind in ("memory", "files"):
        H.append([f"new server {kind} 1 100 2048", "req 0 1000 jar set:6b:76", "req 0 1001 jar clear", "req 9 1002 old:0",
                  "req 0 1003 jar set:6b:76", "req 0 1004 jar reset", "req 9 1005 old:0", "req 9 1005 old:1"])
    # one object, two loads (seeded C05-4: load() not clearing data_/data_copy_): genuine cookie first, then a garbage / foreign /
    # expired / absent one; the reload must show the second cookie's session only, and a following set+save must not carry the first over
    garbage = "raw:" + (b"C" + b"Zm9vYmFy" * 5).hex()
    for loc, kind in (("client", "memory"), ("server", "memory"), ("server", "files"), ("both", "memory"), ("both", "network")):
        H.append([f"new {loc} {kind} 1 100 30", "req 0 1000 jar set:6b:76 set:73:736563726574 expose:6b", "req 1 1000 jar set:61:62",
                  f"req2 0 1001 jar / {garbage}", f"req2 0 1002 old:0 / {garbage} set:78:79", "req 0 1003 jar",
                  "req2 0 1004 old:0 set:7a:7a / none set:78:79", "req 0 1005 jar",
                  "req2 1 1006 jar / steal:0", "req2 1 1007 jar set:71:71 reset / steal:0 set:72:72", "req 1 1008 jar", "req 0 1009 jar",
                  "req2 0 1200 old:0 / old:1 set:78:79", "req 0 1201 jar",
                  "req2 2 1300 " + never_issued_sid(random.Random(5)) + " set:6b:76 / raw:" + (b"I" + b"0" * 31).hex() + " set:78:79", "req 2 1301 jar"])
    # network storage over 2 and 3 nodes (seeded C06-5: save routed by sid+payload): 16 browsers, set, read+update twice, read+clear, replay
    for kind in ("network2", "network3"):
        for loc in ("server", "both"):
            h = [f"new {loc} {kind} 1 1000 20"]
            for b in range(16):
                h.append(f"req {b} {1000 + b} jar set:6b:r{0x41 + b:02x}x30")
            for rnd in (1, 2):
                for b in range(16):
                    h.append(f"req {b} {1100 * rnd + b} jar set:6e:{rnd:02x}{b:02x} set:6b:r{0x61 + b:02x}x{30 + rnd}")
            for b in range(16):
                h.append(f"req {b} {3000 + b} jar")
            for b in range(0, 16, 2):
                h.append(f"req {b} {3100 + b} jar clear")
                h.append(f"req 9{b} {3100 + b} old:0")
            for b in range(16):
                h.append(f"req {b} {3200 + b} jar")
            H.append(h)
    # network storage, connection dropped between requests (seeded C06-8: transmit reconnects but does not re-send):
    # before a read, before an update, before a clear / reset, before the replay of a cleared identifier
    for kind in ("network", "network2"):
        for loc in ("server", "both"):
            H.append([f"new {loc} {kind} 1 1000 20", "req 0 1000 jar set:6b:r41x30", "drop", "req 0 1001 jar", "req 0 1002 jar set:6b:r42x31", "drop",
                      "req 0 1003 jar set:6b:r43x32", "req 0 1004 jar", "drop", "req 0 1005 jar clear", "req 9 1006 old:0", "req 0 1007 jar set:6b:r44x33",
                      "drop", "req 0 1008 jar reset", "drop", "req 9 1009 old:0", "req 0 1010 jar", "drop", "drop", "req 0 1011 jar srv:1 set:61:62", "req 0 1012 jar"])
    # a digit-grouping global locale must not leak into stored numbers (seeded C06-10: set<T> without the classic locale)
    for loc in ("server", "client"):
        H.append([f"new {loc} memory 1 100 2048 grp", "req 0 1000 jar set:6b:76 age:86400", "req 0 1001 jar", "req 0 1002 jar age:1234567 how:2",
                  "req 0 1003 jar", "req 0 1004 jar srv:0 age:999", "req 0 1005 jar"])
    # two forked workers must not issue the same identifier (seeded C06-11: per-thread entropy pool duplicated by fork)
    H.append(["new server files 1 100 2048", "req 0 1000 jar set:6b:76", "forksids", "forksids", "req 0 1001 jar"])
    # clear on a session that only exists client-side; replay of the old client cookie (inherent to client storage)
    H.append(["new both memory 1 100 2048", "req 0 1000 jar set:6b:76", "req 0 1001 jar clear", "req 9 1002 old:0", "req 9 1102 old:0"])
    # short_gc: more than five expired sessions, collected five at a time
    for kind in ("memory", "network"):
        h = [f"new server {kind} 1 10 2048"] + [f"req {b} {1000 + b} jar set:6b:{b:02x}" for b in range(8)]
        h += ["req 8 2000 jar set:6b:76", "req 8 2001 jar set:6b:77", "req 8 2002 jar clear", "req 8 2003 jar"]
        H.append(h)
    # path-like and malformed identifiers
    pl = (b"I../../etc/passwd" + b"0" * 16).hex()
    for kind in ("memory", "files", "network"):
        H.append([f"new server {kind} 1 100 2048", f"req 9 1000 raw:{pl}", f"req 9 1001 raw:{pl} set:6b:76", "req 9 1002 jar",
                  f"req 9 1003 raw:{pl} clear", "req 9 1004 raw:" + (b"I" + b"f" * 32).hex() + " set:6b:76", "req 9 1005 raw:" + (b"I" + b"f" * 32).hex()])
    # stale working values after clear() (documented quirk: deadline from the stale age, next request reads the default)
    H.append(["new server memory 1 100 2048", "req 0 1000 jar age:5 clear set:6b:76", "req 0 1004 jar", "req 0 1006 jar"])
    return H


FINDING_ID = "stale-settings-after-clear"
FINDING_HISTORY = ["new server memory 1 100 2048", "req 0 1000 jar age:5 clear set:6b:76", "req 0 1004 jar"]
# the behaviour as recorded: deadline and cookie age from the stale age 5; the next request reads age 100 and re-saves
FINDING_EXPECT = [
    "ok",
    "P - R 100,1,0,[] S ok C [@=I#0:5] J I#0,[] T [I#0@1005=010800006b76] A [sI#0]",
    "P I#0 R 100,1,0,[6b=76:0] S ok C [@=I#0:100;6b=-:del] J I#0,[] T [I#0@1104=010800006b76] A [lI#0;sI#0]",
]


def replay_finding(c, hbin):
    """replay the known-finding witness on the real code; KNOWN-FINDING only if it behaves exactly as recorded"""
    rc, out, err = c.run_lines(hbin, FINDING_HISTORY, args=(c.scratch,), timeout=120)
    c.extra_cov["finding_witness_output"] = out
    if rc != 0:
        c.violation("sanitizer abort / crash of the real code on the known-finding witness", {"history": FINDING_HISTORY, "stderr": err})
        return
    if out == FINDING_EXPECT:
        if c.is_known(FINDING_ID):
            c.known_finding(FINDING_ID, f"id={FINDING_ID} age(5); clear(); set(k,v) is saved with the stale age (deadline now+5, cookie age 5) "
                                        "and the next request reads the default age (witness gen/corpus/C06/stale_settings_after_clear.hist)")
        else:
            c.violation("working values set before clear() are used by save() but not persisted (not listed in known_findings.txt)",
                        {"history": FINDING_HISTORY, "impl_output": out})
    else:
        # no longer reproduces as recorded: say so in the log; the judge and the correspondence decide about the new behaviour
        c.log("known finding " + FINDING_ID + " no longer reproduces exactly as recorded: " + repr(out))


def systematic_histories():
    """thorough tier: every pair of operations from a small alphabet, in every location x storage x expiration mode,
    as two requests followed by reads just inside the renewal window, at the deadline and one second after it"""
    alphabet = ["set:6b:76", "set:6b:r41x40", "erase:6b", "clear", "expose:6b", "hide:6b", "age:20", "defage", "how:0", "how:1",
                "srv:1", "srv:0", "reset"]
    H = []
    for loc in ("client", "server", "both"):
        for kind in (("memory",) if loc == "client" else ("memory", "files")):
            for how in range(3):
                for a in alphabet:
                    for b in alphabet:
                        H.append([f"new {loc} {kind} {how} 50 30", f"req 0 1000 jar set:61:62 {a}", f"req 0 1004 jar {b}", "req 9 1005 old:0", "req 0 1006 jar",
                                  "req 0 1024 jar", "req 0 1054 jar", "req 0 1075 jar", "req 9 1076 old:0"])
    return H


def parse_corpus():
    res = []
    for f in sorted(glob.glob(os.path.join(ROOT, "gen", "corpus", "C06", "*.hist"))):
        lines = [l.strip() for l in open(f) if l.strip() and not l.startswith("#")]
        cur = None
        for l in lines:
            if l.startswith("new "):
                cur = [l]
                res.append((os.path.basename(f), cur))
            elif cur is not None:
                cur.append(l)
    return res


# ---------------------------------------------------------------------- run

def split_histories(cases):
    """indices [(start, end)] of histories in the flat case list"""
    idx = [i for i, l in enumerate(cases) if l.startswith("new ")]
    return [(a, b) for a, b in zip(idx, idx[1:] + [len(cases)])]


def judge(c, model, cases, out_i, judged_flags):
    """returns list of (index, reason) of judge failures"""
    lines = []
    where = []
    for (a, b), ok in zip(split_histories(cases), judged_flags):
        if not ok:
            continue
        for k in range(a, min(b, len(out_i))):
            lines.append(f"J {cases[k]} ;; {out_i[k]}")
            where.append(k)
    if not lines:
        return [], 0
    rc, jout, jerr = c.run_lines(model, lines)
    bad = []
    for k, o in zip(where, jout):
        if o != "1":
            bad.append((k, o))
    if rc != 0 or len(jout) != len(lines):
        c.broke("judge run", f"model driver rc={rc} answered {len(jout)}/{len(lines)} lines: {jerr[-500:]}")
    return bad, len(lines)


def history_of(cases, k):
    a = k
    while a > 0 and not cases[a].startswith("new "):
        a -= 1
    return a


def shrink(c, hbin, model, hist):
    """delta debugging on request lines: keep the judge failing (any line)"""
    # with several network nodes the node a record lands on depends on the (random) identifier: retry
    tries = 6 if (" network2 " in hist[0] or " network3 " in hist[0]) else 1

    def fails(h):
        for _ in range(tries):
            rc, out, err = c.run_lines(hbin, h, args=(c.scratch,), timeout=300)
            if rc != 0:
                return True
            rc, j, _ = c.run_lines(model, [f"J {a} ;; {b}" for a, b in zip(h, out)])
            if any(x != "1" for x in j):
                return True
        return False
    h = list(hist)
    changed = True
    budget = 200
    while changed and budget > 0:
        changed = False
        for i in range(len(h) - 1, 0, -1):
            budget -= 1
            cand = h[:i] + h[i + 1:]
            if len(cand) > 1 and fails(cand):
                h = cand
                changed = True
                break
    # drop single ops
    changed = True
    while changed and budget > 0:
        changed = False
        for i in range(1, len(h)):
            w = h[i].split()
            if w[0] != "req":
                continue
            for j in range(4, len(w)):
                budget -= 1
                cand = h[:i] + [" ".join(w[:j] + w[j + 1:])] + h[i + 1:]
                if fails(cand):
                    h = cand
                    changed = True
                    break
            if changed:
                break
    return h


def main():
    global OBLIGATIONS
    c = Check("C06")
    OBLIGATIONS = load_obligations()
    c.rule = ("cases = request lines of histories (new <location> <storage: memory|files|network|network2|network3> <expire> <timeout> <client_size_limit>; then "
              "req <browser> <now> <cookie: jar|none|raw|old|steal> <ops>): hand-written boundary histories (10 % window, deadline, "
              "packed limits, location=client+on_server, non-numeric _t/_h/_s, size switch + reset, short_gc > 5, path-like ids), corpus, "
              "random histories of 1..3 browsers (3..8 over 2 or 3 network nodes) + an attacker, 1..36 requests, 8 % of them two loads on one object (req2: set_cookie_adapter_and_reload with a stolen / malformed / never-issued / old / absent cookie), op mix set/erase/clear/expose/hide/age/default_age/"
              "expiration/default_expiration/on_server/reset_session, clock steps around 10 % of the age and around the deadline "
              "(12 % of histories also step backwards: correspondence only, not judged); non-trivial = the model's trace of the request "
              "loaded a non-empty session, wrote, cleared a presented cookie or raised; distinct = distinct (configuration, request line, trace)")
    c.trusted += [
        "translator translate/c06.py + translate/cexpr.py (packed widths/limits/header size, valid_sid, expiry comparisons of all backends, "
        "short_gc limit, dual switch condition and dispatch characters, cookie_age, session_age, delta, 0.1 factor, _t/_h/_s, '_' separator -> Gen.lean)",
        "hand-written control flow of Model.lean (load/save/update_exposed/session_sid/session_dual/session_cookies/storages), tied by the correspondence run",
        "x86-64 SysV bit-field layout of struct packed (low bits first, little endian), tied by the storage listing in the correspondence run",
        "double comparison `delta < timeout_val_*0.1` equals the exact rational comparison for |timeout_val_| < 2^31 (argument in design.d/C06.md), boundary cases in the corpus",
        "externals as parameters: encryptor+base64 (enc/dec with dec∘enc = id and forged ⇒ none; C05), OS entropy (Fresh), num_put/num_get of int (readInt∘showInt = id), std::map/std::string",
        "correspondence harness harness/c06.cpp (ASan+UBSan build of the working tree; real session_pool/session_interface/session_sid/session_dual/"
        "session_cookies with the hmac encryptor, real memory / file / tcp storages behind a logging decorator; virtual clock by interposed time())",
    ]
    c.assumptions += [
        "Fresh: identifiers from get_new_sid are pairwise distinct and distinct from attacker-chosen strings (unpredictability is not expressible: partial)",
        "dec (enc t d) = some (t,d); dec of anything the server did not produce = none (authenticated encryption, C05)",
        "readInt (showInt n) = some n for the numbers the interface writes itself",
        "clock is monotone across requests for the 'never after it ended' clause (backward moves revive sessions a storage has not collected yet)",
        "no 32-bit overflow in ages/clock (|values| < 2^30)",
        "network storage = session_tcp_storage against an in-process tcp_cache_service over a memory storage (modelled as the memory storage); file storage only through the session_storage interface",
    ]
    scale = 25 if c.tier == "thorough" else 1

    c.translate("c06.py")
    proved = c.prove(["Cppcms.C06.Props", "Cppcms.C06.Compose"], OBLIGATIONS, exe="c06_model")
    if c.tier == "thorough" and proved:
        c.leanchecker(["Cppcms.C06.Props", "Cppcms.C06.Compose"])
    model = c.model_exe()
    ok_impl = c.impl_build()
    hbin = c.harness("c06") if ok_impl else None

    hists = []   # (origin, lines, judged)
    if c.replay_path:
        rp = json.load(open(c.replay_path))
        if "history" in rp:
            hists.append(("replay", rp["history"], True))
    else:
        for name, h in parse_corpus():
            hists.append(("corpus:" + name, h, True))
        for h in special_histories(c.tier):
            hists.append(("special", h, True))
        if c.tier == "thorough":
            for h in systematic_histories():
                hists.append(("systematic", h, True))
        for _ in range(900 * scale):
            h, judged = gen_history(c.rng, c.tier)
            hists.append(("random", h, judged))

    if hbin and not c.replay_path:
        replay_finding(c, hbin)
    if hbin and os.path.exists(model) and hists:
        # one harness process per batch: a process can create only ~1000 storages with thread-specific connectors
        # (booster::thread_specific_ptr keys live as long as the thread that used them), so network histories are rationed
        batches, cur, nnet = [], [], 0
        for hst in hists:
            isnet = " network" in hst[1][0]
            if cur and ((isnet and nnet >= 250) or sum(len(x[1]) for x in cur) > 80000):
                batches.append(cur); cur, nnet = [], 0
            cur.append(hst); nnet += 1 if isnet else 0
        if cur:
            batches.append(cur)
        dist = {}
        all_cases, all_i, all_m, all_bad, all_diffs, njudged_total = [], [], [], [], [], 0
        crashed_any = None
        for bi, batch in enumerate(batches):
            cases = [l for _, h, _ in batch for l in h]
            judged_flags = [j for _, _, j in batch]
            rc_t, trace, _ = c.run_lines(model, cases, args=("trace",))
            cfg_of = {}
            curcfg = ""
            for k, l in enumerate(cases):
                if l.startswith("new "):
                    curcfg = l
                cfg_of[k] = curcfg
            tr = {k: trace[k] if k < len(trace) else "" for k in range(len(cases))}
            counter = {"k": -1}

            def nontrivial(cs, o, tr=tr, cfg_of=cfg_of, counter=counter):
                counter["k"] += 1
                k = counter["k"]
                t = tr.get(k, "")
                if not cs.startswith("req"):
                    return None
                if t.startswith("reload "):
                    t = t[7:]
                if t.startswith("loaded") or "written" in t or "err" in t or (t == "empty cleared" and " jar" not in cs and " none" not in cs):
                    return (cfg_of[k], cs, t)
                return None

            out_i, out_m, diffs, crashed = c.correspond(f"histories[{bi}]", cases, hbin, model, impl_args=(c.scratch,), nontrivial=nontrivial)
            for t in trace:
                dist[t] = dist.get(t, 0) + 1
            bad, njudged = judge(c, model, cases, out_i, judged_flags)
            njudged_total += njudged
            base = len(all_cases)
            all_cases += cases; all_i += out_i + [""] * (len(cases) - len(out_i)); all_m += out_m + [""] * (len(cases) - len(out_m))
            all_bad += [(base + k, why) for k, why in bad]
            all_diffs += [(base + k, cs, a, b) for k, cs, a, b in diffs]
            if crashed and not crashed_any:
                k = len(out_i)
                a0 = history_of(cases, min(k, len(cases) - 1))
                crashed_any = {"history": cases[a0:k + 1], "stderr": crashed["stderr"]}
        cases, out_i, out_m, bad, diffs = all_cases, all_i, all_m, all_bad, all_diffs
        c.extra_cov["trace_distribution"] = dist
        c.extra_cov["histories"] = len(hists)
        c.extra_cov["histories_judged"] = sum(1 for _, _, j in hists if j)
        c.extra_cov["harness_processes"] = len(batches)
        n = len(cases)
        c.samples = [{"case": cases[i], "impl": out_i[i][:400] if i < len(out_i) else None, "model": out_m[i][:400] if i < len(out_m) else None}
                     for i in sorted(set([1, 2, min(n - 1, 40), n // 3, n // 2, n - 1])) if i < n]
        c.extra_cov["judged_impl_outputs"] = njudged_total
        if crashed_any:
            c.violation("sanitizer abort / crash of the real code", dict(crashed_any, replay_cmd="bin/check C06 --replay <this file>"))
        seen_hist = set()
        for k, why in bad[:50]:
            a = history_of(cases, k)
            if a in seen_hist:
                continue
            seen_hist.add(a)
            hist = cases[a:k + 1]
            small = shrink(c, hbin, model, hist) if len(seen_hist) <= 3 else hist
            if "in the storage" in why and small[-1].startswith("req "):
                # show the consequence on what a request reads: replay the identifier that should have died
                small = small + [f"req 9 {small[-1].split()[2]} old:0"]
            for _ in range(12):     # identifiers are random: with several network nodes a rerun may not hit the wrong node
                rc, o2, _ = c.run_lines(hbin, small, args=(c.scratch,))
                rc, j2, _ = c.run_lines(model, [f"J {x} ;; {y}" for x, y in zip(small, o2)])
                if any(x != "1" for x in j2):
                    break
            rc, m2, _ = c.run_lines(model, small)
            c.violation("property predicate (Spec.lean) false on the implementation's answers: " + why,
                        {"history": small, "impl_output": o2, "model_output": m2, "judge": j2, "unshrunk_history": hist,
                         "replay_cmd": "bin/check C06 --replay <this file>"})
        if diffs and not bad and not crashed_any:
            k, cs, a, b = diffs[0]
            h0 = history_of(cases, k)
            c.broke("correspondence stream histories",
                    f"{len(diffs)} differing lines; first in history {cases[h0]!r} at line {k - h0}: {cs}\n impl ={a}\n model={b}")
            c.extra_cov["first_diff_history"] = cases[h0:k + 1]
        if c.replay_path:
            for i, cs in enumerate(cases):
                print("case :", cs[:300]); print("impl :", out_i[i] if i < len(out_i) else None); print("model:", out_m[i] if i < len(out_m) else None)
            rc, j2, _ = c.run_lines(model, [f"J {x} ;; {y}" for x, y in zip(cases, out_i)])
            print("judge:", j2)
    c.finish()


if __name__ == "__main__":
    main()
