#!/usr/bin/env python3
"""C12 — uploaded form data is reconstructed exactly under any chunking, within limits.
See DESIGN.md section 5 (C12) and design.d/C12.md.  Usage: checks/c12.py [--tier quick|thorough] [--replay file]"""
import os, sys, json, re, glob
sys.path.insert(0, os.path.join(os.path.dirname(os.path.abspath(__file__)), "..", "lib"))
from vcheck import *

P = "Cppcms.C12.Props."
OBLIGATIONS = [
    (P + "gen_matches_model", "state numbering, literals, one-byte transitions of consume() as regenerated from the source equal the model's"),
    (P + "loop_inlined", "the literal while(begin!=end){consume;switch} loop of on_content_progress = the single structural loop used by the proofs"),
    (P + "any_chunking_eq_single", "for all byte strings/limits/boundaries: outcome (status and parts) of any chunking = outcome of the one-chunk delivery"),
    (P + "chunking_independent", "cs1.join = cs2.join -> run cs1 = run cs2 (status and delivered parts)"),
    (P + "request_chunking_independent", "the same for the whole request (up-front limits, multipart / urlencoded / other bodies)"),
    (P + "feed_flatten", "the pieces get_buffer() lets through are the first content_length bytes of the stream, whatever the reads return and whatever the buffer size"),
    (P + "requestIO_cut_independent", "reads of any sizes, any buffer size, even a peer sending more than declared: what the application sees depends only on the byte stream"),
    (P + "matcher_correct", "content without the delimiter followed by the delimiter is emitted exactly; guard: CR not in the boundary key"),
    (P + "matcher_needs_guard_counterexample", "with a CR inside the boundary key the hand-rolled restart misses a delimiter"),
    (P + "multipart_roundtrip", "body built from accepted header blocks and delimiter-free contents, any chunking -> exactly those parts in order"),
    (P + "encodeHeader_ok", "the header block Spec.encodeHeader writes for a well-formed part (any bytes but CR/LF in names) is accepted as a whole and read back as that part's name/filename/mime"),
    (P + "multipart_roundtrip_parts", "WFparts ps, fields within the limit, no CR in the boundary key -> run (any chunking of Spec.encode ps) = ready ps: names, file names, MIME types, contents, order"),
    (P + "request_roundtrip", "end to end: Content-Type multipart/form-data; boundary=<token>, WFparts, any chunking -> the application gets exactly deliver ps (post() multimap and files() in order)"),
    (P + "field_limit_respected", "accepted parts, then a form field larger than the field limit, then anything: 413 under every chunking"),
    (P + "early_close_refused", "a complete well-formed body followed by anything, declared length greater than the body's: 400 under every chunking"),
    (P + "refusal_codes", "a multipart body is only ever refused with 400 or 413 (last_file() failure path unreachable)"),
    (P + "multipart_accept_iff", "no CR in bkey, disk ok: run (any chunking) = ready parts IFF the stream is --bkey (CRLF hdr content CRLF--bkey)* --CRLF of the declared length with hdr accepted by process_header, delimiter not ending early in content, fields within the limit; parts = those written"),
    (P + "malformed_refused", "a body of the declared length that is not such an encoding (missing/damaged closing delimiter, rejected header, end of data inside a part, junk after the close) -> 400 or 413 under every chunking"),
    (P + "declared_shorter_refused", "a body accepted at its true length, declared shorter (0 < cl < length) -> 400 or 413 under every chunking"),
    (P + "incomplete_never_delivered", "fewer bytes than declared have arrived (e.g. the connection ended): pending or refused, never handed to the application"),
    (P + "limits_respected", "declared length over the multipart limit (multipart) / content limit (other) -> 413 before any byte is looked at, whatever the bytes"),
    (P + "refused_not_partial", "a refused request delivers no field and no file"),
    (P + "raw_filter_sees_each_byte_once", "raw content filter: concatenation of the chunks it is given = the first content_length bytes, each once, in order; completes exactly at content_length"),
    (P + "multipart_filter_sees_each_part_once", "multipart filter, well-formed body, any chunking: callbacks minus progress reports = per part on_new_file(size 0), on_data_ready(full size), in order, then on_end_of_content"),
    (P + "filter_events_chunking_independent", "for every body the filter callbacks other than progress reports do not depend on the chunking"),
    (P + "readback_exact", "seekg(off) + read to EOF on a part returns exactly the bytes written from off on, in memory or spilled (block refills), any bytes incl. 0xFF at block boundaries"),
    (P + "delivery_reads_back_exactly", "form fields copied through read_file (after a filter may have read the part to its end) and files read by the application = deliver parts, byte for byte"),
    (P + "fb_invariant", "file_buffer over the regenerated overflow(): put area never beyond its capacity; in memory => capacity and held bytes <= limit"),
    (P + "spills_iff_exceeds_limit", "disk ok: every write accepted, content = bytes written, spilled to the temporary file iff more than limit bytes were written"),
    (P + "file_write_agrees", "the parser model's part-buffer abstraction (fileWrite) = the overflow()-level model: same acceptance, same content"),
    (P + "temp_files_released", "a part created by the parser leaves no temporary file after file::close() (regenerated conditions); a part made permanent keeps it"),
    (P + "unquote_quote_roundtrip", "protocol::unquote inverts the peer's quoted-string writer for every byte string"),
    (P + "parse_pair_roundtrip", "; key=\"value\" read by parse_pair and by content_type::parse gives key, value, rest exactly"),
    (P + "content_type_boundary_roundtrip", "multipart/form-data; boundary=token-or-quoted-string -> media type multipart/form-data and boundary CRLF--bkey"),
    (P + "request_roundtrip_quoted_boundary", "end-to-end round trip with the boundary sent as a quoted-string (any bytes but CR)"),
    (P + "malformed_urlencoded_refused", "a urlencoded POST body within limits with an item without '=' or with an empty name is refused with 400 (D11, fixed)"),
    (P + "urlencoded_roundtrip", "parse_form_urlencoded applied to k=v&... written by util::urlencode returns exactly the pairs, in order"),
    (P + "urlencoded_request_roundtrip", "... and the request delivers them as post() under any chunking"),
    (P + "urlencoded_witness", "the D11 witness a=b&c&e=f: parse_form_urlencoded has inserted a=b when it fails"),
]

TOKEN_CHARS = bytes(c for c in range(33, 127) if c not in b'()<>@,;:\\"/[]?={}')


def hx(b):
    return b.hex() if b else "-"


def gen_defaults():
    txt = open(os.path.join(LEAN, "Cppcms", "C12", "Gen.lean")).read()
    def g(name):
        m = re.search(r"def " + name + r" : Nat := (\d+)", txt)
        return int(m.group(1)) if m else 0
    return {"climit": g("dfltContentLimitKiB") * g("contentLimitUnit"), "mlimit": g("dfltMultipartLimitKiB") * g("multipartLimitUnit"),
            "mem": g("dfltFileInMemory"), "buf": g("dfltInputBuffer")}


# ------------------------------------------------------------------ generators

def quote(s):
    out = bytearray(b'"')
    for c in s:
        if c in b'"\\':
            out.append(92)
        out.append(c)
    out.append(34)
    return bytes(out)


def rand_key(rng):
    n = rng.choice((1, 1, 2, 3, 4, 8, 16, 30, 40, 69, 70, rng.randrange(1, 71)))
    fl = rng.random()
    if fl < 0.3:   # browser-like
        return (b"-" * rng.randrange(0, 30) + bytes(rng.choice(b"0123456789abcdefABCDEFxyz+") for _ in range(n)))[:70] or b"x"
    if fl < 0.6:
        return bytes(rng.choice(b"-\n x-ab") for _ in range(n)).strip(b" \n") or b"-"
    if fl < 0.85:
        return bytes(rng.choice(TOKEN_CHARS) for _ in range(n))
    if fl < 0.95:   # keys that must be sent as a quoted-string, starting/ending with the quoting characters themselves
        return (bytes([rng.choice(b'""""\\\\;=,')]) + bytes(rng.choice(TOKEN_CHARS) for _ in range(n)) + bytes([rng.choice(b'"\\x')]))[:70]
    return bytes(rng.choice([c for c in range(1, 256) if c != 13]) for _ in range(n))


def content_type_for(rng, key):
    istoken = all(c in TOKEN_CHARS for c in key)
    pre = rng.choice((b"multipart/form-data; boundary=", b"multipart/form-data;boundary=", b"Multipart/Form-Data ;  Boundary=",
                      b"multipart/form-data; charset=utf-8; boundary=", b" multipart/form-data; boundary="))
    if istoken and rng.random() < 0.7:
        return pre + key
    return pre + quote(key)


def rand_content(rng, delim, n):
    fl = rng.randrange(6)
    out = bytearray()
    if fl == 0:
        out = bytearray(rng.randrange(256) for _ in range(n))
    elif fl == 1:
        al = b"\r\n-" + delim[4:5]
        out = bytearray(rng.choice(al) for _ in range(n))
    elif fl == 2:   # partial delimiter look-alikes
        while len(out) < n:
            k = rng.randrange(0, len(delim))
            out += delim[:k]
            if rng.random() < 0.5:
                out += bytes([rng.choice(b"\r\n-xA\x00\xff")])
    elif fl == 3:   # delimiter with one byte changed / nested restarts
        while len(out) < n:
            k = rng.randrange(1, len(delim) + 1)
            d = bytearray(delim[:k])
            d[-1] = (d[-1] + rng.choice((1, 0x80, 13))) & 255
            out += d + rng.choice((b"", b"\r", b"\r\n", b"\r\n-", b"\r\n--"))
    elif fl == 4:
        out = bytearray(rng.choice(b"abc \r\n") for _ in range(n))
    else:
        out = bytearray(rng.choice((13, 10, 45, rng.randrange(256))) for _ in range(n))
    out = bytes(out[:n])
    # must not contain the delimiter
    while delim in out:
        i = out.index(delim)
        out = out[:i + len(delim) - 1] + bytes([(out[i + len(delim) - 1] + 1) & 255]) + out[i + len(delim):]
    return out


def rand_name(rng, allow_empty=True):
    if allow_empty and rng.random() < 0.08:
        return b""          # name="" / filename="" are legal
    fl = rng.random()
    n = rng.choice((1, 1, 2, 5, 9, 20))
    if fl < 0.5:
        return bytes(rng.choice(b"abcxyz_019") for _ in range(n))
    if fl < 0.8:
        return bytes(rng.choice(b'ab "\\;=,\xd7\xa9\x01\x7f') for _ in range(n))
    return bytes(rng.choice([c for c in range(1, 256) if c not in (10, 13)]) for _ in range(n))


MIMES = [b"text/plain", b"application/octet-stream", b"image/png", b"x/y", b"a-b.c+d/e_f"]


def rand_parts(rng, delim, maxparts=10, maxsize=64):
    k = rng.choice((0, 1, 1, 2, 3, rng.randrange(0, maxparts + 1)))
    parts = []
    for _ in range(k):
        isfile = rng.random() < 0.4
        size = rng.choice((0, 0, 1, 2, 5, rng.randrange(0, maxsize + 1)))
        parts.append({"name": rand_name(rng), "filename": rand_name(rng) if ((isfile and rng.random() < 0.8) or (not isfile and rng.random() < 0.2)) else b"",
                      "mime": rng.choice(MIMES) if isfile else b"", "data": rand_content(rng, delim, size)})
    return parts


def enc_header_canonical(p, wfn=False):
    h = b"Content-Disposition: form-data; name=" + quote(p["name"])
    if p["filename"] or wfn:
        h += b"; filename=" + quote(p["filename"])
    h += b"\r\n"
    if p["mime"]:
        h += b"Content-Type: " + p["mime"] + b"\r\n"
    return h + b"\r\n"


def enc_header_variant(rng, p):
    """other spellings a client may use; same meaning for the parser"""
    def val(v):
        if v and all(c in TOKEN_CHARS for c in v) and rng.random() < 0.5:
            return v
        return quote(v)
    cd = rng.choice((b"Content-Disposition", b"content-disposition", b"CONTENT-DISPOSITION"))
    h = b""
    if rng.random() < 0.2:
        h += b"X-Extra: something; else\r\n"
    h += cd + rng.choice((b": ", b":", b" : ")) + rng.choice((b"form-data", b"Form-Data"))
    items = [(rng.choice((b"name", b"Name")), p["name"])]
    if p["filename"] or rng.random() < 0.4:
        items.append((b"filename", p["filename"]))      # possibly filename="" (a file input left empty)
    if rng.random() < 0.3:
        items.insert(rng.randrange(len(items) + 1), (b"other", b"zz"))
    if rng.random() < 0.3:
        items.reverse()
    for k, v in items:
        # (no blank before '=': parse_pair demands the '=' right after the parameter name)
        h += rng.choice((b"; ", b";", b" ;  ")) + k + rng.choice((b"=", b"=  ", b"= ")) + val(v)
    h += rng.choice((b"", b"  ")) + b"\r\n"
    if p["mime"]:
        m = p["mime"] if rng.random() < 0.5 else p["mime"].upper()
        h += rng.choice((b"Content-Type: ", b"content-type:")) + m + rng.choice((b"", b"; charset=x", b' ; a="b"')) + b"\r\n"
    if rng.random() < 0.2:
        h += b"Content-Transfer-Encoding: binary\r\n"
    return h + b"\r\n"


def enc_body(key, parts, headers):
    out = b""
    for p, h in zip(parts, headers):
        out += b"--" + key + b"\r\n" + h + p["data"] + b"\r\n"
    return out + b"--" + key + b"--\r\n"


def cuts_random(rng, n, k):
    pts = sorted(rng.randrange(0, n + 1) for _ in range(k))
    return pts


def chunk_at(body, pts):
    out, prev = [], 0
    for p in list(pts) + [len(body)]:
        out.append(body[prev:p])
        prev = p
    return out


def part_str(p):
    return ",".join(hx(p[k]) for k in ("name", "filename", "mime", "data"))


def expect_request(parts, cl, climit, mlimit, mem, disk):
    """what the property demands for a WELL-FORMED multipart body with correct length (python oracle, independent of the model)"""
    if cl > mlimit:
        return "status 413"
    for p in parts:
        if not p["mime"] and len(p["data"]) > climit:
            return "status 413"
        if not disk and len(p["data"]) > mem:
            return "status 413"
    fields = [(p["name"], p["data"]) for p in parts if not p["mime"]]
    fields.sort(key=lambda kv: kv[0])      # stable: multimap order
    files = [p for p in parts if p["mime"]]
    post = ";".join(hx(k) + "=" + hx(v) for k, v in fields) or "-"
    fs = ";".join(part_str(p) for p in files) or "-"
    return f"status 200 post {post} files {fs}"


def form_malformed(body):
    """parse_form_urlencoded's own notion: some item (between '&') has no '=' or an empty name; an empty tail after a final '&' is fine"""
    if not body:
        return False
    items = body.split(b"&")
    if body.endswith(b"&"):
        items = items[:-1]
    return any((b"=" not in it) or it.startswith(b"=") for it in items)


def pct(s, rng=None):
    out = bytearray()
    for c in s:
        if (48 <= c <= 57) or (65 <= c <= 90) or (97 <= c <= 122) or c in b"-_.~":
            out.append(c)
        else:
            out += b"%%%02x" % c
    return bytes(out)


class Gen:
    def __init__(self, c, dflt):
        self.c, self.rng, self.dflt = c, c.rng, dflt
        self.cases = []          # lines
        self.meta = []           # per line: dict(kind=..., expect=..., group=...)
        self.ties = []

    def add(self, line, **m):
        if m.get("kind") in ("enc", "encform", "hdrok"):   # (enc covers both the `enc` and the `encb` op)
            self.ties.append((line, m))     # model-side only: Spec encoders / header predicate vs the generator's bytes
            return
        self.cases.append(line)
        self.meta.append(m)

    def rq(self, flt, ct, cl, climit, mlimit, mem, disk, buf, query, chunks, **m):
        self.add("rq %d %s %d %d %d %d %d %d %s %s" % (flt, hx(ct), cl, climit, mlimit, mem, 1 if disk else 0, buf, hx(query),
                                                    " ".join(hx(x) for x in chunks)), **m)

    # ---- well-formed multipart bodies
    def wf_case(self, small):
        rng = self.rng
        key = rand_key(rng)
        while b"\r" in key or key != key.strip(b" \t"):
            key = rand_key(rng)
        delim = b"\r\n--" + key
        parts = rand_parts(rng, delim, maxparts=10 if not small else 3, maxsize=40 if small else rng.choice((64, 300, 3000)))
        canonical = rng.random() < 0.5
        wfn = rng.random() < 0.5
        headers = [enc_header_canonical(p, wfn) if canonical else enc_header_variant(rng, p) for p in parts]
        body = enc_body(key, parts, headers)
        return key, content_type_for(rng, key), parts, headers, body, ("encb" if wfn else "enc") if canonical else None

    def multipart_cases(self, n_small, n_big, big_size=0):
        rng = self.rng
        for it in range(n_small + n_big):
            small = it < n_small
            key, ct, parts, headers, body, canonical = self.wf_case(small)
            if not small and big_size and parts:
                # one big part (spill / limits at scale)
                delim = b"\r\n--" + key
                parts[0]["data"] = rand_content(rng, delim, rng.randrange(big_size // 2, big_size))
                headers[0] = enc_header_canonical(parts[0], canonical == "encb")
                body = enc_body(key, parts, headers)
            cl = len(body)
            gid = f"wf{it}"
            if canonical:
                self.add("%s %s %s" % (canonical, hx(key), " ".join(hx(p[k]) for p in parts for k in ("name", "filename", "mime", "data"))),
                         kind="enc", expect=hx(body))
            for h, p in zip(headers, parts):
                self.add("hdrok " + hx(h), kind="hdrok", expect="1 " + ",".join(hx(p[k]) for k in ("name", "filename", "mime")))
            sizes = [len(p["data"]) for p in parts] or [0]
            fsz = [len(p["data"]) for p in parts if not p["mime"]] or [0]
            big = max(sizes)
            # parser level
            for mem in {-1, 0, max(0, big - 1), big, big + 1}:
                # (the model driver re-measures the part for every consume call: many cuts only on small bodies)
                pts = cuts_random(rng, cl, rng.choice((0, 1, 3, 8, cl // 7 + 1 if cl < 4000 else 40)))
                self.add("mp %s %d 1 %s" % (hx(ct), mem, " ".join(hx(x) for x in chunk_at(body, pts))),
                         kind="mp", parts=parts, group=None)
            if cl < 300:
                for cut in range(0, cl + 1):
                    self.add("mp %s 5 1 %s" % (hx(ct), " ".join(hx(x) for x in chunk_at(body, [cut]))), kind="mp", parts=parts)
            if big <= 4000:
                self.add("mp %s %d 0 %s" % (hx(ct), max(0, big - 1), hx(body)), kind="mp-nodisk", parts=parts, mem=max(0, big - 1))
            # request level: limits around the sizes, chunkings, filters
            mf = max(fsz)
            confs = [(cl + 100, cl + 100, big + 1, True), (mf, cl, big, True), (max(0, mf - 1), cl, max(0, big - 1), True),
                     (mf + 1, cl - 1, 0, True), (cl + 5, cl + 5, max(0, big - 1), False), (cl + 5, cl + 5, big, False)]
            for ci, (climit, mlimit, mem, disk) in enumerate(confs):
                exp = expect_request(parts, cl, climit, mlimit, mem, disk)
                if not disk and big > 4000:
                    continue      # (the executable model's write check is O(size) per byte when the disk is "full")
                chunkings = [[body], chunk_at(body, cuts_random(rng, cl, 3)), [bytes([b]) for b in body] if cl < 2000 else chunk_at(body, cuts_random(rng, cl, 40))]
                if cl < 300 and ci == 0:
                    chunkings += [chunk_at(body, [cut]) for cut in range(1, cl)]
                for chs in chunkings:
                    # the executable model re-measures the part at every chunk end: keep #pieces x size moderate
                    if cl < 4000:
                        buf = rng.choice((1, 2, 7, 64, 1024, 65536, rng.randrange(1, 65537)))
                    else:
                        buf = rng.choice((512, 1024, 4096, 65536, rng.randrange(max(512, cl // 64), 65537)))
                    flt = rng.choice((0, 0, 2, 4, 4)) if cl < 4000 else rng.choice((0, 0, 4))
                    self.rq(flt, ct, cl, climit, mlimit, mem, disk, buf, b"", chs, kind="rq-wf", expect=exp,
                            group=(gid, ci), body=body, parts=parts)
            # raw filter sees every byte once
            self.rq(1, ct, cl, cl, cl, 0, True, rng.choice((1, 5, 64, 65536)) if cl < 4000 else 4096, b"q=1", chunk_at(body, cuts_random(rng, cl, 4)),
                    kind="rq-raw", body=body)
            # declared length wrong: longer than the body (closing boundary before the end -> 400 / still waiting), shorter (-> 400)
            self.rq(0, ct, cl + 1, cl + 100, cl + 100, 10, True, 64, b"", [body, b"x"], kind="rq-long", expect="status 400")
            self.rq(0, ct, cl + 3, cl + 100, cl + 100, 10, True, 64, b"", [body], kind="rq-long", expect="status 400")
            if cl > 1:
                self.rq(0, ct, cl - 1, cl + 100, cl + 100, 10, True, 64, b"", [body], kind="rq-short", expect="status 400")
            if it % 7 == 0:   # synchronous application, service defaults
                d = self.dflt
                self.rq(3, ct, cl, d["climit"], d["mlimit"], d["mem"], True, d["buf"], b"a=1&b=2", chunk_at(body, cuts_random(rng, cl, 2)),
                        kind="rq-wf", expect=expect_request(parts, cl, d["climit"], d["mlimit"], d["mem"], True), group=(gid, "plain"), body=body)

    # ---- read-back: parts spilled to a temporary file (and kept in memory) whose bytes at the get-area refill
    #      boundaries (multiples of file_buffer::buffer_size = 1024 from the seek position; the in-memory growth steps
    #      64,128,...) are 0xFF / 0x00 / 0x80 / 0x1A; fields and files; read back by the application, by read_file and
    #      by a filter
    def readback_cases(self, n):
        rng = self.rng
        for it in range(n):
            key = bytes(rng.choice(b"abcXYZ019") for _ in range(rng.randrange(1, 12)))
            ct = b"multipart/form-data; boundary=" + key
            delim = b"\r\n--" + key
            parts = []
            for _ in range(rng.choice((1, 1, 2, 3))):
                size = rng.choice((1, 63, 64, 65, 1023, 1024, 1025, 2048, 2049, 3072, 4097, rng.randrange(1, 9000)))
                special = rng.choice((255, 255, 255, 0, 128, 26))
                fill = rng.choice((b"x", b"\xff", b"\x00", bytes([rng.randrange(256)])))
                d = bytearray(fill * size) if rng.random() < 0.5 else bytearray(rng.randrange(256) for _ in range(size))
                for base in (0, 1, 1023, 1024, 1025, size // 2, 64):
                    for pos in range(base % 1024 if base < 1024 else 0, size, 1024):
                        if rng.random() < 0.8:
                            d[pos] = special
                    if base < size and rng.random() < 0.5:
                        d[base] = special
                for pos in range(0, size, 1024):
                    d[pos] = special if rng.random() < 0.9 else d[pos]
                d = bytes(d)
                while delim in d:
                    i = d.index(delim)
                    d = d[:i] + b"Z" + d[i + 1:]
                isfile = rng.random() < 0.5
                parts.append({"name": rand_name(rng), "filename": b"f.bin" if isfile else b"", "mime": b"application/octet-stream" if isfile else b"", "data": d})
            headers = [enc_header_canonical(p) for p in parts]
            body = enc_body(key, parts, headers)
            cl = len(body)
            big = max(len(p["data"]) for p in parts)
            gid = f"rb{it}"
            for mem in (0, 10, 1023, 1024, max(0, big - 1), big, 131072):
                pts = cuts_random(rng, cl, rng.choice((0, 1, 5)))
                self.add("mp %s %d 1 %s" % (hx(ct), mem, " ".join(hx(x) for x in chunk_at(body, pts))), kind="mp", parts=parts)
                exp = expect_request(parts, cl, cl + 10, cl + 10, mem, True)
                for flt in (0, 4, 2):
                    buf = rng.choice((64, 700, 1024, 4096, 65536))
                    self.rq(flt, ct, cl, cl + 10, cl + 10, mem, True, buf, b"", chunk_at(body, cuts_random(rng, cl, rng.choice((0, 2)))),
                            kind="rq-wf", expect=exp, group=(gid, mem), body=body, parts=parts)

    # ---- per-field limit: everything that ends up in post() (no Content-Type; with or without a file name, also
    #      filename="") is bounded by content_length_limit; sizes limit-1, limit, limit+1, >> limit
    def field_limit_cases(self, n):
        rng = self.rng
        for it in range(n):
            key = bytes(rng.choice(b"abcXYZ019") for _ in range(rng.randrange(1, 12)))
            ct = b"multipart/form-data; boundary=" + key
            delim = b"\r\n--" + key
            L = rng.choice((0, 1, 2, 10, 100, 1000))
            for si, size in enumerate((max(0, L - 1), L, L + 1, 10 * L + 50)):
                shape = rng.choice(("fname", "fname", "fname-empty", "plain"))
                big = {"name": rand_name(rng), "filename": {"fname": b"upload.txt", "fname-empty": b"", "plain": b""}[shape], "mime": b"",
                       "data": rand_content(rng, delim, size)}
                others = [{"name": rand_name(rng), "filename": b"", "mime": b"", "data": rand_content(rng, delim, rng.randrange(0, L + 1))} for _ in range(rng.randrange(0, 3))]
                if rng.random() < 0.5:
                    others.append({"name": b"f", "filename": b"big.bin", "mime": b"application/octet-stream", "data": rand_content(rng, delim, 3 * L + 7)})
                parts = others[:1] + [big] + others[1:]
                headers = [enc_header_canonical(p, shape == "fname-empty") for p in parts]
                body = enc_body(key, parts, headers)
                cl = len(body)
                exp = expect_request(parts, cl, L, cl + 10, 100, True)
                for flt in (0, 2, 4):
                    chs = rng.choice(([body], chunk_at(body, cuts_random(rng, cl, 3)), [bytes([x]) for x in body] if cl < 1500 else [body]))
                    self.rq(flt, ct, cl, L, cl + 10, 100, True, rng.choice((1, 7, 64, 65536)) if cl < 4000 else 4096, b"", chs,
                            kind="rq-wf", expect=exp, group=(f"fl{it}-{si}", 0), body=body, parts=parts)

    # ---- file_buffer put area: write schedules (sputc / sputn) against memory limits that are and are not of the form 64*2^k
    def fb_cases(self, n):
        rng = self.rng
        for it in range(n):
            limit = rng.choice((0, 1, 10, 63, 64, 65, 100, 127, 128, 129, 1000, 1023, 1024, 1025, 3000, rng.randrange(0, 4000)))
            total = rng.choice((0, 1, limit, limit + 1, max(0, limit - 1), limit + 24, 2 * limit + 3, rng.randrange(0, 4200)))
            total = min(total, 4200)
            data = bytes(rng.choice((255, 0, rng.randrange(256))) for _ in range(total))
            ops, left = [], total
            while left > 0:
                k = rng.choice((0, 0, 1, 2, 7, 63, 64, 65, 700, 1024, 1025, left))
                want = 1 if k == 0 else k
                if want > left:
                    k = left
                    want = left
                ops.append(k)
                left -= want
            if not ops:
                ops = [0] if total else []
            if not ops:
                continue
            disk = rng.random() < 0.85
            self.add("fb %d %d %s %s" % (limit, 1 if disk else 0, hx(data), ",".join(map(str, ops))), kind="fb", limit=limit, disk=disk, data=data, ops=ops)

    # ---- malformed multipart
    def malformed_cases(self, n):
        rng = self.rng
        for it in range(n):
            key, ct, parts, headers, body, _ = self.wf_case(True)
            b = bytearray(body)
            extra_bodies = []
            op = rng.randrange(10)
            if op == 0 and b:
                b[rng.randrange(len(b))] = rng.randrange(256)
            elif op == 1 and b:
                del b[rng.randrange(len(b))]
            elif op == 2:
                b.insert(rng.randrange(len(b) + 1), rng.choice(b"\r\n-x\x00"))
            elif op == 3:
                b = b[:rng.randrange(len(b) + 1)]
            elif op == 4:
                b += bytes(rng.choice(b"\r\n-x") for _ in range(rng.randrange(1, 6)))
            elif op == 5:
                b = bytearray(rng.randrange(256) for _ in range(rng.randrange(0, 60)))
            elif op == 6:   # header damage
                i = bytes(b).find(b"Content-")
                if i >= 0:
                    j = i + rng.randrange(0, 30)
                    b[j:j + 1] = bytes([rng.choice(b'";=:\r\n \\')])
                    if rng.random() < 0.3:   # an empty unquoted parameter value (the parser refuses it)
                        b = bytearray(bytes(b).replace(b"\r\n\r\n", rng.choice((b"; filename=\r\n\r\n", b"; name=\r\n\r\n", b"; filename=;x=1\r\n\r\n")), 1))
            elif op == 7:   # CR/LF runs around the end of the header block (the naive CRLFCRLF scanner)
                run = bytes(rng.choice(b"\r\n\r\nx") for _ in range(rng.randrange(2, 9)))
                b = bytearray(b"--" + key + b"\r\nContent-Disposition: form-data; name=a" + run + rng.choice((b"", b"\r\n\r\n", b"\n\r\n")) +
                              b"data\r\n--" + key + b"--\r\n")
            elif op == 8:   # damaged closing delimiter: every variant
                if bytes(b).endswith(b"--\r\n"):
                    closers = (b"--\n\n", b"--\r\r", b"--\r", b"-\r\n", b"--\r\n\r\n", b"--\n", b"--", b"\r\n", b"--\n\r", b"-x\r\n", b"--\r\n ", b"--\n\n\n")
                    extra_bodies = [bytes(b[:-4]) + cl_ for cl_ in closers[1:]]
                    b = b[:-4] + closers[0]
            else:           # boundary with CR inside (outside the theorems' guard; model and code must still agree)
                key = rng.choice((b"x\r\n--xy", b"a\rb", b"\r", b"q\r\n--q"))
                ct = b"multipart/form-data; boundary=" + quote(key)
                delim = b"\r\n--" + key
                data = rng.choice((b"\r\n--x", b"\r\n--q\r\n--", b"a\r", b"zz\r\n--a\r")) + bytes(rng.choice(b"\r\n-xq") for _ in range(rng.randrange(0, 8)))
                b = bytearray(b"--" + key + b"\r\nContent-Disposition: form-data; name=a\r\n\r\n" + data + delim + b"--\r\n")
            for xb in extra_bodies:
                self.rq(0, ct, len(xb), len(xb) + 10, len(xb) + 10, 100, True, 64, b"", [xb], kind="rq-mal")
                self.add("mp %s 100 1 %s" % (hx(ct), hx(xb)), kind="mp-mal")
            body2 = bytes(b)
            cl = len(body2)
            pts = cuts_random(rng, cl, rng.choice((0, 1, 2, 5)))
            self.add("mp %s %d %d %s" % (hx(ct), rng.choice((-1, 0, 3, 100)), rng.choice((1, 1, 1, 0)), " ".join(hx(x) for x in chunk_at(body2, pts))), kind="mp-mal")
            if cl:
                gid = f"mal{it}"
                for chs in ([body2], chunk_at(body2, pts), [bytes([x]) for x in body2]):
                    self.rq(rng.choice((0, 2)), ct, cl, cl + 10, cl + 10, rng.choice((0, 3, 100)), True, rng.choice((1, 3, 64, 65536)), b"", chs,
                            kind="rq-mal", group=(gid, 0))

    # ---- content types
    def ct_cases(self, n):
        rng = self.rng
        fixed = [b"", b"text/plain", b" Text/HTML ; Charset=UTF-8", b"a/b;c=d;c=e", b'a/b; x="q\\"z" ; y=1', b"a/", b"/b", b"a b/c", b'a/b; x="unterminated',
                 b"a/b;\r\n x=y", b"a/b ; x = y", b"multipart/form-data", b"multipart/form-data; boundary=", b'multipart/form-data; boundary=""',
                 b"a/b; x=\xff", b"a/b;;x=y", b"a/b; =y", b"a/b; x=y z=w", b'a/b; x="a\\', b"\r\n a/b", b"a/b; x=\"\r\n\""]
        for s in fixed:
            self.add("ct " + hx(s), kind="ct")
        al = b'ab/;= "\\\r\n\t,:Z-\xe9'
        for _ in range(n):
            s = bytes(rng.choice(al) for _ in range(rng.randrange(0, 24)))
            if rng.random() < 0.5:
                s = b"x/y" + s
            self.add("ct " + hx(s), kind="ct")
            if rng.random() < 0.3:
                self.add("mp %s -1 1 %s" % (hx(b"multipart/form-data" + s), hx(b"--x--\r\n")), kind="mp-mal")

    # ---- urlencoded / other bodies
    # ---- configured limits: KiB in the settings -> bytes in request().limits(), for every int the settings accept
    def limit_cases(self, n):
        rng = self.rng
        vals = [0, 1, 1024, 65536, 2097151, 2097152, 2097153, 4194304, 6291456, 2147483647, "-"]
        pairs = [(a, b) for a in vals for b in (1024, "-")] + [(1024, b) for b in vals] + [(2097152, 4194304), (2147483647, 2147483647)]
        pairs += [(rng.randrange(0, 1 << 31), rng.randrange(0, 1 << 31)) for _ in range(n)]
        for a, b in pairs:
            ea = 1024 * 1024 if a == "-" else a * 1024
            eb = 64 * 1024 * 1024 if b == "-" else b * 1024
            self.add(f"lim {a} {b}", kind="lim", expect=f"limits {ea} {eb}")

    def form_cases(self, n):
        rng = self.rng
        ct = b"application/x-www-form-urlencoded"
        fixed = [b"a=b&c&e=f", b"a=b", b"a=b&", b"&a=b", b"a=b&&c=d", b"=v", b"a=", b"a", b"a=b=c", b"a=%41%zz+%4", b"a=1&a=0&B=2&a=3", b"%3d=%26"]
        for k in range(n + len(fixed)):
            pairs = None
            if k < len(fixed):
                body = fixed[k]
            elif rng.random() < 0.5:   # well-formed
                pairs = [(rand_name(rng), rand_name(rng) if rng.random() < 0.8 else b"") for _ in range(rng.randrange(1, 6))]
                body = b"&".join(pct(a) + b"=" + pct(b) for a, b in pairs)
                self.add("encform " + " ".join(hx(x) for kv in pairs for x in kv), kind="encform", expect=hx(body))
            else:
                body = bytes(rng.choice(b"ab=&%+1\x00\xff") for _ in range(rng.randrange(1, 16)))
            cl = len(body)
            mal = form_malformed(body)
            query = body if (b"\x00" not in body and rng.random() < 0.7) else b""
            the_ct = ct if rng.random() < 0.85 else rng.choice((b"Application/X-WWW-Form-Urlencoded; charset=utf-8", b"text/plain", b"application/json", b""))
            is_ue = the_ct.lower().startswith(b"application/x-www-form-urlencoded")
            gid = f"form{k}"
            for chs in ([body], [bytes([x]) for x in body], chunk_at(body, cuts_random(rng, cl, 2))):
                self.rq(rng.choice((0, 0, 2, 3)), the_ct, cl, max(cl, 1 << 20), 1 << 26, 131072, True, 65536, query, chs,
                        kind="rq-form", malformed=(mal and is_ue), body=body, group=(gid, 0),
                        pairs=(pairs if (is_ue and not mal) else None))
            # limits: size-1, size, size+1
            for lim in (cl - 1, cl, cl + 1):
                if lim >= 0:
                    self.rq(0, the_ct, cl, lim, 0, 0, True, 16, b"", [body], kind="rq-form-limit",
                            expect=None if lim >= cl else "status 413", malformed=(mal and is_ue and lim >= cl))
            self.rq(0, the_ct, cl + 2, cl + 10, 0, 0, True, 16, b"", [body], kind="rq-form-short", expect="waiting")


def m_parts(m, cs):
    return m.get("parts") or []


def nontrivial_key(cs, o):
    """distinct cases that reached a non-trivial branch of the model: a part header was completed or the closing
    boundary reached (mp), at least one on_content_progress call was made (rq), a media type was recognised (ct)"""
    w = cs.split(" ", 1)[0]
    if w == "mp":
        toks = o.split(" F ")[0].split()
        return cs if any(t.startswith(("1/", "3/", "5/")) for t in toks) else None
    if w == "rq":
        return cs if "| sizes -" not in o and "|" in o else None
    if w == "ct":
        return cs if not o.startswith("- ") else None
    if w == "fb":
        return cs if " 0/" in (" " + o) else None      # the buffer spilled
    return None


def load_corpus(g):
    d = os.path.join(ROOT, "gen", "corpus", "C12")
    for f in sorted(glob.glob(os.path.join(d, "*.case"))):
        for line in open(f):
            line = line.strip()
            if not line or line.startswith("#"):
                continue
            m = {"kind": "corpus", "file": os.path.basename(f)}
            if "\t" in line:
                line, ann = line.split("\t", 1)
                m.update(json.loads(ann))
                if "parts_hex" in m:
                    m["parts"] = [{"name": q["name"].encode(), "filename": q["filename"].encode(), "mime": q["mime"].encode(),
                                   "data": bytes.fromhex(q["data"])} for q in m.pop("parts_hex")]
                if isinstance(m.get("group"), list):
                    m["group"] = tuple(m["group"])
            g.add(line, **m)


def main():
    c = Check("C12")
    c.rule = ("cases = lines for the multipart_parser harness (mp: content type, memory limit, disk ok, chunks), the request harness "
              "(rq: filter kind, content type, declared length, limits, buffer size, query, chunks as returned by read), content types (ct), "
              "and model-side ties (enc/encform/hdrok: Spec encoders vs the generator's bytes). Generators: 0..10 parts, contents from random bytes "
              "and adversarial CR/LF/dash/delimiter-prefix runs, boundaries 1..70 chars quoted/unquoted, canonical and variant header spellings; "
              "every 2-cut for bodies < 300 B, byte-by-byte, random cuts, buffer sizes 1..64 KiB; limits at size-1,size,size+1; a malformed stream "
              "(byte flips, truncation, junk, damaged headers, CR in boundary). non-trivial = model output is not an immediate refusal/bad-op "
              "(at least one consume step beyond the first boundary); distinct = distinct case lines")
    c.trusted += [
        "translator translate/c12.py (enums, literals, one-byte transitions, byte classes, status codes, limit defaults; shape checks of consume(), process_header, parse_pair, skip_ws, unquote, on_content_progress, on_content_start, parse_form_urlencoded)",
        "hand-written control flow of Model.lean (pstep/consume/wloop/progress/run, header parsing, content_type::parse, deliver, parseForm), tied by the correspondence runs on cppcms::impl::multipart_parser and on http::request driven through the real cgi::connection::load_content loop",
        "harness/c12.cpp + c12_request.h: a cgi::connection subclass plays the front-end (exact read sizes); ASan+UBSan build of the working tree",
        "externals: std::streambuf/std::string/std::multimap semantics; the temp-file system calls of file_buffer are one Boolean (diskOk); util::urldecode is C15's model",
    ]
    c.assumptions += ["a part's file_buffer write fails only when it has to spill (> file_in_memory_limit) and the temporary file cannot be created (diskOk=false)",
                      "matcher_correct / roundtrip: CR does not occur in the boundary key; reads never exceed the room get_buffer() offers"]
    thorough = c.tier == "thorough"

    c.translate("c12.py")
    proved = c.prove(["Cppcms.C12.Props"], OBLIGATIONS, exe="c12_model")
    if thorough and proved:
        c.leanchecker(["Cppcms.C12.Props"])
    model = c.model_exe()
    ok_impl = c.impl_build()
    hbin = c.harness("c12") if ok_impl else None
    dflt = gen_defaults()

    g = Gen(c, dflt)
    if c.replay_path:
        rp = json.load(open(c.replay_path))
        if "case" in rp:
            g.add(rp["case"], **rp.get("meta", {"kind": "replay"}))
        for v in rp.get("further_failing_cases", []):
            if "case" in v:
                g.add(v["case"], **v.get("meta", {"kind": "replay"}))
    else:
        load_corpus(g)
        if thorough:
            g.multipart_cases(220, 24, big_size=262144)
            g.readback_cases(150)
            g.field_limit_cases(60)
            g.fb_cases(3000)
            g.malformed_cases(2500)
            g.ct_cases(4000)
            g.form_cases(800)
            g.limit_cases(60)
        else:
            g.multipart_cases(36, 6, big_size=40000)
            g.readback_cases(25)
            g.field_limit_cases(12)
            g.fb_cases(400)
            g.malformed_cases(350)
            g.ct_cases(500)
            g.form_cases(120)
            g.limit_cases(12)

    if hbin and os.path.exists(model) and g.cases:
        cases, meta = g.cases, g.meta
        with open(os.path.join(c.scratch, "cases.txt"), "w") as f:
            f.write("\n".join(cases) + "\n")
        out_i, out_m, diffs, crashed = c.correspond(
            "multipart+request", cases, hbin, model,
            nontrivial=nontrivial_key)
        pick = [0, len(cases) // 5, len(cases) // 2, len(cases) - 1] if len(cases) > 10 else range(len(cases))
        c.samples = [{"case": cases[i][:400], "impl": (out_i[i] if i < len(out_i) else None) and out_i[i][:400],
                      "model": (out_m[i] if i < len(out_m) else None) and out_m[i][:400]} for i in pick]
        dist = {}
        for m in meta:
            dist[m.get("kind", "?")] = dist.get(m.get("kind", "?"), 0) + 1
        c.extra_cov["case_kinds"] = dist

        # model-side ties
        if g.ties:
            rc, tout, terr = c.run_lines(model, [l for l, _ in g.ties])
            nbad = 0
            for (l, m), o in zip(g.ties, tout + [None] * len(g.ties)):
                if o != m["expect"]:
                    nbad += 1
                    if nbad <= 3:
                        c.broke("Spec tie " + m["kind"], f"case {l[:300]} model says {str(o)[:200]} generator says {m['expect'][:200]}")
            c.extra_cov["spec_tie_cases"] = len(g.ties)
        # ---------------------------------------------------------------- judge (on the implementation's outputs)
        bad = []     # (index, why)
        groups = {}
        known_hits = {}
        for k, (cs, m) in enumerate(zip(cases, meta)):
            if k >= len(out_i):
                break
            o = out_i[k]
            kind = m.get("kind")
            head = o.split(" get ")[0] if " get " in o else o
            for flag in ("DELIVERED-ON-ERROR", "DELIVERED-EARLY", "TEMP-FILES-LEFT", "BAD-ROOM", "NO-EARLY-MAIN", "stuck", "exception", "pointer-out-of-range", "eof-with-rest", "!size=", "!reread@", "FILTER-SHORT-READ"):
                if flag in o:
                    bad.append((k, "harness flag " + flag))
            if kind == "fb":
                # in memory exactly while not more than `limit` bytes are held; every write accepted when the disk works
                # (else exactly the writes that fit); read-back = the bytes accepted
                toks, _, back = o.partition(" R ")
                held, okj = 0, True
                for t, kk in zip(toks.split(), m["ops"]):
                    want = 1 if kk == 0 else kk
                    f = t.split("/")
                    if len(f) != 3:
                        okj = False; break
                    inmem, size, got = int(f[0]), int(f[1]), int(f[2])
                    if m["disk"] or held + want <= m["limit"]:
                        okj = okj and got == want
                    else:
                        okj = okj and got < want
                    held += got
                    okj = okj and size == held and inmem == (1 if held <= m["limit"] else 0)
                    if got != want:
                        break
                if not okj or back != hx(m["data"][:held]):
                    bad.append((k, "file_buffer: in_memory()/size()/read-back do not follow 'in memory iff not more than limit bytes'"))
            if kind == "mp":
                want = ";".join(part_str(p) for p in m["parts"]) or "-"
                toks, _, files = o.partition(" F ")
                if files != want or not toks.split() or not toks.split()[-1].startswith("5/"):
                    bad.append((k, "multipart_parser did not return the encoded parts / eof"))
            if kind == "lim" and o != m["expect"]:
                bad.append((k, "configured limit (KiB) is not the byte limit a request starts with: expected `%s`" % m["expect"]))
            if kind in ("rq-wf", "rq-long", "rq-short", "rq-form-short", "rq-form-limit") and m.get("expect"):
                if head != m["expect"]:
                    bad.append((k, f"expected `{m['expect'][:120]}`"))
            if kind == "rq-wf" and cs.startswith("rq 4 ") and head.startswith("status 200"):
                # the reading filter must have got every part's content, byte for byte, out of file.data() in on_data_ready
                mm = re.search(r" rd (\S+)", o)
                if not mm or mm.group(1) != hx(b"".join(p["data"] for p in m_parts(m, cs))):
                    bad.append((k, "a multipart filter reading file.data() in on_data_ready did not get the parts' contents byte for byte"))
            if kind == "rq-wf" and cs.startswith(("rq 2 ", "rq 4 ")) and head.startswith("status 200") and (len(cs) < 20000 or cs.startswith("rq 2 ")):
                # multipart filter: every part announced once (on_new_file, size 0) and completed once (on_data_ready, its size),
                # in order, progress sizes never decreasing within a part, then on_end_of_content
                mm = re.search(r" ev (\S+)", o)
                evs = mm.group(1).split(",") if mm and mm.group(1) != "-" else []
                want = []
                for p in m_parts(m, cs):
                    want += ["new:" + hx(p["name"]) + ":0", "ready:%d" % len(p["data"])]
                got = [e for e in evs if not e.startswith("prog:")]
                ok = got == want + ["end"]
                last = 0
                for e in evs:
                    if e.startswith("new:"):
                        last = 0
                    elif e.startswith(("prog:", "ready:")):
                        v = int(e.split(":")[1])
                        ok = ok and v >= last
                        last = v
                if not ok:
                    bad.append((k, "multipart filter did not see each part exactly once (new/ready/end trace)"))
            if kind == "rq-raw":
                mm = re.search(r" raw (\S+) ev (\S+)", o)
                if not head.startswith("status 200 post - files -") or not mm or mm.group(1) != hx(m["body"]) or not mm.group(2).endswith("end"):
                    bad.append((k, "raw filter did not see every byte exactly once followed by end"))
            if m.get("malformed"):
                if head.startswith("status 200"):
                    wid = "urlencoded-post-partial"
                    if c.is_known(wid) and m.get("file"):
                        known_hits[wid] = (k, o)
                    else:
                        bad.append((k, "malformed urlencoded body delivered (in part) with status 200 instead of 400"))
                elif not head.startswith("status 400"):
                    bad.append((k, "malformed urlencoded body: expected 400"))
            if kind == "rq-form" and m.get("pairs") is not None:
                # urlencoded_request_roundtrip judged on the real code, independently of the model: the body was written by
                # this script's percent-encoder from `pairs`, so post() must be exactly those pairs (a multimap: ordered by
                # name, equal names in body order) - whatever bytes the names and values contain ('=' and '&' included)
                hx0 = lambda b: b.hex() if b else "-"
                want_post = ";".join(hx0(a) + "=" + hx0(b) for a, b in sorted(m["pairs"], key=lambda kv: kv[0]))
                pv = head[len("status 200 post "):].split(" files ")[0] if head.startswith("status 200 post ") else None
                if pv != want_post:
                    bad.append((k, "urlencoded round trip: post() is `%s`, the pairs that were encoded are `%s`" % (str(pv)[:120], want_post[:120])))
            if kind and kind.startswith("rq") and head.startswith("status 200 post ") and " files " in head:
                w_ = cs.split(" ", 6)
                ctl = bytes.fromhex(w_[2]).lower() if w_[2] != "-" else b""
                if b"multipart/form-data" in ctl and w_[1] != "3":
                    climit_ = int(w_[4])
                    pv = head[len("status 200 post "):].split(" files ")[0]
                    for kv in ([] if pv == "-" else pv.split(";")):
                        v = kv.split("=")[1]
                        if v != "-" and len(v) // 2 > climit_:
                            bad.append((k, "a post() value of %d bytes was delivered although content_length_limit is %d" % (len(v) // 2, climit_)))
                            break
            if kind and kind.startswith("rq") and k < len(out_m) and not cs.startswith("rq 1 "):
                # multipart_accept_iff / malformed_refused are proved of the model: a body the model refuses and the code
                # delivers (or the other way round) is a failing input of "malformed is refused" / "well-formed is delivered"
                hm = out_m[k].split(" get ")[0]
                if hm.startswith("status 4") and head.startswith("status 200"):
                    bad.append((k, "a body outside the accepted grammar (model: %s) is delivered with status 200" % hm))
                elif hm.startswith("status 200") and head.startswith("status 4"):
                    bad.append((k, "a body inside the accepted grammar is refused (%s)" % head[:12]))
            if m.get("group") is not None and kind and kind.startswith("rq"):
                groups.setdefault(m["group"], []).append((k, head))
        # chunking independence on the real code: same bytes, same configuration -> same status and data
        for gk, lst in groups.items():
            ref = lst[0][1]
            for k, h in lst[1:]:
                if h != ref:
                    bad.append((k, f"outcome depends on the chunking (group {gk}): `{h[:100]}` vs `{ref[:100]}` of case {lst[0][0]}"))
        c.extra_cov["judged_impl_outputs"] = sum(1 for m in meta if m.get("kind") not in ("enc", "encform", "hdrok", "ct", "mp-mal", "rq-mal"))
        c.extra_cov["chunking_groups"] = len(groups)

        late_crash = None
        if crashed and crashed.get("case") is None and crashed.get("rc") == 3:
            # the harness answered every case and found temporary upload files left behind at exit: the per-case
            # TEMP-FILES-LEFT flags (in `bad`) name the failing inputs; report this one after them
            late_crash = crashed
        elif crashed:
            c.violation("sanitizer abort / crash of the real code", {"case": crashed["case"], "stderr": crashed["stderr"]})
        seen_idx = set()
        for k, why in sorted(bad):
            if k in seen_idx:
                continue
            seen_idx.add(k)
            if len(seen_idx) > 20:
                break
            mm = {kk: vv for kk, vv in meta[k].items() if kk in ("kind", "expect", "malformed", "file")}
            c.violation("property predicate false on implementation output: " + why,
                        {"case": cases[k], "meta": mm, "impl_output": out_i[k], "model_output": out_m[k] if k < len(out_m) else None,
                         "replay_cmd": "bin/check C12 --replay <this file>"})
        if late_crash:
            c.violation("temporary upload files left behind when the harness exits", {"case": None, "stderr": late_crash["stderr"]},
                        concrete=bool(bad))
        for wid, (k, o) in known_hits.items():
            c.known_finding(wid, f"id={wid} malformed urlencoded POST body delivered in part with status 200 (witness {meta[k].get('file')}: {o[:120]})")
        if diffs and not bad and not (crashed and not late_crash):
            k, cs, a, b = diffs[0]
            c.broke("correspondence stream multipart+request", f"{len(diffs)} differing cases; first: {cs[:300]} impl={a[:300]} model={b[:300]}")
            c.violation("model and implementation disagree (no property violation found among the explored cases)",
                        {"case": cs, "impl_output": a, "model_output": b, "meta": {kk: vv for kk, vv in meta[k].items() if kk in ("kind", "expect")}}, concrete=False)
        if c.replay_path:
            for i, cs in enumerate(cases):
                print("case :", cs[:2000]); print("impl :", out_i[i] if i < len(out_i) else None); print("model:", out_m[i] if i < len(out_m) else None)
    c.finish()


if __name__ == "__main__":
    main()
