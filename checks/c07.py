#!/usr/bin/env python3
"""C07 — the cache never returns invalidated, expired or superseded data.
See DESIGN.md section 5 (C07) and design.d/C07.md.  Usage: checks/c07.py [--tier quick|thorough] [--replay file]"""
import os, sys, json
ROOT_ = os.path.join(os.path.dirname(os.path.abspath(__file__)), "..")
sys.path.insert(0, os.path.join(ROOT_, "lib"))
sys.path.insert(0, os.path.join(ROOT_, "gen"))
from vcheck import *
import c07_hist as H

P = "Cppcms.C07.Props."
OBLIGATIONS = [
    (P + "inv_init", "the empty cache satisfies the mirror-consistency invariant Inv (four indexes + counters agree)"),
    (P + "inv_step", "every operation (any allocation outcome) preserves Inv"),
    (P + "inv_reachable", "hence Inv holds after every finite history"),
    (P + "refines_spec", "one step: concrete cache ⊑ specification map, answers agree (a fetch may only miss where the spec hits)"),
    (P + "refines_run", "for every history: the concrete cache holds a sub-map of the never-evicting specification"),
    (P + "fetch_hit_sound", "for every history: a hit returns exactly the specification's entry, which is not expired"),
    (P + "fetch_returns_latest_store", "a hit returns value/trigger set/deadline of the latest store under the key, with no remove/clear/rise of one of its triggers after it"),
    (P + "miss_after_remove", "after remove k (and no later store of k) fetch k misses"),
    (P + "miss_after_clear", "after clear (and no later store of k) fetch k misses"),
    (P + "miss_after_expiry", "fetch at a time past the deadline misses"),
    (P + "miss_after_rise_of_any_trigger", "after rise t with t a trigger of the entry or its own key (and no later store of k) fetch k misses"),
    (P + "miss_after_dropped_store", "after a store that could not be performed the key misses (the previous value is gone)"),
    (P + "live_entry_always_found", "no limit, no allocation failure: the concrete answers equal the specification's (a live entry is always found)"),
    (P + "copy_failure_handled", "the generated handler of the value-copy bad_alloc removes the previous entry (D9 fixed in the source)"),
    (P + "configured_limit_is_effective_limit", "cache_pool (generated settings mapping): a configured cache.limit n is the limit the cache is built with, for thread_shared and process_shared; 0 stays 0"),
    (P + "configured_zero_is_unlimited", "cache.limit=0 configures a cache with no size limit in play (live_entry_always_found applies)"),
    (P + "page_triggers_attached", "cache_interface: every trigger recorded since reset (add_trigger, triggers of fetched frames, triggers+key of stored frames) is in the set store_page passes to the back-end, with the page key"),
    (P + "recorder_collects", "triggers_recorder: detach() returns everything recorded in its scope, whatever other (nested) recorders do"),
    (P + "rise_invalidates_dependants", "a page stored with t among its recorded triggers (or t = its key) is missed by fetch_page after rise t"),
    (P + "d9_unfixed_counterexample", "with the old handler (plain return) the witness history serves the superseded value: refinement fails, the fixed model misses"),
]

TRUSTED = [
    "translator translate/c07.py + translate/cexpr.py: conditions of mem_cache (expiry test, check_limits guard and victim test, store early returns, own-key test, bad_alloc handler) and statement-order shape checks -> Gen.lean",
    "hand-written structure of Model.lean (four indexes as lists keyed by the entry's key instead of iterators), tied by the correspondence run",
    "hash_map / std::list / std::multimap / std::set / std::basic_string semantics (modelled as association lists / lists; multimap inserts after equal keys)",
    "the shared-memory allocator's outcomes (bad_alloc, not_enough_memory) are inputs (StoreEnv), recorded from the real allocator by the harness for the correspondence run",
    "cache_interface/triggers_recorder model (Iface.lean): translator statement-order checks + correspondence against a real cppcms::cache_interface over a cppcms::service (harness/c07i.cpp: stand-alone interface object and pages built by real SCGI requests; thread_shared back-end, no gzip)",
    "correspondence harness harness/c07.cpp (ASan+UBSan build of the working tree; time() interposed at link time; process_settings::process_memory reached by re-declaring the struct)",
]


def gen_streams(c):
    """returns list of (name, shm, histories, keys_oracle)"""
    rng = c.rng
    thorough = c.tier == "thorough"
    streams = []
    shm = H.DEFAULT_SHM
    hs = []
    # exhaustive small histories
    hs += H.exhaustive(3, [0, 1, 2], ["thread", "process"], shm)
    if thorough:
        hs += H.exhaustive(4, [0, 1, 2], ["thread", "process"], shm)
        hs += H.exhaustive(5, [0, 1, 2], ["thread"], shm)
    else:
        hs += H.exhaustive(4, [0, 1, 2], ["thread"], shm, stride=7, offset=rng.randrange(7))
        hs += H.exhaustive(5, [0, 2, 1], ["thread", "process"], shm, stride=211, offset=rng.randrange(211))
    streams.append(("exhaustive", shm, hs, False))
    # long random histories
    hs = []
    n = 1500 if thorough else 120
    for i in range(n):
        backend = rng.choice(("thread", "process"))
        limit = rng.choice((0, 0, 1, 2, 3, 8))
        nkeys = rng.choice((3, 5, 8, 20, 40))
        hs.append(H.random_history(rng, backend, limit, shm, rng.randrange(50, 401), nkeys, rng.choice((2, 4, 10)),
                                   big_values=(i % 4 == 0)))
    streams.append(("random", shm, hs, False))
    # hostile / edge stream: empty and NUL-containing names, huge keys, repeated triggers, extreme deadlines and generations
    hs = []
    for i in range(400 if thorough else 40):
        hs.append(H.random_history(rng, rng.choice(("thread", "process")), rng.choice((0, 1, 2, 3, 8)), shm,
                                   rng.randrange(30, 200), rng.choice((2, 4, 8)), rng.choice((2, 4)), edge=True, big_values=True))
    streams.append(("edge", shm, hs, False))
    return streams


def main():
    c = Check("C07")
    # a run against a mutated tree (VERIF_REPO != /repo: seeded changes, mutation self-tests) regenerates Gen.lean in the
    # shared lean/ directory; other properties import it, so put the previous content back when this run ends
    if os.path.realpath(REPO) != "/repo":
        import atexit
        saved = {}
        for g in ['C07']:
            gp = os.path.join(LEAN, "Cppcms", g, "Gen.lean")
            if os.path.exists(gp):
                saved[gp] = open(gp).read()
        def _restore():
            for gp, txt in saved.items():
                if open(gp).read() != txt:
                    open(gp, "w").write(txt)
        atexit.register(_restore)
    c.rule = ("case = one operation line of a cache history (block starting with `new <backend> <limit>`): exhaustive op "
              "sequences to depth 3..5 over 2 keys/2 triggers/3 deadlines with clock ticks, random histories of 50-400 ops "
              "(3-40 keys, shared key/trigger names, clock steps forwards/jumps/backwards, limits 0,1,2,3,8, thread and "
              "process-shared back-ends, explicit generations), hostile names/deadlines; every answer and stats after every "
              "op compared with the model; non-trivial = the model answers `hit` or the (keys,triggers) counters change")
    c.trusted += TRUSTED
    c.assumptions += [
        "allocation outcomes of the shared segment (bad_alloc on the value copy / inside the locked section, not_enough_memory answers) are arbitrary inputs of the model; theorems quantify over all of them",
        "hash_map, std::list, std::multimap behave as finite maps / sequences (not verified; exercised under ASan)",
        "clock: histories may move the clock arbitrarily, also backwards; expiry is judged at the clock value of the fetch",
    ]
    c.translate("c07.py")
    proved = c.prove(["Cppcms.C07.Props"], OBLIGATIONS, exe="c07_model")
    if c.tier == "thorough" and proved:
        c.leanchecker(["Cppcms.C07.Props"])
    model = c.model_exe()
    ok_impl = c.impl_build()
    hbin = c.harness("c07") if ok_impl else None
    if not (hbin and os.path.exists(model)):
        c.finish()
    R = H.Runner(c, hbin, model)

    if c.replay_path:
        rp = json.load(open(c.replay_path))
        h, shm = rp.get("history", []), rp.get("shm", H.DEFAULT_SHM)
        if h and h[0].startswith("inew"):
            # a cache_interface history: real service (harness c07i), model, independent judge
            ibin = c.harness("c07i")
            rc, o, err = c.run_lines(ibin, h) if ibin else (1, [], "harness c07i does not build")
            rc2, mo, err2 = c.run_lines(model, h)
            for i, l in enumerate(h):
                print("case :", l); print("impl :", o[i] if i < len(o) else None); print("model:", mo[i] if i < len(mo) else None)
            bad = H.iface_judge(h, o)
            print("judge:", bad or "ok", err[-500:] if rc else "")
            if bad or rc != 0:
                c.violation("replayed cache_interface history fails: " + (bad[0][1] if bad else "harness died"), {"history": h, "impl_outputs": o})
            c.finish()
        k, verdict, raw, mout, err = R.judge_history(h, shm)
        for i, l in enumerate(h):
            print("case :", l); print("impl :", raw[i] if i < len(raw) else None); print("model:", mout[i] if i < len(mout) else None)
        print("judge:", "ok" if k is None else f"line {k}: {verdict}")
        if k is not None:
            c.violation(f"replayed history fails: {verdict}", {"history": h, "shm": shm, "failing_line": k})
        c.finish()

    # state for the non-trivial counter (calls come in case order)
    prev = {"tail": None}
    def nontrivial(cs, o):
        w = o.split("|")
        tail = w[1].strip() if len(w) > 1 else ""
        key = None
        if o.startswith("hit") or (not cs.startswith("new") and prev["tail"] is not None and tail != prev["tail"]):
            key = cs + "#" + tail
        prev["tail"] = tail
        return key

    streams = []
    corpus = H.load_corpus("C07")
    for f, shm, body in corpus:
        streams.append(("corpus:" + f, shm, [body], False))
    streams += gen_streams(c)
    dist = {}
    judged = 0
    for name, shm, hists, ko in streams:
        prev["tail"] = None
        r = R.run_stream(name, hists, shm, ko, nontrivial)
        cases, hist_of = r["cases"], r["hist_of"]
        judged += len(cases)
        for cs in cases:
            dist[cs.split()[0]] = dist.get(cs.split()[0], 0) + 1
        if not c.samples or name == "random":
            idx = [i for i in (1, 2, len(cases) // 3, len(cases) // 2, len(cases) - 1) if i < len(cases)]
            c.samples += [{"stream": name, "case": cases[i], "impl": r["out_i"][i] if i < len(r["out_i"]) else None,
                           "model": r["out_m"][i] if i < len(r["out_m"]) else None} for i in idx]
        if r["crashed"]:
            k = len(r["out_i"])
            hi = hist_of[k] if k < len(hist_of) else hist_of[-1]
            c.violation("sanitizer abort / crash of the real cache", {"history": hists[hi], "shm": shm, "stream": name,
                                                                     "stderr": r["crashed"]["stderr"]})
            continue
        done_h = set()
        for k, verdict in r["jbad"][:50]:
            hi = hist_of[k]
            if hi in done_h:
                continue
            done_h.add(hi)
            if len(done_h) > 3:
                break
            h = hists[hi]
            small = R.shrink(h, shm, lambda cand: R.judge_history(cand, shm, ko)[0] is not None)
            kk, v2, raw, mout, err = R.judge_history(small, shm, ko)
            c.violation(f"property predicate false on the implementation's answers: {v2}",
                        {"history": small, "shm": shm, "stream": name, "failing_line": kk,
                         "impl_outputs": raw, "model_outputs": mout, "original_length": len(h),
                         "replay_cmd": "bin/check C07 --replay <this file>"})
        if r["diffs"] and not r["jbad"]:
            k, cs, a, b = r["diffs"][0]
            hi = hist_of[k]
            small = R.shrink(hists[hi], shm, lambda cand: R.differs(cand, shm, ko))
            c.broke(f"correspondence stream {name}",
                    f"{len(r['diffs'])} differing lines; first: `{cs}` impl=`{a}` model=`{b}`; minimal differing history: {json.dumps(small)} (shm={shm})")
    # ---- trigger-recording layer: real cppcms::cache_interface over a cppcms::service (harness/c07i.cpp)
    ibin = c.harness("c07i")
    istreams = []
    if ibin:
        rng = c.rng
        thorough = c.tier == "thorough"
        # thread_shared: configured cache.limit absent / 0 (= no limit) / 1 / 64 / 65 / 1000 (+ small ones), more than 64 live entries
        tl = ["-", "0", "1", "64", "65", "1000", "2", "5"]
        hists = [H.iface_history(rng, f"inew thread {rng.choice(tl)}", rng.randrange(10, 60)) for _ in range(300 if thorough else 40)]
        hists += [H.iface_many_history(rng, f"inew thread {l}", rng.randrange(66, 150 if thorough else 100)) for l in tl[:6]]
        corpus_i = [[l.strip() for l in open(os.path.join(ROOT_, "gen", "corpus", "C07", f)) if l.strip() and not l.startswith("#")]
                    for f in sorted(os.listdir(os.path.join(ROOT_, "gen", "corpus", "C07"))) if f.endswith(".ihist")]
        istreams.append(("iface", corpus_i + hists))
        # process_shared through cache_pool: cache.memory absent (16 MiB) / 512 KiB, cache.limit absent (= memory in KiB) / 0 / small
        for mem in ("-", "512"):
            pl = ["-", "0", "3", "100"]
            hs = [H.iface_history(rng, f"inew process {rng.choice(pl)} {mem}", rng.randrange(10, 50)) for _ in range(60 if thorough else 8)]
            hs += [H.iface_many_history(rng, f"inew process {l} {mem}", rng.randrange(66, 100)) for l in ("-", "0", "100")]
            istreams.append((f"iface-process-mem{mem}", hs))
    for iname, hists in istreams:
        # thread_shared: one harness process for the whole stream (every `inew` builds a fresh service and cache);
        # process_shared: one harness process per history — the shared segment is created once per process and the
        # cache objects in it are never destroyed, so histories run back to back would put each other under memory pressure
        per_history = iname.startswith("iface-process")
        cases, hist_of, raw_i, raw_m = [], [], [], []
        crashed = None
        for hi, grp in ([(hi, h) for hi, h in enumerate(hists)] if per_history else [(None, [l for h in hists for l in h])]):
            rc, o, err = c.run_lines(ibin, grp)
            rc2, mo, err2 = c.run_lines(model, grp)
            if rc2 != 0:
                c.broke(f"model driver crashed on stream {iname}", err2)
            if rc != 0 or len(o) < len(grp):
                crashed = crashed or {"history": grp if per_history else None, "at": len(cases) + len(o), "stderr": err}
            o = o + ["<no output: harness died>"] * (len(grp) - len(o))
            mo = mo + ["<no output: model driver died>"] * (len(grp) - len(mo))
            cases += grp; raw_i += o[:len(grp)]; raw_m += mo[:len(grp)]
        hi = 0
        for h in hists:
            hist_of += [hi] * len(h); hi += 1
        out_i = [H.canon_iface(x) for x in raw_i]; out_m = [H.canon_iface(x) for x in raw_m]
        diffs = [(k, cases[k], out_i[k], out_m[k]) for k in range(len(cases)) if out_i[k] != out_m[k]]
        c.evaluations += len(cases); c.traces_validated += len(cases)
        for cs, o in zip(cases, out_m):
            if o.startswith(("hit", "cached", "detached")) and "detached -" not in o:
                c.nontrivial.add(cs)
        c.log(f"correspond[{iname}]: {len(cases)} cases, {len(diffs)} diffs" + (", harness died" if crashed else ""))
        for cs in cases:
            dist[cs.split()[0]] = dist.get(cs.split()[0], 0) + 1
        judged += len(cases)
        c.samples += [{"stream": iname, "case": cases[i], "impl": out_i[i], "model": out_m[i]} for i in (1, len(cases) // 2) if i < len(cases)]
        def iface_fails(h):
            rc, o, err = c.run_lines(ibin, h)
            return rc != 0 or len(o) < len(h) or bool(H.iface_judge(h, o))
        if crashed:
            k = min(crashed["at"], len(hist_of) - 1)
            c.violation("sanitizer abort / crash of the service / cache_interface", {"history": crashed["history"] or hists[hist_of[k]], "stderr": crashed["stderr"]})
        else:
            bad = H.iface_judge(cases, raw_i)        # raw answers: the judge needs the low-memory flag
            seen_h = set()
            for k, msg in bad:
                hi = hist_of[k]
                if hi in seen_h or len(seen_h) >= 3:
                    continue
                seen_h.add(hi)
                if iface_fails(hists[hi]):
                    small = R.shrink(hists[hi], 0, iface_fails, budget=120)
                    rc, o, err = c.run_lines(ibin, small)
                    c.violation("cache_interface: " + H.iface_judge(small, o)[0][1] if H.iface_judge(small, o) else "cache_interface: " + msg,
                                {"history": small, "impl_outputs": o, "stream": iname, "note": "replay: bin/check C07 --replay <this file>"})
                else:
                    # fails only in the context of the stream (one harness process for many histories): not a
                    # counter-example on its own; report the tie as broken with the whole prefix
                    c.broke(f"judge of stream {iname}", f"history {hi} fails in the stream ({msg}) but passes when run alone: {json.dumps(hists[hi])}")
            if diffs and not bad:
                k, cs, a, b = diffs[0]
                def idiffers(h):
                    rc, o, err = c.run_lines(ibin, h); rc2, m2, err2 = c.run_lines(model, h)
                    return [H.canon_iface(x) for x in o] != [H.canon_iface(x) for x in m2]
                small = R.shrink(hists[hist_of[k]], 0, idiffers, budget=120)
                c.broke("correspondence stream " + iname, f"{len(diffs)} differing lines; first: `{cs}` impl=`{a}` model=`{b}`; minimal differing history: {json.dumps(small)}")
    if R.lowmem_lines:
        c.log(f"note: {R.lowmem_lines} lines ran under low shared memory")
    c.extra_cov["op_distribution"] = dist
    c.extra_cov["judged_impl_outputs"] = judged
    c.extra_cov["lowmem_lines"] = R.lowmem_lines
    c.finish()


if __name__ == "__main__":
    main()
