#!/usr/bin/env python3
"""C03 — the client receives exactly the bytes the application wrote, once and in order.
See DESIGN.md section 5 (C03) and design.d/C03.md.  Usage: checks/c03.py [--tier quick|thorough] [--replay file]"""
import os, sys, json, glob, zlib
sys.path.insert(0, os.path.join(os.path.dirname(os.path.abspath(__file__)), "..", "lib"))
from vcheck import *

P = "Cppcms.C03.Props."
OBLIGATIONS = [
    # 1. connection write path
    (P + "pending_invariant", "every trace of nonblocking/async/blocking writes x every socket answer: wire ++ in-flight ++ pending_output_ = concat of formatted outputs (while no hard error)"),
    (P + "wire_complete_when_drained", "nothing pending or in flight => wire = everything handed over, once, in order"),
    (P + "wire_prefix_on_failure", "the event on which a write fails for good leaves a prefix of the handed data on the wire"),
    (P + "async_write_drains", "if the socket takes >= 1 byte per writable event the async handler completes within |data| steps with the data on the wire once"),
    (P + "write_during_async_reorders", "the discipline hypothesis (no write while an async write is in flight) is necessary: concrete reordering"),
    # 2. framing
    (P + "chunked_roundtrip", "RFC 7230 chunked decoder (Spec) o make_chunked_wrapper calls = concatenation of the writes, exact end"),
    (P + "chunk_size_roundtrip", "std::hex chunk sizes parse back (1*HEXDIG)"),
    (P + "fcgi_roundtrip", "FastCGI record grammar (Spec) o format_output calls: STDOUT stream = concatenation of the inputs"),
    (P + "fcgi_records_wellformed", "every STDOUT record 1..65535 bytes; exactly one empty STDOUT then one END_REQUEST, last"),
    # 3. stream buffers
    (P + "device_conservation", "either device, every io mode incl. raw, any buffer size, every sequence of sputn/sputc/sync/flush/setbuf/full_buffering: after close nothing buffered, bytes passed on = input (raw: minus its header block), eof exactly once with the last write -- and ANY number of later flushes/setbufs sends no byte and no second eof"),
    (P + "device_conservation_running", "at every moment (non-raw): passed to connection::write ++ buffered = written into the device"),
    (P + "raw_header_block_stripped", "raw modes: of a stream starting with a CGI header block the device passes on exactly what follows it; the lines reach set_response_headers via add_header in order"),
    (P + "raw_header_lines_all_kept", "raw modes: every ordinary Name: value line of the application's header block (repeated names in any case, empty values) reaches the connection as an added header, all of them in order; depends on Gen.rawLineKept read from cgi_headers_parser::add_header"),
    (P + "cache_copy_identical", "copy_buf: bytes passed to the next buffer = copied_data() = bytes written, for every op sequence + close"),
    (P + "cache_copy_repeatable", "copied_data() asked a second time (store_page under a second key) returns the same page"),
    (P + "gzip_bookkeeping", "gzip_buf, any deflater/buffer size: deflater inputs in order = app bytes, Z_FINISH exactly once and last, bytes passed on = deflater outputs; inflate hypothesis => body decompresses to app bytes"),
    # 4. framing of a whole response
    (P + "framing_roundtrip_http", "HTTP: from the state set_response_headers prepared, every call sequence of a finalized response: no violation, RFC 7230 client reads exactly one head and body = concat inputs (Content-Length / chunked / until-close)"),
    (P + "framing_roundtrip_fcgi", "FastCGI: records parse to a STDOUT stream = exactly the header block ++ concat inputs"),
    (P + "framing_roundtrip_scgi", "SCGI/CGI: header block once, then the inputs"),
    (P + "header_block_once_xcgi", "SCGI/FastCGI: the block built from the header set (clean lines) is exactly one header block: map entries, added headers/cookies, blank line"),
    # 5. response_headers
    (P + "header_names_case_insensitive", "ieq (protocol::compare == 0) <=> names equal after ASCII lower-casing"),
    (P + "headers_last_set_wins", "any sequence of set_header/add_header/set_cookie: get_header(n) = value of the last assignment to n under any spelling (empty value erases)"),
    (P + "headers_unique_names", "the headers_ map never holds two entries whose names differ only in case"),
    (P + "headers_added_in_order", "added headers and cookies are all kept, in insertion order"),
    (P + "header_lines_shape", "header block lines = one Name: value per map entry, then the added ones"),
    # 6. composition over the model the correspondence runs (runCase)
    (P + "response_trace", "stage 1: every script in the usage contract x io mode x buffer/gzip config x cache x request: the response ends Done (headers handed over once before the first byte; calls (w,false)*,(last,true),([],false)*; bytes = what left gzip_buf/copy_buf)"),
    (P + "body_is_written_or_gzip_of_it", "Done: without gzip_buf Z = bytes written; with it Z = deflate(bytes written) with Z_FINISH once and last => inflate Z = bytes written"),
    (P + "gzip_decision_matches_headers", "every script: gzip_buf exists iff need_gzip() held at out(), and exactly then out() added Content-Encoding: gzip before handing the headers over (Enc)"),
    (P + "response_wire_eq_scgi", "SCGI: for every script/mode/config/cache/schedule: nothing violated/given up/broken/pending and wire = xcgi header block ++ bytes that left the chain"),
    (P + "response_wire_eq_fcgi", "FastCGI: same; wire = well-formed records for request 1 whose STDOUT stream = header block ++ bytes that left the chain"),
    (P + "response_wire_eq_http", "HTTP 1.0/1.1 +- keep-alive: same, given clean headers and a respected Content-Length: wire = one head ++ framed body, RFC 7230 client decodes exactly the bytes that left the chain"),
    (P + "http_ready_of_clean_headers", "the header hypothesis of response_wire_eq_http follows from conditions on the application's header set alone"),
    (P + "http_headers_ok_of_clean_container", "... which follow from conditions on the header container itself (names without colon/CR, values without CR, no Transfer-Encoding, decimal Content-Length); uses the map's case-insensitive uniqueness"),
    (P + "client_field_values", "the field values an RFC 7230 client sees under a name = the map entry's value under any spelling, then the added lines with that name"),
    (P + "client_sees_app_bytes", "generic form: for any protocol presentation with a round-trip theorem the independent de-framer returns one head and the bytes that left the chain"),
    (P + "done_body_unique", "the Z of the theorems above is determined by the response"),
    (P + "store_page_stores_sent_bytes", "store_page on an armed response stores, under the variant compressed-iff-gzip_buf, exactly the bytes Z sent towards the client; read-back returns Z"),
    (P + "cache_miss_stores_sent_bytes", "whole scripts: prelude, fetch_page miss, any non-finalizing writes/flushes not touching Content-Encoding/Type, store_page, any post-final actions: cache holds Z = what was sent"),
    (P + "cached_hit_serves_stored_bytes_once", "whole scripts: fetch_page hit => body = stored page exactly (no gzip_buf, no copy_buf), Content-Encoding: gzip added iff compressed variant, rest of the script not run, cache unchanged"),
    (P + "cache_roundtrip", "request A misses and stores; request B selecting that variant is served exactly A's Z"),
]

CONFIGS_QUICK = [(-1, 16384, 1024), (300, 37, 5)]
CONFIGS_THOROUGH = CONFIGS_QUICK + [(1000, 0, 0), (-1, 1, 64)]

PROTOS = ["scgi", "fcgi", "http10", "http11", "http10ka", "http11ka"]
MODES = ["normal", "nogzip", "raw", "async", "asyncraw"]
TOKEN = "abcdefghijklmnopqrstuvwxyzABCDEFGHIJKLMNOPQRSTUVWXYZ0123456789-_"
HDR_POOL = ["X-Dup", "x-dup", "X-DUP", "X-dUp", "Cache-Control", "cache-control", "CACHE-CONTROL", "X-Other", "x-other", "X-Dupe", "X-Du",
            # the ends of the range ascii_to_lower folds, and their neighbours (which must stay distinct names)
            "X-AZ", "x-az", "X-aZ", "X-@[", "X-`{"]


def gen_payload(seed, n):
    x = seed & 0x7fffffff
    o = bytearray()
    for _ in range(n):
        x = (x * 1103515245 + 12345) & 0x7fffffff
        o.append((x >> 16) & 255)
    return bytes(o)


def rand_token(rng, lo=1, hi=8):
    return "".join(rng.choice(TOKEN) for _ in range(rng.randrange(lo, hi + 1)))


def gen_case(rng, cfg, big_ok, idx):
    """one structured, mostly valid case line"""
    gzbuf, obuf, abuf = cfg
    proto = rng.choice(PROTOS)
    mode = rng.choice(MODES)
    is_async = mode.startswith("async")
    raw = "raw" in mode
    opts = []
    if rng.random() < 0.45:
        opts.append("gz")
        if rng.random() < 0.6:
            opts.append("zstub")
        if rng.random() < 0.6:
            mode = "normal"        # the only mode in which the response compresses
            is_async = raw = False
    use_cache = (not raw) and rng.random() < 0.25
    if use_cache and "gz" in opts and "zstub" not in opts:
        opts.append("zstub")       # pages compressed by the real zlib are not predictable by the model's page cache
    script = []
    # header/cookie ops first (ignored by the real code in raw modes: headers come from the body)
    names = set()
    if not raw:
        # names from a small pool in varying case: the container must treat them as one name (last set wins,
        # an empty value erases, added headers with the same name all stay)
        pool = rng.random() < 0.4
        for _ in range(rng.choice((0, 0, 1, 2, 4, 7) if pool else (0, 0, 1, 2, 4))):
            r = rng.random()
            if r < 0.4:
                n = rng.choice(HDR_POOL) if pool else "X-" + rand_token(rng)
                v = "" if (pool and rng.random() < 0.2) else rand_token(rng, 1, 12).encode().hex()
                script.append("h%s:%s" % (n, v))
            elif r < 0.65:
                if pool and rng.random() < 0.15:
                    script.append("aStatus:%s" % rng.choice((b"404 Not Found", b"201 Created")).hex())
                else:
                    n = rng.choice(HDR_POOL) if (pool and rng.random() < 0.5) else "X-" + rand_token(rng)
                    script.append("a%s:%s" % (n, rand_token(rng, 1, 12).encode().hex()))
            elif r < 0.85:
                script.append("k%s:%s" % (rand_token(rng), rand_token(rng, 1, 10).encode().hex()))
            elif r < 0.95:
                script.append("S%d" % rng.choice((200, 201, 404, 500, 299)))
            else:
                script.append("hContent-Type:%s" % rng.choice((b"text/plain", b"application/octet-stream", b"text/x")).hex())
    buf = abuf if is_async else obuf
    if rng.random() < 0.5:
        buf = rng.choice((0, 1, 2, 3, 7, 8, 16, 63, 64, 65, 255, 256, 1024, 4096))
        script.append("b%d" % buf)
    if is_async and rng.random() < 0.5:
        script.append("F0")
    key = None
    if use_cache:
        key = "k%d" % rng.randrange(40)
        script.append("C" + key)
    nops = rng.choice((0, 1, 1, 2, 3, 5, 8, 12))
    body_ops = []
    total = 0
    for _ in range(nops):
        r = rng.random()
        if r < 0.55:
            n = rng.choice((0, 1, max(0, buf - 1), buf, buf + 1, rng.randrange(0, 40), rng.randrange(0, 3000)))
            if rng.random() < 0.04:
                n = rng.choice((65535, 65536, 65534, 131070))
            if big_ok and rng.random() < 0.02:
                n = rng.randrange(65536, 204800)
            if total + n > 220000:
                n = rng.randrange(0, 100)
            total += n
            body_ops.append("w%d.%d" % (n, rng.randrange(1, 100000)))
        elif r < 0.68:
            n = rng.randrange(0, 24)
            total += n
            body_ops.append("p%d.%d" % (n, rng.randrange(1, 100000)))
        elif r < 0.86:
            body_ops.append("f")
        elif r < 0.95:
            buf = rng.choice((0, 1, 5, 64, 100, 1000))
            body_ops.append("b%d" % buf)
        elif is_async:
            body_ops.append("F%d" % rng.randrange(2))
        else:
            body_ops.append("o")
    if raw:
        lines = [b"Content-Type: text/html"]
        for _ in range(rng.randrange(0, 3)):
            lines.append(("X-%s: %s" % (rand_token(rng), rand_token(rng, 1, 10))).encode())
        if rng.random() < 0.5:
            # the application's own block with repeated names (every line must reach the client), in mixed case, and empty values
            for _ in range(rng.randrange(2, 5)):
                lines.append(("%s: %s=%s" % (rng.choice(("Set-Cookie", "Set-Cookie", "set-cookie", "SET-COOKIE")), rand_token(rng, 1, 4), rand_token(rng, 1, 8))).encode())
            if rng.random() < 0.5:
                for _ in range(rng.randrange(2, 4)):
                    lines.append(("%s: %s" % (rng.choice(("Link", "link", "Vary", "VARY", "X-Dup", "x-dup")), rand_token(rng, 1, 10))).encode())
            if rng.random() < 0.5:
                lines.append(rng.choice((b"X-Trace:", b"X-Trace: ", b"X-Empty:")))
                if rng.random() < 0.5:
                    lines.append(b"X-Trace: " + rand_token(rng, 1, 6).encode())
            first, rest = lines[0], lines[1:]
            rng.shuffle(rest)
            lines = [first] + rest
        if rng.random() < 0.2:
            lines.insert(rng.randrange(1, len(lines) + 1), b"Status: 404 Not Found")
            if rng.random() < 0.3:
                lines.insert(rng.randrange(1, len(lines) + 1), b"status: 201 Created")
        hdr = b"".join(l + b"\r\n" for l in lines) + b"\r\n"
        r = rng.random()
        if r < 0.25:
            # written in pieces of 1, 2, 3, ... bytes
            pre, pos, k = [], 0, 1
            while pos < len(hdr):
                pre.append("x" + hdr[pos:pos + k].hex())
                if rng.random() < 0.1:
                    pre.append("f")
                pos += k
                k += 1
        else:
            cut = rng.randrange(0, len(hdr) + 1) if r < 0.65 else len(hdr)
            pre = ["x" + hdr[:cut].hex()] if cut else []
            if cut < len(hdr):
                pre.append("x" + hdr[cut:].hex())
            if rng.random() < 0.3 and len(pre) == 2:
                pre.insert(1, "f")
        body_ops = pre + body_ops
    elif proto.startswith("http") and not use_cache and "gz" not in opts and rng.random() < 0.15:
        # application announces the exact length itself
        script.append("L%d" % total)
    if proto.startswith("http") and not raw and not use_cache and "L" not in "".join(o[0] for o in script) and rng.random() < 0.03:
        # one final write of >= 100000 bytes: format_output announces the length it computed itself
        body_ops = ["w%d.%d" % (rng.choice((99999, 100000, 123456, 204800)), rng.randrange(1, 100000))]
        if not is_async:
            script.append("b204800")
    script += body_ops
    if use_cache and rng.random() < 0.85:
        script.append("T" + key)
        if rng.random() < 0.15:                   # the same page under a second key: the second copy must be the page, too
            script.append("Tk%d" % (40 + rng.randrange(40)))
        if is_async and rng.random() < 0.5:       # async_flush_output after store_page (which finalizes) must not announce eof again
            script += ["f"] * rng.randrange(1, 3)
    elif rng.random() < 0.12:
        # explicit finalize() (documented for asynchronous applications), possibly followed by async_flush_output
        # (a synchronous out().flush() on the finalized stream only sets badbit when gzip_buf is closed: not generated)
        script.append("Z")
        if is_async:
            script += ["f"] * rng.randrange(0, 3)
    sched = []
    for _ in range(rng.choice((0, 0, 1, 3, 6, 12, 30))):
        r = rng.random()
        if r < 0.55:
            sched.append("a%d" % rng.choice((1, 1, 2, 3, 7, 10, 100, 1000, 65535, 65536)))
        elif r < 0.85:
            sched.append("w")
        else:
            sched.append("f")
    if not use_cache and proto in ("http11ka", "http10ka", "fcgi") and rng.random() < 0.25:
        proto += "2"      # same request again on the same connection: the second response must be identical
    return " ".join([proto, mode, ",".join(opts) or "-", ",".join(script) or "-", ",".join(sched) or "-"])


def gen_malformed(rng):
    """lines the drivers must reject the same way (bad-op) plus application misuse that stays inside the API"""
    return rng.choice([
        "scgi normal - w10 -", "scgi sync - w1.1 -", "spdy normal - w1.1 -", "scgi normal gzip w1.1 -",
        "scgi normal - w1.1 q", "scgi normal - hX:zz -", "scgi normal - - - -", "fcgi normal - x0 -",
        # body longer than the announced Content-Length: protocol_violation path
        "http11 normal - L3,w5.1,f,w2.2 -", "http10ka nogzip - L0,w1.7 -", "http11ka async - L2,F0,w1.1,w1.2,w1.3 w",
    ])


def corpus_cases():
    res = []
    for f in sorted(glob.glob(os.path.join(ROOT, "gen", "corpus", "C03", "*.txt"))):
        for line in open(f):
            line = line.strip()
            if line and not line.startswith("#"):
                res.append(line)
    return res


class Impl:
    """parsed harness output line"""
    def __init__(self, line):
        f = line.split(" ")
        self.raw = line
        self.ok = len(f) >= 10
        if not self.ok:
            self.canon = line
            return
        self.wire, self.cache, self.verdict, self.hdr, self.body, self.note, self.ztr, self.zin, self.gun, self.sched = f[:10]
        self.real = self.gun != "-"
        notes = [n for n in self.note.split(";") if n not in ("-", "hit", "zkey", "")]
        self.hit = "hit" in self.note.split(";")
        self.badstream = False
        if any(n.startswith("badstream") for n in notes):
            cn = "-"
            self.badstream = True
        elif notes:
            cn = "anomaly:" + ";".join(notes)
        else:
            cn = "-"
        self.canon_note = cn
        w = "*" if self.real else self.wire
        c = self.cache if (self.cache == "none" or not self.real) else "*"
        self.canon = f"{w} {c} {self.ztr} {cn}"
        self.twice = f[10].split("=", 1)[1] if len(f) > 10 and f[10].startswith("tw=") else "-"
        s = self.sched.split("=")[1].split("/")
        self.short, self.wb, self.natural, self.calls, self.wb_blocking = (int(x) for x in s)


def canon_model(line):
    f = line.split(" ")
    if len(f) != 4:
        return line
    # `violated` (the application wrote more than the Content-Length it announced) is model-internal: the
    # application may only notice at finalize; what is compared is the wire
    note = f[3].replace("violated", "") or "-"
    return " ".join(f[:3] + [note])


def run_config(c, cfg, cases, hbin, model, stream):
    args = [str(x) for x in cfg]
    rc_i, out_i, err_i = c.run_lines(hbin, cases, args)
    rc_m, out_m, err_m = c.run_lines(model, cases, args)
    n = len(cases)
    impl = [Impl(l) for l in out_i]
    diffs, bad = [], []
    for k in range(n):
        a = impl[k].canon if k < len(impl) else "<no output: harness died>"
        bm = canon_model(out_m[k]) if k < len(out_m) else "<no output: model driver died>"
        if a != bm:
            diffs.append((k, cases[k], a, bm))
    c.evaluations += n
    c.traces_validated += min(len(out_i), len(out_m), n)
    crashed = None
    if rc_i != 0:
        crashed = {"rc": rc_i, "stderr": err_i, "case": cases[len(out_i)] if len(out_i) < n else None, "config": cfg}
    if rc_m != 0:
        c.broke(f"model driver crashed on stream {stream}", err_m)
    # ---- judge every implementation output with the property predicate (Lean Spec de-framers)
    jl, dl, jidx = [], [], []
    pages = c.pages.setdefault(cfg, {})
    for k in range(min(n, len(impl))):
        im = impl[k]
        if not im.ok:
            continue        # rejected line (bad-op) — compared above
        w = cases[k].split()
        gun = "none"
        if im.gun.startswith("ok:"):
            gun = im.gun[3:]
        elif im.gun == "fail":
            bad.append((k, "gunzip of the received body failed"))
        violated = k < len(out_m) and "violated" in out_m[k].split(" ")[-1]
        if violated:
            continue        # application broke its own Content-Length promise: error path, wire compared with the model only
        if im.badstream:
            bad.append((k, "application's stream went bad: " + im.note))
        if im.verdict not in ("ok", "ok-until-close"):
            bad.append((k, "independent C++ de-framer: " + im.verdict))
            continue
        if im.canon_note != "-":
            bad.append((k, "application saw " + im.note))
        jl.append("J " + cases[k] + f" {im.wire} {im.cache} {gun} {1 if im.hit else 0}")
        dl.append(f"D {w[0]} {im.wire}")
        jidx.append(k)
        # page cache bookkeeping: a hit must serve exactly the stored page
        ops = w[3].split(",")
        keyop = [o for o in ops if o[0] == "C"]
        if im.hit and keyop:
            zk = b"content-encoding: gzip" in bytes.fromhex(im.hdr if im.hdr != "-" else "").lower()
            st = pages.get((keyop[0][1:], zk))
            if st is None or st != im.body:
                bad.append((k, "page served from the cache differs from the stored page"))
        tops = [o for o in ops if o[0] == "T"]
        for t, o in enumerate(tops):
            if im.cache != "none":
                # the read-back is that of the last store_page; earlier ones stored the page as sent (judged when they were last)
                pages[(o[1:], "zkey" in im.note.split(";"))] = im.cache if t == len(tops) - 1 else im.body
    rcj, jout, jerr = c.run_lines(model, jl + dl, args)
    if rcj != 0 or len(jout) != len(jl) + len(dl):
        c.broke("judge driver", jerr or "short output")
    else:
        for t, k in enumerate(jidx):
            if jout[t] != "1":
                bad.append((k, "property predicate: " + jout[t]))
            d = jout[len(jl) + t]
            if d != f"{impl[k].hdr} {impl[k].body}":
                bad.append((k, "Lean and C++ de-framers disagree"))
    c.extra_cov["judged_impl_outputs"] = c.extra_cov.get("judged_impl_outputs", 0) + len(jl)
    # ---- measured coverage
    for k in range(min(n, len(impl))):
        im = impl[k]
        if not im.ok:
            continue
        w = cases[k].split()
        feats = []
        if im.short or im.natural: feats.append("shortwrite")
        if im.wb: feats.append("wouldblock")
        if "7472616e736665722d656e636f64696e67" in im.hdr.lower() or "5472616e736665722d456e636f64696e67" in im.hdr: feats.append("chunked")
        if w[0].startswith("fcgi") and len(im.wire) > 2 * 65600: feats.append("multirecord")
        if im.ztr != "-": feats.append("gzip")
        if im.cache != "none": feats.append("cache")
        if im.hit: feats.append("cachehit")
        if im.calls > 1: feats.append("multiwrite")
        if im.twice == "twice-identical": feats.append("keepalive_reuse_identical")
        for ft in feats:
            c.feature_count[ft] = c.feature_count.get(ft, 0) + 1
        if feats:
            c.nontrivial.add((cfg, cases[k]))
    c.sched_stats["writev_calls"] += sum(i.calls for i in impl if i.ok)
    c.sched_stats["short_writes_injected"] += sum(i.short for i in impl if i.ok)
    c.sched_stats["would_blocks_injected"] += sum(i.wb for i in impl if i.ok)
    c.sched_stats["natural_short_writes"] += sum(i.natural for i in impl if i.ok)
    c.sched_stats["would_block_on_blocking_socket_turned_into_1_byte_accept"] += sum(i.wb_blocking for i in impl if i.ok)
    if os.environ.get("C03_DEBUG"):
        for k, cs, a, bm in diffs[:int(os.environ["C03_DEBUG"])]:
            c.log(f"DIFF {cs}\n   impl ={a[:700]}\n   model={bm[:700]}")
        for k, why in bad[:int(os.environ["C03_DEBUG"])]:
            c.log(f"BAD {why}: {cases[k]}\n   impl ={impl[k].raw[:300]}")
    c.log(f"correspond[{stream}]: {n} cases, {len(diffs)} diffs, {len(bad)} judge failures, impl rc={rc_i}, model rc={rc_m}")
    return impl, out_m, diffs, bad, crashed


def main():
    c = Check("C03")
    c.pages, c.feature_count = {}, {}
    c.sched_stats = {"writev_calls": 0, "short_writes_injected": 0, "would_blocks_injected": 0, "natural_short_writes": 0,
                     "would_block_on_blocking_socket_turned_into_1_byte_accept": 0}
    c.rule = ("case = one request to an in-process cppcms::service (SCGI/FastCGI over unix sockets, HTTP 1.0/1.1 +- keep-alive over loopback) whose "
              "application runs a write script (write/put sizes around the buffer size, 65535/65536, up to 200 KiB; flush; setbuf; "
              "full_asynchronous_buffering; headers/cookies/status; page-cache fetch/store) in one of the five io_modes, gzip on/off "
              "(real zlib and a deterministic stand-in), under a socket schedule of partial accepts / EAGAIN injected by interposing writev(); "
              "a quarter of the keep-alive/keep-conn cases send the request twice on one connection and require byte-identical responses (state reset between responses); several buffer-size configurations; non-trivial = the run did at least one of: short write, would-block, chunked framing, "
              "FastCGI multi-record body, gzip, page-cache store/hit, more than one socket write; distinct = distinct (configuration, case line)")
    c.trusted += [
        "translator translate/c03.py (+ cexpr.py): literals, 65535, padding formulas, record layouts, keep-alive/chunked conditions, status table -> Gen.lean; shape checks of the hand-modelled functions",
        "hand-written control flow of ConnWrite/Framing/Buffers/Model.lean, tied by byte-exact comparison of the predicted wire with the real server's",
        "externals: zlib deflate (parameter `Deflater`; contract: consumes all input, avail_out != 0 => nothing pending), kernel sockets (oracle `Ans`), libstdc++ streambuf::xsputn/sputc algorithm, std::vector::resize",
        "correspondence harness harness/c03.cpp (ASan+UBSan build of the working tree; writev() and deflate() interposed at link time)",
    ]
    c.assumptions += [
        "the application does not write while an asynchronous write is in flight (documented contract; the model checks traces with `disciplined`)",
        "zlib: inflate (deflate stream) = input (hypothesis of gzip_bookkeeping); the harness checks it with zlib's own inflate on every real-zlib case",
        "socket answers: accept k (1 <= k <= offered), would-block, error; a blocking socket does not report would-block",
    ]
    scale = 5 if c.tier == "thorough" else 1

    c.translate("c03.py")
    proved = c.prove(["Cppcms.C03.Props"], OBLIGATIONS, exe="c03_model")
    if c.tier == "thorough" and proved:
        c.leanchecker(["Cppcms.C03.Props"])
    model = c.model_exe()
    ok_impl = c.impl_build()
    hbin = c.harness("c03") if ok_impl else None

    configs = CONFIGS_THOROUGH if c.tier == "thorough" else CONFIGS_QUICK
    plan = []     # (cfg, cases)
    if c.replay_path:
        rp = json.load(open(c.replay_path))
        if "case" in rp:
            plan.append((tuple(rp.get("config", configs[0])), rp.get("prefix", []) + [rp["case"]]))
    else:
        corpus = corpus_cases()
        for ci, cfg in enumerate(configs):
            cases = list(corpus)
            n = (700 if ci == 0 else 500) * scale
            for i in range(n):
                cases.append(gen_case(c.rng, cfg, big_ok=(ci == 0), idx=i))
                if i % 40 == 7:
                    cases.append(gen_malformed(c.rng))
            plan.append((cfg, cases))

    all_diffs, all_bad, crashes = [], [], []
    if hbin and os.path.exists(model):
        for cfg, cases in plan:
            impl, out_m, diffs, bad, crashed = run_config(c, cfg, cases, hbin, model, "cfg=%s" % (cfg,))
            if crashed:
                crashes.append(crashed)
            all_diffs += [(cfg, cases, d) for d in diffs]
            all_bad += [(cfg, cases, impl, out_m, k, why) for k, why in bad]
            if not c.samples:
                for i in (0, len(cases) // 3, len(cases) // 2, len(cases) - 1):
                    if i < len(impl) and i < len(out_m):
                        c.samples.append({"config": cfg, "case": cases[i], "impl": impl[i].canon[:400], "model": canon_model(out_m[i])[:400]})
            if c.replay_path:
                for i, cs in enumerate(cases):
                    print("case :", cs)
                    print("impl :", impl[i].raw[:3000] if i < len(impl) else None)
                    print("model:", out_m[i][:3000] if i < len(out_m) else None)
        c.extra_cov["schedule_injection"] = c.sched_stats
        c.extra_cov["features_reached"] = c.feature_count
        c.extra_cov["configurations (gzip.buffer, output_buffer_size, async_output_buffer_size)"] = [list(x) for x, _ in plan]

        def prefix_for(cases, k):
            # page-cache cases depend on earlier stores of the same key in the same process
            w = cases[k].split()
            keys = [o[1:] for o in (w[3].split(",") if len(w) > 3 else []) if o and o[0] == "C"]
            if not keys:
                return []
            return [cs for cs in cases[:k] if any(("C" + kk) in cs.split()[3].split(",") for kk in keys if len(cs.split()) > 3)]

        for cr in crashes:
            c.violation("sanitizer abort / crash / exception in the real code", {"case": cr["case"], "config": list(cr["config"]), "stderr": cr["stderr"]})
        for cfg, cases, impl, out_m, k, why in all_bad[:20]:
            c.violation(why, {"case": cases[k], "config": list(cfg), "prefix": prefix_for(cases, k),
                              "impl_output": impl[k].raw[:4000], "model_output": (out_m[k][:4000] if k < len(out_m) else None),
                              "replay_cmd": "checks/c03.py --replay <this file>"})
        if all_diffs and not all_bad and not crashes:
            cfg, cases, (k, cs, a, bm) = all_diffs[0]
            c.broke("correspondence: predicted wire differs from the real server's",
                    f"{len(all_diffs)} differing cases; first (config {cfg}): {cs}\n impl ={a[:1500]}\n model={bm[:1500]}")
    c.finish()


if __name__ == "__main__":
    main()
