#!/usr/bin/env python3
"""C08 — the cache stays within its limit; evicts expired, then least-recently-used.
See DESIGN.md section 5 (C08) and design.d/C08.md.  Usage: checks/c08.py [--tier quick|thorough] [--replay file]
Same model, harness and line protocol as C07 (lean/Cppcms/C07/Model.lean, harness/c07.cpp)."""
import os, sys, json
ROOT_ = os.path.join(os.path.dirname(os.path.abspath(__file__)), "..")
sys.path.insert(0, os.path.join(ROOT_, "lib"))
sys.path.insert(0, os.path.join(ROOT_, "gen"))
from vcheck import *
import c07_hist as H

P = "Cppcms.C08.Props."
OBLIGATIONS = [
    (P + "size_le_limit", "limit n > 0: after every history (any allocation outcome) the cache holds at most n entries"),
    (P + "stats_keys_le_limit", "the key count reported by stats never exceeds the limit"),
    (P + "check_limits_makes_room", "check_limits ends with fewer than limit entries (room for the insertion), also under memory pressure"),
    (P + "check_limits_evicts_victim", "each iteration of check_limits deletes exactly `victim` and continues"),
    (P + "check_limits_stops", "when the loop guard is false nothing is evicted"),
    (P + "victim_expired_first", "if any deadline has passed the victim is expired and has the earliest deadline in the cache"),
    (P + "victim_lru_tail", "if no deadline has passed the victim is the LRU tail"),
    (P + "timeout_insert_after_equal", "multimap insertion goes after all nodes with deadline <= the new one (earliest stored first among equals)"),
    (P + "lru_move_to_front", "every operation puts the entry it uses at the LRU front and keeps the order of all others"),
    (P + "lru_is_recency_order", "a used after b's last store/fetch => a stands before b in lru whenever both are held"),
    (P + "stats_match_history", "stats = (number of held keys, total number of entry-trigger links) after every history"),
    (P + "matches_reference", "every history and every allocation outcome (low-memory answers, failing copies, bad_alloc inside): the model answers every operation (fetch results, stats counts) exactly as the reference cache written from the property text (expired earliest-deadline first, else LRU; room made while the allocator reports low memory)"),
    (P + "matches_reference_thread", "thread back-end: the entry-count cap never fires, matches_reference holds unconditionally"),
    (P + "segment_and_locks_are_process_shared", "posix_util.h (generated): every mmap of mmap_anonymous is MAP_SHARED, the mutex/rwlock are PTHREAD_PROCESS_SHARED and live in such pages"),
    (P + "max_available_is_max_free_chunk", "shmem_control::max_available() is the allocator's max_free_chunk() (translator), i.e. the memory-pressure test looks at the largest free chunk"),
    (P + "pressure_off_when_chunk_free", "not_enough_memory() modelled over the buddy arena (generated 10% fraction): false as soon as a free block of >= 10% of the segment exists"),
    (P + "buddy_init_normal", "buddy allocator: the constructed arena is in coalesced normal form"),
    (P + "buddy_step_normal", "buddy allocator: malloc and free keep the normal form (no two free buddies side by side), whichever block is chosen"),
    (P + "buddy_used_after_alloc", "buddy allocator: malloc adds exactly its block to the blocks in use"),
    (P + "buddy_used_after_free", "buddy allocator: free removes exactly the freed block"),
    (P + "buddy_address_is_sibling", "get_buddy's generated expression p_len xor p_ptr is the other half of the enclosing block (the sibling of the tree model)"),
    (P + "malloc_order_ge_min", "buddy allocator: every block malloc hands out has order >= minBits (room for struct page); needs the clamp in malloc (defect fixed)"),
    (P + "malloc_order_is_smallest", "buddy allocator: the block handed out is the smallest power of two holding the padded request (uses the generated comparison of get_bits)"),
    (P + "malloc_zero_counterexample", "without the clamp malloc(0) gets an order-4 block, smaller than struct page (the defect as found)"),
    (P + "free_all_restores", "buddy allocator: after any malloc/free sequence with no block left in use the arena equals the freshly constructed one (fill, empty, refill indefinitely)"),
]


def spec_order(size):
    """the order a request of `size` bytes is owed (written from the property text, independent of Gen/model): one
    16-byte header unit is added, the sum is rounded up to a multiple of 16, and the block is the smallest power of
    two that holds it, never smaller than 32 bytes"""
    n = max(32, ((size + 15) // 16 + 1) * 16)
    k = 5
    while (1 << k) < n:
        k += 1
    return k


def order_problem(plain, out):
    """first `bmalloc n` whose block is not of the owed order"""
    for l, o in zip(plain, out):
        w, a = l.split(), o.split()
        if w and w[0] == "bmalloc" and a and a[0] == "at" and int(a[2]) != spec_order(int(w[1])):
            return f"bmalloc {w[1]} was given a block of order {a[2]} (2^{a[2]} bytes); the smallest block holding the padded request has order {spec_order(int(w[1]))}"
    return None


def buddy_fails(c, bbin, lines):
    """direct self-check on the real allocator: run the sequence (oracle annotations dropped), free what is left;
    it must not crash / trip a sanitizer or an assertion, and the arena must be as constructed. Returns reason | None"""
    plain = [" ".join(l.split()[:2]) for l in lines] + ["bfreeall"]
    rc, out, err = c.run_lines(bbin, plain)
    if rc != 0 or len(out) != len(plain):
        tail = [x for x in err.splitlines() if x.strip()]
        return "allocator aborted (sanitizer/assertion): " + " / ".join(tail[:3])[:400]
    if not out[0].startswith("ok"):
        return None
    op = order_problem(plain, out)
    if op:
        return op
    if out[-1].split("|", 1)[1] != out[0].split("|", 1)[1]:
        return f"all blocks freed but the free lists are{out[-1].split('|', 1)[1]} instead of{out[0].split('|', 1)[1]}"
    return None


def buddy_stream(c, bbin, total, nops):
    """drive the real allocator interactively (the generator must know the returned addresses to free them);
    returns (annotated case lines, problems found by the direct self-check)"""
    import subprocess
    rng = c.rng
    env = dict(os.environ, ASAN_OPTIONS="detect_leaks=0:abort_on_error=0")
    p = subprocess.Popen([bbin], stdin=subprocess.PIPE, stdout=subprocess.PIPE, stderr=subprocess.PIPE, env=env, text=True, bufsize=1)
    class Died(Exception):
        pass
    def ask(line):
        try:
            p.stdin.write(line + "\n"); p.stdin.flush()
            r = p.stdout.readline().rstrip("\n")
        except (BrokenPipeError, OSError):
            r = ""
        if not r:
            raise Died()
        return r
    try:
        return _buddy_stream(c, rng, ask, total, nops, p)
    except Died:
        p.kill()
        return getattr(ask, "lines", []), ["allocator harness died: " + (p.stderr.read() or "")[-600:]]


def _buddy_stream(c, rng, ask, total, nops, p):
    ask.lines = []
    lines, problems = ask.lines, []
    first = ask(f"binit {total}")
    lines.append(f"binit {total}")
    if not first.startswith("ok"):
        p.kill()
        return lines, [f"binit {total}: {first}"]
    usable = int(first.split()[1].split("=")[1])
    init_dump = first.split("|", 1)[1]
    live = []
    phase, left = "fill", rng.randrange(5, 60)
    for _ in range(nops):
        if left <= 0:
            phase = rng.choice(("fill", "drain", "mix", "empty"))
            left = rng.randrange(5, 80)
        left -= 1
        do_free = live and (phase == "drain" and rng.random() < 0.8 or phase == "mix" and rng.random() < 0.5
                            or phase == "empty" or phase == "fill" and rng.random() < 0.1)
        if do_free:
            off = live.pop(rng.randrange(len(live)))
            lines.append(f"bfree {off}")
            o = ask(f"bfree {off}")
            if not o.startswith("ok"):
                problems.append(f"bfree {off}: {o}")
            if not live and o.split("|", 1)[1] != init_dump:
                problems.append(f"all blocks freed but the free lists are{o.split('|', 1)[1]} instead of{init_dump}")
        else:
            if phase == "empty":
                phase, left = "fill", rng.randrange(5, 60)
            r = rng.random()
            size = rng.randrange(0, 48) if r < 0.35 else rng.randrange(0, 600) if r < 0.7 else rng.randrange(0, max(1, usable // 8)) if r < 0.9 \
                else rng.choice((usable, usable // 2, usable // 2 - 16, usable // 4 - 16, usable // 4 - 15, 2 * usable, 1 << rng.randrange(4, 20), (1 << rng.randrange(4, 20)) - 16))
            if rng.random() < 0.3:
                # at and around every power of two: the padded size (request + 16, rounded up to 16) is exactly 2^k
                # for requests of 2^k-31 .. 2^k-16
                k2 = rng.randrange(5, max(6, usable.bit_length() + 1))
                size = max(0, (1 << k2) + rng.choice((-33, -32, -31, -30, -24, -17, -16, -15, -1, 0, 1)))
            lines.append(f"bmalloc {size}")
            o = ask(f"bmalloc {size}")
            w = o.split()
            if w[0] == "at" and int(w[2]) != spec_order(size):
                problems.append(order_problem([f"bmalloc {size}"], [o]))
            if w[0] == "at":
                live.append(int(w[1]))
                lines[-1] = f"bmalloc {size} at={w[1]}"
            elif w[0] == "null":
                lines[-1] = f"bmalloc {size} null"
            else:
                problems.append(f"bmalloc {size}: {o}")
                break
    # final: free everything, the arena must be as constructed
    for off in live:
        lines.append(f"bfree {off}"); o = ask(f"bfree {off}")
    if live and o.split("|", 1)[1] != init_dump:
        problems.append(f"all blocks freed but the free lists are{o.split('|', 1)[1]} instead of{init_dump}")
    p.stdin.close(); p.wait(timeout=60)
    if p.returncode != 0:
        problems.append("allocator harness died: " + p.stderr.read()[-1500:])
    return lines, problems


def gen_streams(c):
    rng = c.rng
    thorough = c.tier == "thorough"
    shm = H.DEFAULT_SHM
    streams = []
    hs = H.exhaustive_evict(3, [1, 2], ["thread", "process"], shm)
    if thorough:
        hs += H.exhaustive_evict(4, [1, 2], ["thread", "process"], shm)
        hs += H.exhaustive_evict(5, [2], ["thread"], shm, stride=3, offset=rng.randrange(3))
    else:
        hs += H.exhaustive_evict(4, [1, 2], ["thread"], shm, stride=11, offset=rng.randrange(11))
        hs += H.exhaustive_evict(5, [2], ["thread", "process"], shm, stride=401, offset=rng.randrange(401))
    streams.append(("exhaustive-evict", shm, hs, False))
    hs = []
    for i in range(2500 if thorough else 200):
        hs.append(H.evict_history(rng, rng.choice(("thread", "process")), rng.choice((1, 2, 3, 4, 5, 6, 7, 8)), shm,
                                  rng.randrange(40, 300)))
    streams.append(("limits", shm, hs, False))
    # the process-shared cache used from 2-3 worker processes forked after its creation (global history = line order)
    hs = [H.fork_history(rng, rng.choice((1, 2, 3, 4, 8)), shm, rng.randrange(30, 150), rng.choice((2, 3))) for _ in range(200 if thorough else 25)]
    streams.append(("fork", shm, hs, False))
    # process-shared back-end in small segments: memory pressure, oversized values, fill/clear cycles
    for seg in ((512 << 10, 1 << 20, 4 << 20) if thorough else (512 << 10, 2 << 20)):
        hs = []
        for i in range(60 if thorough else 8):
            hs.append(H.pressure_history(rng, rng.choice((0, 0, 3, 8, 100)), seg, rng.randrange(60, 250 if thorough else 120)))
        for i in range(12 if thorough else 3):
            hs.append(H.fill_history(rng, rng.choice((0, 8, 8, 100)), seg, rng.randrange(2, 5), rng.randrange(10, 40)))
        streams.append((f"pressure-{seg >> 10}K", seg, hs, True))
    return streams


def release_check(c, R, hbin, seg, cycles, per_cycle, vsize):
    """fill / empty / refill of the process-shared cache: free memory must return to the same level.
    returns (ok, message, lines, outputs)"""
    lines = [f"new process 0 {seg}", "avail"]
    marks = []
    for cy in range(cycles):
        for i in range(per_cycle):
            lines.append(f"store 1000 {H.hx(b'f%d' % i)} r{(cy * 7 + i) % 256:02x}x{vsize} {H.hx(b'f%d' % (i // 2))},{H.hx(b'all')} 2000 {i}")
        mode = cy % 4
        if mode == 0:
            lines.append("clear")
        elif mode == 1:
            lines.append("rise " + b"all".hex())
        elif mode == 2:
            lines += [f"remove {H.hx(b'f%d' % i)}" for i in range(per_cycle)]
        else:
            lines += [f"store 5000 {H.hx(b'f%d' % i)} r00x1 - 1 {i}" for i in range(per_cycle)] + ["clear"]
        lines.append("stats"); marks.append(len(lines) - 1)
        lines.append("avail"); marks.append(len(lines) - 1)
    rc, out, err = c.run_lines(hbin, lines, [str(seg)])
    if rc != 0 or len(out) != len(lines):
        return False, "harness died during fill/empty cycles: " + err[-800:], lines, out
    base = out[1]
    # after `clear` the hash tables are rehashed to the initial bucket count: same free memory as at the start;
    # after removing entries one by one the (grown) bucket arrays stay: compare with the level after the first such cycle
    level = {}
    for cy in range(cycles):
        st, av = out[marks[2 * cy]], out[marks[2 * cy + 1]]
        if not st.startswith("ok | 0 0"):
            return False, f"cycle {cy}: cache not empty after emptying it: {st}", lines, out
        mode = cy % 4
        ref = base if mode in (0, 3) else level.setdefault(mode, av)
        if av != ref:
            return False, f"cycle {cy} (mode {mode}): free shared memory {av} differs from {ref}: memory of removed entries was not released", lines, out
    return True, f"{cycles} fill/empty cycles of {per_cycle} x {vsize} B in {seg >> 10} KiB: free memory returns to {base}", lines, out


def main():
    c = Check("C08")
    # a run against a mutated tree (VERIF_REPO != /repo: seeded changes, mutation self-tests) regenerates Gen.lean in the
    # shared lean/ directory; other properties import it, so put the previous content back when this run ends
    if os.path.realpath(REPO) != "/repo":
        import atexit
        saved = {}
        for g in ['C07', 'C08']:
            gp = os.path.join(LEAN, "Cppcms", g, "Gen.lean")
            if os.path.exists(gp):
                saved[gp] = open(gp).read()
        def _restore():
            for gp, txt in saved.items():
                if open(gp).read() != txt:
                    open(gp, "w").write(txt)
        atexit.register(_restore)
    c.rule = ("case = one operation line of a cache history: exhaustive sequences over 3 keys / 2 deadlines / fetches / clock "
              "ticks with limits 1,2; random histories with limits 1..8 and more keys than the limit, deadlines around the "
              "clock; process-shared cache in 512 KiB..4 MiB segments with values up to beyond the segment (allocator "
              "outcomes recorded as oracle inputs); every answer and stats after every op compared with the model, census "
              "(fetch of every key) at the end; non-trivial = the model answers `hit` or the counters change")
    c.trusted += [
        "model, translator and harness of C07 (lean/Cppcms/C07/Model.lean, translate/c07.py, harness/c07.cpp)",
        "not_enough_memory() answers are inputs of the model; in the correspondence runs they are NOT taken from the code under test: the harness (check_limits hook, /repo 45ec094) evaluates `largest free chunk of the segment's buddy allocator < 10% of the segment` on the allocator's own state at every evaluation of the loop guard, and both the model and the reference cache must then reproduce the implementation's evictions exactly; copy failures / bad_alloc inside are recorded from the real allocator",
        "translator translate/c08.py (buddy_allocator.h: alignment, block size formula, smallest order, header size on LP64, shape of page_alloc/free_page/get_buddy)",
        "buddy allocator model (Buddy.lean) is a forest of binary trees; the allocator's choice of block (best fit, LIFO free lists, lowest address) is NOT modelled: the address it returns is an oracle input, the model checks it is a free region of the right order; get_buddy's xor = sibling and `buddy->bits == bits` = sibling is a free leaf are assumed and validated by comparing the free lists after every operation",
        "that the containers living in the segment (basic_string, hash_map, list, multimap nodes) free everything of a removed entry is not modelled: checked on the real cache only (fill/empty/refill cycles comparing shmem_control::available()/max_available())",
    ]
    c.assumptions += [
        "allocation outcomes are arbitrary inputs (theorems hold for all of them)",
        "hash_map, std::list, std::multimap behave as finite maps / sequences",
    ]
    c.translate("c07.py", "--cache-only")
    c.translate("c08.py")
    proved = c.prove(["Cppcms.C08.Props"], OBLIGATIONS, exe="c08_model")
    if c.tier == "thorough" and proved:
        c.leanchecker(["Cppcms.C08.Props"])
    model = c.model_exe()
    ok_impl = c.impl_build()
    hbin = c.harness("c07") if ok_impl else None
    if not (hbin and os.path.exists(model)):
        c.finish()
    R = H.Runner(c, hbin, model)

    if c.replay_path:
        rp = json.load(open(c.replay_path))
        h, shm, ko = rp.get("history", []), rp.get("shm", H.DEFAULT_SHM), rp.get("keys_oracle", False)
        if h and h[0].startswith("binit"):
            bbin = c.harness("c08", link_libs=False)
            plain = [" ".join(l.split()[:2]) for l in h]
            rc, o, err = c.run_lines(bbin, plain) if bbin else (1, [], "harness c08 does not build")
            for i, l in enumerate(plain):
                print("case :", l); print("impl :", o[i] if i < len(o) else None)
            why = buddy_fails(c, bbin, [l for l in plain if l != "bfreeall"]) if bbin else "no harness"
            print("judge:", why or "ok")
            if why:
                c.violation("replayed allocator sequence fails: " + why, {"history": plain})
            c.finish()
        if h and h[0].startswith("new process") and "avail" in h:
            rc, o, err = c.run_lines(hbin, h, [str(shm)])
            for i, l in enumerate(h[-40:]):
                print("case :", l[:120]); print("impl :", (o[len(h) - 40 + i] if len(h) - 40 + i < len(o) else "")[:120])
            c.finish()
        k, verdict, raw, mout, err = R.judge_history(h, shm, ko, "J8")
        cen = H.check_census(h, raw, [0] * len(h))
        for i, l in enumerate(h):
            print("case :", l[:200]); print("impl :", (raw[i] if i < len(raw) else "")[:200]); print("model:", (mout[i] if i < len(mout) else "")[:200])
        print("judge:", "ok" if k is None and not cen else f"line {k}: {verdict} {cen}")
        if k is not None or cen:
            c.violation(f"replayed history fails: {verdict} {cen}", {"history": h, "shm": shm, "keys_oracle": ko})
        c.finish()

    prev = {"tail": None}
    def nontrivial(cs, o):
        w = o.split("|")
        tail = w[1].strip() if len(w) > 1 else ""
        key = None
        if o.startswith("hit") or (not cs.startswith("new") and prev["tail"] is not None and tail != prev["tail"]):
            key = cs[:120] + "#" + tail
        prev["tail"] = tail
        return key

    streams = [("corpus:" + f, shm, [body], shm < H.DEFAULT_SHM) for f, shm, body in H.load_corpus("C08")]
    streams += gen_streams(c)
    dist = {}
    judged = 0
    evictions = 0
    ev_by_stream = {}
    for name, shm, hists, ko in streams:
        prev["tail"] = None
        # judge: the reference cache of C08/Spec.lean must be matched exactly (J8), also under memory pressure (the
        # low-memory answers it is given are computed by the harness from the allocator's own state)
        jp = "J8"
        r = R.run_stream(name, hists, shm, ko, nontrivial, jprefix=jp)
        cases, hist_of = r["cases"], r["hist_of"]
        judged += len(cases)
        for cs in cases:
            dist[H.bare(cs).split()[0]] = dist.get(H.bare(cs).split()[0], 0) + 1
        # count evictions seen (store after which the key count did not grow by the expected amount): coverage information
        for k in range(1, len(cases)):
            if H.bare(cases[k]).startswith("store ") and k < len(r["raw"]):
                try:
                    a = int(r["raw"][k - 1].split("|")[1].split()[0]); b = int(r["raw"][k].split("|")[1].split()[0])
                    if b < a or (b == a and a > 0):
                        evictions += 1
                        ev_by_stream[name] = ev_by_stream.get(name, 0) + 1
                except (IndexError, ValueError):
                    pass
        if name in ("limits",) or not c.samples:
            idx = [i for i in (1, 2, len(cases) // 3, len(cases) // 2, len(cases) - 1) if i < len(cases)]
            c.samples += [{"stream": name, "case": cases[i][:200], "impl": (r["out_i"][i] if i < len(r["out_i"]) else "")[:200],
                           "model": (r["out_m"][i] if i < len(r["out_m"]) else "")[:200]} for i in idx]
        if r["crashed"]:
            k = len(r["out_i"])
            hi = hist_of[k] if k < len(hist_of) else hist_of[-1]
            c.violation("sanitizer abort / crash of the real cache", {"history": hists[hi], "shm": shm, "stream": name,
                                                                     "keys_oracle": ko, "stderr": r["crashed"]["stderr"]})
            continue
        bad_h = {}
        for k, verdict in r["jbad"]:
            bad_h.setdefault(hist_of[k], verdict)
        for hi, msg in H.check_census(cases, r["raw"], hist_of):
            bad_h.setdefault(hi, msg)
        if not bad_h:
            # tie of the low-memory oracle: what shmem_control reports must be what the allocator of the segment says
            for k, line in enumerate(r["raw"]):
                if "maxavail-mismatch" in line:
                    bad_h.setdefault(hist_of[k], "shmem_control::max_available()/available() do not report the allocator's largest free chunk / total free memory")
        for hi, verdict in list(bad_h.items())[:3]:
            h = hists[hi]
            flag_only = verdict.startswith("shmem_control::")
            def fails(cand):
                k, v, raw, mout, err = R.judge_history(cand, shm, ko, jp)
                if flag_only and any("maxavail-mismatch" in x for x in raw):
                    return True
                return k is not None or bool(H.check_census(cand, raw, [0] * len(cand)))
            small = R.shrink(h, shm, fails) if fails(h) else h
            kk, v2, raw, mout, err = R.judge_history(small, shm, ko, jp)
            cen = H.check_census(small, raw, [0] * len(small))
            v3 = v2 if kk is not None else (cen[0][1] if cen else verdict)
            c.violation(f"property predicate false on the implementation's answers: {v3}",
                        {"history": small, "shm": shm, "stream": name, "keys_oracle": ko, "failing_line": kk,
                         "impl_outputs": [x[:300] for x in raw], "model_outputs": [x[:300] for x in mout],
                         "original_length": len(h), "replay_cmd": "bin/check C08 --replay <this file>"})
        if r["diffs"] and not bad_h:
            k, cs, a, b = r["diffs"][0]
            hi = hist_of[k]
            small = R.shrink(hists[hi], shm, lambda cand: R.differs(cand, shm, ko))
            c.broke(f"correspondence stream {name}",
                    f"{len(r['diffs'])} differing lines; first: `{cs[:200]}` impl=`{a[:200]}` model=`{b[:200]}`; "
                    f"minimal differing history: {json.dumps([x[:200] for x in small])} (shm={shm}, keys_oracle={ko})")

    # buddy allocator against its model (Buddy.lean): addresses chosen by the real allocator are oracle inputs
    bbin = c.harness("c08", link_libs=False)
    if bbin:
        def report(name, lines, why):
            small = R.shrink(lines, 0, lambda cand: buddy_fails(c, bbin, cand) is not None, budget=300) if buddy_fails(c, bbin, lines) else lines
            c.violation("buddy allocator: " + (buddy_fails(c, bbin, small) or why),
                        {"history": [" ".join(l.split()[:2]) for l in small] + ["bfreeall"], "stream": name, "original_length": len(lines),
                         "note": "replay: .build/harness/c08 < history ; the arena must be as constructed after bfreeall"})
        # corpus of allocator sequences (gen/corpus/C08/*.blk), run first
        cdir = os.path.join(ROOT_, "gen", "corpus", "C08")
        for f in sorted(os.listdir(cdir)) if os.path.isdir(cdir) else []:
            if f.endswith(".blk"):
                lines = [l.strip() for l in open(os.path.join(cdir, f)) if l.strip() and not l.startswith("#")]
                why = buddy_fails(c, bbin, lines)
                c.evaluations += len(lines)
                c.log(f"buddy corpus {f}: {why or 'ok'}")
                if why:
                    report("corpus:" + f, lines, why)
        totals = [1544, 544 + 4096, 70000, 524288] + ([1 << 20, 544 + 96, 3000000] if c.tier == "thorough" else [])
        reported = 0
        for total in totals:
            for rep in range(6 if c.tier == "thorough" else 2):
                lines, problems = buddy_stream(c, bbin, total, 3000 if c.tier == "thorough" else 700)
                dist["buddy"] = dist.get("buddy", 0) + len(lines)
                if problems:
                    if reported < 2:
                        report(f"buddy-{total}", lines, problems[0])
                    reported += 1
                    continue
                out_i, out_m, diffs, crashed = c.correspond(f"buddy-{total}", lines, bbin, model,
                                                            nontrivial=lambda cs, o: cs + "#" + o if not o.startswith("bad") else None)
                if crashed:
                    report(f"buddy-{total}", lines, "sanitizer abort")
                elif diffs:
                    k, cs, a, b = diffs[0]
                    c.broke(f"correspondence stream buddy-{total}", f"{len(diffs)} differing lines; first at line {k}: `{cs}` impl=`{a[:300]}` model=`{b[:300]}`; history prefix: {json.dumps(lines[:k + 1][-30:])}")

    # memory release through the cache on the real allocator
    rel = []
    for seg, cycles, per, vs in ((512 << 10, 40 if c.tier == "quick" else 400, 30, 2000), (2 << 20, 12 if c.tier == "quick" else 100, 200, 1500)):
        ok, msg, lines, out = release_check(c, R, hbin, seg, cycles, per, vs)
        c.log("release:", msg)
        rel.append(msg)
        c.evaluations += len(lines)
        if not ok:
            c.violation("shared memory of removed entries is not released: " + msg,
                        {"history": lines, "shm": seg, "impl_outputs": out[-20:], "note": "harness-only stream (avail lines); replay with .build/harness/c07 <shm> < history"})
    # report a property-level counter-example before the allocator-report cross-check
    c.violations.sort(key=lambda v: "shmem_control::" in str(v.get("what")))
    c.extra_cov["op_distribution"] = dist
    c.extra_cov["judged_impl_outputs"] = judged
    c.extra_cov["stores_that_evicted"] = evictions
    c.extra_cov["stores_that_evicted_by_stream"] = ev_by_stream
    c.extra_cov["memory_release"] = rel
    c.extra_cov["lowmem_lines"] = R.lowmem_lines
    c.finish()


if __name__ == "__main__":
    main()
