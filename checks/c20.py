#!/usr/bin/env python3
"""C20 — URL routing is deterministic, whole-string, and consistent with URL generation.
See DESIGN.md section 5 (C20) and design.d/C20.md.  Usage: checks/c20.py [--tier quick|thorough] [--replay file]"""
import os, sys, json, glob
sys.path.insert(0, os.path.join(os.path.dirname(os.path.abspath(__file__)), "..", "lib"))
import vcheck
from vcheck import *

P = "Cppcms.C20.Props."
OBLIGATIONS = [
    (P + "wrapper_pins_source", "Gen facts: regex::assign compiles \"(?:\"+p+\")\\z\", both match overloads exec anchored and test ovec[0]==0 && ovec[1]==len; option::matches and mount_point::match(std::string) pass ranges, not C strings"),
    (P + "full_match_only", "for every engine: regex_match (with or without marks) true => the engine's span is exactly [0,|s|)"),
    (P + "matches_is_whole_path", "for every engine, path (NULs included), method: option::matches succeeds iff method filter holds and the engine matched the entire path"),
    (P + "groups_exact", "under RxSound: the cmatch handed to handlers has subject = the path and group n = Spec.group of the engine answer, for every n"),
    (P + "dispatch_is_first_match", "dispatch = find? first option (registration order) whose attempt fires; events of declining generic handlers before it; none => false"),
    (P + "dispatch_eq_spec", "for all trees/paths/methods: url_dispatcher::dispatch model = Spec.route (find?-based, whole-string) — nested applications to any depth"),
    (P + "mount_then_dispatch", "a handler runs iff there is a chain of first-taking mounts from the root whose selected groups lead to a first-taking handler (induction on the tree)"),
    (P + "args_infix_of_request", "under RxSound: every argument any handler at any depth receives is a contiguous substring of the request path"),
    (P + "typed_integer_is_numeral", "istream>> + eof test on int/unsigned/long long/unsigned long long accepts exactly the decimal numerals in range (optional leading white space, one sign) and yields their value, for every byte string"),
    (P + "typed_param_eq_spec", "one typed parameter converts iff it is valid text (external) and, for integers, a numeral in range"),
    (P + "typed_handler_applies_iff", "a map() handler takes the request iff pattern matches whole URL, method filter holds and every selected group converts; otherwise nothing is called and the scan continues"),
    (P + "mpMatch_eq_spec", "mount_point::match (both overloads) = Spec.mpMatch: all configured patterns match their whole strings; result = selected string or its group"),
    (P + "pool_is_first_match", "applications_pool scan = first mount point in mount order that matches; none => 404"),
    (P + "poolRoute_eq_spec", "pool + application::main = Spec.poolRoute"),
    (P + "pool_scan_order", "both lists of applications_pool: first accepting mount in Spec.scanOrder = pools/factories in mount order, then classic asynchronous (intrusive_ptr) applications in mount order, dead ones left out"),
    (P + "poolRouteAll_eq_spec", "the same after any number of 'the application that got the request dies' rounds, followed by application::main"),
    (P + "parseTpl_literal", "a template without braces parses to itself, arity 0"),
    (P + "parseTpl_param", "lit{n}rest parses to parts [lit, …] index n"),
    (P + "parseTpl_errors", "{} => emptyIndex, {0} => zeroIndex, unclosed/stray braces => errors, for all surrounding text without braces"),
    (P + "writeTpl_parse_roundtrip", "instantiating a parsed template substitutes exactly the parameters: parse(a{1}b{2}c) applied to [x,y] = a x b y c, for all brace-free a b c and all x y"),
    (P + "parseTpl_general_grammar", "general template grammar (literals, digit-string indexes of any length, keywords, mixed): real_assign stores exactly literals, atoi values and keys; arity = largest index"),
    (P + "parseTpl_first_error_wins", "error ordering: after any well-formed prefix the first malformed construct decides the error, whatever follows"),
    (P + "template_index_value", "a digit string below 2^31 is read as its value ({10}, {123})"),
    (P + "writeTpl_general_grammar", "instantiation of any parsed template: index -> parameter, keyword -> call keyword / helper / nothing; index outside 1..#params -> indexRange"),
    (P + "mapper_constants_pinned", "Gen facts of url_mapper: forbidden key characters / ; , and keys . .. ; braces; digit test"),
    (P + "valid_key_addressable", "every key accepted by assign(key,url) is read by map as exactly that key of the addressed mapper (no navigation, no keywords)"),
    (P + "parseTpl_keyword_roundtrip", "a{key}b parses to a keyword placeholder; instantiation inserts the call's keyword parameter, else the set_value helper, else nothing"),
    (P + "stackbuf_collects_all_bytes_in_order", "util::stackbuf<N> (N on-stack bytes, then heap with doubling; overflow() translated from steal_buf.h) holds exactly the bytes written, in order, for every length"),
    (P + "mapUrlNT_eq", "default configuration (invalid_url_throws=false): map = the same URL cut at its first NUL (c_str), fixed text on error"),
    (P + "mapper_dispatch_consistent_default_config", "mapper/dispatcher consistency in the default (non-throwing) configuration"),
    (P + "mapper_dispatch_consistent", "Consistent cfg => route (map key params) reaches the handler of key with exactly params, any depth"),
]

KINDS = ("D", "MP", "P", "T", "U", "Un", "R", "Rn")


def hx(b):
    if isinstance(b, str):
        b = b.encode("latin-1")
    return b.hex() if b else "-"


def retok(pat, icase=False):
    return ("i" if icase else "r") + hx(pat)


# ------------------------------------------------------------------ regex family
# A pattern is a list of segments; a segment = (regex text, number of groups, sampler(rng) -> bytes)
def lit(s):
    return (s, 0, lambda rng, s=s: s)


def _digits(rng):
    return "".join(rng.choice("0123456789") for _ in range(rng.randrange(1, 4)))


def _word(rng):
    return "".join(rng.choice("abxy") for _ in range(rng.randrange(1, 4)))


SEGS = [
    lit("/a"), lit("/ab"), lit("/abc"), lit("/b"), lit("/page"), lit("/x"), lit("/"), lit(""),
    (r"/(\d+)", 1, lambda rng: "/" + _digits(rng)),
    (r"/([a-z]+)", 1, lambda rng: "/" + _word(rng)),
    (r"/(a|ab)", 1, lambda rng: "/" + rng.choice(["a", "ab"])),
    (r"/(a*)", 1, lambda rng: "/" + "a" * rng.randrange(0, 3)),
    (r"(/[^/]*)", 1, lambda rng: "/" + _word(rng)),
    (r"/((\d+)-(\d+))", 3, lambda rng: "/" + _digits(rng) + "-" + _digits(rng)),
    (r"(/x)?", 1, lambda rng: rng.choice(["", "/x"])),
    (r"(?:/(\w+))?", 1, lambda rng: rng.choice(["", "/" + _word(rng)])),
    (r"/(?:(a)|(b))", 2, lambda rng: "/" + rng.choice("ab")),
    (r"/(.*)", 1, lambda rng: "/" + rng.choice(["", _word(rng), _word(rng) + "/" + _digits(rng)])),
    (r"/(.+)", 1, lambda rng: "/" + _word(rng)),
    (r"/a.c", 0, lambda rng: "/a" + rng.choice("bx/") + "c"),
    (r"/ab$", 0, lambda rng: "/ab"),
    (r"/ab\n?", 0, lambda rng: "/ab" + rng.choice(["", "\n"])),
    (r"/(?i)ab", 0, lambda rng: "/" + rng.choice(["ab", "AB", "aB"])),
    (r"/\d{1,2}", 0, lambda rng: "/" + _digits(rng)[:2]),
    # a final newline can only be consumed by backtracking past a position where "$" (but not "\z") already holds
    (r"/ab\n??", 0, lambda rng: "/ab" + rng.choice(["", "\n"])),
    (r"(?:/ab|/ab\n)", 0, lambda rng: "/ab" + rng.choice(["", "\n"])),
    (r"/(a.*?)\n??", 1, lambda rng: "/a" + rng.choice(["", "b", "\n", "b\n"])),
]
# engine features on which "anchored exec succeeded" and "matched the whole string" differ
ADVERSARIAL = [
    (r"/ab(*ACCEPT)", 0, lambda rng: "/ab"),
    (r"/a(*ACCEPT)b", 0, lambda rng: "/ab"),
    (r"/a\Kb", 0, lambda rng: "/ab"),
    (r"(/a(*ACCEPT))?/b", 1, lambda rng: rng.choice(["/b", "/a/b"])),
]
BROKEN = ["(", "a)(", "[a", "(?x)a #c", "a\\", "*a", "\\Qabc"]


def gen_pattern(rng, max_groups=6, adversarial=0.03):
    segs = []
    g = 0
    for _ in range(rng.randrange(1, 5)):
        s = rng.choice(ADVERSARIAL) if rng.random() < adversarial else rng.choice(SEGS)
        if g + s[1] > max_groups:
            continue
        segs.append(s)
        g += s[1]
    if not segs:
        segs = [lit("/a")]
    return segs


def pat_text(segs):
    return "".join(s[0] for s in segs)


def pat_groups(segs):
    return sum(s[1] for s in segs)


def pat_sample(rng, segs):
    return "".join(s[2](rng) for s in segs)


EDIT_CHARS = ["\0", "\n", "/", "a", "b", "1", "x", "A", " ", "\xff", "."]


def one_edit(rng, s):
    r = rng.random()
    if r < 0.25:      # append (the classic prefix-match traps: newline, NUL+junk)
        return s + rng.choice(["\n", "\0", "\0cd", "/", "x", "\n\n", "\0\n"])
    if r < 0.35:
        return rng.choice(["\n", "\0", "x", "/"]) + s
    if r < 0.55 and s:
        i = rng.randrange(len(s))
        return s[:i] + s[i + 1:]
    if r < 0.8:
        i = rng.randrange(len(s) + 1)
        return s[:i] + rng.choice(EDIT_CHARS) + s[i:]
    if s:
        i = rng.randrange(len(s))
        return s[:i] + rng.choice(EDIT_CHARS) + s[i + 1:]
    return rng.choice(EDIT_CHARS)


def rand_string(rng):
    return "".join(rng.choice("/ab1x\n\0A.-") for _ in range(rng.randrange(0, 9)))


METHOD_FILTERS = ["GET", "POST", "PUT", "", "(GET|POST)", "GET|HEAD", "P.*", "get", "[A-Z]+", "G.T", "GE(*ACCEPT)T", "(PUT|POST)", "GET$", "GET\\n?", "GET\\n??", "GET|GET\\n"]
METHODS = ["GET", "POST", "PUT", "HEAD", "GETX", "get", "", "GE", "GET\n", "PATCH", "XGET", "P"]


# ------------------------------------------------------------------ application trees for the dispatcher
class Counter:
    def __init__(self):
        self.n = 0

    def next(self):
        self.n += 1
        return self.n


def gen_leaf(rng, ids, p_broken=0.0):
    """returns (item words, pattern segs or None)"""
    if rng.random() < p_broken:
        return ["L", str(ids.next()), retok(rng.choice(BROKEN)), "_", "h0"], None
    segs = gen_pattern(rng)
    g = pat_groups(segs)
    r = rng.random()
    icase = False
    meth = "_"
    if r < 0.15:
        kind = "h0"
    elif r < 0.55:
        n = rng.randrange(1, 7)
        sel = []
        for _ in range(n):
            q = rng.random()
            sel.append(rng.randrange(0, g + 1) if q < 0.85 else rng.choice([-1, g + 1, g + 5, 99]))
        kind = "hN:" + ",".join(str(x) for x in sel)
    elif r < 0.66:
        kind = "rh"
    elif r < 0.74:
        k = rng.randrange(1, 4)
        kind = "t:" + ",".join("%d.%s" % (rng.randrange(0, g + 1), rng.choice(PTYPES) if j < 2 else rng.choice("si")) for j in range(k))
        if rng.random() < 0.3:
            meth = hx(rng.choice(METHOD_FILTERS))
    else:
        kind = "g"
        if rng.random() < 0.5:
            # declines when the chosen group has this value: sample one from the pattern's own language half of the time
            gi = rng.randrange(0, g + 1)
            val = rng.choice(["a", "ab", "1", "", "x", "/a", "/ab"]) if rng.random() < 0.5 or gi != 0 else pat_sample(rng, segs)
            kind = "g:%d:%s" % (gi, hx(val))
        if rng.random() < 0.6:
            meth = hx(rng.choice(METHOD_FILTERS))
        icase = rng.random() < 0.2
    tokw = retok(pat_text(segs), icase)
    if (kind == "g" or kind.startswith("g:") or kind.startswith("t")) and rng.random() < 0.15:
        tokw = ("v" if icase else "u") + tokw[1:]      # booster::regex::utf8
    return ["L", str(ids.next()), tokw, meth, kind], segs


MOUNTS = [  # (regex, select, embed(inner) -> url, inner is what the child sees)
    (r"/m(/.*)", 1, lambda u: "/m" + u, None),
    (r"/m(.*)", 1, lambda u: "/m" + u, None),
    (r"/n/(\d+)(/.*)?", 2, lambda u: "/n/7" + u, None),
    (r"(/.*)", 1, lambda u: u, None),
    (r"/sub(/.*)", 0, lambda u: "/sub" + u, "whole"),      # select 0: the child sees the whole URL again
    (r"/k(/.*)", 2, lambda u: "/k" + u, "empty"),           # select out of range: the child sees ""
    (r"/k(/.*)", -1, lambda u: "/k" + u, "empty"),
    (r"/o(?:(/a.*)|(/b.*))", 2, lambda u: "/o" + u, None),  # group 2 unset when the URL starts with /a
    (r"/z(/[^\n]*)", 1, lambda u: "/z" + u, None),
]


def gen_tree(rng, depth, ids, p_broken=0.0, nmax=6):
    """returns (words, sampler(rng) -> url in (or near) the tree's language)"""
    n = rng.randrange(1, nmax + 1)
    items, samplers = [], []
    for k in range(n):
        if depth > 1 and rng.random() < 0.35:
            rx, sel, embed, quirk = rng.choice(MOUNTS)
            cw, cs = gen_tree(rng, depth - 1, ids, p_broken, nmax)
            items += [rng.choice(["C", "CA"]), retok(rx), str(sel), "_", "-"] + cw
            samplers.append(lambda rng, cs=cs, embed=embed: embed(cs(rng)))
        else:
            w, segs = gen_leaf(rng, ids, p_broken)
            items += w
            if segs is not None:
                samplers.append(lambda rng, segs=segs: pat_sample(rng, segs))
    if not samplers:
        samplers.append(lambda rng: "/a")
    return ["{"] + items + ["}"], (lambda rng, samplers=samplers: rng.choice(samplers)(rng))


def gen_url(rng, sampler):
    r = rng.random()
    if r < 0.5:
        return sampler(rng)
    if r < 0.9:
        return one_edit(rng, sampler(rng))
    return rand_string(rng)


def gen_D(rng, n, out):
    for _ in range(n):
        ids = Counter()
        depth = rng.choice((1, 1, 2, 2, 3, 4))
        tw, sampler = gen_tree(rng, depth, ids, p_broken=0.01 if rng.random() < 0.3 else 0.0)
        for _ in range(rng.randrange(2, 6)):
            url = gen_url(rng, sampler)
            meth = "_" if rng.random() < 0.12 else hx(rng.choice(METHODS))
            out.append("D %s %s | %s |" % (meth, hx(url), " ".join(tw)))


NUM_EDGE = ["0", "7", "42", "007", "-0", "+5", "-5", "2147483647", "2147483648", "-2147483648", "-2147483649", "4294967295", "4294967296",
            "-4294967295", "-4294967296", "-1", "9223372036854775807", "9223372036854775808", "-9223372036854775808", "-9223372036854775809",
            "18446744073709551615", "18446744073709551616", "-18446744073709551615", "-18446744073709551616", "99999999999999999999999999",
            "00000000000000000000000000000000000012", "", " 1", "1 ", "\t1", "\n1", "1\n", " \t 12", "1a", "a", "a1", "--1", "+-1", "-+1", "+", "-", "- 1",
            "1,000", "1.5", "1e3", "0x10", "\xef\xbc\x91", "\xd9\xa1\xd9\xa2", "\xff", "1\xff", "1\x00", "\x00", "12\x0b", "\x0c3", "1\r"]
PTYPES = "siulq"


def gen_D_typed(rng, n, out):
    """url_dispatcher::map() handlers with typed parameters: several handlers share (or overlap in) their pattern and differ in the
    parameter types, so that which one runs depends on whether the captured text converts (range, sign, white space, digits, encoding)"""
    for _ in range(n):
        ids = Counter()
        items = []
        two = rng.random() < 0.4
        for _ in range(rng.randrange(2, 6)):
            r = rng.random()
            flag = rng.choice(["r", "r", "r", "i", "u", "v"])
            if two:
                rx = rng.choice([r"/p/([^/]*)/(.*)", r"/p/(.*)/([^/]*)", r"/p/(.*?)/(.*)", r"/P/([^/]*)/(\d*)"])
                ng = 2
            else:
                rx = rng.choice([r"/p/(.*)", r"/p/([-+]?\d+)", r"/p/(\d*)", r"/p/\s*(-?\d+)\s*", r"/p/(.+)", r"/p/(\S*)", r"/P/(.*)"])
                ng = 1
            if r < 0.75:
                k = rng.randrange(0, min(3, ng + 1) + 1) if rng.random() < 0.2 else rng.randrange(1, min(3, ng + 1) + 1)
                if k == 0:
                    kind = "t"
                else:
                    ps = []
                    for j in range(k):
                        g = rng.randrange(1, ng + 1) if rng.random() < 0.85 else rng.choice([0, ng + 1, -1, 7])
                        t = rng.choice(PTYPES) if j < 2 else rng.choice("si")
                        ps.append("%d.%s" % (g, t))
                    kind = "t:" + ",".join(ps)
                meth = hx(rng.choice(["GET", "(GET|POST)", "POST", "P.*"])) if rng.random() < 0.15 else "_"
            elif r < 0.9:
                kind, meth, flag = rng.choice(["rh", "hN:1", "h0"]), "_", "r"
            else:
                kind, meth = "g", "_"
            items += ["L", str(ids.next()), flag + hx(rx), meth, kind]
        for _ in range(5):
            a = rng.choice(NUM_EDGE) if rng.random() < 0.8 else str(rng.randrange(-2 ** 65, 2 ** 65))
            b = rng.choice(NUM_EDGE) if rng.random() < 0.7 else rng.choice(["x", "caf\xc3\xa9", "\xc3", "a b"])
            url = ("/p/" if rng.random() < 0.9 else "/P/") + a + (("/" + b) if two else "")
            meth = "_" if rng.random() < 0.07 else hx(rng.choice(["GET", "POST", "PUT"]))
            out.append("D %s %s | { %s } |" % (meth, hx(url), " ".join(items)))


def gen_D_decline(rng, n, out):
    """chains of generic handlers with overlapping languages where some decline ("parameters did not validate"): the scan must
    continue with the next option, in order, also across mounts and with method filters in between"""
    vals = ["a", "ab", "1", "x", ""]
    for _ in range(n):
        ids = Counter()
        items = []
        used = []
        for _ in range(rng.randrange(2, 6)):
            rx, g = rng.choice([(r"/(.*)", 1), (r"/([a-z]*)", 1), (r"/(a|ab|1)?", 1), (r"(/)(.*)", 2), (r"/(.*)", 0)])
            r = rng.random()
            if r < 0.6:
                v = rng.choice(used) if used and rng.random() < 0.5 else rng.choice(vals)
                used.append(v)
                kind = "g:%d:%s" % (g, hx(("/" + v) if g == 0 else v))
            elif r < 0.8:
                kind = "g"
            else:
                kind = rng.choice(["rh", "hN:1", "h0"])
            meth = hx(rng.choice(["GET", "(GET|POST)", "POST"])) if kind.startswith("g") and rng.random() < 0.4 else "_"
            items += ["L", str(ids.next()), retok(rx), meth, kind]
            if rng.random() < 0.2:
                items += ["C", retok(r"/(a.*)"), "1", "_", "-", "{", "L", str(ids.next()), retok(r"a(.*)"), "_", "g:1:" + hx(rng.choice(vals)), "}"]
        for _ in range(3):
            url = "/" + (rng.choice(used) if used and rng.random() < 0.75 else rng.choice(vals + ["ab1", "b"]))
            meth = "_" if rng.random() < 0.1 else hx(rng.choice(["GET", "POST", "PUT"]))
            out.append("D %s %s | { %s } |" % (meth, hx(url), " ".join(items)))


# ------------------------------------------------------------------ mount points / pool
HOSTS = [("h", ["h"]), (r"(www\.)?example\.com", ["example.com", "www.example.com"]), (".*", ["any", ""]), ("H", ["H"]),
         (r"ex(*ACCEPT)ample", ["ex", "example"]), (r"[a-z]+\.org", ["a.org"]), (r"h$", ["h"])]
SCRIPTS = [("/s", ["/s"]), (r"/app(/.*)?", ["/app", "/app/x"]), (r"(/[a-z]+)(/.*)?", ["/s", "/s/t"]), ("", [""]), (r"/s\n?", ["/s", "/s\n"])]
PATHS = [(r"/x(.*)", ["/x", "/xyz", "/x/1"]), (r"/p", ["/p"]), (r"(/[a-z]+)?(/.*)", ["/a/b", "/1"]), (r"/a(/b)?(/c)?", ["/a", "/a/b", "/a/c", "/a/b/c"]),
         (r".*", ["", "/anything"]), (r"/ab", ["/ab"]), (r"/a(*ACCEPT)b(.*)", ["/ab", "/a"]), (r"/ab$", ["/ab"])]


def gen_mp(rng):
    """returns (words, (host,script,path) sampler)"""
    def pick(tab, p):
        if rng.random() < p:
            return None
        return rng.choice(tab)
    h, s, p = pick(HOSTS, 0.5), pick(SCRIPTS, 0.5), pick(PATHS, 0.25)
    icase = rng.random() < 0.15
    grp = rng.choice((0, 0, 1, 1, 2, 3, -1))
    sel = "1" if rng.random() < 0.7 else "0"
    w = [retok(h[0], icase) if h else "_", retok(s[0]) if s else "_", retok(p[0]) if p else "_", str(grp), sel]
    if rng.random() < 0.12:      # booster::regex::utf8 on one of the patterns
        j = rng.randrange(3)
        if w[j] != "_":
            w[j] = {"r": "u", "i": "v"}[w[j][0]] + w[j][1:]

    def sample(rng):
        return (rng.choice(h[1]) if h else rng.choice(["h", "x"]), rng.choice(s[1]) if s else rng.choice(["/s", ""]),
                rng.choice(p[1]) if p else rng.choice(["/p", "", "/x/y"]))
    return w, sample


def perturb3(rng, t):
    t = list(t)
    r = rng.random()
    if r < 0.45:
        return t
    k = rng.randrange(3)
    t[k] = one_edit(rng, t[k]) if r < 0.9 else rand_string(rng)
    return t


def gen_MP(rng, n, out):
    for _ in range(n):
        w, sample = gen_mp(rng)
        for _ in range(3):
            h, s, p = perturb3(rng, sample(rng))
            out.append("MP %s %s %s %s | |" % (" ".join(w), hx(h), hx(s), hx(p)))


def gen_P(rng, n, out):
    """pools: S = mount(create_pool<app>(..),mp,flags) (list `apps`), A = mount(intrusive_ptr<application>,mp) (classic asynchronous
    application, list `legacy_async_apps`, scanned after ALL of `apps`); overlapping mount points (the same mount point twice, a
    specific one before/after a catch-all), and rounds in which the application that got the request dies first"""
    for _ in range(n):
        k = rng.randrange(1, 6)
        secs, samples = [], []
        ids = Counter()
        prev = None
        for j in range(k):
            r = rng.random()
            if prev is not None and r < 0.3:
                w, sample = prev                      # the very same mount point again
            elif r < 0.5:
                w, sample = ["_", "_", "_", "0", "1"], (lambda rng: ("h", "/s", rng.choice(["/p", "/x/y", ""])))   # catch-all mount_point()
            else:
                w, sample = gen_mp(rng)
            prev = (w, sample)
            tw, ts = gen_tree(rng, rng.choice((1, 1, 2)), ids, nmax=3)
            kind = "A" if rng.random() < 0.6 else "S"
            secs.append(" ".join([kind] + w + tw))
            samples.append(sample)
        for _ in range(3):
            h, s, p = perturb3(rng, rng.choice(samples)(rng))
            rounds = rng.choice((0, 0, 0, 1, 1, 2, 3))
            out.append("P %s %s %s %s %d %d | %s |" % (hx(rng.choice(METHODS[:4])), hx(h), hx(s), hx(p), k, rounds, " | ".join(secs)))


# ------------------------------------------------------------------ url_mapper
TPL_ATOMS = ["{10}", "{12}", "{010}", "{6}{lang}", "{1}", "{2}", "{3}", "{lang}", "{k}", "/", "/a", "b", "{", "}", "{}", "{0}", "{00}", "{01}", "{1x}", "{x1}", "{7}",
             "{4294967296}", "{4294967297}", "{99999999999999999999}", "{ 1}", "{-1}", "{{1}", "{1}}", "?x=", "\n", "{a{b}"]
KEYS = ["k", "key", "a", "", ".", "..", "a/b", "a;b", "a,b", "x.y", "...", " ", "k1"]


def gen_T(rng, n, out):
    for _ in range(n):
        r = rng.random()
        if r < 0.5:
            tpl = "".join(rng.choice(TPL_ATOMS) for _ in range(rng.randrange(0, 6)))
        elif r < 0.8:
            tpl = "".join(rng.choice(["/a", "/", "{1}", "{2}", "{lang}", "{1}", "-"]) for _ in range(rng.randrange(1, 6)))
        else:
            tpl = "".join(rng.choice("{}01a/") for _ in range(rng.randrange(0, 8)))
        key = rng.choice(KEYS) if rng.random() < 0.5 else "k"
        helpers = [("lang", "en"), ("k", "K")] if rng.random() < 0.7 else []
        if rng.random() < 0.2:
            helpers.append(("lang", "he"))
        out.append("T %d %s %s %d %s | |" % (1 if rng.random() < 0.3 else 0, hx(key), hx(tpl), len(helpers),
                                             " ".join(hx(a) + " " + hx(b) for a, b in helpers)))


PARAM_VALUES = ["1", "42", "abc", "", "x/y", "a b", "\xd7\xa9", "{1}", "007", "z" * 127, "z" * 128, "z" * 129, "w" * 300, "v" * 1100, "a\0b"]


def gen_mtree(rng, depth, names):
    """mapper-only tree: words + list of (pos path, key, arity) of the url entries; names: generator of child names"""
    items, entries, kids = [], [], []
    used = set()
    for _ in range(rng.randrange(1, 5)):
        key = rng.choice(["k", "page", "x", "", "idx", "k2"])
        ar = rng.randrange(0, 4)
        if (key, ar) in used and rng.random() < 0.8:
            continue
        used.add((key, ar))
        parts = ["/" + (key or "d")]
        for i in range(1, ar + 1):
            parts.append("/{%d}" % i)
        if rng.random() < 0.25:
            parts.append("/{lang}")
        if rng.random() < 0.05:
            parts.append("{9}")    # arity jumps to 9: never addressable with <= 6 parameters
        items += ["U", hx(key), hx("".join(parts))]
        entries.append(([], key, ar))
    nk = 0
    if depth > 1:
        for _ in range(rng.randrange(1, 3)):
            name = rng.choice(["c", "sub", "blog", "k"]) + (str(nk) if rng.random() < 0.7 else "")
            tpl = rng.choice(["/%s{1}", "/%s/{1}", "{1}", "/{lang}/%s{1}", "/%s{1}/{1}", "/%s{1}{k}"])
            tpl = tpl % name if "%s" in tpl else tpl
            cw, ce = gen_mtree(rng, depth - 1, names)
            items += [rng.choice(["C", "CA"]), "_", "0", hx(name), hx(tpl)] + cw
            for pos, key, ar in ce:
                entries.append(([nk] + pos, key, ar))
            kids.append(name)
            nk += 1
    return ["{"] + items + ["}"], entries


def gen_U(rng, n, out):
    for _ in range(n):
        tw, entries = gen_mtree(rng, rng.choice((1, 2, 2, 3, 4)), None)
        root = rng.choice(["", "/root", "/s"])
        helpers = [("lang", "en")] if rng.random() < 0.7 else []
        hw = "%d %s" % (len(helpers), " ".join(hx(a) + " " + hx(b) for a, b in helpers))
        poss = sorted({tuple(e[0]) for e in entries} | {()})
        for _ in range(6):
            pos = list(rng.choice(poss))
            r = rng.random()
            # the key: an existing entry of this mapper, of an ancestor/descendant via path syntax, or junk
            if r < 0.35:
                cands = [e for e in entries if e[0] == pos] or entries
                e = rng.choice(cands)
                key, ar = e[1], e[2]
            elif r < 0.6:
                e = rng.choice(entries)
                key, ar = "/" + "/".join(["?"] * 0) + e[1], e[2]   # absolute key of a root entry (fixed up below)
                key = "/" + e[1] if not e[0] else e[1]
            else:
                key, ar = rng.choice(["k", "..", ".", "../k", "./k", "/", "/k", "nope", "c0", "c0/k", "sub0/page", "../..", "c0/../k",
                                      "/c0/k", "k;lang", "k;lang,x", "k;", ";lang", "c0/", "/c0", "blog0/c0/k", "", "k/", "//k", "c/k"]), rng.randrange(0, 4)
            if rng.random() < 0.15:
                ar = rng.randrange(0, 7)
            if r < 0.6 and rng.random() < 0.35:
                key += rng.choice([";lang", ";lang,k", ";k,lang", ";x", ";lang,lang"])
            nkw = key.count(",") + 1 if ";" in key else 0
            np_ = min(6, ar + (nkw if rng.random() < 0.8 else 0))
            params = [rng.choice(PARAM_VALUES) for _ in range(np_)]
            out.append("%s %s %s %s %s %d %s | %s |" % (rng.choice(["U", "Un"]), hx(root), hw, ".".join(map(str, pos)) or "-", hx(key), np_,
                                                       " ".join(hx(p) for p in params), " ".join(tw)))


# consistent (mapper template <-> dispatcher pattern) building blocks for R cases
URL_LENGTH_TARGETS = [127, 128, 129, 130, 131, 255, 256, 257, 258, 259, 511, 512, 513, 514, 1023, 1024, 1025, 1026, 2047, 2048, 2049,
                      4095, 4096, 4097, 4098, 8191, 8192, 8193]
GROUP_FILL = {r"(\d+)": "7", r"([a-z]+)": "q", r"([^/]*)": "x", r"(.*)": "y"}
R_GROUPS = [(r"(\d+)", lambda rng: _digits(rng)), (r"([a-z]+)", lambda rng: _word(rng)), (r"([^/]*)", lambda rng: rng.choice(["", "q", "a1", "w\nz"])),
            (r"(.*)", lambda rng: rng.choice(["", "t", "u/v", "w z"]))]


KW_MOUNTS = [  # ancestor mount templates that consume keyword parameters: (template, regex, select, keyword)
    ("/{lang}/%s{1}", "/([a-z]*)/%s(/.*)", 2, "lang"),
    ("/%s-{v}{1}", "/%s-([a-z0-9]*)(/.*)", 2, "v"),
    ("/%s{1}/{lang}", "/%s(/.*)/([a-z]*)", 1, "lang"),
]


def gen_site(rng, depth, ids, keyn, chain=()):
    """application tree with handlers AND mapper entries that correspond.
    returns (words, entries[dict(pos, key, tpl, samplers, hid, kind, haslang, chain)]);
    chain = the mounts from the root down to the entry's application: dict(name, tpl, obs)"""
    items, entries = [], []
    nk = 0
    order = ["h"] * rng.randrange(1, 4) + (["c"] * rng.randrange(1, 3) if depth > 1 else []) + (["noise"] if rng.random() < 0.4 else [])
    rng.shuffle(order)
    for what in order:
        if what == "h":
            key = "k%d" % keyn.next()
            ar = rng.randrange(0, 4)
            gs = [rng.choice(R_GROUPS) for _ in range(ar)]
            seg = "/" + key
            rxp, tpl = seg, seg
            for i, g in enumerate(gs):
                rxp += "/" + g[0]
                tpl += "/{%d}" % (i + 1)
            hid = ids.next()
            haslang = rng.random() < 0.3
            ng = ar
            if haslang:          # keyword substitution: {lang} comes from set_value or from a ";lang" keyword parameter
                rxp += "/([a-z]*)"
                tpl += "/{lang}"
                ng += 1
            kind = "h0" if ng == 0 else "hN:" + ",".join(str(i + 1) for i in range(ng))
            if rng.random() < 0.25 and ng > 0:
                kind = "rh"
            items += ["L", str(hid), retok(rxp), "_", kind, "U", hx(key), hx(tpl)]
            entries.append(dict(pos=[], key=key, tpl=tpl, samplers=[g[1] for g in gs], fills=[GROUP_FILL[g[0]] for g in gs], hid=hid, kind=kind,
                                haslang=haslang, chain=list(chain)))
        elif what == "c":
            name = "c%d" % keyn.next() + "m" * rng.choice((0, 0, 0, 0, 40, 150))   # long mount prefixes
            style = rng.random()
            obs = None
            if style < 0.4:
                rxp, sel, tpl = "/%s(/.*)" % name, 1, "/%s{1}" % name
            elif style < 0.5:
                rxp, sel, tpl = "/%s/(\\d+)(/.*)" % name, 2, "/%s/5{1}" % name
            elif style < 0.6:
                rxp, sel, tpl = "/{0}(.*)".format(name), 1, "/{0}{{1}}".format(name)
            else:
                # the ancestor's mount template itself contains a keyword placeholder; a generic handler that always declines
                # (group -1 is the empty string) sits in front of the mount and reports the groups of the ancestor's pattern
                t, r, sel, kw = rng.choice(KW_MOUNTS)
                tpl, rxp = t % name, r % name
                if rng.random() < 0.8:
                    obs = ids.next()
                    items += ["L", str(obs), retok(rxp), "_", "g:-1:-"]
            link = dict(name=name, tpl=tpl, obs=obs, sel=sel)
            cw, ce = gen_site(rng, depth - 1, ids, keyn, tuple(chain) + (link,))
            items += [rng.choice(["C", "CA"]), retok(rxp), str(sel), hx(name), hx(tpl)] + cw
            for e in ce:
                e["pos"] = [nk] + e["pos"]
                entries.append(e)
            nk += 1
        else:
            # a sibling whose language may overlap the others (first-match matters)
            items += ["L", str(ids.next()), retok(rng.choice([r"/k\d+", r"/c\d+/x", r"/(.*)/zz", r"/k1/(.*)"])), "_", "rh"]
    if rng.random() < 0.35:
        # assemble-after-first-map: this application generates a URL during its construction, i.e. before its parent mounts it
        # (position: anywhere among its own registrations); everything mapped later must be unaffected
        cut = rng.choice([0, len(items)])
        items = items[:cut] + ["W"] + items[cut:]
    return ["{"] + items + ["}"], entries


def tpl_inst(tpl, params, kv):
    """reference instantiation of a mapper template (what the URL mapper is supposed to produce)"""
    def rep(m):
        k = m.group(1)
        if k.isdigit():
            return params[int(k) - 1]
        return kv.get(k, "")
    return re.sub(r"\{([^{}]+)\}", rep, tpl)


def rel_key(rng, frm_names, to_names, key):
    """a key that addresses entry `key` of the mapper at `to_names` from the mapper at `frm_names`"""
    if rng.random() < 0.35:
        return "/" + "/".join(to_names + [key])
    cp = 0
    while cp < len(frm_names) and cp < len(to_names) and frm_names[cp] == to_names[cp]:
        cp += 1
    segs = [".."] * (len(frm_names) - cp) + to_names[cp:] + [key]
    k = "/".join(segs)
    if len(segs) == 1 and rng.random() < 0.3:
        k = "./" + k
    return k


def gen_R(rng, n, out, expect, p_long=0.3):
    for _ in range(n):
        ids, keyn = Counter(), Counter()
        tw, entries = gen_site(rng, rng.choice((1, 2, 3, 3, 4)), ids, keyn)
        if not entries:
            continue
        root = rng.choice(["", "/root", "/s.cgi"])
        for _ in range(5):
            e = rng.choice(entries)
            pos = e["pos"]
            params = [p(rng) for p in e["samplers"]]
            frm_e = rng.choice(entries) if rng.random() < 0.6 else e
            frm = frm_e["pos"]
            k = rel_key(rng, [m["name"] for m in frm_e["chain"]], [m["name"] for m in e["chain"]], e["key"])
            # keyword placeholders on the way: the entry's own template and every ancestor's mount template
            used = set(re.findall(r"\{([a-z]+)\}", e["tpl"] + "".join(m["tpl"] for m in e["chain"])))
            helpers = [(kw, {"lang": "en", "v": "1"}[kw]) for kw in sorted(used) if rng.random() < 0.75]
            kv = dict(helpers)
            kws = [kw for kw in sorted(used) if rng.random() < 0.6]
            if rng.random() < 0.1:
                kws.append(rng.choice(["lang", "v", "zz"]))
            rng.shuffle(kws)
            kwvals = []
            for kw in kws:
                val = rng.choice(["he", "ru", "x", ""]) if kw == "lang" else rng.choice(["2", "b7", ""])
                kv[kw] = val         # a later duplicate keyword overwrites an earlier one
                kwvals.append(val)
            if kws:
                k += ";" + ",".join(kws)
            # reference: what the URL and the observations are supposed to be
            def ref_urls(params):
                us = [tpl_inst(e["tpl"], params, kv)]
                for m in reversed(e["chain"]):
                    us.insert(0, tpl_inst(m["tpl"], [us[0]], kv))
                return us
            if params and rng.random() < p_long:
                # long URLs: one parameter is stretched so that root+URL has a chosen length (the mapper builds the URL in a
                # 128-byte stack buffer that moves to the heap and doubles: every boundary, at every alignment) or is just long
                j = rng.randrange(len(params))
                base = list(params); base[j] = ""
                blen = len(root) + len(ref_urls(base)[0])
                n = (rng.choice(URL_LENGTH_TARGETS) - blen) if rng.random() < 0.75 else rng.randrange(100, 2001)
                if n >= 1:
                    params[j] = e["fills"][j] * n
            us = ref_urls(params)
            events = []
            for lvl, m in enumerate(e["chain"]):
                if m["obs"] is not None:
                    kwv = kv.get(re.findall(r"\{([a-z]+)\}", m["tpl"])[0], "")
                    groups = [us[lvl], kwv, us[lvl + 1]] if m["sel"] == 2 else [us[lvl], us[lvl + 1], kwv]
                    events.append(("X", m["obs"], groups))
            largs = list(params) + ([kv.get("lang", "")] if e["haslang"] else [])
            if e["kind"] == "rh":
                largs = [us[-1]] + largs
            events.append(("R", e["hid"], largs))
            allp = kwvals + params
            if len(allp) > 6:
                continue
            line = "%s %s %s %d %s %s %s %d %s | %s |" % (rng.choice(["R", "Rn"]), hx("GET"), hx(root), len(helpers),
                                                       " ".join(hx(a) + " " + hx(b) for a, b in helpers),
                                                       ".".join(map(str, frm)) or "-", hx(k), len(allp),
                                                       " ".join(hx(p) for p in allp), " ".join(tw))
            line = " ".join(line.split())
            out.append(line)
            expect[line] = (events, root + us[0])


def names_on_path(tw, pos):
    """child names along the index path `pos` in the tree words"""
    names = []
    i = 1  # after "{"
    for idx in pos:
        k = 0
        depth = 0
        while True:
            w = tw[i]
            if w == "W":
                i += 1
            elif w == "L":
                i += 5
            elif w == "U":
                i += 3
            elif w in ("C", "CA"):
                if k == idx:
                    names.append(bytes.fromhex(tw[i + 3]).decode("latin-1") if tw[i + 3] != "-" else "")
                    i += 6  # into the child: skip "C re sel name tpl {"
                    break
                # skip this child
                i += 5
                d = 0
                while True:
                    if tw[i] == "{":
                        d += 1
                    elif tw[i] == "}":
                        d -= 1
                        if d == 0:
                            i += 1
                            break
                    i += 1
                k += 1
            else:
                raise ValueError("names_on_path: " + w)
    return names


def gen_cases(c, scale):
    rng = c.rng
    out = []
    expect = {}
    gen_D(rng, 260 * scale, out)
    gen_D_decline(rng, 40 * scale, out)
    gen_D_typed(rng, 60 * scale, out)
    gen_MP(rng, 150 * scale, out)
    gen_P(rng, 60 * scale, out)
    gen_T(rng, 400 * scale, out)
    gen_U(rng, 120 * scale, out)
    # long URLs make long case lines (the raw engine answers for every pattern x substring): keep their number bounded in the thorough tier
    gen_R(rng, 120 * scale, out, expect, p_long=0.3 if scale == 1 else 0.6 / scale)
    return out, expect


def corpus_cases():
    res = []
    d = os.path.join(vcheck.ROOT, "gen", "corpus", "C20")
    for f in sorted(glob.glob(os.path.join(d, "*.case"))):
        for line in open(f):
            line = line.strip()
            if line and not line.startswith("#"):
                res.append((os.path.basename(f), line))
    return res


def main():
    c = Check("C20")
    c.rule = ("case = (kind, configuration, request) line + the raw libpcre answers for every (pattern, subject) it can ask about. "
              "D: application trees depth 1..4, 1..6 options per node from a regex family with overlapping languages and 0..6 groups, "
              "all handler kinds, literal/regex method filters, requests from / one edit away from / outside the languages (NUL, newline, "
              "(*ACCEPT), \\K); MP/P: mount points on path-info or script-name with host patterns, pools of 1..4 mounts; T: url_mapper templates "
              "(valid, malformed, atoi overflow) and keys; U: mapper trees depth 1..4 with relative/absolute/../keyword keys; R: map then "
              "route on trees whose templates and patterns correspond. non-trivial = a handler ran or was rejected / a mount point matched / "
              "a URL or a specific error was produced; distinct = distinct case lines")
    c.trusted += [
        "translator translate/c20.py (+cexpr.py): anchored-pattern literals, exec flags, span tests, method byte class, C-string vs range "
        "arguments, mapper key/template constants; control-flow shapes of dispatch/mounted/generic_option/main/pool scan are pattern-checked",
        "hand-written control flow of Model.lean (option kinds, scan, mount_point::match branches, real_assign scanner, get_mapper_for_key, map/write), "
        "tied by the correspondence run",
        "externals: libpcre (parameter Rx; hypothesis RxSound = reported spans lie within the subject and at most mark_count groups), "
        "glibc atoi on digit strings (modelled: strtol saturation + int truncation), std::string/std::map",
        "correspondence harness harness/c20.cpp (ASan+UBSan build of the working tree; raw engine answers recorded by calling libpcre "
        "directly with the pattern \"(?:\"+p+\")\\z\", PCRE_ANCHORED, offset 0)",
    ]
    c.assumptions += ["RxSound rx (only for groups_exact / args_infix_of_request / the *_eq_spec theorems' group equalities)",
                      "request method, and the arguments of mount_point::match(char const*…) / applications_pool, are C strings by type",
                      "url_dispatcher::map()'s typed parameter parsing (parse_url_parameter, encoding validation) is represented by a generic handler that declines on a configured group value",
                      "applications_pool: both lists are modelled (pools/factories, then classic asynchronous intrusive_ptr mounts with dead ones purged); pool life-cycle beyond 'the application died' is not"]
    scale = 30 if c.tier == "thorough" else 1
    if os.environ.get("C20_SCALE"):
        scale = int(os.environ["C20_SCALE"])      # debugging aid only

    c.translate("c20.py")
    proved = c.prove(["Cppcms.C20.Props"], OBLIGATIONS, exe="c20_model")
    if c.tier == "thorough" and proved:
        c.leanchecker(["Cppcms.C20.Props"])
    model = c.model_exe()
    ok_impl = c.impl_build()
    hbin = c.harness("c20", extra=(f"-I{vcheck.REPO}/tests",)) if ok_impl else None

    corpus = corpus_cases()
    expect = {}
    if c.replay_path:
        rp = json.load(open(c.replay_path))
        cases = [rp["case"]] if "case" in rp else []
        if cases and rp.get("expect"):
            b = cases[0][:cases[0].rindex("|") + 1]
            expect[b] = ([(t, i, [None if x is None else bytes.fromhex(x).decode("latin-1") for x in a]) for t, i, a in rp["expect"][0]],
                         bytes.fromhex(rp["expect"][1]).decode("latin-1"))
        corpus = []
    else:
        cases, expect = gen_cases(c, scale)
    cases = [l for _, l in corpus] + cases
    cases = list(dict.fromkeys(cases))

    if hbin and os.path.exists(model) and cases:
        # pass 1: raw engine answers from libpcre (direct), appended to each case line
        bare = [x[:x.rindex("|") + 1] for x in cases]
        rc, orc, err = c.run_lines(hbin, bare, args=("oracle",))
        if rc != 0 or len(orc) != len(bare):
            c.violation("harness crashed while recording the libpcre oracle", {"case": bare[len(orc)] if len(orc) < len(bare) else None, "stderr": err})
            c.finish()
        full = [b + (" " + o if o else "") for b, o in zip(bare, orc)]
        exp_full = {b + (" " + o if o else ""): expect[b] for b, o in zip(bare, orc) if b in expect}

        def nontrivial(cs, o):
            k = cs.split()[0]
            if k in ("D", "P", "R", "Rn"):
                return cs if ("R" in o.split()[-1] or "X" in o.split()[-1]) and ":" in o.split()[-1] else None
            if k == "MP":
                return cs if "1:" in o else None
            if k in ("T", "U", "Un"):
                return cs if ("ok:" in o or ("err:" in o and "badArity" not in o.replace("err:badArity", ""))) else None
            return None
        out_i, out_m, diffs, crashed = c.correspond("routing", full, hbin, model, nontrivial=nontrivial)
        with open(os.path.join(c.scratch, "diffs.txt"), "w") as f:
            for k, cs, a, b in diffs[:200]:
                f.write(f"case : {cs}\nimpl : {a}\nmodel: {b}\n\n")
        pick = [0, 1, 2] + [i for k in KINDS for i in [next((j for j, x in enumerate(full) if x.startswith(k + " ") and j > len(corpus)), None)] if i is not None]
        c.samples = [{"case": full[i][:600], "impl": out_i[i] if i < len(out_i) else None, "model": out_m[i] if i < len(out_m) else None}
                     for i in dict.fromkeys(pick) if i < len(full)]
        dist = {}
        for cs in full:
            dist[cs.split()[0]] = dist.get(cs.split()[0], 0) + 1
        c.extra_cov["case_kinds"] = dist
        c.extra_cov["case_file_bytes"] = sum(len(x) + 1 for x in full)
        branch = {"handler_ran": 0, "generic_declined": 0, "not_found_404": 0, "child_404": 0, "no_context_exception": 0, "cfg_error": 0,
                  "mapper_ok": 0, "mapper_error": 0, "tpl_error": 0}
        for cs, o in zip(full, out_m):
            k = cs.split()[0]
            if "cfg-error" in o: branch["cfg_error"] += 1
            if k in ("D", "P", "R", "Rn"):
                last = o.split()[-1] if o.split() else ""
                if "R" in last and ":" in last: branch["handler_ran"] += 1
                if "X" in last and ":" in last: branch["generic_declined"] += 1
                if last.endswith("NF"): branch["child_404" if o.startswith("1") else "not_found_404"] += 1
                if o.startswith("0 "): branch["not_found_404"] += 1
                if o.startswith("exc"): branch["no_context_exception"] += 1
            if k in ("T", "U", "R", "Un", "Rn"):
                if "ok:" in o: branch["mapper_ok"] += 1
                elif o.startswith("err:") and k == "T": branch["tpl_error"] += 1
                elif "err:" in o: branch["mapper_error"] += 1
        c.extra_cov["branches_hit_in_model"] = branch
        tc = [(cs, o) for cs, o in zip(full, out_m) if cs.startswith("D ") and " t:" in cs]
        ran_typed = 0
        for cs, o in tc:
            w = cs.split()
            last = o.split()[-1] if o.split() else ""
            ids = {w[i + 1] for i in range(len(w) - 4) if w[i] == "L" and w[i + 4].startswith("t")}
            if any(ev.startswith("R") and ev[1:].split(":")[0] in ids for ev in last.split(";")):
                ran_typed += 1
        c.extra_cov["typed_handler_cases"] = {"cases_with_typed_handlers": len(tc), "a_typed_handler_ran": ran_typed,
                                              "no_typed_handler_ran": len(tc) - ran_typed}
        pc = [(cs, o) for cs, o in zip(full, out_m) if cs.startswith("P ")]
        c.extra_cov["pool_cases"] = {
            "with_classic_async_mounts": sum(1 for cs, o in pc if " | A " in cs),
            "with_both_lists": sum(1 for cs, o in pc if " | A " in cs and " | S " in cs),
            "with_kill_rounds": sum(1 for cs, o in pc if cs.split()[6] != "0"),
            "routed_to_a_classic_async_mount": sum(1 for cs, o in pc if o.split()[0].isdigit() and cs.split(" | ")[1 + int(o.split()[0])].startswith("A ")),
            "no_mount_matched": sum(1 for cs, o in pc if o == "none"),
        }

        # judge: the specification (Spec.lean) evaluated on the same raw engine answers must agree with what the
        # implementation did (D, MP, P, R); for R additionally: the handler registered for the key ran with exactly the parameters
        jidx = [k for k, cs in enumerate(full) if cs.split()[0] in ("D", "MP", "P", "R", "Rn") and k < len(out_i)]
        rcj, jout, jerr = c.run_lines(model, ["J " + full[k] + " # " + out_i[k] for k in jidx]) if jidx else (0, [], "")
        bad = []
        for k, o in zip(jidx, jout):
            if o != "1":
                bad.append((k, "implementation deviates from Spec (first whole-string match in registration order)"))
        if rcj != 0 or len(jout) != len(jidx):
            c.broke("judge run", jerr)
        # T cases (valid_key_addressable on the implementation): a key that url_mapper::assign(key,url) accepted must be
        # found again by url_mapper::map with that very key (NUL-free keys; map takes a C string)
        nt = 0
        for k, cs in enumerate(full):
            w = cs.split()
            if w[0] == "T" and w[1] == "0" and k < len(out_i) and out_i[k].startswith("ok ") and "00" not in [w[2][i:i + 2] for i in range(0, len(w[2]), 2)]:
                nt += 1
                if "err:keyNotFound" in out_i[k] or "err:notChild" in out_i[k] or "err:noParent" in out_i[k]:
                    bad.append((k, "a key accepted by url_mapper::assign is not addressable by url_mapper::map"))
        c.extra_cov["accepted_keys_checked_addressable"] = nt
        # R cases: the hypothesis of mapper_dispatch_consistent (`Consistent`, decidable) is evaluated in Lean on the recorded
        # engine answers; where it holds the implementation must have mapped to root++u and run the key's handler with the parameters
        ridx = [k for k, cs in enumerate(full) if cs in exp_full and k < len(out_i)]
        rlines = []
        nurl = 0
        for k in ridx:
            events, url = exp_full[full[k]]
            # (a) spec-level, no model involved: the mapper must produce the registered templates instantiated with the SUPPLIED
            #     values - positional parameters, keyword parameters (also where an ANCESTOR's mount template consumes them), helpers
            got = out_i[k].split()[0] if out_i[k].split() else ""
            nurl += 1
            if got != "ok:" + hx(url):
                bad.append((k, "url_mapper::map did not produce the templates instantiated with the supplied parameters "
                               "(expected %r)" % url))
            ev = " ".join("%s %d %d %s" % (t, i, len(a), " ".join("~" if x is None else hx(x) for x in a)) for t, i, a in events)
            rlines.append("JR %d %s %s # %s" % (len(events), " ".join(ev.split()), full[k], out_i[k]))
        c.extra_cov["mapped_urls_checked_against_reference"] = nurl
        lens = [(len(exp_full[full[k]][1]), full[k].startswith("Rn ")) for k in ridx]
        c.extra_cov["mapped_url_lengths"] = {
            "default_config_invalid_url_throws_false": sum(1 for l, nt in lens if nt),
            "throwing_config": sum(1 for l, nt in lens if not nt),
            **{"default_config_len_ge_%d" % b: sum(1 for l, nt in lens if nt and l >= b) for b in (129, 257, 513, 1025, 2049, 4097, 8193)},
            "default_config_len_exactly_at_a_boundary_pm2": sum(1 for l, nt in lens if nt and any(abs(l - b) <= 2 for b in (128, 256, 512, 1024, 2048, 4096, 8192))),
        }
        rcr, rout, rerr = c.run_lines(model, rlines) if rlines else (0, [], "")
        if rcr != 0 or len(rout) != len(ridx):
            c.broke("judge run (Consistent)", rerr)
        ncons = 0
        for k, o in zip(ridx, rout):
            if o == "1 c":
                ncons += 1
            elif o != "1 n":
                bad.append((k, "site is Consistent but routing the mapped URL from the root did not deliver the supplied values "
                               "(handler parameters / groups of the ancestors' patterns)"))
        c.extra_cov["roundtrip_cases"] = len(ridx)
        c.extra_cov["roundtrip_cases_consistent_and_confirmed"] = ncons
        c.extra_cov["judged_impl_outputs"] = len(jidx)
        if crashed:
            c.violation("sanitizer abort / crash / exception out of the real code", {"case": crashed["case"], "stderr": crashed["stderr"]})
        # corpus witnesses first, then the shortest case; for one case the most specific reason first
        bad.sort(key=lambda t: (t[0] >= len(corpus), len(full[t[0]]), t[0], 0 if "url_mapper" in t[1] else 1 if "Consistent" in t[1] else 2))
        for k, why in bad[:20]:
            src = corpus[k][0] if k < len(corpus) else "generated"
            v = {"case": full[k], "source": src, "impl_output": out_i[k], "model_output": out_m[k] if k < len(out_m) else None,
                 "replay_cmd": "bin/check C20 --replay <this file>"}
            if full[k] in exp_full:
                e = exp_full[full[k]]
                v["expect"] = [[[t, i, [None if x is None else x.encode("latin-1").hex() for x in a]] for t, i, a in e[0]],
                               e[1].encode("latin-1").hex()]
            c.violation(why, v)
        if diffs and not bad and not crashed:
            k, cs, a, b = diffs[0]
            c.broke("correspondence stream routing", f"{len(diffs)} differing cases; first: {cs[:1500]} impl={a} model={b}")
        if c.replay_path:
            for i, cs in enumerate(full):
                print("case :", cs); print("impl :", out_i[i] if i < len(out_i) else None); print("model:", out_m[i] if i < len(out_m) else None)
                print("spec agrees with impl:", jout[i] if i < len(jout) else None)
    c.finish()


if __name__ == "__main__":
    main()
